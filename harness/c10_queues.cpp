// Correspondence harness for C10: the real RingBuffer<T,N> / DynamicRingBuffer<T> (sequential ops) and the real
// BlockingQueue<T> (one-caller ops, and 2-4 thread programs under DetSched), driven by the line protocol.
// Built against ${VERIF_REPO}/include on every check run; linked with harness/detsched/detsched.cpp.
#include <algorithm>
#include <array>
#include <atomic>
#include <cassert>
#include <chrono>
#include <condition_variable>
#include <cstddef>
#include <cstdint>
#include <cstdio>
#include <cstdlib>
#include <cstring>
#include <deque>
#include <functional>
#include <memory>
#include <mutex>
#include <new>
#include <sstream>
#include <stdexcept>
#include <string>
#include <thread>
#include <type_traits>
#include <typeinfo>
#include <utility>
#include <vector>

#define private public
#define protected public
#include "iora/core/blocking_queue.hpp"
#include "iora/core/ring_buffer.hpp"
#undef private
#undef protected

#include "common/lineproto.hpp"
#include "detsched/detsched.hpp"

using u64 = std::uint64_t;
using iora::core::BlockingQueue;
using iora::core::DynamicRingBuffer;
using iora::core::RingBuffer;

// ------------------------------------------------------------------------------------------------ rings
struct IRing
{
  virtual ~IRing() {}
  virtual bool push(const u64& v) = 0;
  virtual bool pushm(u64&& v) = 0;
  virtual bool pop(u64& v) = 0;
  virtual bool peek(u64& v) = 0;
  virtual std::size_t pushb(const u64* p, std::size_t n) = 0;
  virtual std::size_t popb(u64* p, std::size_t n) = 0;
  virtual std::size_t size() = 0;
  virtual bool empty() = 0;
  virtual bool full() = 0;
  virtual std::size_t capacity() = 0;
  virtual void clear() = 0;
  virtual bool resize(std::size_t n, std::size_t& dropped) = 0;
  virtual void seed(std::size_t base) = 0;
  virtual std::size_t head() = 0;
  virtual std::size_t tail() = 0;
};
template <class R, bool Dyn> struct RingT : IRing
{
  R r;
  template <class... A> explicit RingT(A&&... a) : r(std::forward<A>(a)...) {}
  bool push(const u64& v) override { return r.tryPush(v); }
  bool pushm(u64&& v) override { return r.tryPush(std::move(v)); }
  bool pop(u64& v) override { return r.tryPop(v); }
  bool peek(u64& v) override { return r.peek(v); }
  std::size_t pushb(const u64* p, std::size_t n) override { return r.tryPushBatch(p, n); }
  std::size_t popb(u64* p, std::size_t n) override { return r.tryPopBatch(p, n); }
  std::size_t size() override { return r.size(); }
  bool empty() override { return r.empty(); }
  bool full() override { return r.full(); }
  std::size_t capacity() override { return r.capacity(); }
  void clear() override { r.clear(); }
  bool resize(std::size_t n, std::size_t& dropped) override
  {
    if constexpr (Dyn) { dropped = r.resize(n); return true; }
    else { (void)n; (void)dropped; return false; }
  }
  void seed(std::size_t base) override { r._head.store(base); r._tail.store(base); }
  std::size_t head() override { return r._head.load(); }
  std::size_t tail() override { return r._tail.load(); }
};
template <std::size_t N> static IRing* mkS() { return new RingT<RingBuffer<u64, N>, false>(); }
static IRing* mkStatic(unsigned long long n)
{
  switch (n)
  {
    case 1: return mkS<1>();
    case 2: return mkS<2>();
    case 4: return mkS<4>();
    case 8: return mkS<8>();
    case 16: return mkS<16>();
    case 32: return mkS<32>();
    case 64: return mkS<64>();
    case 128: return mkS<128>();
    case 1024: return mkS<1024>();
    case 65536: return mkS<65536>();
    default: return nullptr;
  }
}

static std::string listStr(const std::vector<u64>& v)
{
  if (v.empty()) return "-";
  std::string s;
  for (std::size_t i = 0; i < v.size(); ++i) { if (i) s += ','; s += std::to_string(v[i]); }
  return s;
}
static bool parseList(const std::string& s, std::vector<u64>& out)
{
  out.clear();
  if (s == "-") return true;
  std::size_t i = 0;
  while (i <= s.size())
  {
    std::size_t j = s.find(',', i);
    if (j == std::string::npos) j = s.size();
    unsigned long long v;
    if (!vh::parseNat(s.substr(i, j - i), v)) return false;
    out.push_back(v);
    i = j + 1;
  }
  return true;
}

static std::unique_ptr<IRing> g_ring;
static std::string ringTail() { return " | h=" + std::to_string(g_ring->head()) + " t=" + std::to_string(g_ring->tail()); }

static std::string ringStep(const std::vector<std::string>& t)
{
  unsigned long long n = 0;
  static_assert(sizeof(std::size_t) == 8, "the model's nextPowerOfTwo / counters are 64-bit");
  // the REAL private static DynamicRingBuffer::nextPowerOfTwo, called directly: reaches 2^32+1, 2^63, 2^64-1 without allocating
  if (t.size() == 3 && t[1] == "npot" && vh::parseNat(t[2], n))
    return std::to_string(DynamicRingBuffer<u64>::nextPowerOfTwo(static_cast<std::size_t>(n)));
  if (t.size() == 4 && t[1] == "new" && vh::parseNat(t[3], n))
  {
    if (t[2] == "s")
    {
      IRing* r = mkStatic(n);
      if (!r) return "bad-op";
      g_ring.reset(r);
      return "ok cap=" + std::to_string(g_ring->capacity());
    }
    if (t[2] == "d")
    {
      if (n > (1ull << 21)) return "bad-op";   // the harness does not allocate gigabytes; the model has no such limit
      g_ring.reset(new RingT<DynamicRingBuffer<u64>, true>(static_cast<std::size_t>(n)));
      return "ok cap=" + std::to_string(g_ring->capacity());
    }
    return "bad-op";
  }
  if (!g_ring) return "bad-op";
  const std::string& op = t.size() > 1 ? t[1] : t[0];
  if (op == "seed" && t.size() == 3 && vh::parseNat(t[2], n)) { g_ring->seed(n); return "ok"; }
  if ((op == "push" || op == "pushm") && t.size() == 3 && vh::parseNat(t[2], n))
  {
    u64 v = n;
    bool b = op == "push" ? g_ring->push(v) : g_ring->pushm(std::move(v));
    return std::string(b ? "1" : "0") + ringTail();
  }
  if (op == "pop" && t.size() == 2)
  {
    u64 v = 0;
    bool b = g_ring->pop(v);
    return (b ? "1 " + std::to_string(v) : std::string("0")) + ringTail();
  }
  if (op == "peek" && t.size() == 2)
  {
    u64 v = 0;
    bool b = g_ring->peek(v);
    return (b ? "1 " + std::to_string(v) : std::string("0")) + ringTail();
  }
  if (op == "pushb" && t.size() == 3)
  {
    std::vector<u64> xs;
    if (!parseList(t[2], xs)) return "bad-op";
    std::size_t k = g_ring->pushb(xs.data(), xs.size());
    return std::to_string(k) + ringTail();
  }
  if (op == "popb" && t.size() == 3 && vh::parseNat(t[2], n))
  {
    if (n > (1ull << 20)) return "bad-op";
    std::vector<u64> out(static_cast<std::size_t>(n) + 1, 0);
    std::size_t k = g_ring->popb(out.data(), static_cast<std::size_t>(n));
    out.resize(k);
    return std::to_string(k) + " " + listStr(out) + ringTail();
  }
  if (op == "size" && t.size() == 2) return std::to_string(g_ring->size()) + ringTail();
  if (op == "empty" && t.size() == 2) return std::string(g_ring->empty() ? "1" : "0") + ringTail();
  if (op == "full" && t.size() == 2) return std::string(g_ring->full() ? "1" : "0") + ringTail();
  if (op == "capacity" && t.size() == 2) return std::to_string(g_ring->capacity()) + ringTail();
  if (op == "clear" && t.size() == 2) { g_ring->clear(); return "ok" + ringTail(); }
  if (op == "resize" && t.size() == 3 && vh::parseNat(t[2], n))
  {
    if (n > (1ull << 21)) return "bad-op";
    std::size_t dropped = 0;
    if (!g_ring->resize(static_cast<std::size_t>(n), dropped)) return "bad-op";
    return std::to_string(dropped) + " cap=" + std::to_string(g_ring->capacity()) + ringTail();
  }
  return "bad-op";
}

// ------------------------------------------------------------------------------------------------ rings of a THROWING element type
// `ringt …`: the same two ring classes instantiated with Tracked{id, alive}: copy/move assignment can be armed to throw on its
// K-th execution inside ONE ring call (before modifying anything, like a failed allocation in a real operator=); a moved-from
// element is a husk (alive = false).  Answers show elements as their id, husks as `M`.  Model: Model/RingThrow.lean.
struct Boom { };
static long g_arm = 0;          // K-th element assignment from now throws; 0 = disarmed
static long g_assigned = 0;     // element assignments performed by the current ring call
struct Tracked
{
  u64 id = 0;
  bool alive = false;
  Tracked() = default;
  explicit Tracked(u64 i) : id(i), alive(true) {}
  Tracked(const Tracked&) = default;
  Tracked(Tracked&&) = default;
  static void tick() { if (g_arm > 0 && --g_arm == 0) throw Boom{}; ++g_assigned; }
  Tracked& operator=(const Tracked& o) { tick(); id = o.id; alive = o.alive; return *this; }
  Tracked& operator=(Tracked&& o) { tick(); id = o.id; alive = o.alive; o.alive = false; o.id = 0; return *this; }
};
static std::string cellStr(const Tracked& t) { return t.alive ? std::to_string(t.id) : std::string("M"); }
static std::string cellsStr(const Tracked* p, std::size_t n)
{
  if (n == 0) return "-";
  std::string s;
  for (std::size_t i = 0; i < n; ++i) { if (i) s += ','; s += cellStr(p[i]); }
  return s;
}
static std::unique_ptr<DynamicRingBuffer<Tracked>> g_td;
static std::unique_ptr<RingBuffer<Tracked, 8>> g_ts;
template <class F> static auto withRing(F f) { return g_td ? f(*g_td) : f(*g_ts); }
static std::string ringtTail()
{
  return withRing([](auto& r) {
    std::size_t h = r._head.load(), t = r._tail.load(), n = h - t;
    std::string w;
    if (n > 64) w = "?";
    else if (n == 0) w = "-";
    else
      for (std::size_t i = 0; i < n; ++i)
      {
        if (i) w += ',';
        if constexpr (std::is_same_v<std::decay_t<decltype(r)>, DynamicRingBuffer<Tracked>>) w += cellStr(r._buffer[(t + i) & r._mask]);
        else w += cellStr(r._buffer[(t + i) & std::decay_t<decltype(r)>::kMask]);
      }
    return " | h=" + std::to_string(h) + " t=" + std::to_string(t) + " w=" + w;
  });
}
// ringt new d <n> | ringt new s 8 | ringt <op> [arg] [@K]   (@K: the K-th element assignment inside this call throws)
static std::string ringtStep(std::vector<std::string> t)
{
  unsigned long long n = 0;
  if (t.size() == 4 && t[1] == "new" && vh::parseNat(t[3], n))
  {
    g_td.reset(); g_ts.reset();
    if (t[2] == "d" && n <= 4096) { g_td.reset(new DynamicRingBuffer<Tracked>(static_cast<std::size_t>(n))); return "ok cap=" + std::to_string(g_td->capacity()); }
    if (t[2] == "s" && n == 8) { g_ts.reset(new RingBuffer<Tracked, 8>()); return "ok cap=8"; }
    return "bad-op";
  }
  if (!g_td && !g_ts) return "bad-op";
  long arm = 0;
  if (t.size() > 2 && t.back().size() > 1 && t.back()[0] == '@')
  {
    unsigned long long k = 0;
    if (!vh::parseNat(t.back().substr(1), k) || k > 100000) return "bad-op";
    arm = static_cast<long>(k);
    t.pop_back();
  }
  const std::string& op = t[1];
  struct Disarm { ~Disarm() { g_arm = 0; } } disarm;
  g_assigned = 0;
  std::vector<Tracked> out;
  try
  {
    if ((op == "push" || op == "pushm") && t.size() == 3 && vh::parseNat(t[2], n))
    {
      Tracked v(n);
      g_arm = arm;
      bool b = withRing([&](auto& r) { return op == "push" ? r.tryPush(v) : r.tryPush(std::move(v)); });
      g_arm = 0;
      return std::string(b ? "1" : "0") + ringtTail();
    }
    if (op == "pop" && t.size() == 2)
    {
      Tracked v;
      g_arm = arm;
      bool b = withRing([&](auto& r) { return r.tryPop(v); });
      g_arm = 0;
      return (b ? "1 " + cellStr(v) : std::string("0")) + ringtTail();
    }
    if (op == "peek" && t.size() == 2)
    {
      Tracked v;
      g_arm = arm;
      bool b = withRing([&](auto& r) { return r.peek(v); });
      g_arm = 0;
      return (b ? "1 " + cellStr(v) : std::string("0")) + ringtTail();
    }
    if (op == "pushb" && t.size() == 3)
    {
      std::vector<u64> xs;
      if (!parseList(t[2], xs)) return "bad-op";
      std::vector<Tracked> items;
      for (u64 x : xs) items.emplace_back(x);
      g_arm = arm;
      std::size_t k = withRing([&](auto& r) { return r.tryPushBatch(items.data(), items.size()); });
      g_arm = 0;
      return std::to_string(k) + ringtTail();
    }
    if (op == "popb" && t.size() == 3 && vh::parseNat(t[2], n) && n <= 4096)
    {
      out.resize(static_cast<std::size_t>(n) + 1);
      g_arm = arm;
      std::size_t k = withRing([&](auto& r) { return r.tryPopBatch(out.data(), static_cast<std::size_t>(n)); });
      g_arm = 0;
      return std::to_string(k) + " " + cellsStr(out.data(), k) + ringtTail();
    }
    if (op == "resize" && t.size() == 3 && vh::parseNat(t[2], n) && n <= 4096 && g_td)
    {
      g_arm = arm;
      std::size_t d = g_td->resize(static_cast<std::size_t>(n));
      g_arm = 0;
      return std::to_string(d) + " cap=" + std::to_string(g_td->capacity()) + ringtTail();
    }
    if (op == "size" && t.size() == 2) return std::to_string(withRing([](auto& r) { return r.size(); })) + ringtTail();
  }
  catch (const Boom&)
  {
    g_arm = 0;
    // what the caller holds after the exception: the elements already assigned into its out[] array (tryPopBatch)
    std::string got = (op == "popb" && g_assigned > 0) ? " " + cellsStr(out.data(), static_cast<std::size_t>(g_assigned)) : std::string();
    return "throw " + std::to_string(g_assigned) + got + ringtTail();
  }
  return "bad-op";
}

// ------------------------------------------------------------------------------------------------ blocking queue
using BQ = BlockingQueue<u64>;
static BQ* g_bq = nullptr;   // leaked when a caller stays blocked in it

static std::string bqTail(BQ* q) { return " | n=" + std::to_string(q->_queue.size()) + " c=" + (q->_closed.load() ? "1" : "0"); }

struct Call { char kind; u64 v; };   // q f t d e y c s  (+ E empty, U full for the one-caller ops)

static unsigned timeoutMsFor(u64 v) { return v % 3 == 0 ? 0u : 10u; }

static std::string doCall(BQ* q, const Call& c, bool move)
{
  u64 out = 0;
  switch (c.kind)
  {
    case 'q': { u64 v = c.v; return (move ? q->queue(std::move(v)) : q->queue(v)) ? "1" : "0"; }
    case 'f':
    {
      u64 v = c.v;
      auto to = std::chrono::milliseconds(timeoutMsFor(c.v));
      return (move ? q->tryQueue(std::move(v), to) : q->tryQueue(v, to)) ? "1" : "0";
    }
    case 't': { u64 v = c.v; return (move ? q->tryQueue(std::move(v)) : q->tryQueue(v)) ? "1" : "0"; }
    case 'd': return q->dequeue(out) ? "1 " + std::to_string(out) : std::string("0");
    case 'e': return q->dequeue(out, std::chrono::milliseconds(10)) ? "1 " + std::to_string(out) : std::string("0");
    case 'y': return q->tryDequeue(out) ? "1 " + std::to_string(out) : std::string("0");
    case 'c': q->close(); return "ok";
    case 's': return std::to_string(q->size());
    case 'E': return q->empty() ? "1" : "0";
    case 'U': return q->full() ? "1" : "0";
  }
  return "?";
}

// one-caller op: executed as a one-thread DetSched run, so that a timed wait times out in virtual time and a call
// that can never return is detected (`blocks`) instead of hanging the harness
// time-out token of the one-caller timed ops: decimal milliseconds (may be negative), `max` = milliseconds::max(), `min` = milliseconds::min()
static bool parseTimeout(const std::string& s, long long& ms)
{
  if (s == "max") { ms = std::chrono::milliseconds::max().count(); return true; }
  if (s == "min") { ms = std::chrono::milliseconds::min().count(); return true; }
  if (s.empty()) return false;
  std::size_t i = s[0] == '-' ? 1 : 0;
  if (i == s.size() || s.size() - i > 18) return false;
  long long v = 0;
  for (; i < s.size(); ++i) { if (s[i] < '0' || s[i] > '9') return false; v = v * 10 + (s[i] - '0'); }
  ms = s[0] == '-' ? -v : v;
  return true;
}

static std::string seqCall(const Call& c, bool move, long long ms)
{
  if (!g_bq) return "no-queue";
  BQ* q = g_bq;
  auto* res = new std::string();
  ds::init(static_cast<u64>(1));
  bool ok = ds::run([q, c, move, ms, res] {
    if (c.kind == 'f')
    {
      u64 v = c.v;
      auto to = std::chrono::milliseconds(ms);
      *res = (move ? q->tryQueue(std::move(v), to) : q->tryQueue(v, to)) ? "1" : "0";
    }
    else if (c.kind == 'e')
    {
      u64 out = 0;
      *res = q->dequeue(out, std::chrono::milliseconds(ms)) ? "1 " + std::to_string(out) : std::string("0");
    }
    else *res = doCall(q, c, move);
  });
  if (!ok) { g_bq = nullptr; return ds::deadlocked() ? "blocks" : "steplimit"; }
  std::string r = *res + bqTail(q);
  delete res;
  return r;
}

static bool parseProg(const std::string& s, std::vector<Call>& out)
{
  out.clear();
  if (s == "-") return true;
  std::size_t i = 0;
  while (i <= s.size())
  {
    std::size_t j = s.find(',', i);
    if (j == std::string::npos) j = s.size();
    std::string w = s.substr(i, j - i);
    if (w.empty()) return false;
    Call c{w[0], 0};
    if (w[0] == 'q' || w[0] == 'f' || w[0] == 't')
    {
      unsigned long long v;
      if (!vh::parseNat(w.substr(1), v)) return false;
      c.v = v;
    }
    else if (!(w.size() == 1 && (w[0] == 'd' || w[0] == 'e' || w[0] == 'y' || w[0] == 'c' || w[0] == 's'))) return false;
    out.push_back(c);
    i = j + 1;
  }
  return true;
}

struct Sample { std::size_t traceLen; std::size_t n; bool closed; };
struct Shared
{
  BQ* q = nullptr;
  std::vector<std::vector<Call>> progs;
  std::vector<std::vector<std::string>> rets;
  std::vector<char> finished;
  std::vector<Sample> samples;
};
static void sampleHook(void* p)
{
  Shared* sh = static_cast<Shared*>(p);
  sh->samples.push_back(Sample{ds::trace().size(), sh->q->_queue.size(), sh->q->_closed.load()});
}

// bq sched <max> <progs> seed:<n>|ch:<list> [timeoutOneIn [spuriousOneIn]]
static std::string schedRun(const std::vector<std::string>& t)
{
  unsigned long long mx = 0;
  if (t.size() < 5 || !vh::parseNat(t[2], mx) || mx == 0) return "bad-op";
  auto* sh = new Shared();
  {
    std::size_t i = 0;
    const std::string& s = t[3];
    while (i <= s.size())
    {
      std::size_t j = s.find('/', i);
      if (j == std::string::npos) j = s.size();
      std::vector<Call> p;
      if (!parseProg(s.substr(i, j - i), p)) { delete sh; return "bad-op"; }
      sh->progs.push_back(p);
      i = j + 1;
    }
  }
  if (sh->progs.empty() || !sh->progs[0].empty() || sh->progs.size() > 9) { delete sh; return "bad-op"; }
  std::size_t nthr = sh->progs.size();
  sh->rets.resize(nthr);
  sh->finished.assign(nthr, 0);
  sh->q = new BQ(static_cast<std::size_t>(mx));
  ds::Options opt;
  unsigned long long x;
  if (t.size() > 5 && vh::parseNat(t[5], x)) opt.timeoutOneIn = static_cast<unsigned>(x);
  if (t.size() > 6 && vh::parseNat(t[6], x)) opt.spuriousOneIn = static_cast<unsigned>(x);
  opt.maxSteps = 20000;
  ds::options(opt);
  if (t[4].rfind("seed:", 0) == 0)
  {
    if (!vh::parseNat(t[4].substr(5), x)) { delete sh->q; delete sh; return "bad-op"; }
    ds::init(static_cast<u64>(x));
  }
  else if (t[4].rfind("ch:", 0) == 0)
  {
    std::vector<u64> v;
    if (!parseList(t[4].substr(3), v)) { delete sh->q; delete sh; return "bad-op"; }
    std::vector<std::uint32_t> ch(v.begin(), v.end());
    ds::init(ch);
  }
  else { delete sh->q; delete sh; return "bad-op"; }
  ds::set_step_hook(sampleHook, sh);
  bool ok = ds::run([sh, nthr] {
    std::vector<std::thread> ts;
    for (std::size_t k = 1; k < nthr; ++k)
      ts.emplace_back([sh, k] {
        for (const Call& c : sh->progs[k]) sh->rets[k].push_back(doCall(sh->q, c, (c.v & 1) != 0));
        sh->finished[k] = 1;
      });
    for (auto& th : ts) th.join();
  });
  ds::set_step_hook(nullptr, nullptr);
  sh->samples.push_back(Sample{ds::trace().size() + 1, sh->q->_queue.size(), sh->q->_closed.load()});
  std::string status = ok ? "ok" : ds::deadlocked() ? "deadlock" : ds::stepLimit() ? "steplimit" : "diverged";
  int iM = ds::object_index(sh->q->_mutex.native_handle());
  int iE = ds::object_index(sh->q->_condNotEmpty.native_handle());
  int iF = ds::object_index(sh->q->_condNotFull.native_handle());
  auto cvn = [&](int o) { return o == iE ? std::string("E") : o == iF ? std::string("F") : "?" + std::to_string(o); };
  std::string evs;
  std::string stuck;   // forced time-outs of sleepers whose wait predicate already held ("blocked while the condition holds")
  const auto& tr = ds::trace();
  std::size_t si = 0;
  for (std::size_t i = 0; i < tr.size(); ++i)
  {
    const ds::Event& e = tr[i];
    if (e.tid == 0 || e.kind == ds::EXIT) continue;
    while (si < sh->samples.size() && sh->samples[si].traceLen <= i) ++si;
    if (e.kind == ds::TIMEOUT && e.detail == 1 && si < sh->samples.size() && (e.obj == iE || e.obj == iF))
    {
      const Sample& x = sh->samples[si];
      bool pred = x.closed || (e.obj == iE ? x.n > 0 : x.n < static_cast<std::size_t>(mx));
      if (pred)
      {
        if (!stuck.empty()) stuck += ',';
        stuck += "t" + std::to_string(e.tid) + ":" + cvn(e.obj) + ":n=" + std::to_string(x.n) + ":c=" + (x.closed ? "1" : "0") + ":step=" + std::to_string(i);
      }
    }
    std::string d;
    switch (e.kind)
    {
      case ds::START: case ds::TIMEOUT: case ds::SPURIOUS: d = "-"; break;
      case ds::LOCK: case ds::UNLOCK: d = (e.obj == iM) ? "-" : "?" + std::to_string(e.obj); break;
      case ds::WAIT: d = cvn(e.obj) + (e.detail ? "1" : "0"); break;
      case ds::REACQ: d = (e.obj == iM) ? (e.detail ? "1" : "0") : "?"; break;
      case ds::SIGNAL: d = cvn(e.obj) + (e.detail < 0 ? std::string("-") : std::to_string(e.detail)); break;
      case ds::BCAST: d = cvn(e.obj) + std::to_string(e.detail); break;
      default: d = "??"; break;
    }
    if (!evs.empty()) evs += ' ';
    evs += std::to_string(e.tid) + "." + std::string(1, e.kind) + "." + d + ".";
    if (si < sh->samples.size()) evs += std::to_string(sh->samples[si].n) + "." + (sh->samples[si].closed ? "1" : "0");
    else evs += "?.?";
  }
  if (evs.empty()) evs = "-";
  std::string rets;
  for (std::size_t k = 0; k < nthr; ++k)
  {
    if (k) rets += '/';
    std::string r;
    for (std::size_t i = 0; i < sh->rets[k].size(); ++i)
    {
      if (i) r += ',';
      std::string x = sh->rets[k][i];
      std::replace(x.begin(), x.end(), ' ', ':');
      r += x;
    }
    if (r.empty()) r = "-";
    if (k == 0 || !sh->finished[k]) r += "*";
    rets += r;
  }
  std::string out = status + " | " + evs + " | " + rets + " | " + ds::choicesString() + " | " + (stuck.empty() ? "-" : stuck);
  if (ok) { delete sh->q; delete sh; }   // otherwise: abandoned threads still reference them
  return out;
}

// ---- exhaustive exploration of every schedule of a small program (DFS over DetSched's recorded alternatives)
struct OneRun { std::string status; std::string stuck; std::size_t maxn = 0, finaln = 0; std::vector<std::vector<std::string>> rets; std::vector<char> finished;
                std::vector<std::uint32_t> choices; std::vector<std::vector<std::uint32_t>> alts; };
static OneRun runOnce(std::size_t cap, const std::vector<std::vector<Call>>& progs, const std::vector<std::uint32_t>& prefix)
{
  auto* sh = new Shared();
  sh->progs = progs;
  std::size_t nthr = progs.size();
  sh->rets.resize(nthr);
  sh->finished.assign(nthr, 0);
  sh->q = new BQ(cap);
  ds::Options opt;
  opt.maxSteps = 5000;
  opt.continueCurrent = true;   // a prefix is completed without preemptions
  ds::options(opt);
  ds::init(prefix);
  ds::set_step_hook(sampleHook, sh);
  bool ok = ds::run([sh, nthr] {
    std::vector<std::thread> ts;
    for (std::size_t k = 1; k < nthr; ++k)
      ts.emplace_back([sh, k] {
        for (const Call& c : sh->progs[k]) sh->rets[k].push_back(doCall(sh->q, c, (c.v & 1) != 0));
        sh->finished[k] = 1;
      });
    for (auto& th : ts) th.join();
  });
  ds::set_step_hook(nullptr, nullptr);
  OneRun r;
  r.status = ok ? "ok" : ds::deadlocked() ? "deadlock" : ds::stepLimit() ? "steplimit" : "diverged";
  for (const Sample& x : sh->samples) if (x.n > r.maxn) r.maxn = x.n;
  r.finaln = sh->q->_queue.size();
  if (r.finaln > r.maxn) r.maxn = r.finaln;
  {
    int iE = ds::object_index(sh->q->_condNotEmpty.native_handle());
    int iF = ds::object_index(sh->q->_condNotFull.native_handle());
    const auto& tr = ds::trace();
    std::size_t si = 0;
    for (std::size_t i = 0; i < tr.size() && r.stuck.empty(); ++i)
    {
      const ds::Event& e = tr[i];
      if (e.kind != ds::TIMEOUT || e.detail != 1 || e.tid == 0 || (e.obj != iE && e.obj != iF)) continue;
      while (si < sh->samples.size() && sh->samples[si].traceLen <= i) ++si;
      if (si >= sh->samples.size()) break;
      const Sample& x = sh->samples[si];
      bool pred = x.closed || (e.obj == iE ? x.n > 0 : x.n < cap);
      if (pred) r.stuck = "thread " + std::to_string(e.tid) + " on " + (e.obj == iE ? "notEmpty" : "notFull") + " n=" + std::to_string(x.n);
    }
  }
  r.rets = sh->rets;
  r.finished = sh->finished;
  r.choices = ds::choices();
  r.alts = ds::alternatives();
  if (ok) { delete sh->q; delete sh; }
  return r;
}
// implementation-only property monitor of one run ("" = fine)
static std::string judge(std::size_t cap, const std::vector<std::vector<Call>>& progs, const OneRun& r)
{
  if (r.status != "ok") return r.status;
  if (!r.stuck.empty()) return "blocked while its condition holds (forced time-out with a true predicate): " + r.stuck;
  if (r.maxn > cap) return "capacity " + std::to_string(r.maxn) + ">" + std::to_string(cap);
  std::vector<std::pair<u64, std::size_t>> put;   // value, producer (in per-producer program order)
  std::vector<std::pair<u64, std::size_t>> taken; // value, consumer
  for (std::size_t k = 1; k < progs.size(); ++k)
  {
    if (!r.finished[k] || r.rets[k].size() != progs[k].size()) return "unfinished thread " + std::to_string(k);
    for (std::size_t i = 0; i < progs[k].size(); ++i)
    {
      const Call& c = progs[k][i];
      const std::string& x = r.rets[k][i];
      if ((c.kind == 'q' || c.kind == 'f' || c.kind == 't') && x == "1") put.push_back({c.v, k});
      if ((c.kind == 'd' || c.kind == 'e' || c.kind == 'y') && x.size() > 2 && x[0] == '1') taken.push_back({std::stoull(x.substr(2)), k});
    }
  }
  for (std::size_t i = 0; i < taken.size(); ++i)
  {
    bool found = false;
    for (auto& p : put) if (p.first == taken[i].first) found = true;
    if (!found) return "took an item nobody put: " + std::to_string(taken[i].first);
    for (std::size_t j = 0; j < i; ++j) if (taken[j].first == taken[i].first) return "item taken twice: " + std::to_string(taken[i].first);
  }
  if (put.size() - taken.size() != r.finaln) return "conservation: put " + std::to_string(put.size()) + " taken " + std::to_string(taken.size()) + " left " + std::to_string(r.finaln);
  // per-producer order at each consumer
  for (std::size_t i = 0; i < taken.size(); ++i)
    for (std::size_t j = i + 1; j < taken.size(); ++j)
    {
      if (taken[i].second != taken[j].second) continue;
      std::size_t pi = 0, pj = 0, oi = 0, oj = 0;
      for (std::size_t k = 0; k < put.size(); ++k) { if (put[k].first == taken[i].first) { pi = put[k].second; oi = k; } if (put[k].first == taken[j].first) { pj = put[k].second; oj = k; } }
      if (pi == pj && oi > oj) return "producer order broken: " + std::to_string(taken[i].first) + " before " + std::to_string(taken[j].first);
    }
  return "";
}
// bq explore <max> <progs> <maxruns> [K]
// Depth-first enumeration of the schedule tree. Without K: every schedule. With K: every schedule with at most K PREEMPTIONS
// (a preemption = choosing another thread, or a time-out, at a decision where the thread that ran last is still enabled; which
// thread runs when the current one blocks or finishes, and which sleeper a notify_one wakes, are free choices) - CHESS-style
// preemption bounding: the completion of a prefix is non-preemptive, so siblings are generated with their exact preemption cost.
static std::string exploreRun(const std::vector<std::string>& t)
{
  unsigned long long mx = 0, maxruns = 0, bound = ~0ull;
  if ((t.size() != 5 && t.size() != 6) || !vh::parseNat(t[2], mx) || mx == 0 || !vh::parseNat(t[4], maxruns)) return "bad-op";
  if (t.size() == 6 && !vh::parseNat(t[5], bound)) return "bad-op";
  std::vector<std::vector<Call>> progs;
  {
    std::size_t i = 0;
    const std::string& s = t[3];
    while (i <= s.size())
    {
      std::size_t j = s.find('/', i);
      if (j == std::string::npos) j = s.size();
      std::vector<Call> p;
      if (!parseProg(s.substr(i, j - i), p)) return "bad-op";
      progs.push_back(p);
      i = j + 1;
    }
  }
  if (progs.empty() || !progs[0].empty() || progs.size() > 6) return "bad-op";
  std::vector<std::pair<std::vector<std::uint32_t>, unsigned long long>> stack;   // (prefix, preemptions spent in it)
  stack.push_back({std::vector<std::uint32_t>{0}, 0});
  unsigned long long explored = 0, deadlocks = 0, bad = 0;
  std::size_t maxn = 0, maxlen = 0;
  std::string first;
  std::vector<std::string> outcomes;
  while (!stack.empty() && explored < maxruns)
  {
    std::vector<std::uint32_t> prefix = stack.back().first;
    unsigned long long spent = stack.back().second;
    stack.pop_back();
    OneRun r = runOnce(static_cast<std::size_t>(mx), progs, prefix);
    ++explored;
    if (r.maxn > maxn) maxn = r.maxn;
    if (r.choices.size() > maxlen) maxlen = r.choices.size();
    std::string why = judge(static_cast<std::size_t>(mx), progs, r);
    if (r.status == "deadlock") ++deadlocks;
    if (!why.empty())
    {
      ++bad;
      if (first.empty())
      {
        first = why + "@";
        for (std::size_t i = 0; i < r.choices.size(); ++i) { if (i) first += ','; first += std::to_string(r.choices[i]); }
      }
    }
    std::string oc;
    for (std::size_t k = 1; k < progs.size(); ++k) { for (auto& x : r.rets[k]) { oc += x; oc += ','; } oc += '/'; }
    if (std::find(outcomes.begin(), outcomes.end(), oc) == outcomes.end()) outcomes.push_back(oc);
    // siblings: every other alternative of every decision made after the prefix, with its preemption cost
    std::vector<int> curAt(r.choices.size(), 0);   // thread that ran last before decision i
    {
      int cur = 0;
      for (std::size_t i = 0; i < r.choices.size(); ++i) { curAt[i] = cur; if ((r.choices[i] & 3) == 0) cur = static_cast<int>(r.choices[i] >> 2); }
    }
    for (std::size_t i = r.choices.size(); i-- > prefix.size();)
    {
      if (i >= r.alts.size()) continue;
      bool curEnabled = false, hasRun = false;
      for (std::uint32_t a : r.alts[i]) { if ((a & 3) == 0) { hasRun = true; if (static_cast<int>(a >> 2) == curAt[i]) curEnabled = true; } }
      for (std::uint32_t a : r.alts[i])
      {
        if (a == r.choices[i]) continue;
        unsigned long long cost = 0;
        if ((a & 3) == 0) cost = (curEnabled && static_cast<int>(a >> 2) != curAt[i]) ? 1 : 0;
        else if ((a & 3) == 1) cost = hasRun ? 1 : 0;
        if (spent + cost > bound) continue;
        std::vector<std::uint32_t> p(r.choices.begin(), r.choices.begin() + static_cast<std::ptrdiff_t>(i));
        p.push_back(a);
        stack.push_back({p, spent + cost});
      }
    }
  }
  std::replace(first.begin(), first.end(), ' ', '_');
  return "explored=" + std::to_string(explored) + " bound=" + (bound == ~0ull ? std::string("inf") : std::to_string(bound)) +
         " complete=" + (stack.empty() ? "1" : "0") + " deadlocks=" + std::to_string(deadlocks) +
         " bad=" + std::to_string(bad) + " maxn=" + std::to_string(maxn) + " outcomes=" + std::to_string(outcomes.size()) +
         " maxlen=" + std::to_string(maxlen) + " first=" + (first.empty() ? "-" : first);
}

static std::string bqStep(const std::vector<std::string>& t)
{
  unsigned long long n = 0;
  const std::string& op = t.size() > 1 ? t[1] : t[0];
  if (op == "new" && t.size() == 3 && vh::parseNat(t[2], n))
  {
    if (n > (1ull << 30)) return "bad-op";
    delete g_bq;
    g_bq = nullptr;
    g_bq = new BQ(static_cast<std::size_t>(n));
    return "ok";
  }
  // the destructor with nobody inside (the only lifetime-correct use): ~BlockingQueue() = close() (+ member destruction)
  if (op == "destroy" && t.size() == 2) { if (!g_bq) return "no-queue"; delete g_bq; g_bq = nullptr; return "ok"; }
  if (op == "sched") return schedRun(t);
  if (op == "explore") return exploreRun(t);
  if (op == "replay") return "bad-op";   // model-only op
  if ((op == "q" || op == "qm") && t.size() == 3 && vh::parseNat(t[2], n)) return seqCall(Call{'q', n}, op == "qm", 0);
  if ((op == "tq" || op == "tqm") && t.size() == 3 && vh::parseNat(t[2], n)) return seqCall(Call{'t', n}, op == "tqm", 0);
  long long ms = 0;
  if ((op == "tqf" || op == "tqfm") && t.size() == 4 && vh::parseNat(t[2], n) && parseTimeout(t[3], ms))
    return seqCall(Call{'f', n}, op == "tqfm", ms);
  if (op == "d" && t.size() == 2) return seqCall(Call{'d', 0}, false, 0);
  if (op == "df" && t.size() == 3 && parseTimeout(t[2], ms)) return seqCall(Call{'e', 0}, false, ms);
  if (op == "td" && t.size() == 2) return seqCall(Call{'y', 0}, false, 0);
  if (op == "close" && t.size() == 2) return seqCall(Call{'c', 0}, false, 0);
  if (op == "size" && t.size() == 2) return seqCall(Call{'s', 0}, false, 0);
  if (op == "empty" && t.size() == 2) return seqCall(Call{'E', 0}, false, 0);
  if (op == "full" && t.size() == 2) return seqCall(Call{'U', 0}, false, 0);
  if (op == "closed" && t.size() == 2) { if (!g_bq) return "no-queue"; return std::string(g_bq->isClosed() ? "1" : "0") + bqTail(g_bq); }
  if (op == "cap" && t.size() == 2) { if (!g_bq) return "no-queue"; return std::to_string(g_bq->capacity()) + bqTail(g_bq); }
  return "bad-op";
}

int main()
{
  return vh::runLines([&](const std::vector<std::string>& t) -> std::string {
    try
    {
      if (t.empty()) return "bad-op";
      if (t[0] == "ring" || t[0] == "spsc") return ringStep(t);   // `spsc …`: same real ring; the model side answers from Model/RingSpsc.lean
      if (t[0] == "ringt") return ringtStep(t);
      if (t[0] == "bq") return bqStep(t);
      return "bad-op";
    }
    catch (const std::invalid_argument&) { return "throw invalid_argument"; }
    catch (const std::bad_alloc&) { return "throw bad_alloc"; }
    catch (const std::exception& e) { return std::string("throw ") + typeid(e).name(); }
  });
}
