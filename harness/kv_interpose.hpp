// Interposers shared by the C11/C12 harnesses (DESIGN §3.1): file-system calls and clocks, defined inside the executable.
//
//  * clock_gettime(CLOCK_REALTIME)  -> the harness owns the wall clock (system_clock), in whole milliseconds.
//  * clock_gettime(CLOCK_MONOTONIC) -> in deterministic mode steady_clock advances 1 ns per reading, so the wheel never
//    fires on its own and TimingWheel::drain() at shutdown fires exactly the timers armed with delay 0, in arming order.
//    In free-running mode the steady clock is the real one (the real wheel and worker evict in the background).
//  * fopen/fopen64/open/openat/write/writev/pwrite/rename/truncate/ftruncate/unlink/remove on the store's files are
//    recorded as events (A:<file>:<hex> append, T:<file>:<n> truncate/create-trunc, R:<a>:<b> rename, U:<file> unlink);
//    consecutive appends to one file are one event.  Every call is forwarded unchanged.
//  * pthread_rwlock_wrlock (what std::shared_mutex::lock() calls) -> the schedule gate of the `racegate` op: the thread that
//    runs get(k) is stopped at its exclusive acquisition of KVStore::_cacheMutex (inside updateCache, cache-miss path) until
//    a writer thread has either returned or is about to block on KVStore::_mutex (its first pthread_rwlock_trywrlock failed).
//    Outside an armed gate every call is forwarded unchanged.
#pragma once
#include <algorithm>
#include <atomic>
#include <chrono>
#include <condition_variable>
#include <cstdint>
#include <cstdio>
#include <cstdlib>
#include <cstring>
#include <filesystem>
#include <fstream>
#include <functional>
#include <iostream>
#include <limits>
#include <map>
#include <memory>
#include <mutex>
#include <optional>
#include <queue>
#include <set>
#include <shared_mutex>
#include <sstream>
#include <stdexcept>
#include <string>
#include <thread>
#include <typeinfo>
#include <unordered_map>
#include <vector>
#include <cassert>
#include <dlfcn.h>
#include <errno.h>
#include <pthread.h>
#include <fcntl.h>
#include <stdarg.h>
#include <sys/stat.h>
#include <sys/types.h>
#include <sys/uio.h>
#include <time.h>
#include <unistd.h>

#include "common/lineproto.hpp"

namespace kvh
{
// ------------------------------------------------------------------ clocks
static std::atomic<long long> g_wallMs{1000};
static std::atomic<bool> g_freezeSteady{true};
static std::atomic<long long> g_steadyTicks{0};
static std::atomic<long long> g_steadyBase{0};
static std::atomic<unsigned long> g_clockReal{0}, g_clockMono{0}, g_slicedWaits{0}, g_stressReads{0};

// ------------------------------------------------------------------ schedule gate (racegate)
struct Gate
{
  std::atomic<bool> armed{false};                     // the reader has not reached the gate yet
  std::atomic<pthread_rwlock_t *> target{nullptr};    // &_cacheMutex: the exclusive acquisition to stop at
  std::atomic<pthread_rwlock_t *> storeLock{nullptr}; // &_mutex: the lock the writer needs first
  pthread_t reader{};
  pthread_t writer{};
  std::atomic<bool> writerActive{false};              // `writer` is valid and inside its operation
  std::atomic<bool> go{false};                        // the writer may start
  std::atomic<bool> writerBlocked{false}, writerDone{false};
  std::atomic<bool> gatedIsWriter{false};             // `wracegate`: the gated call is set(k, v) (counted apart)
};
static Gate g_gate;
// gate_hits: get() reached the gate; writer_blocked: the writer had to wait for the reader's hold of _mutex (the lock scope the
// model assumes); writer_passed: the writer RETURNED while the reader stood between its lookup and its cache refill
static std::atomic<unsigned long> g_gateOps{0}, g_gateHits{0}, g_gateWriterBlocked{0}, g_gateWriterPassed{0}, g_gateTimeouts{0};
// the same for `wracegate` (gated call = set(k, v) at the _cacheMutex acquisition of its updateCache; ties writersTouchCacheUnderStoreLock)
static std::atomic<unsigned long> g_wgateOps{0}, g_wgateHits{0}, g_wgateWriterBlocked{0}, g_wgateWriterPassed{0};
static std::atomic<unsigned long> g_stressRounds{0}, g_stressBigRounds{0};
static std::atomic<bool> g_muteEvents{false};        // stress: file events are not compared, do not keep the bytes

// ------------------------------------------------------------------ file events
struct Event
{
  char kind; // 'A' 'T' 'R' 'U'
  std::string file, file2;
  std::string data;
  unsigned long long n = 0;
};
static std::mutex g_evMutex;
static std::vector<Event> g_events; // events of the current op (coalesced)
static std::string g_base;          // path of the snapshot file ("" = nothing tracked)
static std::atomic<unsigned long> g_nWrite{0}, g_nOpen{0}, g_nRename{0}, g_nTrunc{0}, g_nUnlink{0};

// optional hook of a harness: called with the kind ("snap" | "log" | "tmp") of a tracked file right BEFORE it is opened ("open") or
// renamed ("rename"); c11_jfs.cpp parks its second thread there (schedule gate of the `jbgflush` op)
static void (*g_fileHook)(const char *what, const char *kind) = nullptr;

static std::string kindOfPath(const char *p)
{
  if (!p || g_base.empty()) return "";
  std::string s(p);
  if (s == g_base) return "snap";
  if (s == g_base + ".log") return "log";
  if (s == g_base + ".tmp") return "tmp";
  return "";
}
static std::string kindOfFd(int fd)
{
  if (g_base.empty() || fd < 3) return "";
  char link[64], buf[4096];
  snprintf(link, sizeof link, "/proc/self/fd/%d", fd);
  ssize_t n = readlink(link, buf, sizeof buf - 1);
  if (n <= 0) return "";
  buf[n] = 0;
  return kindOfPath(buf);
}
static void record(Event e)
{
  if (g_muteEvents.load()) return;
  std::lock_guard<std::mutex> g(g_evMutex);
  if (e.kind == 'A' && e.data.size() > (8u << 20))
  { // boundary cases with ~100 MiB values are implementation-only: their traces are never printed, do not keep the bytes
    e.data.clear();
    e.file += "-huge";
  }
  if (e.kind == 'A' && !g_events.empty() && g_events.back().kind == 'A' && g_events.back().file == e.file)
  {
    g_events.back().data += e.data;
    return;
  }
  g_events.push_back(std::move(e));
}
static bool pathExists(const char *p)
{
  struct stat st;
  return ::stat(p, &st) == 0;
}
static std::string takeEvents()
{
  std::lock_guard<std::mutex> g(g_evMutex);
  if (g_events.empty()) return "-";
  std::string out;
  for (auto &e : g_events)
  {
    if (!out.empty()) out += ";";
    if (e.kind == 'A') out += "A:" + e.file + ":" + vh::toHex(e.data);
    else if (e.kind == 'T') out += "T:" + e.file + ":" + std::to_string(e.n);
    else if (e.kind == 'R') out += "R:" + e.file + ":" + e.file2;
    else out += "U:" + e.file;
  }
  g_events.clear();
  return out;
}
} // namespace kvh

// ------------------------------------------------------------------ interposers (C linkage, defined in the executable)
extern "C"
{
  int clock_gettime(clockid_t id, struct timespec *ts)
  {
    static auto real = (int (*)(clockid_t, struct timespec *))dlsym(RTLD_NEXT, "clock_gettime");
    if (id == CLOCK_REALTIME)
    {
      kvh::g_clockReal++;
      long long ms = kvh::g_wallMs.load();
      ts->tv_sec = ms / 1000;
      ts->tv_nsec = (ms % 1000) * 1000000LL;
      return 0;
    }
    if (id == CLOCK_MONOTONIC && kvh::g_freezeSteady.load())
    {
      kvh::g_clockMono++;
      long long base = kvh::g_steadyBase.load();
      if (base == 0)
      {
        struct timespec r;
        real(CLOCK_MONOTONIC, &r);
        long long b = r.tv_sec * 1000000000LL + r.tv_nsec;
        long long expected = 0;
        kvh::g_steadyBase.compare_exchange_strong(expected, b);
        base = kvh::g_steadyBase.load();
      }
      long long t = base + (++kvh::g_steadyTicks);
      ts->tv_sec = t / 1000000000LL;
      ts->tv_nsec = t % 1000000000LL;
      return 0;
    }
    return real(id, ts);
  }

  // TimingWheel::stopTickThread() clears _running and notifies WITHOUT holding _tickCvMutex: if the tick thread is between
  // its predicate check and the sleep, the wake-up is lost and drain()/stop() block for a whole tick (1 h in the
  // deterministic configuration).  Every long timed wait is therefore cut into 20 ms slices that end in a spurious
  // wake-up (legal for a condition variable): the waiter re-checks its predicate and goes back to sleep.
  int pthread_cond_clockwait(pthread_cond_t *c, pthread_mutex_t *m, clockid_t clk, const struct timespec *abs)
  {
    static auto real = (int (*)(pthread_cond_t *, pthread_mutex_t *, clockid_t, const struct timespec *))dlsym(RTLD_NEXT, "pthread_cond_clockwait");
    static auto realClock = (int (*)(clockid_t, struct timespec *))dlsym(RTLD_NEXT, "clock_gettime");
    struct timespec now;
    realClock(clk, &now);
    long long rem = (abs->tv_sec - now.tv_sec) * 1000000000LL + (abs->tv_nsec - now.tv_nsec);
    if (rem <= 20000000LL) return real(c, m, clk, abs);
    kvh::g_slicedWaits++;
    long long t = now.tv_sec * 1000000000LL + now.tv_nsec + 20000000LL;
    struct timespec cut;
    cut.tv_sec = t / 1000000000LL;
    cut.tv_nsec = t % 1000000000LL;
    int rc = real(c, m, clk, &cut);
    return rc == ETIMEDOUT ? 0 : rc;
  }

  int pthread_rwlock_wrlock(pthread_rwlock_t *l)
  {
    static auto real = (int (*)(pthread_rwlock_t *))dlsym(RTLD_NEXT, "pthread_rwlock_wrlock");
    static auto realTry = (int (*)(pthread_rwlock_t *))dlsym(RTLD_NEXT, "pthread_rwlock_trywrlock");
    kvh::Gate &g = kvh::g_gate;
    if (g.armed.load() && l == g.target.load() && pthread_equal(pthread_self(), g.reader))
    {
      // the reader (get(k), cache-miss path) is about to take _cacheMutex exclusively: let the writer run, and wait until it has
      // returned or is blocked on _mutex (bounded: 10 s of real time, then the reader goes on — counted, reported by `stats`)
      g.armed = false;
      const bool w = g.gatedIsWriter.load();
      (w ? kvh::g_wgateHits : kvh::g_gateHits)++;
      g.go = true;
      for (int i = 0; i < 100000 && !g.writerDone.load() && !g.writerBlocked.load(); ++i) usleep(100);
      if (g.writerDone.load()) (w ? kvh::g_wgateWriterPassed : kvh::g_gateWriterPassed)++;
      else if (g.writerBlocked.load()) (w ? kvh::g_wgateWriterBlocked : kvh::g_gateWriterBlocked)++;
      else kvh::g_gateTimeouts++;
      return real(l);
    }
    if (g.writerActive.load() && l == g.storeLock.load() && pthread_equal(pthread_self(), g.writer))
    {
      int rc = realTry(l);
      if (rc == 0) return 0; // acquired: same effect as a successful pthread_rwlock_wrlock
      g.writerBlocked = true;
      return real(l);
    }
    return real(l);
  }

  ssize_t write(int fd, const void *b, size_t n)
  {
    static auto real = (ssize_t(*)(int, const void *, size_t))dlsym(RTLD_NEXT, "write");
    std::string k = kvh::kindOfFd(fd);
    if (!k.empty())
    {
      kvh::g_nWrite++;
      kvh::record({'A', k, "", std::string(static_cast<const char *>(b), n), 0});
    }
    return real(fd, b, n);
  }
  ssize_t writev(int fd, const struct iovec *v, int c)
  {
    static auto real = (ssize_t(*)(int, const struct iovec *, int))dlsym(RTLD_NEXT, "writev");
    std::string k = kvh::kindOfFd(fd);
    if (!k.empty())
    {
      kvh::g_nWrite++;
      std::string d;
      for (int i = 0; i < c; ++i) d.append(static_cast<const char *>(v[i].iov_base), v[i].iov_len);
      kvh::record({'A', k, "", d, 0});
    }
    return real(fd, v, c);
  }
  ssize_t pwrite(int fd, const void *b, size_t n, off_t off)
  {
    static auto real = (ssize_t(*)(int, const void *, size_t, off_t))dlsym(RTLD_NEXT, "pwrite");
    std::string k = kvh::kindOfFd(fd);
    if (!k.empty())
    {
      // positional writes are not part of the store's I/O vocabulary: report them so that the comparison fails
      kvh::record({'U', "pwrite-" + k, "", "", 0});
    }
    return real(fd, b, n, off);
  }
  static void noteOpen(const char *path, bool trunc, bool create)
  {
    std::string k = kvh::kindOfPath(path);
    if (k.empty()) return;
    kvh::g_nOpen++;
    if (kvh::g_fileHook) kvh::g_fileHook("open", k.c_str());
    if (trunc) kvh::record({'T', k, "", "", 0});
    else if (create && !kvh::pathExists(path)) kvh::record({'A', k, "", "", 0});
  }
  FILE *fopen(const char *path, const char *mode)
  {
    static auto real = (FILE * (*)(const char *, const char *)) dlsym(RTLD_NEXT, "fopen");
    if (mode) noteOpen(path, mode[0] == 'w', mode[0] == 'a' || mode[0] == 'w');
    return real(path, mode);
  }
  FILE *fopen64(const char *path, const char *mode)
  {
    static auto real = (FILE * (*)(const char *, const char *)) dlsym(RTLD_NEXT, "fopen64");
    if (mode) noteOpen(path, mode[0] == 'w', mode[0] == 'a' || mode[0] == 'w');
    return real(path, mode);
  }
  int open(const char *path, int flags, ...)
  {
    static auto real = (int (*)(const char *, int, ...))dlsym(RTLD_NEXT, "open");
    mode_t m = 0;
    if (flags & (O_CREAT | O_TMPFILE))
    {
      va_list ap;
      va_start(ap, flags);
      m = va_arg(ap, mode_t);
      va_end(ap);
    }
    noteOpen(path, (flags & O_TRUNC) != 0, (flags & O_CREAT) != 0);
    return real(path, flags, m);
  }
  int open64(const char *path, int flags, ...)
  {
    static auto real = (int (*)(const char *, int, ...))dlsym(RTLD_NEXT, "open64");
    mode_t m = 0;
    if (flags & (O_CREAT | O_TMPFILE))
    {
      va_list ap;
      va_start(ap, flags);
      m = va_arg(ap, mode_t);
      va_end(ap);
    }
    noteOpen(path, (flags & O_TRUNC) != 0, (flags & O_CREAT) != 0);
    return real(path, flags, m);
  }
  int openat(int dirfd, const char *path, int flags, ...)
  {
    static auto real = (int (*)(int, const char *, int, ...))dlsym(RTLD_NEXT, "openat");
    mode_t m = 0;
    if (flags & (O_CREAT | O_TMPFILE))
    {
      va_list ap;
      va_start(ap, flags);
      m = va_arg(ap, mode_t);
      va_end(ap);
    }
    if (path && path[0] == '/') noteOpen(path, (flags & O_TRUNC) != 0, (flags & O_CREAT) != 0);
    return real(dirfd, path, flags, m);
  }
  int rename(const char *a, const char *b)
  {
    static auto real = (int (*)(const char *, const char *))dlsym(RTLD_NEXT, "rename");
    std::string ka = kvh::kindOfPath(a), kb = kvh::kindOfPath(b);
    if (!ka.empty() || !kb.empty())
    {
      kvh::g_nRename++;
      if (kvh::g_fileHook) kvh::g_fileHook("rename", ka.empty() ? kb.c_str() : ka.c_str());
      kvh::record({'R', ka.empty() ? "?" : ka, kb.empty() ? "?" : kb, "", 0});
    }
    return real(a, b);
  }
  int truncate(const char *p, off_t n)
  {
    static auto real = (int (*)(const char *, off_t))dlsym(RTLD_NEXT, "truncate");
    std::string k = kvh::kindOfPath(p);
    if (!k.empty())
    {
      kvh::g_nTrunc++;
      kvh::record({'T', k, "", "", static_cast<unsigned long long>(n)});
    }
    return real(p, n);
  }
  int truncate64(const char *p, off64_t n)
  {
    static auto real = (int (*)(const char *, off64_t))dlsym(RTLD_NEXT, "truncate64");
    std::string k = kvh::kindOfPath(p);
    if (!k.empty())
    {
      kvh::g_nTrunc++;
      kvh::record({'T', k, "", "", static_cast<unsigned long long>(n)});
    }
    return real(p, n);
  }
  int ftruncate(int fd, off_t n)
  {
    static auto real = (int (*)(int, off_t))dlsym(RTLD_NEXT, "ftruncate");
    std::string k = kvh::kindOfFd(fd);
    if (!k.empty())
    {
      kvh::g_nTrunc++;
      kvh::record({'T', k, "", "", static_cast<unsigned long long>(n)});
    }
    return real(fd, n);
  }
  int unlink(const char *p)
  {
    static auto real = (int (*)(const char *))dlsym(RTLD_NEXT, "unlink");
    std::string k = kvh::kindOfPath(p);
    if (!k.empty())
    {
      kvh::g_nUnlink++;
      kvh::record({'U', k, "", "", 0});
    }
    return real(p);
  }
  int remove(const char *p)
  {
    static auto real = (int (*)(const char *))dlsym(RTLD_NEXT, "remove");
    std::string k = kvh::kindOfPath(p);
    if (!k.empty())
    {
      kvh::g_nUnlink++;
      kvh::record({'U', k, "", "", 0});
    }
    return real(p);
  }
}

