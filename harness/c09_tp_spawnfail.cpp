// C09 / fixes FC09e: the REAL iora::core::ThreadPool with pthread_create interposed so that chosen thread creations fail with
// EAGAIN (what the kernel answers at the thread / memory limit).  No DetSched: the property monitors are evaluated after stop().
// Line protocol:  case <initialSize> <maxSize> <maxQueue> <failFrom> <failCount> <busyMs> <acts>
//   acts = comma separated e|t|r (enqueue / tryEnqueue / enqueueWithResult); creations number failFrom .. failFrom+failCount-1
//   (0-based, counted from the construction of the pool) fail.  The first task sleeps busyMs so that later submissions want a
//   further worker.  Answer: one line `res <i>:<mode>:<a|x|f>:<ran>:<fut> ... | created=<n> failed=<n> stop=<0|1> ctor=<ok|throw>`
//   a = call returned normally/true, x = call threw, f = tryEnqueue returned false; ran = times the body ran; fut = v|e|b|-.
//   Each res token has two more fields `:<live>:<fd>`: live = thread creations that had SUCCEEDED when the call began (= live
//   workers: the idle time-out is 30 s, no worker leaves during a case), fd = creations that failed DURING the call.
//   When no creation has succeeded at all by the end, stop() is not called (it could only time out after 30 s): stop=0; the
//   counters are read after the pool's destructor has returned in every case.
#include <dlfcn.h>
#include <pthread.h>
#include <atomic>
#include <cerrno>
#include <cstdio>
#include <iostream>
#include <sstream>
#include <string>
#include <vector>
#include <future>
#include <memory>
#include <iora/core/logger.hpp>
#include <iora/core/thread_pool.hpp>

static std::atomic<int> g_created{0}, g_failed{0};
static std::atomic<int> g_from{-1}, g_cnt{0};
static std::atomic<bool> g_on{false};
extern "C" int pthread_create(pthread_t* t, const pthread_attr_t* a, void* (*f)(void*), void* arg)
{
  using Fn = int (*)(pthread_t*, const pthread_attr_t*, void* (*)(void*), void*);
  static Fn real = reinterpret_cast<Fn>(dlsym(RTLD_NEXT, "pthread_create"));
  if (g_on.load())
  {
    int k = g_created.fetch_add(1);
    if (k >= g_from.load() && k < g_from.load() + g_cnt.load()) { g_failed++; return EAGAIN; }
  }
  return real(t, a, f, arg);
}

int main()
{
  iora::core::Logger::setLevel(iora::core::Logger::Level::Fatal);
  std::string line;
  while (std::getline(std::cin, line))
  {
    std::istringstream is(line);
    std::string kw, acts;
    int init, mx, q, from, cnt, busy;
    if (!(is >> kw >> init >> mx >> q >> from >> cnt >> busy >> acts) || kw != "case") { std::cout << "bad-op" << std::endl; continue; }
    g_created = 0; g_failed = 0; g_from = from; g_cnt = cnt;
    std::vector<char> modes;
    for (char c : acts) if (c == 'e' || c == 't' || c == 'r') modes.push_back(c);
    std::vector<std::unique_ptr<std::atomic<int>>> ran;
    for (std::size_t i = 0; i < modes.size(); ++i) ran.emplace_back(new std::atomic<int>(0));
    std::vector<char> res(modes.size(), '-');
    std::vector<int> liveBefore(modes.size(), 0), failedDuring(modes.size(), 0);
    std::vector<std::future<int>> futs(modes.size());
    std::string ctor = "ok";
    int stopOk = 0;
    g_on = true;
    try
    {
      iora::core::ThreadPool pool(static_cast<std::size_t>(init), static_cast<std::size_t>(mx), std::chrono::seconds(30), static_cast<std::size_t>(q));
      for (std::size_t i = 0; i < modes.size(); ++i)
      {
        std::atomic<int>* r = ran[i].get();
        int ms = i == 0 ? busy : 0;
        auto body = [r, ms]() -> int { if (ms) std::this_thread::sleep_for(std::chrono::milliseconds(ms)); (*r)++; return 7; };
        liveBefore[i] = g_created.load() - g_failed.load();
        int f0 = g_failed.load();
        try
        {
          if (modes[i] == 'e') { pool.enqueue(body); res[i] = 'a'; }
          else if (modes[i] == 't') res[i] = pool.tryEnqueue(body) ? 'a' : 'f';
          else { futs[i] = pool.enqueueWithResult(body); res[i] = 'a'; }
        }
        catch (...) { res[i] = 'x'; }
        failedDuring[i] = g_failed.load() - f0;
        if (i == 0 && busy) std::this_thread::sleep_for(std::chrono::milliseconds(busy / 3 + 5));
      }
      g_on = false;
      if (g_created.load() - g_failed.load() > 0) stopOk = pool.stop().success ? 1 : 0;
    }
    catch (...) { ctor = "throw"; }
    g_on = false;
    std::string out = "res";
    for (std::size_t i = 0; i < modes.size(); ++i)
    {
      char fut = '-';
      if (futs[i].valid())
      {
        if (futs[i].wait_for(std::chrono::seconds(0)) != std::future_status::ready) fut = 'n';
        else { try { futs[i].get(); fut = 'v'; } catch (const std::future_error&) { fut = 'b'; } catch (...) { fut = 'e'; } }
      }
      char b[96];
      std::snprintf(b, sizeof b, " %zu:%c:%c:%d:%c:%d:%d", i, modes[i], res[i], ran[i]->load(), fut, liveBefore[i], failedDuring[i]);
      out += b;
    }
    char b[96];
    std::snprintf(b, sizeof b, " | created=%d failed=%d stop=%d ctor=%s", g_created.load(), g_failed.load(), stopOk, ctor.c_str());
    std::cout << out << b << std::endl;
  }
  return 0;
}
