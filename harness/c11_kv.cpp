// Correspondence harness for C11 (KVStore part): the real iora::storage::KVStore on crash images.  Same line protocol and
// machinery as harness/c12_kv.cpp (kv_common.hpp): `crashimg` opens a fresh real store on a directory image given as bytes.
#include "kv_common.hpp"

int main(int argc, char **argv)
{
  const char *w = std::getenv("KV_WORK");
  std::string work = w ? w : (argc > 1 ? argv[1] : "");
  if (work.empty())
  {
    std::fprintf(stderr, "KV_WORK not set\n");
    return 2;
  }
  kvh::Harness h(work + "/kv" + std::to_string(getpid()));
  int rc = vh::runLines([&](const std::vector<std::string> &t) { return h.step(t); });
  h.closeStore();
  std::error_code ec;
  std::filesystem::remove_all(h.work, ec);
  return rc;
}
