// Correspondence harness for C04: the REAL Transport::connectSync / ITransport::connectSyncCancellable and the REAL
// onConnect/onClose handlers (transport_impl.hpp) over a scripted FIFO engine injected through the repository's own seam.
//   (1) single-threaded lockstep ops  reset [udp|tcp] / connect / pop / complete / fail / peerclose / fence     -> one answer line each
//       (`reset udp`: the Transport is configured with Protocol::UDP; after repair FC04b connectSync takes ONE path for every protocol)
//   (2) `sched …`: 2-5 thread programs under DetSched (callers, the I/O thread as a reactive loop driven by a per-session
//       policy, a cancel/fence thread); the answer is the sequence of model steps the run performed, in real order, with what
//       the implementation was observed to do in each (created ids, engine->close calls, global callbacks, return values).
#include "tsync_common.hpp"

using namespace ts;

namespace {

struct World;
World* g = nullptr;

// The engine the EngineBase contract describes: connect()/close() only enqueue; the I/O thread pops in FIFO order.
struct QEngine : vh::FakeEngine
{
  struct Cmd { char kind; SessionId sid; };   // 'C' connect, 'X' close
  std::mutex qm;
  std::condition_variable qcv;
  std::deque<Cmd> q;
  std::map<SessionId, int> est;               // 0 none, 1 connecting, 2 established, 3 closed
  std::function<void(SessionId)> window;      // single-threaded mode: what the "I/O thread" does inside connectSync's unlock window
  void note(char kind, const std::string& s);
  bool refuse = false;                        // connect() returns an error like TcpEngine::connect on a closed queue
  ConnectResult connect(const std::string&, std::uint16_t, TlsMode tls) override
  {
    std::lock_guard<std::mutex> lk(qm);
    if (refuse)
    {
      note('K', "refused");
      return ConnectResult::err(TransportErrorInfo{TransportError::ShuttingDown, "connect: transport shutting down"});
    }
    SessionId s = next++;
    q.push_back(Cmd{'C', s});
    note('K', "created:" + std::to_string(s) + ":tls=" + (tls == TlsMode::None ? "0" : tls == TlsMode::Client ? "1" : "2"));   // the mode the ENGINE was asked for
    qcv.notify_all();
    return ConnectResult::ok(s);
  }
  bool close(SessionId sid) override
  {
    if (window)
    {
      auto f = std::move(window);
      window = nullptr;
      f(sid);
    }
    std::lock_guard<std::mutex> lk(qm);
    q.push_back(Cmd{'X', sid});
    note('K', "engineClose:" + std::to_string(sid));
    qcv.notify_all();
    return true;
  }
};

struct World
{
  std::shared_ptr<Transport> t;
  QEngine* e = nullptr;
  std::vector<std::string> evs;
  bool sched = false;
};

void QEngine::note(char kind, const std::string& s)
{
  if (g && g->sched) mark(kind, s); else if (g) g->evs.push_back(s);
}

bool g_udp = false;     // `reset udp` / `polu`: the Transport is configured with Protocol::UDP (same scripted engine behind it)

void resetWorld()
{
  delete g;
  g = new World();
  TransportConfig cfg;
  cfg.protocol = g_udp ? Protocol::UDP : Protocol::TCP;
  auto fe = std::make_unique<QEngine>();
  g->e = fe.get();
  g->t = iora::network::test::TransportEngineInjector::withEngine(std::move(fe), cfg);
  g->t->start();
  World* w = g;
  g->t->onConnect([w](SessionId sid, const TransportAddress&) {
    std::string s = "gconnect:" + std::to_string(sid);
    if (w->sched) mark('C', s); else w->evs.push_back(s);
  });
  g->t->onClose([w](SessionId sid, const TransportErrorInfo&) {
    std::string s = "gclose:" + std::to_string(sid);
    if (w->sched) mark('C', s); else w->evs.push_back(s);
  });
}

std::string takeEvs()
{
  std::string s = join(g->evs, ";");
  g->evs.clear();
  return s;
}

std::string resName(const ConnectResult& r)
{
  if (r.isOk()) return "ok:" + std::to_string(r.value());
  switch (r.error().code)
  {
    case TransportError::Timeout: return "err:Timeout";
    case TransportError::ShuttingDown: return "err:ShuttingDown";
    case TransportError::Cancelled: return "err:Cancelled";
    case TransportError::Connect: return "err:Connect";
    case TransportError::Resolve: return "err:Resolve";
    case TransportError::TLSHandshake: return "err:TLSHandshake";
    case TransportError::Unknown: return "err:Unknown";
    case TransportError::PeerClosed: return "err:PeerClosed";
    default: return std::string("err:other-") + errName(r.error().code);
  }
}

// reason classes the scripted engine reports through onClose (same numbering as Driver/ConnectSync.lean reasonName)
TransportError reasonCode(int r)
{
  switch (r)
  {
    case 1: return TransportError::Connect;
    case 2: return TransportError::Resolve;
    case 3: return TransportError::Timeout;
    case 4: return TransportError::TLSHandshake;
    case 5: return TransportError::Unknown;
    default: return TransportError::PeerClosed;
  }
}

// ---- I/O-thread actions (performed by whichever thread plays the I/O thread) -------------------------------------------
std::string ioPop(bool succeeds, int failReason = 1)
{
  QEngine::Cmd c{0, 0};
  {
    std::lock_guard<std::mutex> lk(g->e->qm);
    if (g->e->q.empty()) return "cmd:none";
    c = g->e->q.front();
    g->e->q.pop_front();
  }
  std::string d = std::string("cmd:") + (c.kind == 'C' ? "connect:" : "close:") + std::to_string(c.sid);
  if (g->sched) mark('B', std::string("ioPop ") + (succeeds ? "1" : "0") + " " + std::to_string(c.kind == 'C' ? (succeeds ? 5 : failReason) : 5) + " " + d);
  if (c.kind == 'C')
  {
    if (succeeds) g->e->est[c.sid] = 1;
    else
    {
      g->e->est[c.sid] = 3;
      g->e->cbs.onClose(c.sid, TransportErrorInfo{reasonCode(failReason), "connect failed"});
    }
  }
  else
  {
    int& st = g->e->est[c.sid];
    if (st == 1 || st == 2)
    {
      st = 3;
      g->e->cbs.onClose(c.sid, TransportErrorInfo{TransportError::Unknown, "closed by application"});
    }
  }
  if (g->sched) mark('E', "-");
  return d;
}

bool ioComplete(SessionId sid)
{
  int& st = g->e->est[sid];
  if (st != 1) return false;
  st = 2;
  if (g->sched) mark('B', "ioComplete " + std::to_string(sid));
  g->e->cbs.onConnect(sid, TransportAddress{});
  if (g->sched) mark('E', "-");
  return true;
}

bool ioCloseOf(SessionId sid, bool peer, int reason = 1)
{
  int& st = g->e->est[sid];
  if (st != (peer ? 2 : 1)) return false;
  st = 3;
  if (peer) reason = 6;
  if (g->sched) mark('B', std::string(peer ? "ioPeerClose " : "ioFail ") + std::to_string(sid) + " " + std::to_string(reason));
  g->e->cbs.onClose(sid, TransportErrorInfo{reasonCode(reason), "closed"});
  if (g->sched) mark('E', "-");
  return true;
}

std::string stateLine()
{
  auto& im = *g->t->_impl;
  std::lock_guard<std::mutex> lk(im.syncMutex);
  std::vector<std::string> p;
  std::vector<SessionId> ids;
  for (auto& kv : im.pendingConnects) ids.push_back(kv.first);
  std::sort(ids.begin(), ids.end());
  for (auto id : ids) p.push_back(std::to_string(id));
  std::size_t qn;
  {
    std::lock_guard<std::mutex> lq(g->e->qm);
    qn = g->e->q.size();
  }
  return "pend=" + join(p, ",") + " ac=" + std::to_string(im.activeConnects) + " q=" + std::to_string(qn) + " sh=" + (im.shuttingDown ? "1" : "0");
}

// ------------------------------------------------------------------------------------------------------------------
// DetSched programs:
//   sched <seed|c:choices> <timeoutOneIn> <spuriousOneIn> pol <letters> t <ops…> t <ops…> …
// policy letter of the k-th created session: o complete as soon as possible, f/u fail when the Connect is popped (refused / unresolved),
//   r/t/s fail later (refused / engine-side connect timeout / TLS handshake failure),
//   n never complete, l complete only once the caller's Close for it is queued (the late completion), p complete then peer-close
// thread ops: k:<timeoutMs> connectSync, w:<timeoutMs> connectSyncCancellable (token of this thread; timeouts may be 0 or negative),
//   x:<appIndex> cancel that thread's token, f fence (setTeardownFence), T fence through teardownWaitOut(true) (waits the callers out),
//   R engine->connect starts refusing, y yield.   `polu` instead of `pol`: Protocol::UDP transport
struct Prog
{
  std::vector<std::vector<std::string>> threads;
  std::string policy;
};
std::vector<std::unique_ptr<CancellationToken>> g_tokens;
std::atomic<int> g_appsLeft{0};

char policyOf(const Prog& p, SessionId sid)
{
  if (p.policy.empty()) return 'o';
  return p.policy[(sid - 1) % p.policy.size()];
}

void ioLoop(const Prog& p)
{
  std::set<SessionId> peerDone;
  for (;;)
  {
    bool haveCmd = false;
    QEngine::Cmd head{0, 0};
    std::vector<SessionId> closeQueued;
    {
      std::lock_guard<std::mutex> lk(g->e->qm);
      if (!g->e->q.empty()) { haveCmd = true; head = g->e->q.front(); }
      for (auto& c : g->e->q) if (c.kind == 'X') closeQueued.push_back(c.sid);
    }
    // a late completion fires when the caller's Close for that session is queued (before it is processed)
    bool acted = false;
    for (auto& kv : g->e->est)
    {
      if (kv.second == 1 && policyOf(p, kv.first) == 'l' &&
          std::find(closeQueued.begin(), closeQueued.end(), kv.first) != closeQueued.end())
      { ioComplete(kv.first); acted = true; break; }
    }
    if (acted) continue;
    if (haveCmd)
    {
      char hp = head.kind == 'C' ? policyOf(p, head.sid) : 'o';
      bool succ = !(hp == 'f' || hp == 'u');
      ioPop(succ, hp == 'u' ? 2 : 1);     // a Connect failing at once: refused / unresolved

      continue;
    }
    for (auto& kv : g->e->est)
    {
      char pol = policyOf(p, kv.first);
      if (kv.second == 1 && (pol == 'o' || pol == 'p')) { ioComplete(kv.first); acted = true; break; }
      if (kv.second == 1 && (pol == 'r' || pol == 't' || pol == 's'))
      { ioCloseOf(kv.first, false, pol == 'r' ? 1 : pol == 't' ? 3 : 4); acted = true; break; }   // later: refused / engine-side connect timeout / TLS failure
      if (kv.second == 2 && pol == 'p' && !peerDone.count(kv.first)) { peerDone.insert(kv.first); ioCloseOf(kv.first, true); acted = true; break; }
    }
    if (acted) continue;
    std::unique_lock<std::mutex> lk(g->e->qm);
    if (!g->e->q.empty()) continue;
    if (g_appsLeft.load() == 0) return;
    g->e->qcv.wait(lk);
  }
}

void appThread(const std::vector<std::string>& ops, int idx)
{
  for (auto& op : ops)
  {
    u64 a = 0;
    if ((op[0] == 'k' || op[0] == 'w') && op.size() > 2)
    {
      std::string rest = op.substr(2);
      std::string tmo = rest.substr(0, rest.find(':'));
      u64 tlsv = 0;
      if (rest.find(':') != std::string::npos) vh::parseNat(rest.substr(rest.find(':') + 1), tlsv);
      bool neg = !tmo.empty() && tmo[0] == '-';
      if (!vh::parseNat(neg ? tmo.substr(1) : tmo, a)) continue;
      long long sa = neg ? -static_cast<long long>(a) : static_cast<long long>(a);
      bool wrapped = op[0] == 'w';
      TlsMode tm = tlsv == 1 ? TlsMode::Client : tlsv == 2 ? TlsMode::Server : TlsMode::None;
      if (tlsv > 2) tlsv = 0;
      mark('B', std::string("call ") + std::to_string(idx) + " " + (wrapped ? "1" : "0") + " " + std::to_string(tlsv) + " " + std::to_string(sa));
      ConnectResult r = wrapped
        ? g->t->connectSyncCancellable("127.0.0.1", 9, *g_tokens[idx], tm, std::chrono::milliseconds(sa))
        : g->t->connectSync("127.0.0.1", 9, tm, std::chrono::milliseconds(sa));
      mark('E', "ret:" + std::to_string(idx) + ":" + resName(r));
    }
    else if (op[0] == 'x' && op.size() > 2 && vh::parseNat(op.substr(2), a))
    {
      mark('B', "cancel " + std::to_string(a));
      g_tokens[a]->cancel();
      mark('E', "-");
    }
    else if (op == "f")
    {
      mark('B', "fence");
      g->t->_impl->setTeardownFence();
      mark('E', "-");
    }
    else if (op == "T")
    {
      // the fence raised the way ~Transport / performTeardown raise it: teardownWaitOut sets shuttingDown under syncMutex,
      // wakes every parked connectSync and waits until none is left
      mark('B', "fence");
      g->t->_impl->teardownWaitOut(true);
      mark('E', "-");
    }
    else if (op == "R")
    {
      // from now on engine->connect refuses (what TcpEngine::connect does once its queue is closed, e.g. after a plain stop())
      std::lock_guard<std::mutex> lk(g->e->qm);
      g->e->refuse = true;
    }
    else if (op == "y") ds::yield_point("y");
  }
}

std::string runSched(const std::vector<std::string>& t)
{
  if (t.size() < 7 || (t[4] != "pol" && t[4] != "polu")) return "bad-op";
  g_udp = t[4] == "polu";
  u64 toIn = 0, spIn = 0;
  if (!vh::parseNat(t[2], toIn) || !vh::parseNat(t[3], spIn)) return "bad-op";
  Prog prog;
  prog.policy = t[5] == "-" ? "" : t[5];
  std::vector<bool> isApp;
  for (std::size_t i = 6; i < t.size(); ++i)
  {
    if (t[i] == "t") prog.threads.push_back({});
    else if (prog.threads.empty()) return "bad-op";
    else prog.threads.back().push_back(t[i]);
  }
  resetWorld();
  World* w = g;
  w->sched = true;
  marks().clear();
  g_tokens.clear();
  int napps = 0;
  for (auto& th : prog.threads)
  {
    g_tokens.push_back(std::make_unique<CancellationToken>());
    bool app = false;
    for (auto& op : th) if (op[0] == 'k' || op[0] == 'w') app = true;
    isApp.push_back(app);
    if (app) napps++;
  }
  g_appsLeft = napps;
  ds::Options opt;
  opt.timeoutOneIn = static_cast<unsigned>(toIn);
  opt.spuriousOneIn = static_cast<unsigned>(spIn);
  opt.maxSteps = 40000;
  ds::options(opt);
  if (t[1].rfind("c:", 0) == 0)
  {
    std::vector<std::uint32_t> ch;
    std::string cur;
    for (char c : t[1].substr(2) + ",")
    {
      if (c == ',') { if (!cur.empty()) ch.push_back(static_cast<std::uint32_t>(std::stoul(cur))); cur.clear(); }
      else cur += c;
    }
    ds::init(ch);
  }
  else
  {
    u64 seed = 0;
    if (!vh::parseNat(t[1], seed)) return "bad-op";
    ds::init(static_cast<std::uint64_t>(seed));
  }
  int ioTid = -1;
  bool ok = ds::run([&] {
    std::vector<std::thread> th;
    std::thread io([&] { ioTid = ds::self(); ioLoop(prog); });
    for (std::size_t i = 0; i < prog.threads.size(); ++i)
      th.emplace_back([&, i] {
        appThread(prog.threads[i], static_cast<int>(i));
        if (isApp[i])
        {
          std::lock_guard<std::mutex> lk(g->e->qm);
          g_appsLeft--;
          g->e->qcv.notify_all();
        }
      });
    for (auto& x : th) x.join();
    {
      std::lock_guard<std::mutex> lk(g->e->qm);
      g->e->qcv.notify_all();
    }
    io.join();
  });
  w->sched = false;
  std::string status = ok ? "ok" : ds::deadlocked() ? "deadlock" : ds::stepLimit() ? "steplimit" : "diverged";
  auto& im = *w->t->_impl;
  int iSync = ds::object_index(im.syncMutex.native_handle());
  int iQcv = ds::object_index(w->e->qcv.native_handle());
  // ---- merge marks and DetSched events into model steps
  struct Cur
  {
    std::string kind; std::vector<std::string> args; bool active = false; long last = -1;
    int nlock = 0;            // handler ops: syncMutex acquisitions so far
    int phase = 0;            // caller: 0 expect cEnter, 1 inside attempt before wait, 2 waiting, 3 expect relock, 4 between attempts (wrapped)
    long loopSlot = -1;       // placeholder step for the wrapper's loop check
    long long startVt = 0;
    bool waited = false;
  };
  std::map<int, Cur> cur;
  std::vector<StepLine> steps;
  std::vector<std::string> times, cancels;
  const auto& tr = ds::trace();
  const auto& ms = marks();
  std::size_t mi = 0;
  auto push = [&](int tid, const std::string& st, const std::string& obs) {
    steps.push_back(StepLine{tid, st, obs});
    return static_cast<long>(steps.size()) - 1;
  };
  auto handleMark = [&](const Mark& m) {
    Cur& c = cur[m.tid];
    if (m.kind == 'B')
    {
      c = Cur{};
      c.active = true;
      c.args = vh::split(m.text);
      c.kind = c.args[0];
      if (c.kind == "ioPop") c.last = push(m.tid, "ioPop " + c.args[1] + " " + c.args[2], c.args[3]);
      else if (c.kind == "call")
      {
        c.last = push(m.tid, "call " + c.args[1] + " " + c.args[2] + " " + c.args[3], "-");
        c.startVt = m.vt;
      }
      else if (c.kind == "cancel")
      {
        c.last = push(m.tid, "cancel " + c.args[1], "-");
        cancels.push_back(c.args[1] + ":" + std::to_string(m.vt / 1000));
      }
      else if (c.kind == "fence") { /* the step is the lock acquisition */ }
      else c.last = push(m.tid, m.text, "-");     // ioComplete / ioFail / ioPeerClose
    }
    else if (m.kind == 'E')
    {
      if (c.kind == "call" && c.loopSlot >= 0)
      {
        // the wrapper left its loop without another attempt: the loop check saw the deadline passed (Timeout) or the token cancelled
        if (m.text.find(":err:Timeout") != std::string::npos) steps[c.loopSlot].step = "wLoop " + c.args[1] + " 1";
        else if (m.text.find(":err:Cancelled") != std::string::npos) steps[c.loopSlot].step = "wLoop " + c.args[1] + " 0";
        if (!steps[c.loopSlot].step.empty()) c.last = c.loopSlot;
        c.loopSlot = -1;
      }
      if (c.last >= 0 && m.text != "-")
      {
        if (steps[c.last].observed == "-") steps[c.last].observed = m.text;
        else steps[c.last].observed += ";" + m.text;
      }
      if (c.kind == "call")   // virtual time the call took: <caller>:<wrapped>:<requested ms>:<elapsed us>:<start us>:<result>
        times.push_back(c.args[1] + ":" + c.args[2] + ":" + c.args[4] + ":" + std::to_string((m.vt - c.startVt) / 1000) + ":" +
                        std::to_string(c.startVt / 1000) + ":" + m.text.substr(m.text.find(':', 4) + 1));
      c.active = false;
    }
    else if (m.kind == 'K')
    {
      if (m.text.rfind("created:", 0) == 0) { c.last = push(m.tid, "cConnect " + c.args[1], m.text); c.phase = 1; }
      else if (m.text == "refused") { c.last = push(m.tid, "cRefuse " + c.args[1], "-"); c.phase = 1; }
      else if (m.text.rfind("engineClose:", 0) == 0)
      {
        c.last = push(m.tid, "cClose " + c.args[1], m.text);
        c.phase = 3;
        c.loopSlot = -1;   // the unlock before engine->close was the timeout exit's window, not the end of the attempt
      }
    }
    else if (m.kind == 'C')
    {
      c.last = push(m.tid, "ioStep", m.text);   // a global callback ran on the I/O thread
    }
  };
  for (std::size_t i = 0; i <= tr.size(); ++i)
  {
    while (mi < ms.size() && ms[mi].at <= i) handleMark(ms[mi++]);
    if (i == tr.size()) break;
    const ds::Event& e = tr[i];
    Cur& c = cur[e.tid];
    if (!c.active) continue;
    bool handler = c.kind == "ioPop" || c.kind == "ioComplete" || c.kind == "ioFail" || c.kind == "ioPeerClose";
    if (handler)
    {
      if (e.kind == ds::LOCK && e.obj == iSync) { if (c.nlock++ == 0) c.last = push(e.tid, "ioStep", "-"); }
      else if (e.kind == ds::SIGNAL && e.obj != iQcv) c.last = push(e.tid, "ioStep", "-");
      continue;
    }
    if (c.kind == "fence")
    {
      if (e.kind == ds::LOCK && e.obj == iSync) c.last = push(e.tid, "fence", "-");
      continue;
    }
    if (c.kind != "call") continue;
    const std::string& id = c.args[1];
    if (e.kind == ds::LOCK && e.obj == iSync)
    {
      if (c.phase == 4)
      {
        if (c.loopSlot >= 0) { steps[c.loopSlot].step = "wLoop " + id + " 0"; c.loopSlot = -1; }
        c.phase = 0;
      }
      if (c.phase == 0) { c.last = push(e.tid, "cEnter " + id, "-"); c.phase = 1; c.waited = false; }
      else if (c.phase == 3) { c.last = push(e.tid, "cRelock " + id, "-"); c.phase = 5; }
    }
    else if (e.kind == ds::WAIT && c.phase == 1 && !c.waited)
    {
      push(e.tid, "cRegister " + id, "-");
      c.last = push(e.tid, "cPark " + id, "-");
      c.waited = true;
      c.phase = 2;
    }
    else if (e.kind == ds::REACQ && e.obj == iSync && c.phase == 2)
    {
      c.last = push(e.tid, "cWake " + id + " " + (e.detail ? "1" : "0"), "-");
    }
    else if (e.kind == ds::UNLOCK && e.obj == iSync && c.args[2] == "1" && (c.phase == 5 || c.phase == 2 || c.phase == 1))
    {
      // end of a connectSync call inside the cancellable wrapper: its loop check (clock + token) is evaluated right here,
      // before the next scheduling point; what it decided is known from what follows (another attempt, or the return value)
      if (c.phase == 5 || c.phase == 2)
      {
        c.loopSlot = push(e.tid, "", "-");
        c.phase = 4;
      }
    }
  }
  std::string out = status + " |";
  for (auto& s : steps)
  {
    if (s.step.empty()) continue;
    std::string x = s.step;
    for (char& ch : x) if (ch == ' ') ch = ',';
    out += " " + std::to_string(s.tid) + "," + x + "=>" + s.observed;
  }
  std::vector<std::string> open;
  for (auto& kv : w->e->est) if (kv.second == 1 || kv.second == 2) open.push_back(std::to_string(kv.first));
  std::size_t qleft = w->e->q.size();
  out += " | " + ds::choicesString() + " | io=" + std::to_string(ioTid) + " open=" + join(open, ",") + " q=" + std::to_string(qleft) +
         " times=" + join(times, ",") + " cancels=" + join(cancels, ",") + " | " + (ok ? stateLine() : std::string("-"));
  if (!ok)
  {
    std::string rep = ds::report();
    for (char& ch : rep) if (ch == '\n') ch = '/';
    out += " | " + rep;
    new std::shared_ptr<Transport>(w->t);
    g = nullptr;
  }
  return out;
}

std::string stepOp(const std::vector<std::string>& t)
{
  if (t.empty()) return "bad-op";
  u64 a = 0, b = 0;
  if (t[0] == "reset" && t.size() == 1) { g_udp = false; resetWorld(); return "ok"; }
  if (t[0] == "reset" && t.size() == 2 && (t[1] == "udp" || t[1] == "tcp")) { g_udp = t[1] == "udp"; resetWorld(); return "ok"; }
  if (t[0] == "sched") return runSched(t);
  if (!g) return "no-world";
  if (t[0] == "refuse" && t.size() == 2) { g->e->refuse = t[1] == "1"; return "ok"; }
  if (t[0] == "connect" && t.size() == 5 && vh::parseNat(t[1], a) && vh::parseNat(t[2], b))
  {
    u64 tlsv = 0;
    vh::parseNat(t[4], tlsv);
    TlsMode tm = tlsv == 1 ? TlsMode::Client : tlsv == 2 ? TlsMode::Server : TlsMode::None;
    // connect <caller> <timeoutMs> <n|c|f|p>: single-threaded, so the wait can only time out; the 4th token says what the
    // I/O thread does inside the unlock window between the timeout and engine->close (nothing / the connect completes /
    // it fails / the Connect is only popped)
    const std::string& win = t[3];
    QEngine* e = g->e;
    e->window = nullptr;
    if (win != "n")
      e->window = [e, win](SessionId sid) {
        // process queued commands up to and including this session's Connect
        for (;;)
        {
          bool mine = false, any = false;
          {
            std::lock_guard<std::mutex> lk(e->qm);
            if (!e->q.empty()) { any = true; mine = e->q.front().kind == 'C' && e->q.front().sid == sid; }
          }
          if (!any) break;
          ioPop(true);
          if (mine) break;
        }
        if (win == "c") ioComplete(sid);
        else if (win == "f") ioCloseOf(sid, false);
      };
    auto t0 = std::chrono::steady_clock::now();
    ConnectResult r = g->t->connectSync("127.0.0.1", 9, tm, std::chrono::milliseconds(b));
    long long elMs = std::chrono::duration_cast<std::chrono::milliseconds>(std::chrono::steady_clock::now() - t0).count();
    e->window = nullptr;
    // "in time" (real time, generous slack for a loaded sanitizer build): no later than the timeout + 1.5 s
    std::string el = elMs <= static_cast<long long>(b) + 1500 ? "elapsed-ok" : "elapsed-exceeded:" + std::to_string(elMs) + "ms-for-" + std::to_string(b) + "ms";
    std::string evs = takeEvs();
    if (e->refuse) evs = (evs == "-" ? std::string("refused") : evs);
    return "ret:" + std::to_string(a) + ":" + resName(r) + " " + evs + " " + el + " | " + stateLine();
  }
  if (t[0] == "pop" && t.size() == 2)
  {
    std::string d = ioPop(t[1] == "1", 1);
    return d + " " + takeEvs() + " | " + stateLine();
  }
  if (t[0] == "complete" && t.size() == 2 && vh::parseNat(t[1], a))
  {
    bool ok = ioComplete(a);
    return std::string(ok ? "fired " : "ignored ") + takeEvs() + " | " + stateLine();
  }
  if (((t[0] == "fail" && t.size() == 3) || (t[0] == "peerclose" && t.size() == 2)) && vh::parseNat(t[1], a))
  {
    u64 rs = 1;
    if (t[0] == "fail") vh::parseNat(t[2], rs);
    bool ok = ioCloseOf(a, t[0] == "peerclose", static_cast<int>(rs));
    return std::string(ok ? "fired " : "ignored ") + takeEvs() + " | " + stateLine();
  }
  if (t[0] == "timer" && t.size() == 2 && vh::parseNat(t[1], a))
  {
    // the engine's connect-timeout Close (tagged ConnectTimeout) is processed: executed, with reason Timeout, only while the
    // connect is still pending - a stale timer is ignored (tcp_engine.hpp process(), `if (!s->connectPending) break;`)
    bool ok = ioCloseOf(a, false, 3);
    return std::string(ok ? "fired " : "ignored ") + takeEvs() + " | " + stateLine();
  }
  if (t[0] == "fence" && t.size() == 1)
  {
    g->t->_impl->setTeardownFence();
    return "ok | " + stateLine();
  }
  if (t[0] == "state" && t.size() == 1) return stateLine();
  return "bad-op";
}
} // namespace

int main()
{
  return vh::runLines([](const std::vector<std::string>& t) -> std::string {
    try { return stepOp(t); }
    catch (const std::exception& ex)
    {
      int st = 0;
      char* n = abi::__cxa_demangle(typeid(ex).name(), nullptr, nullptr, &st);
      std::string s = std::string("throw ") + (n ? n : typeid(ex).name());
      std::free(n);
      return s;
    }
  });
}
