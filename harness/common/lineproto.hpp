// Line-protocol plumbing shared by the correspondence harnesses (DESIGN Appendix A.1).
#pragma once
#include <cstdint>
#include <cstdio>
#include <iostream>
#include <sstream>
#include <string>
#include <vector>

namespace vh {
using Bytes = std::vector<std::uint8_t>;

inline std::string toHex(const std::uint8_t* p, std::size_t n)
{
  if (n == 0) return "-";
  static const char* d = "0123456789abcdef";
  std::string s;
  s.resize(n * 2);
  for (std::size_t i = 0; i < n; ++i) { s[2 * i] = d[p[i] >> 4]; s[2 * i + 1] = d[p[i] & 15]; }
  return s;
}
inline std::string toHex(const Bytes& b) { return toHex(b.data(), b.size()); }
inline std::string toHex(const std::string& b) { return toHex(reinterpret_cast<const std::uint8_t*>(b.data()), b.size()); }

inline bool ofHex(const std::string& s, Bytes& out)
{
  out.clear();
  if (s == "-") return true;
  if (s.size() % 2) return false;
  auto v = [](char c) -> int {
    if (c >= '0' && c <= '9') return c - '0';
    if (c >= 'a' && c <= 'f') return c - 'a' + 10;
    return -1;
  };
  out.reserve(s.size() / 2);
  for (std::size_t i = 0; i < s.size(); i += 2)
  {
    int a = v(s[i]), b = v(s[i + 1]);
    if (a < 0 || b < 0) return false;
    out.push_back(static_cast<std::uint8_t>(a * 16 + b));
  }
  return true;
}

inline bool parseNat(const std::string& s, unsigned long long& out)
{
  if (s.empty() || s.size() > 20) return false;
  unsigned long long v = 0;
  for (char c : s)
  {
    if (c < '0' || c > '9') return false;
    unsigned long long nv = v * 10 + (c - '0');
    if (nv / 10 != v) return false;
    v = nv;
  }
  out = v;
  return true;
}

inline std::vector<std::string> split(const std::string& line)
{
  std::vector<std::string> t;
  std::istringstream ss(line);
  std::string w;
  while (ss >> w) t.push_back(w);
  return t;
}

// Reads operation lines from stdin, prints exactly one answer line per operation.
template <typename F> inline int runLines(F&& step)
{
  std::ios::sync_with_stdio(false);
  std::string line;
  while (std::getline(std::cin, line))
  {
    auto toks = split(line);
    std::string out = step(toks);
    std::fwrite(out.data(), 1, out.size(), stdout);
    std::fputc('\n', stdout);
    std::fflush(stdout);  // an abort inside the NEXT op must not lose this answer (crash attribution)
  }
  std::fflush(stdout);
  return 0;
}
} // namespace vh
