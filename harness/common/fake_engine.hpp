// Scripted EngineBase behind the repository's own Transport::withEngine seam (DESIGN §3.2).
// Records every send/close; callbacks are fired by the harness on whatever thread it chooses.
#pragma once
#include "iora/network/transport.hpp"
#include "iora/network/transport_impl.hpp"
#include <atomic>
#include <functional>
#include <mutex>
#include <string>
#include <vector>

namespace iora { namespace network { namespace test {
struct TransportEngineInjector
{
  static std::shared_ptr<Transport> withEngine(std::unique_ptr<detail::EngineBase> e, TransportConfig c)
  {
    return Transport::withEngine(std::move(e), std::move(c));
  }
};
}}} // namespace iora::network::test

namespace vh {
using namespace iora::network;
struct FakeEngine : detail::EngineBase
{
  Callbacks cbs;
  std::atomic<bool> running{false};
  SessionId next{1};
  std::mutex m;
  std::function<void(SessionId, const std::string&)> onSend;  // every send/sendAsync
  std::function<void(SessionId)> onCloseCall;                  // every close()
  std::function<void(SessionId)> onConnectCall;                // every connect()
  bool sendResult = true;

  StartResult start() override { running = true; return StartResult::ok(); }
  void stop() override { running = false; }
  bool isRunning() const override { return running; }
  TransportErrorInfo lastError() const override { return {}; }
  ListenResult addListener(const std::string&, std::uint16_t, TlsMode) override { return ListenResult::ok(1); }
  ConnectResult connect(const std::string&, std::uint16_t, TlsMode) override
  {
    SessionId s = next++;
    if (onConnectCall) onConnectCall(s);
    return ConnectResult::ok(s);
  }
  ConnectResult connectViaListener(ListenerId, const std::string&, std::uint16_t) override
  {
    SessionId s = next++;
    if (onConnectCall) onConnectCall(s);
    return ConnectResult::ok(s);
  }
  bool close(SessionId sid) override { if (onCloseCall) onCloseCall(sid); return true; }
  bool send(SessionId sid, const void* d, std::size_t n) override
  {
    if (onSend) onSend(sid, std::string(static_cast<const char*>(d), n));
    return sendResult;
  }
  void sendAsync(SessionId sid, const void* d, std::size_t n, SendCompleteCallback cb) override
  {
    if (onSend) onSend(sid, std::string(static_cast<const char*>(d), n));
    (void)cb;
  }
  void setCallbacks(Callbacks c) override { cbs = std::move(c); }
  TransportStats getStats() const override { return {}; }
  TransportAddress getListenerAddress(ListenerId) const override { return {}; }
  TransportAddress getLocalAddress(SessionId) const override { return {}; }
  TransportAddress getRemoteAddress(SessionId) const override { return {}; }
  bool setDscp(SessionId, std::uint8_t) override { return true; }
  std::thread::id getIoThreadId() const override { return {}; }
  void detachForTermination() override {}
  void scheduleSelfDestruct(std::function<void()>) override {}
};
} // namespace vh
