// Correspondence harness for C06 (UDP datagram boundaries and the peer-to-session mapping): the REAL iora::network::UdpEngine
// with its REAL I/O thread and REAL UDP sockets on loopback, single-stepped.
//
// Interposers inside this executable (DESIGN §3.1):
//   * epoll_wait      -> the engine's I/O thread parks here; every op hands it exactly ONE event (the command eventfd, EPOLLIN on a
//                        listener / client socket, EPOLLOUT on a socket whose recorded interest mask has EPOLLOUT, the GC timer fd)
//                        and waits until the thread is parked again.  The run is therefore deterministic and each op is atomic,
//                        exactly like one step of the Lean model (Model/UdpEngine.lean).
//   * sendto / send   -> calls made by the I/O thread are answered from the op's script: `o` forward to the kernel (the raw peer
//                        really receives the datagram), `e` EAGAIN, `x` a hard error (EPERM); default `o`.
//   * epoll_ctl       -> forwarded; the interest mask per fd is recorded (is EPOLLOUT armed?).
//   * clock_gettime   -> CLOCK_MONOTONIC is virtual (moves only by `adv <ms>`), so idle expiry is exact.
//   * getnameinfo     -> calls made by the I/O thread (UdpEngine::key()) fail (EAI_FAIL) where the op marks a datagram / a via with `!`.
// Independent of the engine's key(): every peer name the harness prints comes from its OWN inet_ntop formatting of a socket address; a live
// ServerPeer session whose `pkey` differs from that formatting of its stored sockaddr is printed with `!key`, an index key the harness does
// not know as `?` — the plugin turns both into property violations (distinct peers must not share a session).
// 8 raw UDP sockets ("peers") talk to the engine: 0-4 on 127.0.0.1 (distinct ports), 5 and 6 on 127.0.0.2 with the SAME port numbers
// as peers 0 and 1, 7 on [::1] with the port number of peer 0 — so the host part and the address family of a peer key matter.
// What the peers receive (bytes, source) is what the `S...` events print — the datagram as it arrived, not as handed to send().
//
// Ops (one answer line each: `<events> | <state>`):
//   reset [ms=N] [wq=N] [cob=0|1] [idle=S] [age=S] [stall=MS] [chunk=N] [batch=0|1] [et=0|1]     fresh engine
//   listen | listen6 | listenD  addListener("127.0.0.1" | "::1" | "::", 0)      -> L<lid>   ("::" = dual-stack: IPv4 peers appear as
//                               ::ffff:127.0.0.x:<port>, a numeric host of 16+ characters; address ids 10+k = the v4-mapped form of peer k)
//   dg items and via may end in `!`: getnameinfo (interposed) fails for that one key() call (empty key).
//   dg <lid> <p>:<pl>[,<p>:<pl>…]   peers send to listener lid, then ONE EPOLLIN on it
//   cdg <sid> <pl>[,<pl>…]      the connected peer of client session sid sends to it, then ONE EPOLLIN on its socket
//   connect <p> | via <lid> <p> | close <sid> | send <sid> <pl> <ok|eagain|err>
//   wl <lid> <script> | wc <sid> <script>    EPOLLOUT on the listener / client socket (only if armed), script over o/e/x or `-`
//   adv <ms> | gc | restart (stop() + start() of the same engine object)
//   multi <ev> ; <ev> ; …       ONE epoll_wait return carrying several events, <ev> = dg … | cdg … | wl … | wc … | gc |
//                               cmds <cmd> / <cmd> / … (k commands enqueued before the ONE eventfd event; <cmd> = connect|via|close|send …).
//                               Like the kernel, the batch only contains events whose interest is armed when it is built; EPOLLIN and
//                               EPOLLOUT of one socket are one event.  An event is delivered ONLY if the recorded epoll mask arms it:
//                               EPOLLIN for dg/cdg, EPOLLOUT for wl/wc (a socket the engine stopped listening on stays silent).
// send answers are matched to the sendto/send call by payload (len+crc) — a call whose bytes are nobody's payload is forwarded.
// payload token <pl> = <len>.<hexpattern> (pattern repeated cyclically).  Events: A<sid>@<p> accept, N<sid>@<p> connected,
// D<sid>:<len>:<crc32> data, X<sid>:<why> closed, E error(Socket), S<L<lid>|C<sid>>><p>:<len>:<crc32> datagram received by peer p.
// State: n=<sessionsCurrent> ix=<p>><sid>,… s=<sid>c@<p>:<wq>:<wantWrite>:<in><out>|<sid>p@<p>/<owner>,… l=L<lid>:<wq>:<wantWrite>:<in><out>,…
//        (<in><out> = EPOLLIN / EPOLLOUT bits of the mask last handed to epoll_ctl for that socket)
// A failure of the machinery (cannot bind, kernel did not deliver a loopback datagram) prints `machinery:<why>`; the plugin
// turns that into exit code 2, never into a VIOLATION.  An I/O thread that does not come back within the watchdog is `hang`.
#include <algorithm>
#include <arpa/inet.h>
#include <atomic>
#include <cerrno>
#include <chrono>
#include <condition_variable>
#include <cstdint>
#include <cstdio>
#include <cstdlib>
#include <cstring>
#include <deque>
#include <dlfcn.h>
#include <functional>
#include <future>
#include <map>
#include <memory>
#include <mutex>
#include <netinet/in.h>
#include <optional>
#include <poll.h>
#include <pthread.h>
#include <set>
#include <sstream>
#include <string>
#include <sys/epoll.h>
#include <sys/ioctl.h>
#include <sys/socket.h>
#include <sys/syscall.h>
#include <sys/types.h>
#include <thread>
#include <time.h>
#include <unistd.h>
#include <unordered_map>
#include <vector>
#include <shared_mutex>
#include <csignal>
#include <cassert>
#include <netdb.h>
#include <fcntl.h>
#include <sys/eventfd.h>
#include <sys/timerfd.h>
#include <utility>
#define private public
#define protected public
#include "iora/network/detail/udp_engine.hpp"
#undef private
#undef protected
#include "common/lineproto.hpp"

using iora::network::SessionId;
using iora::network::TransportAddress;
using iora::network::TransportConfig;
using iora::network::TransportError;
using iora::network::TransportErrorInfo;
using iora::network::UdpEngine;

// ------------------------------------------------------------------------------------------------ real clock / virtual clock
static std::atomic<long long> g_vms{0};
static std::atomic<bool> g_virtual{false};
static const long long kBaseNs = 100000LL * 1000000000LL;
extern "C" int clock_gettime(clockid_t c, struct timespec* ts)
{
  if (c == CLOCK_MONOTONIC && g_virtual.load(std::memory_order_acquire))
  {
    long long t = kBaseNs + g_vms.load(std::memory_order_acquire) * 1000000LL;
    ts->tv_sec = t / 1000000000LL;
    ts->tv_nsec = t % 1000000000LL;
    return 0;
  }
  return (int)syscall(SYS_clock_gettime, c, ts);
}
static long long realMs()
{
  struct timespec ts;
  syscall(SYS_clock_gettime, CLOCK_MONOTONIC, &ts);
  return ts.tv_sec * 1000LL + ts.tv_nsec / 1000000LL;
}

// ------------------------------------------------------------------------------------------------ stepping the I/O thread
static std::mutex g_m;
static std::condition_variable g_cv;
static bool g_step = false, g_parked = false, g_go = false;
static std::atomic<bool> g_stepA{false};            // lock-free copy of g_step for the send interposers
static std::vector<epoll_event> g_deliver;
static pthread_t g_main;                              // helper threads (addListener / stop callers) never reach an interposer
static unsigned long g_parks = 0;

extern "C" int epoll_wait(int epfd, struct epoll_event* ev, int maxev, int timeout)
{
  {
    std::unique_lock<std::mutex> lk(g_m);
    if (g_step && !pthread_equal(pthread_self(), g_main))
    {
      g_parked = true;
      ++g_parks;
      g_cv.notify_all();
      g_cv.wait(lk, [] { return g_go || !g_step; });
      g_parked = false;
      if (g_step)
      {
        g_go = false;
        int n = 0;
        for (auto& e : g_deliver)
          if (n < maxev) ev[n++] = e;
        g_deliver.clear();
        return n;
      }
    }
  }
#ifdef SYS_epoll_wait
  return (int)syscall(SYS_epoll_wait, epfd, ev, maxev, timeout);
#else
  return (int)syscall(SYS_epoll_pwait, epfd, ev, maxev, timeout, nullptr, 0);
#endif
}

static const int kWatchdogMs = 15000;   // an order of magnitude above anything observed (a step takes < 1 ms)
static const int kKernelMs = 10000;

// Watchdog: a thread on the REAL clock. If one op keeps the I/O thread away from epoll_wait for kWatchdogMs, the engine hangs.
static std::atomic<long long> g_opStartMs{0};       // 0 = no step in flight
static std::atomic<const char*> g_opName{"?"};
static void watchdogMain()
{
  for (;;)
  {
    usleep(100000);
    long long t0 = g_opStartMs.load();
    if (t0 != 0 && realMs() - t0 > kWatchdogMs)
    {
      std::printf("hang:%s\n", g_opName.load());
      std::fflush(stdout);
      _exit(3);
    }
  }
}

static bool waitParked()
{
  std::unique_lock<std::mutex> lk(g_m);
  g_cv.wait(lk, [] { return g_parked && !g_go; });   // untimed: the watchdog thread bounds it
  return true;
}

// Hand the parked I/O thread one event WITHOUT waiting for it to come back (used for the Shutdown command: the thread exits).
static void deliverNoWait(int fd, std::uint32_t events)
{
  waitParked();
  {
    std::lock_guard<std::mutex> lk(g_m);
    epoll_event e{};
    e.events = events;
    e.data.fd = fd;
    g_deliver.push_back(e);
    g_go = true;
  }
  g_cv.notify_all();
}

static bool deliverMany(const std::vector<std::pair<int, std::uint32_t>>& evs);
static bool deliver(int fd, std::uint32_t events) { return deliverMany({{fd, events}}); }
static bool deliverMany(const std::vector<std::pair<int, std::uint32_t>>& evs)
{
  g_opStartMs.store(realMs());
  struct Done { ~Done() { g_opStartMs.store(0); } } done;
  if (!waitParked()) return false;
  {
    std::lock_guard<std::mutex> lk(g_m);
    for (auto& x : evs)
    {
      epoll_event e{};
      e.events = x.second;
      e.data.fd = x.first;
      g_deliver.push_back(e);
    }
    g_go = true;
  }
  g_cv.notify_all();
  return waitParked();
}

// ------------------------------------------------------------------------------------------------ recorded epoll interest
static std::mutex g_maskM;
static std::map<int, std::uint32_t> g_mask;
static unsigned long g_ctlFailed = 0;
typedef int (*epoll_ctl_t)(int, int, int, struct epoll_event*);
extern "C" int epoll_ctl(int epfd, int op, int fd, struct epoll_event* ev)
{
  static epoll_ctl_t real = (epoll_ctl_t)dlsym(RTLD_NEXT, "epoll_ctl");
  std::uint32_t want = ev ? ev->events : 0;
  int r = real(epfd, op, fd, ev);
  // the recorded interest is what the KERNEL holds: a failing ADD/MOD arms nothing (the socket stays silent, as it would for real)
  std::lock_guard<std::mutex> g(g_maskM);
  if (r != 0) { ++g_ctlFailed; return r; }
  if (op == EPOLL_CTL_DEL) g_mask.erase(fd);
  else if (ev) g_mask[fd] = want;
  return r;
}
static bool armed(int fd, std::uint32_t bit)
{
  std::lock_guard<std::mutex> g(g_maskM);
  auto it = g_mask.find(fd);
  return it != g_mask.end() && (it->second & bit);
}
static bool armedOut(int fd) { return armed(fd, EPOLLOUT); }
static bool armedIn(int fd) { return armed(fd, EPOLLIN); }

// ------------------------------------------------------------------------------------------------ crc32
static std::uint32_t crc32(const std::uint8_t* p, std::size_t n)
{
  static std::uint32_t tab[256];
  static bool init = false;
  if (!init)
  {
    for (std::uint32_t i = 0; i < 256; ++i)
    {
      std::uint32_t c = i;
      for (int k = 0; k < 8; ++k) c = (c & 1) ? (c >> 1) ^ 0xEDB88320u : c >> 1;
      tab[i] = c;
    }
    init = true;
  }
  std::uint32_t c = 0xFFFFFFFFu;
  for (std::size_t i = 0; i < n; ++i) c = tab[(c ^ p[i]) & 0xFF] ^ (c >> 8);
  return c ^ 0xFFFFFFFFu;
}

// ------------------------------------------------------------------------------------------------ event log (I/O thread writes, main reads when parked)
struct Ev
{
  std::string text;
  bool isSent{false};
  std::string destKey;
};
static std::vector<Ev> g_log;
static std::deque<char> g_script;                  // positional answers (flush scripts of wl / wc)
static std::deque<bool> g_gniScript;               // per key() call of the I/O thread: true = getnameinfo fails (EAI_FAIL)
static std::map<int, std::vector<bool>> g_gniByFd;  // while a batch is being built: the flags of each event, by the descriptor it is about;
static bool g_et = true;                            // TransportConfig::useEdgeTriggered of the current engine
static unsigned long g_ltRedeliveries = 0, g_ovClose = 0, g_ovDropOldest = 0, g_lastBp = 0, g_samePortFallback = 0;
static unsigned long g_gcIdle = 0, g_gcAge = 0, g_gcStall = 0, g_mergedInOut = 0, g_zeroLenArrivals = 0, g_maxBurst = 0;
static bool g_cob = true;
static void (*g_onCloseHook)(SessionId) = nullptr;            // restart @<sid>: commands enqueued from the onClose callback of <sid>
static SessionId g_hookSid = 0;
static std::vector<std::vector<std::string>> g_hookCmds;
static unsigned long g_sendAsyncCalls = 0, g_restartPending = 0, g_restartFromCallback = 0;
static bool g_batched = false;                      // ordered into g_gniScript once the processing order of the batch is known
static unsigned long g_gniCalls = 0, g_gniFailed = 0;

typedef int (*getnameinfo_t)(const struct sockaddr*, socklen_t, char*, socklen_t, char*, socklen_t, int);
extern "C" int getnameinfo(const struct sockaddr* sa, socklen_t salen, char* host, socklen_t hostlen, char* serv, socklen_t servlen, int flags)
{
  static getnameinfo_t real = (getnameinfo_t)dlsym(RTLD_NEXT, "getnameinfo");
  bool engine = g_stepA.load(std::memory_order_acquire) && !pthread_equal(pthread_self(), g_main);
  if (engine)
  {
    ++g_gniCalls;
    if (!g_gniScript.empty())
    {
      bool fail = g_gniScript.front();
      g_gniScript.pop_front();
      if (fail) { ++g_gniFailed; return EAI_FAIL; }
    }
  }
  return real(sa, salen, host, hostlen, serv, servlen, flags);
}
struct Keyed { std::size_t len; std::uint32_t crc; char ans; bool used; };
static std::vector<Keyed> g_keyed;                 // answers for command sends, matched by payload
static unsigned long g_sendCalls = 0, g_injectedEagain = 0, g_injectedErr = 0, g_forwarded = 0, g_kernelRefused = 0, g_unkeyed = 0;

// numeric "host:port" of a socket address — the harness's OWN formatting (inet_ntop), independent of UdpEngine::key()
static std::string addrKey(const sockaddr* sa)
{
  char h[INET6_ADDRSTRLEN] = {0};
  if (sa && sa->sa_family == AF_INET)
  {
    auto* a = reinterpret_cast<const sockaddr_in*>(sa);
    inet_ntop(AF_INET, &a->sin_addr, h, sizeof(h));
    return std::string(h) + ":" + std::to_string(ntohs(a->sin_port));
  }
  if (sa && sa->sa_family == AF_INET6)
  {
    auto* a = reinterpret_cast<const sockaddr_in6*>(sa);
    inet_ntop(AF_INET6, &a->sin6_addr, h, sizeof(h));
    return std::string(h) + ":" + std::to_string(ntohs(a->sin6_port));
  }
  return "?";
}
static bool mkAddr(const std::string& host, int port, sockaddr_storage& ss, socklen_t& sl)
{
  std::memset(&ss, 0, sizeof(ss));
  auto* a4 = reinterpret_cast<sockaddr_in*>(&ss);
  auto* a6 = reinterpret_cast<sockaddr_in6*>(&ss);
  if (inet_pton(AF_INET, host.c_str(), &a4->sin_addr) == 1) { a4->sin_family = AF_INET; a4->sin_port = htons((std::uint16_t)port); sl = sizeof(sockaddr_in); return true; }
  if (inet_pton(AF_INET6, host.c_str(), &a6->sin6_addr) == 1) { a6->sin6_family = AF_INET6; a6->sin6_port = htons((std::uint16_t)port); sl = sizeof(sockaddr_in6); return true; }
  return false;
}

typedef ssize_t (*sendto_t)(int, const void*, size_t, int, const struct sockaddr*, socklen_t);
typedef ssize_t (*send_t)(int, const void*, size_t, int);
static std::atomic<int> g_freeEagain{0};           // free-running family: the next k sendto calls of the I/O thread answer EAGAIN
static sendto_t realSendto() { static sendto_t f = (sendto_t)dlsym(RTLD_NEXT, "sendto"); return f; }
static send_t realSend() { static send_t f = (send_t)dlsym(RTLD_NEXT, "send"); return f; }

static int scripted(int fd, const void* buf, size_t n, const sockaddr* to)   // 0 forward, 1 EAGAIN, 2 error
{
  ++g_sendCalls;
  char a = 0;
  if (!g_keyed.empty())
  {
    std::uint32_t c = crc32(static_cast<const std::uint8_t*>(buf), n);
    for (auto& k : g_keyed)
      if (!k.used && k.len == n && k.crc == c) { k.used = true; a = k.ans; break; }
  }
  if (a == 0)
  {
    if (!g_script.empty()) { a = g_script.front(); g_script.pop_front(); }
    else { a = 'o'; ++g_unkeyed; }
  }
  // the kernel checks the size before anything else (EMSGSIZE; the limit is 65507 on an IPv4 socket, 65527 on an IPv6 one): let it say so itself
  // (a v4-mapped destination travels over IPv4 even from an IPv6 socket)
  sockaddr_storage me{}; socklen_t ml = sizeof(me);
  sockaddr_storage pe{}; socklen_t pl = sizeof(pe);
  if (!to && getpeername(fd, reinterpret_cast<sockaddr*>(&pe), &pl) == 0) to = reinterpret_cast<sockaddr*>(&pe);
  size_t limit = 65507;
  if (getsockname(fd, reinterpret_cast<sockaddr*>(&me), &ml) == 0 && me.ss_family == AF_INET6 &&
      !(to && to->sa_family == AF_INET6 && IN6_IS_ADDR_V4MAPPED(&reinterpret_cast<const sockaddr_in6*>(to)->sin6_addr)))
    limit = 65527;
  if (n > limit) return 0;
  if (a == 'e') { ++g_injectedEagain; return 1; }
  if (a == 'x') { ++g_injectedErr; return 2; }
  return 0;
}

extern "C" ssize_t sendto(int fd, const void* buf, size_t n, int flags, const struct sockaddr* to, socklen_t tl)
{
  bool engine = g_stepA.load(std::memory_order_acquire) && !pthread_equal(pthread_self(), g_main);
  if (!engine && !pthread_equal(pthread_self(), g_main) && g_freeEagain.load() > 0) { g_freeEagain.fetch_sub(1); errno = EAGAIN; return -1; }
  if (!engine) return realSendto()(fd, buf, n, flags, to, tl);
  int a = scripted(fd, buf, n, to);
  if (a == 1) { errno = EAGAIN; return -1; }
  if (a == 2) { errno = EPERM; return -1; }
  ssize_t r = realSendto()(fd, buf, n, flags, to, tl);     // the engine's own flags go to the kernel untouched
  if (r >= 0)
  {
    ++g_forwarded;
    Ev e; e.isSent = true; e.destKey = addrKey(to);
    g_log.push_back(e);
  }
  else ++g_kernelRefused;
  return r;
}

extern "C" ssize_t send(int fd, const void* buf, size_t n, int flags)
{
  bool engine = g_stepA.load(std::memory_order_acquire) && !pthread_equal(pthread_self(), g_main);
  if (!engine) return realSend()(fd, buf, n, flags);
  int a = scripted(fd, buf, n, nullptr);
  if (a == 1) { errno = EAGAIN; return -1; }
  if (a == 2) { errno = EPERM; return -1; }
  ssize_t r = realSend()(fd, buf, n, flags);
  if (r >= 0)
  {
    ++g_forwarded;
    sockaddr_storage ss{}; socklen_t sl = sizeof(ss);
    getpeername(fd, reinterpret_cast<sockaddr*>(&ss), &sl);
    Ev e; e.isSent = true; e.destKey = addrKey(reinterpret_cast<sockaddr*>(&ss));
    g_log.push_back(e);
  }
  else ++g_kernelRefused;
  return r;
}

// ------------------------------------------------------------------------------------------------ the world
static const int kPeers = 8;
struct Peer { int fd{-1}; int family{AF_INET}; std::string host; int port{0}; std::string key; };
static Peer g_peer[kPeers];
static std::map<std::string, int> g_keyToPeer;
static std::string g_machinery;           // non-empty: the machinery failed; every further answer repeats it
static int g_lost = 0;                    // receipts that never arrived (a broken tree can lose many: do not wait long for each)

struct World
{
  std::unique_ptr<UdpEngine> eng;
  std::vector<iora::network::ListenerId> lids;     // case-level listener number (1-based) -> real id
  std::vector<int> lfam;                            // its address family (AF_UNSPEC = dual-stack "::")
  std::map<int, std::string> wildPort;              // port of a dual-stack listener -> L<lid> (its replies leave from whatever local address fits)
  std::map<std::string, std::string> srcName;      // local "host:port" of an engine socket -> L<lid> / C<sid>
  std::map<SessionId, int> clientPeer;             // client session -> peer index it is connected to
};
static World W;

static const char* whyName(TransportError e)
{
  switch (e)
  {
  case TransportError::Unknown: return "unknown";
  case TransportError::GCClosed: return "gc";
  case TransportError::WriteBackpressure: return "backpressure";
  case TransportError::Socket: return "socket";
  case TransportError::Config: return "config";
  case TransportError::Resolve: return "resolve";
  case TransportError::Connect: return "connect";
  case TransportError::Bind: return "bind";
  default: return "other";
  }
}

static std::string peerName(const std::string& key)
{
  auto it = g_keyToPeer.find(key);
  if (it != g_keyToPeer.end()) return std::to_string(it->second);
  return "?";
}
static std::string peerNameOf(const TransportAddress& a) { return peerName(a.host + ":" + std::to_string(a.port)); }

static bool bindPeer(int i, int family, const std::string& host, int wantPort)
{
  for (int attempt = 0; attempt < 2; ++attempt)
  {
    int fd = socket(family, SOCK_DGRAM | SOCK_CLOEXEC, 0);
    if (fd < 0) return false;
    int big = 4 * 1024 * 1024;
    setsockopt(fd, SOL_SOCKET, SO_RCVBUF, &big, sizeof(big));
    sockaddr_storage ss{}; socklen_t sl = 0;
    if (!mkAddr(host, attempt == 0 ? wantPort : 0, ss, sl)) { close(fd); return false; }
    if (bind(fd, reinterpret_cast<sockaddr*>(&ss), sl) != 0) { close(fd); if (wantPort == 0) return false; ++g_samePortFallback; continue; }
    sl = sizeof(ss);
    if (getsockname(fd, reinterpret_cast<sockaddr*>(&ss), &sl) != 0) { close(fd); return false; }
    g_peer[i].fd = fd; g_peer[i].family = family; g_peer[i].host = host;
    g_peer[i].port = family == AF_INET ? ntohs(reinterpret_cast<sockaddr_in*>(&ss)->sin_port) : ntohs(reinterpret_cast<sockaddr_in6*>(&ss)->sin6_port);
    g_peer[i].key = addrKey(reinterpret_cast<sockaddr*>(&ss));
    g_keyToPeer[g_peer[i].key] = i;
    return true;
  }
  return false;
}

static bool initPeers()
{
  for (int i = 0; i < 5; ++i)
    if (!bindPeer(i, AF_INET, "127.0.0.1", 0)) return false;
  if (!bindPeer(5, AF_INET, "127.0.0.2", g_peer[0].port)) return false;     // same port as peer 0, other host
  if (!bindPeer(6, AF_INET, "127.0.0.2", g_peer[1].port)) return false;
  if (!bindPeer(7, AF_INET6, "::1", g_peer[0].port)) return false;           // same port as peer 0, other family
  // address ids 10+k: the v4-mapped form under which IPv4 peer k appears on a dual-stack listener (numeric host of 16+ characters)
  for (int k = 0; k < 7; ++k)
    g_keyToPeer["::ffff:" + g_peer[k].host + ":" + std::to_string(g_peer[k].port)] = 10 + k;
  return true;
}

static void drainPeers()
{
  std::vector<std::uint8_t> buf(70000);
  for (int i = 0; i < kPeers; ++i)
    while (recv(g_peer[i].fd, buf.data(), buf.size(), MSG_DONTWAIT) >= 0) {}
}

static void stopEngine()
{
  if (!W.eng) return;
  { std::lock_guard<std::mutex> lk(g_m); g_step = false; g_stepA.store(false); }
  g_cv.notify_all();
  W.eng->stop();
  W.eng.reset();
  { std::lock_guard<std::mutex> g(g_maskM); g_mask.clear(); }
  W.lids.clear();
  W.lfam.clear();
  W.wildPort.clear();
  W.srcName.clear();
  W.clientPeer.clear();
  g_log.clear();
  g_script.clear();
  g_keyed.clear();
  g_gniScript.clear();
}

static bool expand(const std::string& tok, vh::Bytes& out)
{
  auto dot = tok.find('.');
  if (dot == std::string::npos) return false;
  unsigned long long n;
  vh::Bytes pat;
  if (!vh::parseNat(tok.substr(0, dot), n) || !vh::ofHex(tok.substr(dot + 1), pat)) return false;
  out.clear();
  if (n == 0) return true;
  if (pat.empty() || n > 200000) return false;
  out.resize(n);
  for (std::size_t i = 0; i < n; ++i) out[i] = pat[i % pat.size()];
  return true;
}

// socket receive-queue occupancy (bytes of skb memory), to know that a loopback datagram has really been queued
static long rmem(int fd)
{
  std::uint32_t v[16] = {0};
  socklen_t sl = sizeof(v);
  if (getsockopt(fd, SOL_SOCKET, SO_MEMINFO, v, &sl) != 0) return -1;
  return (long)v[0];   // SK_MEMINFO_RMEM_ALLOC
}

static bool rawSendAndWait(int peer, std::string host, int toPort, int dstFd, const vh::Bytes& pl)
{
  sockaddr_storage to{}; socklen_t tl = 0;
  if (g_peer[peer].family == AF_INET && host.rfind("::ffff:", 0) == 0) host = host.substr(7);   // an IPv4 socket addresses the plain form
  if (!mkAddr(host, toPort, to, tl)) { g_machinery = "bad-destination-address"; return false; }
  long before = rmem(dstFd);
  ssize_t r = realSendto()(g_peer[peer].fd, pl.data(), pl.size(), 0, reinterpret_cast<sockaddr*>(&to), tl);
  if (r != (ssize_t)pl.size()) { g_machinery = "raw-sendto-failed:" + std::to_string(errno); return false; }
  long long t0 = realMs();
  for (;;)
  {
    long now = rmem(dstFd);
    if (before < 0 || now < 0)
    {
      pollfd p{dstFd, POLLIN, 0};
      if (poll(&p, 1, kKernelMs) > 0) return true;
      g_machinery = "loopback-datagram-not-delivered";
      return false;
    }
    if (now > before) return true;
    if (realMs() - t0 > kKernelMs) { g_machinery = "loopback-datagram-not-queued(rcvbuf?)"; return false; }
    usleep(50);
  }
}

// Collect what happened during the last step(s): callbacks and forwarded sends in I/O-thread order; every forwarded send is
// printed from the datagram the raw peer actually RECEIVED.
static std::string collect()
{
  // Every forwarded send, in I/O-thread order, is matched with the NEXT datagram waiting in the raw socket behind its destination
  // (address ids 10+k are the v4-mapped form of IPv4 peer k: same socket). Loopback keeps the order per socket.
  std::vector<std::string> receiptOf(g_log.size());
  std::vector<std::uint8_t> buf(70000);
  for (std::size_t li = 0; li < g_log.size(); ++li)
  {
    auto& e = g_log[li];
    if (!e.isSent) continue;
    auto pit = g_keyToPeer.find(e.destKey);
    if (pit == g_keyToPeer.end()) continue;          // sent to something that is not one of our peers
    int fd = g_peer[pit->second >= 10 ? pit->second - 10 : pit->second].fd;
    // the kernel accepted the datagram, so it is normally already queued; wait generously the first time one is missing, then
    // (a broken tree, e.g. a corked socket, loses every one of them) only briefly, then not at all: bounded work
    static const bool fast = std::getenv("C06_FAST_LOSS") != nullptr;       // re-runs of an already failing case
    int waitMs = g_lost == 0 ? (fast ? 400 : 3000) : g_lost < 8 ? 200 : 0;
    pollfd p{fd, POLLIN, 0};
    if (poll(&p, 1, waitMs) <= 0) { ++g_lost; continue; }
    sockaddr_storage from{}; socklen_t fl = sizeof(from);
    ssize_t n = recvfrom(fd, buf.data(), buf.size(), MSG_DONTWAIT, reinterpret_cast<sockaddr*>(&from), &fl);
    if (n < 0) { ++g_lost; continue; }
    auto sn = W.srcName.find(addrKey(reinterpret_cast<sockaddr*>(&from)));
    std::string src = sn == W.srcName.end() ? "?" : sn->second;
    if (sn == W.srcName.end())
    {
      auto wp = W.wildPort.find(from.ss_family == AF_INET ? ntohs(reinterpret_cast<sockaddr_in*>(&from)->sin_port)
                                                          : ntohs(reinterpret_cast<sockaddr_in6*>(&from)->sin6_port));
      if (wp != W.wildPort.end()) src = wp->second;
    }
    receiptOf[li] = "S" + src + ">" + peerName(e.destKey) + ":" + std::to_string(n) + ":" + std::to_string(crc32(buf.data(), (size_t)n));
  }
  std::vector<std::string> out;
  std::vector<std::string> closes;    // consecutive close events are sorted (GC / shutdown close in hash order)
  auto flushCloses = [&] { std::sort(closes.begin(), closes.end(), [](const std::string& a, const std::string& b) {
                               return std::stoul(a.substr(1)) < std::stoul(b.substr(1)); });
                           for (auto& c : closes) out.push_back(c); closes.clear(); };
  for (std::size_t li = 0; li < g_log.size(); ++li)
  {
    auto& e = g_log[li];
    if (!e.isSent)
    {
      if (e.text[0] == 'X') { closes.push_back(e.text); continue; }
      flushCloses();
      out.push_back(e.text);
      continue;
    }
    flushCloses();
    // self-test of the "did it reproduce?" path: report ONE received datagram as lost, only in the main run (not in re-runs)
    static bool fakeLost = std::getenv("C06_SELFTEST_FAKE_LOST_ONCE") != nullptr && std::getenv("C06_FAST_LOSS") == nullptr;
    if (receiptOf[li].empty()) out.push_back("S?lost>" + peerName(e.destKey));
    else if (fakeLost) { fakeLost = false; out.push_back("S?lost>" + peerName(e.destKey)); }
    else out.push_back(receiptOf[li]);
  }
  flushCloses();
  // anything else sitting in a peer socket was never handed to the kernel by a send we saw: a duplicate / phantom datagram
  for (int i = 0; i < kPeers; ++i)
  {
    for (;;)
    {
      sockaddr_storage from{}; socklen_t fl = sizeof(from);
      ssize_t n = recvfrom(g_peer[i].fd, buf.data(), buf.size(), MSG_DONTWAIT, reinterpret_cast<sockaddr*>(&from), &fl);
      if (n < 0) break;
      out.push_back("S?extra>" + std::to_string(i) + ":" + std::to_string(n) + ":" + std::to_string(crc32(buf.data(), (size_t)n)));
    }
  }
  g_log.clear();
  if (out.empty()) return "-";
  std::string s;
  for (std::size_t i = 0; i < out.size(); ++i) { if (i) s += ";"; s += out[i]; }
  return s;
}

static int lidNumber(iora::network::ListenerId real)
{
  for (std::size_t i = 0; i < W.lids.size(); ++i)
    if (W.lids[i] == real) return (int)i + 1;
  return 0;
}

static std::string maskBits(int fd) { return std::string(armedIn(fd) ? "1" : "0") + (armedOut(fd) ? "1" : "0"); }

static std::string stateLine()
{
  UdpEngine& e = *W.eng;
  std::ostringstream o;
  o << "n=" << e._atomicStats.sessionsCurrent.load() << " ix=";
  std::vector<std::pair<std::string, SessionId>> ix;
  for (auto& kv : e._peerIndex) ix.emplace_back(peerName(kv.first), kv.second);
  std::sort(ix.begin(), ix.end(), [](auto& a, auto& b) { return std::make_pair(std::atoi(a.first.c_str()), a.second) < std::make_pair(std::atoi(b.first.c_str()), b.second); });
  for (std::size_t i = 0; i < ix.size(); ++i) o << (i ? "," : "") << ix[i].first << ">" << ix[i].second;
  o << " s=";
  std::vector<SessionId> sids;
  for (auto& kv : e._sessions) sids.push_back(kv.first);
  std::sort(sids.begin(), sids.end());
  bool first = true;
  for (auto sid : sids)
  {
    auto* s = e._sessions[sid].get();
    if (!first) o << ",";
    first = false;
    if (!s) { o << sid << "NULL"; continue; }
    if (s->role == iora::network::Role::ClientConnected)
    {
      sockaddr_storage ss{}; socklen_t sl = sizeof(ss);
      std::string k = "?";
      if (getpeername(s->fd, reinterpret_cast<sockaddr*>(&ss), &sl) == 0) k = addrKey(reinterpret_cast<sockaddr*>(&ss));
      o << sid << "c@" << peerName(k) << ":" << s->wq.size() << ":" << (s->wantWrite ? 1 : 0) << ":" << maskBits(s->fd);
    }
    else
    {
      // the address the session would SEND to (its stored sockaddr); independently, its index key `pkey` must be exactly the harness's
      // own formatting of that address — an empty or different key means distinct peers can share a session
      std::string own = addrKey(reinterpret_cast<sockaddr*>(&s->peer));
      o << sid << "p@" << peerName(own) << "/" << lidNumber(s->owner);
      if (s->pkey != own) o << "!key";
    }
  }
  o << " l=";
  bool firstL = true;
  for (std::size_t i = 0; i < W.lids.size(); ++i)
  {
    auto it = e._listeners.find(W.lids[i]);
    if (it == e._listeners.end()) continue;            // closed by a restart
    if (!firstL) o << ",";
    firstL = false;
    o << "L" << (i + 1) << ":" << it->second->wq.size() << ":" << (it->second->wantWrite ? 1 : 0) << ":" << maskBits(it->second->fd);
  }
  return o.str();
}

[[noreturn]] static void hang(const std::string& op)
{
  std::printf("hang:%s\n", op.c_str());
  std::fflush(stdout);
  _exit(3);
}

static bool parseScript(const std::string& s)
{
  g_script.clear();
  if (s == "-") return true;
  for (char c : s)
  {
    if (c != 'o' && c != 'e' && c != 'x') return false;
    g_script.push_back(c);
  }
  return true;
}

static std::string answer()
{
  if (W.eng)
  {
    unsigned long v = (unsigned long)W.eng->_atomicStats.backpressureCloses.load();
    if (v > g_lastBp) (g_cob ? g_ovClose : g_ovDropOldest) += v - g_lastBp;
    g_lastBp = v;
  }
  g_script.clear();
  g_keyed.clear();
  g_gniScript.clear();
  g_gniByFd.clear();
  return collect() + " | " + stateLine();
}

static std::string doReset(const std::vector<std::string>& t)
{
  stopEngine();
  drainPeers();
  TransportConfig cfg;                       // the repository's defaults, overridden only by what the op names
  bool batched = false;
  cfg.protocol = iora::network::Protocol::UDP;
  for (std::size_t i = 1; i < t.size(); ++i)
  {
    auto eq = t[i].find('=');
    unsigned long long v;
    if (eq == std::string::npos || !vh::parseNat(t[i].substr(eq + 1), v)) return "bad-op";
    std::string k = t[i].substr(0, eq);
    if (k == "ms") cfg.maxSessions = v;
    else if (k == "wq") cfg.maxWriteQueue = v;
    else if (k == "cob") cfg.closeOnBackpressure = v != 0;
    else if (k == "idle") cfg.idleTimeout = std::chrono::seconds(v);
    else if (k == "age") cfg.maxConnAge = std::chrono::seconds(v);
    else if (k == "stall") cfg.writeStallTimeout = std::chrono::milliseconds(v);
    else if (k == "chunk") cfg.ioReadChunk = v;
    else if (k == "batch") { cfg.batching.enabled = v != 0; batched = v != 0; }
    else if (k == "et") cfg.useEdgeTriggered = v != 0;
    else return "bad-op";
  }
  g_batched = batched;
  g_et = cfg.useEdgeTriggered;
  g_cob = cfg.closeOnBackpressure;
  g_lastBp = 0;
  g_vms.store(0);
  g_virtual.store(true);
  W.eng = std::make_unique<UdpEngine>(cfg);
  iora::network::detail::EngineBase::Callbacks cbs;
  cbs.onAccept = [](SessionId s, const TransportAddress& a) { Ev e; e.text = "A" + std::to_string(s) + "@" + peerNameOf(a); g_log.push_back(e); };
  cbs.onConnect = [](SessionId s, const TransportAddress& a) {
    Ev e; e.text = "N" + std::to_string(s) + "@" + peerNameOf(a); g_log.push_back(e);
    // a client session's own socket: remember its local address now (the session may be closed later in the same batch). We are on the
    // I/O thread, connectDo holds no lock while it runs the callback.
    auto it = W.eng->_sessions.find(s);
    if (it != W.eng->_sessions.end() && it->second && it->second->role == iora::network::Role::ClientConnected)
    {
      sockaddr_storage ss{}; socklen_t sl = sizeof(ss);
      if (getsockname(it->second->fd, reinterpret_cast<sockaddr*>(&ss), &sl) == 0)
      {
        std::string lk = addrKey(reinterpret_cast<sockaddr*>(&ss));
        W.srcName[lk] = "C" + std::to_string(s);
        if (lk.rfind("::ffff:", 0) == 0) W.srcName[lk.substr(7)] = "C" + std::to_string(s);   // what an IPv4 peer sees as the source
        auto pk = g_keyToPeer.find(a.host + ":" + std::to_string(a.port));
        if (pk != g_keyToPeer.end()) W.clientPeer[s] = pk->second >= 10 ? pk->second - 10 : pk->second;   // the raw socket behind the address
      }
    } };
  cbs.onData = [](SessionId s, iora::core::BufferView d, std::chrono::steady_clock::time_point) {
    Ev e; e.text = "D" + std::to_string(s) + ":" + std::to_string(d.size()) + ":" + std::to_string(crc32(reinterpret_cast<const std::uint8_t*>(d.data()), d.size()));
    g_log.push_back(e); };
  cbs.onClose = [](SessionId s, const TransportErrorInfo& i) { Ev e; e.text = "X" + std::to_string(s) + ":" + whyName(i.code); g_log.push_back(e);
                                                                    if (g_onCloseHook) g_onCloseHook(s); };
  cbs.onError = [](TransportError k, const std::string&) { Ev e; e.text = k == TransportError::Socket ? "E" : std::string("E:") + whyName(k); g_log.push_back(e); };
  W.eng->setCallbacks(cbs);
  { std::lock_guard<std::mutex> lk(g_m); g_step = true; g_stepA.store(true); g_parked = false; g_go = false; g_deliver.clear(); }
  auto sr = W.eng->start();
  if (!sr.isOk()) { g_machinery = "engine-start-failed"; return "machinery:" + g_machinery; }
  g_opName.store("reset");
  g_opStartMs.store(realMs());
  waitParked();
  g_opStartMs.store(0);
  return "ok";
}

// ---- pieces shared by the single ops and by `multi`
static int listenerFd(unsigned long long lid)
{
  if (lid < 1 || lid > W.lids.size()) return -1;
  auto it = W.eng->_listeners.find(W.lids[lid - 1]);
  return it == W.eng->_listeners.end() ? -1 : it->second->fd;
}
static int clientFd(unsigned long long sid)
{
  auto it = W.eng->_sessions.find((SessionId)sid);
  if (it == W.eng->_sessions.end() || !it->second || it->second->role != iora::network::Role::ClientConnected) return -1;
  return it->second->fd;
}

// raw peers send to listener `lid`; returns -2 bad-op, -3 machinery, -1 nothing can arrive, else the listener fd
static int prepDg(unsigned long long lid, const std::string& spec)
{
  std::vector<std::pair<int, vh::Bytes>> dgs;
  std::vector<bool> fails;
  std::stringstream ss(spec);
  std::string item;
  while (std::getline(ss, item, ','))
  {
    bool keyFails = !item.empty() && item.back() == '!';
    if (keyFails) item.pop_back();
    auto c = item.find(':');
    unsigned long long p;
    vh::Bytes pl;
    if (c == std::string::npos || !vh::parseNat(item.substr(0, c), p) || p >= (unsigned)kPeers || !expand(item.substr(c + 1), pl)) return -2;
    dgs.emplace_back((int)p, std::move(pl));
    fails.push_back(keyFails);
  }
  int lfd = listenerFd(lid);
  if (lfd < 0) return -1;
  if (dgs.size() > g_maxBurst) g_maxBurst = dgs.size();
  for (auto& d : dgs) if (d.second.empty()) ++g_zeroLenArrivals;
  auto la = W.eng->getListenerAddress(W.lids[lid - 1]);
  for (std::size_t i = 0; i < dgs.size(); ++i)
  {
    auto& d = dgs[i];
    int lf = W.lfam[lid - 1];
    if (lf != AF_UNSPEC && g_peer[d.first].family != lf) return -2;      // a v4 socket cannot reach a v6-only listener and vice versa
    std::string host = lf != AF_UNSPEC ? la.host : (g_peer[d.first].family == AF_INET ? "127.0.0.1" : "::1");
    if (!rawSendAndWait(d.first, host, la.port, lfd, d.second)) return -3;
    if (!d.second.empty()) g_gniByFd[lfd].push_back(fails[i]);            // one key() call per non-empty datagram read
  }
  return lfd;
}
static int prepCdg(unsigned long long sid, const std::string& spec)
{
  std::vector<vh::Bytes> dgs;
  std::stringstream ss(spec);
  std::string item;
  while (std::getline(ss, item, ','))
  {
    vh::Bytes pl;
    if (!expand(item, pl)) return -2;
    dgs.push_back(std::move(pl));
  }
  int cfd = clientFd(sid);
  auto cp = W.clientPeer.find((SessionId)sid);
  if (cfd < 0 || cp == W.clientPeer.end()) return -1;
  if (dgs.size() > g_maxBurst) g_maxBurst = dgs.size();
  for (auto& d : dgs) if (d.empty()) ++g_zeroLenArrivals;
  auto la = W.eng->getLocalAddress((SessionId)sid);
  for (auto& d : dgs)
    if (!rawSendAndWait(cp->second, la.host, la.port, cfd, d)) return -3;
  return cfd;
}
// one API call that enqueues a command; returns "" on success, else the answer to give
static std::vector<std::pair<SessionId, int>> g_newClients;   // connect() ids whose local address is recorded after the step
static std::string enqueueCmd(const std::vector<std::string>& t)
{
  UdpEngine& e = *W.eng;
  unsigned long long a = 0, b = 0;
  // an address id: 0..7 = peer k as it is; 10..16 = the v4-mapped form of IPv4 peer k-10
  auto addrOf = [](unsigned long long id, std::string& host, int& port) -> bool {
    if (id < (unsigned)kPeers) { host = g_peer[id].host; port = g_peer[id].port; return true; }
    if (id >= 10 && id < 17) { host = "::ffff:" + g_peer[id - 10].host; port = g_peer[id - 10].port; return true; }
    return false;
  };
  std::string host; int port = 0;
  if (t.size() == 2 && t[0] == "connect" && vh::parseNat(t[1], a) && addrOf(a, host, port))
  {
    auto r = e.connect(host, (std::uint16_t)port, iora::network::TlsMode::None);
    if (!r.isOk()) return "connect-refused";
    g_newClients.emplace_back(r.value(), (int)(a >= 10 ? a - 10 : a));
    return "";
  }
  if ((t.size() == 3 || (t.size() == 4 && t[3] == "!")) && t[0] == "via" && vh::parseNat(t[1], a) && vh::parseNat(t[2], b) && addrOf(b, host, port))
  {
    bool real_l = a >= 1 && a <= W.lids.size();
    if (b >= 10 && real_l && W.lfam[a - 1] == AF_INET6) return "bad-op";      // a v4-mapped target on a socket bound to ::1 creates a session that cannot send
    iora::network::ListenerId real = real_l ? W.lids[a - 1] : (iora::network::ListenerId)(1000000 + a);
    auto r = e.connectViaListener(real, host, (std::uint16_t)port);
    if (!r.isOk()) return "via-refused";
    // key() is called only if viaDo gets as far as the target address: listener found and family matches
    bool reaches = real_l && W.eng->_listeners.count(W.lids[a - 1]) &&
                   ((b >= 7) == (W.lfam[a - 1] != AF_INET));
    if (reaches) g_gniByFd[W.eng->_eventFd].push_back(t.size() == 4);
    return "";
  }
  if (t.size() == 2 && t[0] == "close" && vh::parseNat(t[1], a))
    return e.close((SessionId)a) ? "" : "close-refused";
  if (t.size() == 4 && t[0] == "send" && vh::parseNat(t[1], a))
  {
    vh::Bytes pl;
    if (!expand(t[2], pl)) return "bad-op";
    char ans = t[3] == "ok" ? 'o' : t[3] == "eagain" ? 'e' : t[3] == "err" ? 'x' : 0;
    if (!ans) return "bad-op";
    if (pl.empty()) { (void)e.send((SessionId)a, pl.data(), 0); return ""; }     // accepted, nothing queued
    g_keyed.push_back(Keyed{pl.size(), crc32(pl.data(), pl.size()), ans, false});
    if (pl.size() % 2 == 1)
    {
      // the other entry point of the same API: sendAsync() (one send() call + a completion callback on the caller's thread)
      bool okCb = false, called = false;
      std::size_t lenCb = 0;
      e.sendAsync((SessionId)a, pl.data(), pl.size(), [&](SessionId, const iora::network::SendResult& r) { called = true; okCb = r.isOk(); if (okCb) lenCb = r.value(); });
      ++g_sendAsyncCalls;
      if (!called) return "sendasync-no-completion";
      if (okCb && lenCb != pl.size()) return "sendasync-wrong-length";
      return okCb ? "" : "send-refused";
    }
    return e.send((SessionId)a, pl.data(), pl.size()) ? "" : "send-refused";
  }
  return "bad-op";
}
static void recordNewClients()
{
  for (auto& nc : g_newClients)
  {
    auto la = W.eng->getLocalAddress(nc.first);
    if (la.port) { W.srcName[la.host + ":" + std::to_string(la.port)] = "C" + std::to_string(nc.first); W.clientPeer[nc.first] = nc.second; }
  }
  g_newClients.clear();
}

// The key() calls of a batch happen in the order the loop handles its events: as delivered (loopUnbatched) or command/timer descriptors
// first (loopBatched). Turn the per-descriptor flags into that order.
static void orderGniScript(const std::vector<std::pair<int, std::uint32_t>>& evs)
{
  g_gniScript.clear();
  auto special = [](int fd) { return fd == W.eng->_eventFd || fd == W.eng->_timerFd; };
  for (int pass = 0; pass < 2; ++pass)
    for (auto& x : evs)
    {
      if (g_batched && special(x.first) != (pass == 0)) continue;
      if (!g_batched && pass == 1) continue;
      auto it = g_gniByFd.find(x.first);
      if (it != g_gniByFd.end() && (x.first == W.eng->_eventFd || (x.second & EPOLLIN)))
        for (bool b : it->second) g_gniScript.push_back(b);
    }
  g_gniByFd.clear();
}

// Level-triggered epoll reports a socket again as long as something is queued there; edge-triggered epoll does not. After the op's own
// wake-up, keep delivering EPOLLIN to each socket of the op while the kernel says it is readable (level-triggered engines only).
static bool redeliverLT(const std::vector<int>& fds)
{
  if (g_et) return true;
  for (int fd : fds)
    for (int round = 0; round < 400; ++round)
    {
      pollfd p{fd, POLLIN, 0};
      if (!armedIn(fd) || poll(&p, 1, 0) <= 0 || !(p.revents & POLLIN)) break;
      ++g_ltRedeliveries;
      if (!deliver(fd, EPOLLIN)) return false;
    }
  return true;
}

// which of runGc's tests would close a session now (first that holds, in the order of the source) — evidence only
static void classifyGc()
{
  UdpEngine& e = *W.eng;
  auto now = iora::network::MonoClock::now();
  for (auto& kv : e._sessions)
  {
    auto* s = kv.second.get();
    if (!s || s->closed) continue;
    if (e._config.idleTimeout.count() > 0 && (now - s->lastActivity) > e._config.idleTimeout) ++g_gcIdle;
    else if (e._config.maxConnAge.count() > 0 && (now - s->created) > e._config.maxConnAge) ++g_gcAge;
    else if (e._config.writeStallTimeout.count() > 0 && !s->wq.empty() && (now - s->lastWriteProgress) > e._config.writeStallTimeout) ++g_gcStall;
  }
}

static std::string doListen(int kind)    // 0 = 127.0.0.1, 1 = ::1, 2 = :: (dual-stack)
{
  UdpEngine& e = *W.eng;
  bool v6 = kind != 0;
  auto before = e._atomicStats.commands.load();
  auto fut = std::async(std::launch::async, [&e, kind] { return e.addListener(kind == 0 ? "127.0.0.1" : kind == 1 ? "::1" : "::", 0, iora::network::TlsMode::None); });
  long long t0 = realMs();
  while (e._atomicStats.commands.load() == before)
  {
    usleep(50);
    if (realMs() - t0 > kWatchdogMs) hang("listen-enqueue");
  }
  if (!deliver(e._eventFd, EPOLLIN)) hang("listen");
  auto r = fut.get();
  if (!r.isOk()) { g_machinery = v6 ? "cannot-bind-ipv6-loopback" : "cannot-bind-loopback"; return "machinery:" + g_machinery; }
  W.lids.push_back(r.value());
  W.lfam.push_back(kind == 0 ? AF_INET : kind == 1 ? AF_INET6 : AF_UNSPEC);
  auto la = e.getListenerAddress(r.value());
  W.srcName[la.host + ":" + std::to_string(la.port)] = "L" + std::to_string(W.lids.size());
  if (kind == 2) W.wildPort[la.port] = "L" + std::to_string(W.lids.size());
  g_log.clear();
  return "L" + std::to_string(W.lids.size()) + " | " + stateLine();
}

static std::vector<std::vector<std::string>> splitToks(const std::vector<std::string>& t, std::size_t from, const std::string& sep)
{
  std::vector<std::vector<std::string>> out(1);
  for (std::size_t i = from; i < t.size(); ++i)
  {
    if (t[i] == sep) out.emplace_back();
    else out.back().push_back(t[i]);
  }
  return out;
}


// ------------------------------------------------------------------------------------------------ free-running family (real epoll_wait)
// `free <burst N | zl | flush> [et=0|1]`: a fresh engine whose I/O thread runs on the REAL epoll (no fabricated events, real clock): the
// kernel decides what is reported and when. Monitors only (the plugin checks the answer; the model is not consulted).
//   burst N : N one-byte-header datagrams (distinct) from peer 0 to a listener while the I/O thread is busy (ONE readiness edge)  -> data events
//   zl      : a zero-length datagram and a 5-byte one behind it on a connect()ed session, queued during ONE edge; then a third one -> events before / after
//   flush   : a send on a ServerPeer session answered EAGAIN once (injected); real EPOLLOUT must flush it                          -> what the peer received
// Answer: `free <scenario> et=<e> | <events before> | <events after the extra datagram>`.
static std::mutex g_freeM;
static std::vector<std::string> g_freeLog;
static std::atomic<bool> g_freeBlock{false};
static void freeLog(const std::string& x) { std::lock_guard<std::mutex> g(g_freeM); g_freeLog.push_back(x); }
static std::string freeJoin()
{
  std::lock_guard<std::mutex> g(g_freeM);
  std::string a;
  for (auto& e : g_freeLog) { if (!a.empty()) a += ";"; a += e; }
  return a.empty() ? "-" : a;
}
static std::size_t freeCount(char k)
{
  std::lock_guard<std::mutex> g(g_freeM);
  std::size_t n = 0;
  for (auto& e : g_freeLog) if (e[0] == k) ++n;
  return n;
}
static void freeWait(const std::function<bool()>& done, int ms)
{
  long long t0 = realMs();
  while (!done() && realMs() - t0 < ms) usleep(2000);
}
static std::string doFree(const std::vector<std::string>& t)
{
  if (t.size() < 2) return "bad-op";
  stopEngine();
  drainPeers();
  TransportConfig cfg;
  cfg.protocol = iora::network::Protocol::UDP;
  unsigned long long N = 0;
  std::size_t i = 2;
  if (t[1] == "burst") { if (t.size() < 3 || !vh::parseNat(t[2], N) || N < 1 || N > 2000) return "bad-op"; i = 3; }
  else if (t[1] != "zl" && t[1] != "flush") return "bad-op";
  for (; i < t.size(); ++i)
  {
    if (t[i] == "et=0") cfg.useEdgeTriggered = false;
    else if (t[i] == "et=1") cfg.useEdgeTriggered = true;
    else return "bad-op";
  }
  g_virtual.store(false);
  { std::lock_guard<std::mutex> g(g_freeM); g_freeLog.clear(); }
  g_freeBlock.store(false);
  auto eng = std::make_unique<UdpEngine>(cfg);
  iora::network::detail::EngineBase::Callbacks cbs;
  cbs.onAccept = [](SessionId s, const TransportAddress&) { freeLog("A" + std::to_string(s)); };
  cbs.onConnect = [](SessionId s, const TransportAddress&) { freeLog("N" + std::to_string(s)); while (g_freeBlock.load()) usleep(500); };   // parks the I/O thread
  cbs.onData = [](SessionId s, iora::core::BufferView d, std::chrono::steady_clock::time_point) {
    freeLog("D" + std::to_string(s) + ":" + std::to_string(d.size()) + ":" + std::to_string(crc32(reinterpret_cast<const std::uint8_t*>(d.data()), d.size()))); };
  cbs.onClose = [](SessionId s, const TransportErrorInfo& inf) { freeLog("X" + std::to_string(s) + ":" + whyName(inf.code)); };
  cbs.onError = [](TransportError, const std::string&) { freeLog("E"); };
  eng->setCallbacks(cbs);
  if (!eng->start().isOk()) { g_machinery = "engine-start-failed"; return "machinery:" + g_machinery; }
  std::string head = "free " + t[1] + " et=" + (cfg.useEdgeTriggered ? "1" : "0");
  std::string before = "-", after = "-";
  auto toAddr = [](const TransportAddress& la, sockaddr_storage& ss, socklen_t& sl) { return mkAddr(la.host, la.port, ss, sl); };
  auto park = [&]() -> bool {          // park the I/O thread inside onConnect of a throw-away client session to peer 4
    g_freeBlock.store(true);
    auto r = eng->connect(g_peer[4].host, (std::uint16_t)g_peer[4].port, iora::network::TlsMode::None);
    if (!r.isOk()) return false;
    freeWait([&] { return freeCount('N') >= 1; }, 5000);
    return freeCount('N') >= 1;
  };
  if (t[1] == "burst")
  {
    auto lr = eng->addListener("127.0.0.1", 0, iora::network::TlsMode::None);
    if (!lr.isOk()) { eng->stop(); g_machinery = "cannot-bind-loopback"; return "machinery:" + g_machinery; }
    sockaddr_storage ss{}; socklen_t sl = 0;
    toAddr(eng->getListenerAddress(lr.value()), ss, sl);
    if (!park()) { g_freeBlock.store(false); eng->stop(); return head + " | park-failed | -"; }
    for (unsigned long long k = 0; k < N; ++k)
    {
      std::uint8_t b[2] = {(std::uint8_t)(k & 0xFF), (std::uint8_t)(k >> 8)};
      realSendto()(g_peer[0].fd, b, 2, 0, reinterpret_cast<sockaddr*>(&ss), sl);
    }
    usleep(20000);
    g_freeBlock.store(false);          // ONE readiness edge for the whole burst
    freeWait([&] { return freeCount('D') >= N; }, 3000);
    before = "data=" + std::to_string(freeCount('D')) + "/" + std::to_string(N);
    std::uint8_t x[1] = {0xEE};
    realSendto()(g_peer[0].fd, x, 1, 0, reinterpret_cast<sockaddr*>(&ss), sl);
    freeWait([&] { return freeCount('D') >= N + 1; }, 3000);
    after = "data=" + std::to_string(freeCount('D')) + "/" + std::to_string(N + 1);
  }
  else if (t[1] == "zl")
  {
    g_freeBlock.store(true);
    auto r = eng->connect(g_peer[1].host, (std::uint16_t)g_peer[1].port, iora::network::TlsMode::None);
    if (!r.isOk()) { g_freeBlock.store(false); eng->stop(); return head + " | connect-refused | -"; }
    SessionId sid = r.value();
    freeWait([&] { return eng->getLocalAddress(sid).port != 0 && freeCount('N') >= 1; }, 5000);     // the I/O thread is parked inside onConnect
    sockaddr_storage ss{}; socklen_t sl = 0;
    toAddr(eng->getLocalAddress(sid), ss, sl);
    realSendto()(g_peer[1].fd, "", 0, 0, reinterpret_cast<sockaddr*>(&ss), sl);
    realSendto()(g_peer[1].fd, "hello", 5, 0, reinterpret_cast<sockaddr*>(&ss), sl);
    usleep(20000);
    g_freeBlock.store(false);
    freeWait([&] { return freeCount('D') >= 2; }, 1500);
    before = freeJoin();
    realSendto()(g_peer[1].fd, "x", 1, 0, reinterpret_cast<sockaddr*>(&ss), sl);
    freeWait([&] { return freeCount('D') >= 3; }, 3000);
    after = freeJoin();
  }
  else
  {
    auto lr = eng->addListener("127.0.0.1", 0, iora::network::TlsMode::None);
    if (!lr.isOk()) { eng->stop(); g_machinery = "cannot-bind-loopback"; return "machinery:" + g_machinery; }
    sockaddr_storage ss{}; socklen_t sl = 0;
    toAddr(eng->getListenerAddress(lr.value()), ss, sl);
    realSendto()(g_peer[2].fd, "hi", 2, 0, reinterpret_cast<sockaddr*>(&ss), sl);
    freeWait([&] { return freeCount('A') >= 1; }, 3000);
    before = freeJoin();
    g_freeEagain.store(1);
    const char pay[] = "queued-then-flushed";
    eng->send(1, pay, sizeof(pay) - 1);
    std::vector<std::uint8_t> buf(2048);
    pollfd p{g_peer[2].fd, POLLIN, 0};
    std::string got = "nothing";
    if (poll(&p, 1, 3000) > 0)
    {
      ssize_t n = recv(g_peer[2].fd, buf.data(), buf.size(), MSG_DONTWAIT);
      got = n == (ssize_t)(sizeof(pay) - 1) && std::memcmp(buf.data(), pay, (size_t)n) == 0 ? "exact" : "other:" + std::to_string(n);
      usleep(20000);
      if (recv(g_peer[2].fd, buf.data(), buf.size(), MSG_DONTWAIT) >= 0) got += "+duplicate";
    }
    after = "peer-received=" + got + " eagainLeft=" + std::to_string(g_freeEagain.load());
    g_freeEagain.store(0);
  }
  g_freeBlock.store(false);
  eng->stop();
  eng.reset();
  drainPeers();
  return head + " | " + before + " | " + after;
}

static std::string step(const std::vector<std::string>& t)
{
  if (!g_machinery.empty()) return "machinery:" + g_machinery;
  if (t.empty()) return "bad-op";
  const std::string& op = t[0];
  static std::string opKeep;
  opKeep = op;
  g_opName.store(opKeep.c_str());
  if (op == "reset") return doReset(t);
  if (op == "free") return doFree(t);
  if (!W.eng) return "bad-op";
  UdpEngine& e = *W.eng;
  unsigned long long a = 0;
  if (op == "listen" && t.size() == 1) return doListen(0);
  if (op == "listen6" && t.size() == 1) return doListen(1);
  if (op == "listenD" && t.size() == 1) return doListen(2);
  if (op == "dg" && t.size() == 3 && vh::parseNat(t[1], a))
  {
    int fd = prepDg(a, t[2]);
    if (fd == -2) return "bad-op";
    if (fd == -3) return "machinery:" + g_machinery;
    if (fd >= 0 && armedIn(fd))     // a socket without EPOLLIN interest is never reported readable
    {
      orderGniScript({{fd, EPOLLIN}});
      if (!deliver(fd, EPOLLIN)) hang("dg");
      if (!redeliverLT({fd})) hang("dg");
    }
    return answer();
  }
  if (op == "cdg" && t.size() == 3 && vh::parseNat(t[1], a))
  {
    int fd = prepCdg(a, t[2]);
    if (fd == -2) return "bad-op";
    if (fd == -3) return "machinery:" + g_machinery;
    if (fd >= 0 && armedIn(fd))
    {
      if (!deliver(fd, EPOLLIN)) hang("cdg");
      if (!redeliverLT({fd})) hang("cdg");
    }
    return answer();
  }
  if (op == "connect" || op == "via" || op == "close" || op == "send")
  {
    bool emptySend = false;
    if (op == "send" && t.size() == 4) { vh::Bytes pl; if (expand(t[2], pl) && pl.empty()) emptySend = true; }
    std::string r = enqueueCmd(t);
    if (!r.empty()) { g_keyed.clear(); g_gniByFd.clear(); return r; }
    orderGniScript({{e._eventFd, EPOLLIN}});
    if (!emptySend && !deliver(e._eventFd, EPOLLIN)) hang(op);
    recordNewClients();
    return answer();
  }
  if ((op == "wl" || op == "wc") && t.size() == 3 && vh::parseNat(t[1], a))
  {
    if (!parseScript(t[2])) return "bad-op";
    int fd = op == "wl" ? listenerFd(a) : clientFd(a);
    if (fd >= 0 && armedOut(fd))
      if (!deliver(fd, EPOLLOUT)) hang(op);
    return answer();
  }
  if (op == "multi")
  {
    // build ONE epoll batch: events whose interest is armed NOW, one event per descriptor (IN|OUT merged), in the listed order
    std::vector<std::pair<int, std::uint32_t>> evs;
    auto add = [&evs](int fd, std::uint32_t bit) {
      for (auto& x : evs) if (x.first == fd) { x.second |= bit; return; }
      evs.emplace_back(fd, bit);
    };
    bool haveCmds = false, haveScript = false;
    for (auto& ev : splitToks(t, 1, ";"))
    {
      if (ev.empty()) return "bad-op";
      unsigned long long x = 0;
      if (ev[0] == "dg" && ev.size() == 3 && vh::parseNat(ev[1], x))
      {
        int fd = prepDg(x, ev[2]);
        if (fd == -2) return "bad-op";
        if (fd == -3) return "machinery:" + g_machinery;
        if (fd >= 0 && armedIn(fd)) add(fd, EPOLLIN);
      }
      else if (ev[0] == "cdg" && ev.size() == 3 && vh::parseNat(ev[1], x))
      {
        int fd = prepCdg(x, ev[2]);
        if (fd == -2) return "bad-op";
        if (fd == -3) return "machinery:" + g_machinery;
        if (fd >= 0 && armedIn(fd)) add(fd, EPOLLIN);
      }
      else if ((ev[0] == "wl" || ev[0] == "wc") && ev.size() == 3 && vh::parseNat(ev[1], x))
      {
        if (haveScript || !parseScript(ev[2])) return "bad-op";       // one positional flush script per batch
        haveScript = true;
        int fd = ev[0] == "wl" ? listenerFd(x) : clientFd(x);
        if (fd >= 0 && armedOut(fd)) add(fd, EPOLLOUT);
        else g_script.clear();
      }
      else if (ev[0] == "gc" && ev.size() == 1) add(e._timerFd, EPOLLIN);
      else if (ev[0] == "cmds")
      {
        if (haveCmds) return "bad-op";
        haveCmds = true;
        // connect()/connectViaListener() allocate the session id at the CALL; the model allocates when the command is processed. The two
        // agree as long as nothing is accepted in between, so a command event that allocates ids must be the first event of its batch.
        bool allocates = false;
        for (auto& x : ev) if (x == "connect" || x == "via") allocates = true;
        if (allocates && !evs.empty()) return "bad-op";
        for (auto& c : splitToks(ev, 1, "/"))
        {
          std::string r = enqueueCmd(c);
          if (!r.empty()) { g_keyed.clear(); return r; }
        }
        add(e._eventFd, EPOLLIN);
      }
      else return "bad-op";
    }
    orderGniScript(evs);
    std::vector<int> inFds;
    for (auto& x : evs)
    {
      if ((x.second & EPOLLIN) && x.first != e._eventFd && x.first != e._timerFd) inFds.push_back(x.first);
      if ((x.second & EPOLLIN) && (x.second & EPOLLOUT)) ++g_mergedInOut;
    }
    for (auto& x : evs) if (x.first == e._timerFd) classifyGc();
    if (!evs.empty() && !deliverMany(evs)) hang("multi");
    if (!redeliverLT(inFds)) hang("multi");
    recordNewClients();
    return answer();
  }
  if (op == "adv" && t.size() == 2 && vh::parseNat(t[1], a))
  {
    g_vms.fetch_add((long long)a);
    return answer();
  }
  if (op == "restart")
  {
    // stop(): the Shutdown command is the only event the loop sees (no real epoll readiness), then shutdownDrain; then start().
    //   restart <cmd> / <cmd> …        : the commands (send | close) are enqueued BEFORE stop(): they sit in front of Shutdown in the ONE batch
    //                                     process() takes, and are all executed (a Shutdown command does not end the batch)
    //   restart @<sid> <cmd> / <cmd> … : `close <sid>` is enqueued before stop(); the commands are enqueued by the onClose callback of <sid>
    //                                     (on the I/O thread, while that batch is being processed): they are executed by the LEADING
    //                                     process() of shutdownDrain — after the loop has ended, before the sessions are closed
    g_opStartMs.store(realMs());
    g_onCloseHook = nullptr;
    std::function<void()> hook;
    if (t.size() > 1)
    {
      std::size_t from = 1;
      unsigned long long hookSid = 0;
      bool viaCallback = t[1].size() > 1 && t[1][0] == '@';
      if (viaCallback) { if (!vh::parseNat(t[1].substr(1), hookSid)) return "bad-op"; from = 2; }
      auto cmds = splitToks(t, from, "/");
      for (auto& c : cmds) if (c.empty() || (c[0] != "send" && c[0] != "close")) return "bad-op";
      if (viaCallback)
      {
        ++g_restartFromCallback;
        g_hookSid = (SessionId)hookSid;
        g_hookCmds = cmds;
        g_onCloseHook = [](SessionId s) {
          if (s != g_hookSid) return;
          auto cmds = g_hookCmds;
          g_hookCmds.clear();
          for (auto& c : cmds) (void)enqueueCmd(c);
        };
        if (!e.close((SessionId)hookSid)) { g_onCloseHook = nullptr; return "close-refused"; }
      }
      else
      {
        ++g_restartPending;
        for (auto& c : cmds) { std::string r = enqueueCmd(c); if (!r.empty()) { g_keyed.clear(); return r; } }
      }
    }
    auto before = e._atomicStats.commands.load();
    auto fut = std::async(std::launch::async, [&e] { e.stop(); return 0; });
    while (e._atomicStats.commands.load() == before) usleep(50);
    deliverNoWait(e._eventFd, EPOLLIN);
    fut.get();                                           // joined: the close callbacks of shutdownDrain are in g_log
    g_onCloseHook = nullptr;
    g_hookCmds.clear();
    std::string evsText = collect();                     // (receipts are named from W.srcName: collect before it is cleared)
    { std::lock_guard<std::mutex> lk(g_m); g_parked = false; g_go = false; g_deliver.clear(); }
    { std::lock_guard<std::mutex> g(g_maskM); g_mask.clear(); }
    W.srcName.clear();
    W.wildPort.clear();
    W.clientPeer.clear();
    auto sr = e.start();
    if (!sr.isOk()) { g_machinery = "engine-restart-failed"; return "machinery:" + g_machinery; }
    waitParked();
    g_opStartMs.store(0);
    std::string rest = answer();                         // "<later events> | <state>"
    if (rest.rfind("- | ", 0) == 0) return evsText + rest.substr(1);
    return (evsText == "-" ? "" : evsText + ";") + rest;
  }
  if (op == "gc" && t.size() == 1)
  {
    classifyGc();
    if (!deliver(e._timerFd, EPOLLIN)) hang("gc");
    return answer();
  }
  return "bad-op";
}

int main()
{
  g_main = pthread_self();
  signal(SIGPIPE, SIG_IGN);
  if (!initPeers()) g_machinery = "cannot-bind-loopback-peers(127.0.0.1/127.0.0.2/::1)";
  if (std::getenv("C06_FORCE_MACHINERY_FAILURE")) g_machinery = "forced-by-environment";   // self-test of the exit-2 path
  std::thread(watchdogMain).detach();
  int rc = vh::runLines([](const std::vector<std::string>& t) -> std::string {
    try { return step(t); }
    catch (const std::exception& ex) { return std::string("throw ") + typeid(ex).name(); }
    catch (...) { return "throw ?"; }
  });
  stopEngine();
  std::fprintf(stderr, "interposers: parks=%lu sendCalls=%lu eagain=%lu err=%lu forwarded=%lu kernelRefused=%lu unscripted=%lu lostReceipts=%d getnameinfo=%lu getnameinfoFailed=%lu "
               "epollCtlFailed=%lu ltRedeliveries=%lu overflowClose=%lu overflowDropOldest=%lu gcIdle=%lu gcAge=%lu gcStall=%lu mergedInOut=%lu zeroLenArrivals=%lu maxBurst=%lu samePortFallback=%lu sendAsyncCalls=%lu restartWithPending=%lu restartFromCallback=%lu\n",
               g_parks, g_sendCalls, g_injectedEagain, g_injectedErr, g_forwarded, g_kernelRefused, g_unkeyed, g_lost, g_gniCalls, g_gniFailed,
               g_ctlFailed, g_ltRedeliveries, g_ovClose, g_ovDropOldest, g_gcIdle, g_gcAge, g_gcStall, g_mergedInOut, g_zeroLenArrivals, g_maxBurst, g_samePortFallback, g_sendAsyncCalls, g_restartPending, g_restartFromCallback);
  return rc;
}
