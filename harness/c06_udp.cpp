// Correspondence harness for C06 (UDP datagram boundaries and the peer-to-session mapping): the REAL iora::network::UdpEngine
// with its REAL I/O thread and REAL UDP sockets on loopback, single-stepped.
//
// Interposers inside this executable (DESIGN §3.1):
//   * epoll_wait      -> the engine's I/O thread parks here; every op hands it exactly ONE event (the command eventfd, EPOLLIN on a
//                        listener / client socket, EPOLLOUT on a socket whose recorded interest mask has EPOLLOUT, the GC timer fd)
//                        and waits until the thread is parked again.  The run is therefore deterministic and each op is atomic,
//                        exactly like one step of the Lean model (Model/UdpEngine.lean).
//   * sendto / send   -> calls made by the I/O thread are answered from the op's script: `o` forward to the kernel (the raw peer
//                        really receives the datagram), `e` EAGAIN, `x` a hard error (EPERM); default `o`.
//   * epoll_ctl       -> forwarded; the interest mask per fd is recorded (is EPOLLOUT armed?).
//   * clock_gettime   -> CLOCK_MONOTONIC is virtual (moves only by `adv <ms>`), so idle expiry is exact.
// Up to 8 raw UDP sockets ("peers", bound to 127.0.0.1:0) talk to the engine; what they receive (bytes, source) is what the
// `S...` events print — i.e. the datagram as it arrived, not as it was handed to send().
//
// Ops (one answer line each: `<events> | <state>`):
//   reset [ms=N] [wq=N] [cob=0|1] [idle=S] [age=S] [stall=MS] [chunk=N] [batch=0|1] [et=0|1]     fresh engine
//   listen                      addListener("127.0.0.1", 0)                   -> L<lid>
//   dg <lid> <p>:<pl>[,<p>:<pl>…]   peers send to listener lid, then ONE EPOLLIN on it
//   cdg <sid> <pl>[,<pl>…]      the connected peer of client session sid sends to it, then ONE EPOLLIN on its socket
//   connect <p> | via <lid> <p> | close <sid> | send <sid> <pl> <ok|eagain|err>
//   wl <lid> <script> | wc <sid> <script>    EPOLLOUT on the listener / client socket (only if armed), script over o/e/x or `-`
//   adv <ms> | gc | restart (stop() + start() of the same engine object)
// payload token <pl> = <len>.<hexpattern> (pattern repeated cyclically).  Events: A<sid>@<p> accept, N<sid>@<p> connected,
// D<sid>:<len>:<crc32> data, X<sid>:<why> closed, E error(Socket), S<L<lid>|C<sid>>><p>:<len>:<crc32> datagram received by peer p.
// State: n=<sessionsCurrent> ix=<p>><sid>,… s=<sid>c@<p>:<wq>:<wantWrite>|<sid>p@<p>/<owner>,… l=L<lid>:<wq>:<wantWrite>,…
// A failure of the machinery (cannot bind, kernel did not deliver a loopback datagram) prints `machinery:<why>`; the plugin
// turns that into exit code 2, never into a VIOLATION.  An I/O thread that does not come back within the watchdog is `hang`.
#include <algorithm>
#include <arpa/inet.h>
#include <atomic>
#include <cerrno>
#include <chrono>
#include <condition_variable>
#include <cstdint>
#include <cstdio>
#include <cstdlib>
#include <cstring>
#include <deque>
#include <dlfcn.h>
#include <functional>
#include <future>
#include <map>
#include <memory>
#include <mutex>
#include <netinet/in.h>
#include <optional>
#include <poll.h>
#include <pthread.h>
#include <set>
#include <sstream>
#include <string>
#include <sys/epoll.h>
#include <sys/ioctl.h>
#include <sys/socket.h>
#include <sys/syscall.h>
#include <sys/types.h>
#include <thread>
#include <time.h>
#include <unistd.h>
#include <unordered_map>
#include <vector>
#include <shared_mutex>
#include <csignal>
#include <cassert>
#include <netdb.h>
#include <fcntl.h>
#include <sys/eventfd.h>
#include <sys/timerfd.h>
#include <utility>
#define private public
#define protected public
#include "iora/network/detail/udp_engine.hpp"
#undef private
#undef protected
#include "common/lineproto.hpp"

using iora::network::SessionId;
using iora::network::TransportAddress;
using iora::network::TransportConfig;
using iora::network::TransportError;
using iora::network::TransportErrorInfo;
using iora::network::UdpEngine;

// ------------------------------------------------------------------------------------------------ real clock / virtual clock
static std::atomic<long long> g_vms{0};
static std::atomic<bool> g_virtual{false};
static const long long kBaseNs = 100000LL * 1000000000LL;
extern "C" int clock_gettime(clockid_t c, struct timespec* ts)
{
  if (c == CLOCK_MONOTONIC && g_virtual.load(std::memory_order_acquire))
  {
    long long t = kBaseNs + g_vms.load(std::memory_order_acquire) * 1000000LL;
    ts->tv_sec = t / 1000000000LL;
    ts->tv_nsec = t % 1000000000LL;
    return 0;
  }
  return (int)syscall(SYS_clock_gettime, c, ts);
}
static long long realMs()
{
  struct timespec ts;
  syscall(SYS_clock_gettime, CLOCK_MONOTONIC, &ts);
  return ts.tv_sec * 1000LL + ts.tv_nsec / 1000000LL;
}

// ------------------------------------------------------------------------------------------------ stepping the I/O thread
static std::mutex g_m;
static std::condition_variable g_cv;
static bool g_step = false, g_parked = false, g_go = false;
static std::atomic<bool> g_stepA{false};            // lock-free copy of g_step for the send interposers
static std::vector<epoll_event> g_deliver;
static pthread_t g_main;                              // helper threads (addListener / stop callers) never reach an interposer
static unsigned long g_parks = 0;

extern "C" int epoll_wait(int epfd, struct epoll_event* ev, int maxev, int timeout)
{
  {
    std::unique_lock<std::mutex> lk(g_m);
    if (g_step && !pthread_equal(pthread_self(), g_main))
    {
      g_parked = true;
      ++g_parks;
      g_cv.notify_all();
      g_cv.wait(lk, [] { return g_go || !g_step; });
      g_parked = false;
      if (g_step)
      {
        g_go = false;
        int n = 0;
        for (auto& e : g_deliver)
          if (n < maxev) ev[n++] = e;
        g_deliver.clear();
        return n;
      }
    }
  }
#ifdef SYS_epoll_wait
  return (int)syscall(SYS_epoll_wait, epfd, ev, maxev, timeout);
#else
  return (int)syscall(SYS_epoll_pwait, epfd, ev, maxev, timeout, nullptr, 0);
#endif
}

static const int kWatchdogMs = 30000;   // an order of magnitude above anything observed (a step takes < 1 ms)
static const int kKernelMs = 10000;

// Watchdog: a thread on the REAL clock. If one op keeps the I/O thread away from epoll_wait for kWatchdogMs, the engine hangs.
static std::atomic<long long> g_opStartMs{0};       // 0 = no step in flight
static std::atomic<const char*> g_opName{"?"};
static void watchdogMain()
{
  for (;;)
  {
    usleep(100000);
    long long t0 = g_opStartMs.load();
    if (t0 != 0 && realMs() - t0 > kWatchdogMs)
    {
      std::printf("hang:%s\n", g_opName.load());
      std::fflush(stdout);
      _exit(3);
    }
  }
}

static bool waitParked()
{
  std::unique_lock<std::mutex> lk(g_m);
  g_cv.wait(lk, [] { return g_parked && !g_go; });   // untimed: the watchdog thread bounds it
  return true;
}

// Hand the parked I/O thread one event WITHOUT waiting for it to come back (used for the Shutdown command: the thread exits).
static void deliverNoWait(int fd, std::uint32_t events)
{
  waitParked();
  {
    std::lock_guard<std::mutex> lk(g_m);
    epoll_event e{};
    e.events = events;
    e.data.fd = fd;
    g_deliver.push_back(e);
    g_go = true;
  }
  g_cv.notify_all();
}

static bool deliver(int fd, std::uint32_t events)
{
  g_opStartMs.store(realMs());
  struct Done { ~Done() { g_opStartMs.store(0); } } done;
  if (!waitParked()) return false;
  {
    std::lock_guard<std::mutex> lk(g_m);
    epoll_event e{};
    e.events = events;
    e.data.fd = fd;
    g_deliver.push_back(e);
    g_go = true;
  }
  g_cv.notify_all();
  return waitParked();
}

// ------------------------------------------------------------------------------------------------ recorded epoll interest
static std::mutex g_maskM;
static std::map<int, std::uint32_t> g_mask;
typedef int (*epoll_ctl_t)(int, int, int, struct epoll_event*);
extern "C" int epoll_ctl(int epfd, int op, int fd, struct epoll_event* ev)
{
  static epoll_ctl_t real = (epoll_ctl_t)dlsym(RTLD_NEXT, "epoll_ctl");
  {
    std::lock_guard<std::mutex> g(g_maskM);
    if (op == EPOLL_CTL_DEL) g_mask.erase(fd);
    else if (ev) g_mask[fd] = ev->events;
  }
  return real(epfd, op, fd, ev);
}
static bool armedOut(int fd)
{
  std::lock_guard<std::mutex> g(g_maskM);
  auto it = g_mask.find(fd);
  return it != g_mask.end() && (it->second & EPOLLOUT);
}

// ------------------------------------------------------------------------------------------------ crc32
static std::uint32_t crc32(const std::uint8_t* p, std::size_t n)
{
  static std::uint32_t tab[256];
  static bool init = false;
  if (!init)
  {
    for (std::uint32_t i = 0; i < 256; ++i)
    {
      std::uint32_t c = i;
      for (int k = 0; k < 8; ++k) c = (c & 1) ? (c >> 1) ^ 0xEDB88320u : c >> 1;
      tab[i] = c;
    }
    init = true;
  }
  std::uint32_t c = 0xFFFFFFFFu;
  for (std::size_t i = 0; i < n; ++i) c = tab[(c ^ p[i]) & 0xFF] ^ (c >> 8);
  return c ^ 0xFFFFFFFFu;
}

// ------------------------------------------------------------------------------------------------ event log (I/O thread writes, main reads when parked)
struct Ev
{
  std::string text;
  bool isSent{false};
  int destPort{0};
};
static std::vector<Ev> g_log;
static std::deque<char> g_script;
static unsigned long g_sendCalls = 0, g_injectedEagain = 0, g_injectedErr = 0, g_forwarded = 0, g_kernelRefused = 0;

static int portOf(const sockaddr* sa)
{
  if (sa && sa->sa_family == AF_INET) return ntohs(reinterpret_cast<const sockaddr_in*>(sa)->sin_port);
  if (sa && sa->sa_family == AF_INET6) return ntohs(reinterpret_cast<const sockaddr_in6*>(sa)->sin6_port);
  return 0;
}

typedef ssize_t (*sendto_t)(int, const void*, size_t, int, const struct sockaddr*, socklen_t);
typedef ssize_t (*send_t)(int, const void*, size_t, int);
static sendto_t realSendto() { static sendto_t f = (sendto_t)dlsym(RTLD_NEXT, "sendto"); return f; }
static send_t realSend() { static send_t f = (send_t)dlsym(RTLD_NEXT, "send"); return f; }

static int scripted(size_t n)   // 0 forward, 1 EAGAIN, 2 error
{
  ++g_sendCalls;
  char a = 'o';
  if (!g_script.empty()) { a = g_script.front(); g_script.pop_front(); }
  if (n > 65507) return 0;   // the kernel checks the size before anything else (EMSGSIZE): let it say so itself
  if (a == 'e') { ++g_injectedEagain; return 1; }
  if (a == 'x') { ++g_injectedErr; return 2; }
  return 0;
}

extern "C" ssize_t sendto(int fd, const void* buf, size_t n, int flags, const struct sockaddr* to, socklen_t tl)
{
  bool engine = g_stepA.load(std::memory_order_acquire) && !pthread_equal(pthread_self(), g_main);
  if (!engine) return realSendto()(fd, buf, n, flags, to, tl);
  int a = scripted(n);
  if (a == 1) { errno = EAGAIN; return -1; }
  if (a == 2) { errno = EPERM; return -1; }
  ssize_t r = realSendto()(fd, buf, n, flags, to, tl);
  if (r >= 0)
  {
    ++g_forwarded;
    Ev e; e.isSent = true; e.destPort = portOf(to);
    g_log.push_back(e);
  }
  else ++g_kernelRefused;
  return r;
}

extern "C" ssize_t send(int fd, const void* buf, size_t n, int flags)
{
  bool engine = g_stepA.load(std::memory_order_acquire) && !pthread_equal(pthread_self(), g_main);
  if (!engine) return realSend()(fd, buf, n, flags);
  int a = scripted(n);
  if (a == 1) { errno = EAGAIN; return -1; }
  if (a == 2) { errno = EPERM; return -1; }
  ssize_t r = realSend()(fd, buf, n, flags);
  if (r >= 0)
  {
    ++g_forwarded;
    sockaddr_storage ss{}; socklen_t sl = sizeof(ss);
    getpeername(fd, reinterpret_cast<sockaddr*>(&ss), &sl);
    Ev e; e.isSent = true; e.destPort = portOf(reinterpret_cast<sockaddr*>(&ss));
    g_log.push_back(e);
  }
  else ++g_kernelRefused;
  return r;
}

// ------------------------------------------------------------------------------------------------ the world
static const int kPeers = 8;
static int g_peerFd[kPeers];
static int g_peerPort[kPeers];
static std::map<int, int> g_portToPeer;
static std::string g_machinery;           // non-empty: the machinery failed; every further answer repeats it

struct World
{
  std::unique_ptr<UdpEngine> eng;
  std::vector<iora::network::ListenerId> lids;     // case-level listener number (1-based) -> real id
  std::map<int, std::string> srcName;              // local port of an engine socket -> L<lid> / C<sid>
  std::map<SessionId, int> clientPeer;             // client session -> peer index it is connected to
};
static World W;

static const char* whyName(TransportError e)
{
  switch (e)
  {
  case TransportError::Unknown: return "unknown";
  case TransportError::GCClosed: return "gc";
  case TransportError::WriteBackpressure: return "backpressure";
  case TransportError::Socket: return "socket";
  case TransportError::Config: return "config";
  case TransportError::Resolve: return "resolve";
  case TransportError::Connect: return "connect";
  case TransportError::Bind: return "bind";
  default: return "other";
  }
}

static std::string peerName(int port)
{
  auto it = g_portToPeer.find(port);
  if (it != g_portToPeer.end()) return std::to_string(it->second);
  return "?" ;
}

static bool initPeers()
{
  for (int i = 0; i < kPeers; ++i)
  {
    int fd = socket(AF_INET, SOCK_DGRAM | SOCK_CLOEXEC, 0);
    if (fd < 0) return false;
    int big = 4 * 1024 * 1024;
    setsockopt(fd, SOL_SOCKET, SO_RCVBUF, &big, sizeof(big));
    sockaddr_in me{};
    me.sin_family = AF_INET;
    me.sin_addr.s_addr = htonl(INADDR_LOOPBACK);
    if (bind(fd, reinterpret_cast<sockaddr*>(&me), sizeof(me)) != 0) return false;
    socklen_t sl = sizeof(me);
    if (getsockname(fd, reinterpret_cast<sockaddr*>(&me), &sl) != 0) return false;
    g_peerFd[i] = fd;
    g_peerPort[i] = ntohs(me.sin_port);
    g_portToPeer[g_peerPort[i]] = i;
  }
  return true;
}

static void drainPeers()
{
  std::vector<std::uint8_t> buf(70000);
  for (int i = 0; i < kPeers; ++i)
    while (recv(g_peerFd[i], buf.data(), buf.size(), MSG_DONTWAIT) >= 0) {}
}

static void stopEngine()
{
  if (!W.eng) return;
  { std::lock_guard<std::mutex> lk(g_m); g_step = false; g_stepA.store(false); }
  g_cv.notify_all();
  W.eng->stop();
  W.eng.reset();
  { std::lock_guard<std::mutex> g(g_maskM); g_mask.clear(); }
  W.lids.clear();
  W.srcName.clear();
  W.clientPeer.clear();
  g_log.clear();
  g_script.clear();
}

static bool expand(const std::string& tok, vh::Bytes& out)
{
  auto dot = tok.find('.');
  if (dot == std::string::npos) return false;
  unsigned long long n;
  vh::Bytes pat;
  if (!vh::parseNat(tok.substr(0, dot), n) || !vh::ofHex(tok.substr(dot + 1), pat)) return false;
  out.clear();
  if (n == 0) return true;
  if (pat.empty() || n > 200000) return false;
  out.resize(n);
  for (std::size_t i = 0; i < n; ++i) out[i] = pat[i % pat.size()];
  return true;
}

// socket receive-queue occupancy (bytes of skb memory), to know that a loopback datagram has really been queued
static long rmem(int fd)
{
  std::uint32_t v[16] = {0};
  socklen_t sl = sizeof(v);
  if (getsockopt(fd, SOL_SOCKET, SO_MEMINFO, v, &sl) != 0) return -1;
  return (long)v[0];   // SK_MEMINFO_RMEM_ALLOC
}

static bool rawSendAndWait(int peer, int toPort, int dstFd, const vh::Bytes& pl)
{
  sockaddr_in to{};
  to.sin_family = AF_INET;
  to.sin_port = htons((std::uint16_t)toPort);
  to.sin_addr.s_addr = htonl(INADDR_LOOPBACK);
  long before = rmem(dstFd);
  ssize_t r = realSendto()(g_peerFd[peer], pl.data(), pl.size(), 0, reinterpret_cast<sockaddr*>(&to), sizeof(to));
  if (r != (ssize_t)pl.size()) { g_machinery = "raw-sendto-failed:" + std::to_string(errno); return false; }
  long long t0 = realMs();
  for (;;)
  {
    long now = rmem(dstFd);
    if (before < 0 || now < 0)
    {
      pollfd p{dstFd, POLLIN, 0};
      if (poll(&p, 1, kKernelMs) > 0) return true;
      g_machinery = "loopback-datagram-not-delivered";
      return false;
    }
    if (now > before) return true;
    if (realMs() - t0 > kKernelMs) { g_machinery = "loopback-datagram-not-queued(rcvbuf?)"; return false; }
    usleep(50);
  }
}

// Collect what happened during the last step(s): callbacks and forwarded sends in I/O-thread order; every forwarded send is
// printed from the datagram the raw peer actually RECEIVED.
static std::string collect()
{
  std::map<int, std::deque<std::string>> receipts;    // peer port -> receipts in arrival order
  std::map<int, int> expect;
  for (auto& e : g_log)
    if (e.isSent) expect[e.destPort]++;
  std::vector<std::uint8_t> buf(70000);
  for (auto& kv : expect)
  {
    auto pit = g_portToPeer.find(kv.first);
    if (pit == g_portToPeer.end()) continue;          // sent to something that is not one of our peers
    int fd = g_peerFd[pit->second];
    for (int k = 0; k < kv.second; ++k)
    {
      pollfd p{fd, POLLIN, 0};
      if (poll(&p, 1, kKernelMs) <= 0) break;
      sockaddr_in from{}; socklen_t fl = sizeof(from);
      ssize_t n = recvfrom(fd, buf.data(), buf.size(), MSG_DONTWAIT, reinterpret_cast<sockaddr*>(&from), &fl);
      if (n < 0) break;
      auto sn = W.srcName.find(ntohs(from.sin_port));
      std::string src = sn == W.srcName.end() ? "?" : sn->second;
      receipts[kv.first].push_back("S" + src + ">" + peerName(kv.first) + ":" + std::to_string(n) + ":" + std::to_string(crc32(buf.data(), (size_t)n)));
    }
  }
  std::vector<std::string> out;
  std::vector<std::string> closes;    // consecutive close events are sorted (GC closes in hash order)
  auto flushCloses = [&] { std::sort(closes.begin(), closes.end(), [](const std::string& a, const std::string& b) {
                               return std::stoul(a.substr(1)) < std::stoul(b.substr(1)); });
                           for (auto& c : closes) out.push_back(c); closes.clear(); };
  for (auto& e : g_log)
  {
    if (!e.isSent)
    {
      if (e.text[0] == 'X') { closes.push_back(e.text); continue; }
      flushCloses();
      out.push_back(e.text);
      continue;
    }
    flushCloses();
    auto& q = receipts[e.destPort];
    if (q.empty()) out.push_back("S?lost>" + peerName(e.destPort));
    else { out.push_back(q.front()); q.pop_front(); }
  }
  flushCloses();
  // anything else sitting in a peer socket was never handed to the kernel by a send we saw: a duplicate / phantom datagram
  for (int i = 0; i < kPeers; ++i)
  {
    for (;;)
    {
      sockaddr_in from{}; socklen_t fl = sizeof(from);
      ssize_t n = recvfrom(g_peerFd[i], buf.data(), buf.size(), MSG_DONTWAIT, reinterpret_cast<sockaddr*>(&from), &fl);
      if (n < 0) break;
      out.push_back("S?extra>" + std::to_string(i) + ":" + std::to_string(n) + ":" + std::to_string(crc32(buf.data(), (size_t)n)));
    }
  }
  g_log.clear();
  if (out.empty()) return "-";
  std::string s;
  for (std::size_t i = 0; i < out.size(); ++i) { if (i) s += ";"; s += out[i]; }
  return s;
}

static int lidNumber(iora::network::ListenerId real)
{
  for (std::size_t i = 0; i < W.lids.size(); ++i)
    if (W.lids[i] == real) return (int)i + 1;
  return 0;
}

static std::string stateLine()
{
  UdpEngine& e = *W.eng;
  std::ostringstream o;
  o << "n=" << e._atomicStats.sessionsCurrent.load() << " ix=";
  std::vector<std::pair<std::string, SessionId>> ix;
  for (auto& kv : e._peerIndex)
  {
    auto c = kv.first.rfind(':');
    int port = c == std::string::npos ? 0 : std::atoi(kv.first.c_str() + c + 1);
    ix.emplace_back(peerName(port), kv.second);
  }
  std::sort(ix.begin(), ix.end(), [](auto& a, auto& b) { return std::atoi(a.first.c_str()) < std::atoi(b.first.c_str()); });
  for (std::size_t i = 0; i < ix.size(); ++i) o << (i ? "," : "") << ix[i].first << ">" << ix[i].second;
  o << " s=";
  std::vector<SessionId> sids;
  for (auto& kv : e._sessions) sids.push_back(kv.first);
  std::sort(sids.begin(), sids.end());
  bool first = true;
  for (auto sid : sids)
  {
    auto* s = e._sessions[sid].get();
    if (!first) o << ",";
    first = false;
    if (!s) { o << sid << "NULL"; continue; }
    if (s->role == iora::network::Role::ClientConnected)
    {
      sockaddr_storage ss{}; socklen_t sl = sizeof(ss);
      int port = 0;
      if (getpeername(s->fd, reinterpret_cast<sockaddr*>(&ss), &sl) == 0) port = portOf(reinterpret_cast<sockaddr*>(&ss));
      o << sid << "c@" << peerName(port) << ":" << s->wq.size() << ":" << (s->wantWrite ? 1 : 0);
    }
    else
    {
      auto c = s->pkey.rfind(':');
      int port = c == std::string::npos ? 0 : std::atoi(s->pkey.c_str() + c + 1);
      o << sid << "p@" << peerName(port) << "/" << lidNumber(s->owner);
    }
  }
  o << " l=";
  bool firstL = true;
  for (std::size_t i = 0; i < W.lids.size(); ++i)
  {
    auto it = e._listeners.find(W.lids[i]);
    if (it == e._listeners.end()) continue;            // closed by a restart
    if (!firstL) o << ",";
    firstL = false;
    o << "L" << (i + 1) << ":" << it->second->wq.size() << ":" << (it->second->wantWrite ? 1 : 0);
  }
  return o.str();
}

[[noreturn]] static void hang(const std::string& op)
{
  std::printf("hang:%s\n", op.c_str());
  std::fflush(stdout);
  _exit(3);
}

static bool parseScript(const std::string& s)
{
  g_script.clear();
  if (s == "-") return true;
  for (char c : s)
  {
    if (c != 'o' && c != 'e' && c != 'x') return false;
    g_script.push_back(c);
  }
  return true;
}

static std::string answer() { return collect() + " | " + stateLine(); }

static std::string doReset(const std::vector<std::string>& t)
{
  stopEngine();
  drainPeers();
  TransportConfig cfg;                       // the repository's defaults, overridden only by what the op names
  cfg.protocol = iora::network::Protocol::UDP;
  for (std::size_t i = 1; i < t.size(); ++i)
  {
    auto eq = t[i].find('=');
    unsigned long long v;
    if (eq == std::string::npos || !vh::parseNat(t[i].substr(eq + 1), v)) return "bad-op";
    std::string k = t[i].substr(0, eq);
    if (k == "ms") cfg.maxSessions = v;
    else if (k == "wq") cfg.maxWriteQueue = v;
    else if (k == "cob") cfg.closeOnBackpressure = v != 0;
    else if (k == "idle") cfg.idleTimeout = std::chrono::seconds(v);
    else if (k == "age") cfg.maxConnAge = std::chrono::seconds(v);
    else if (k == "stall") cfg.writeStallTimeout = std::chrono::milliseconds(v);
    else if (k == "chunk") cfg.ioReadChunk = v;
    else if (k == "batch") cfg.batching.enabled = v != 0;
    else if (k == "et") cfg.useEdgeTriggered = v != 0;
    else return "bad-op";
  }
  g_vms.store(0);
  g_virtual.store(true);
  W.eng = std::make_unique<UdpEngine>(cfg);
  iora::network::detail::EngineBase::Callbacks cbs;
  cbs.onAccept = [](SessionId s, const TransportAddress& a) { Ev e; e.text = "A" + std::to_string(s) + "@" + peerName(a.port); g_log.push_back(e); };
  cbs.onConnect = [](SessionId s, const TransportAddress& a) { Ev e; e.text = "N" + std::to_string(s) + "@" + peerName(a.port); g_log.push_back(e); };
  cbs.onData = [](SessionId s, iora::core::BufferView d, std::chrono::steady_clock::time_point) {
    Ev e; e.text = "D" + std::to_string(s) + ":" + std::to_string(d.size()) + ":" + std::to_string(crc32(reinterpret_cast<const std::uint8_t*>(d.data()), d.size()));
    g_log.push_back(e); };
  cbs.onClose = [](SessionId s, const TransportErrorInfo& i) { Ev e; e.text = "X" + std::to_string(s) + ":" + whyName(i.code); g_log.push_back(e); };
  cbs.onError = [](TransportError k, const std::string&) { Ev e; e.text = k == TransportError::Socket ? "E" : std::string("E:") + whyName(k); g_log.push_back(e); };
  W.eng->setCallbacks(cbs);
  { std::lock_guard<std::mutex> lk(g_m); g_step = true; g_stepA.store(true); g_parked = false; g_go = false; g_deliver.clear(); }
  auto sr = W.eng->start();
  if (!sr.isOk()) { g_machinery = "engine-start-failed"; return "machinery:" + g_machinery; }
  g_opName.store("reset");
  g_opStartMs.store(realMs());
  waitParked();
  g_opStartMs.store(0);
  return "ok";
}

static std::string step(const std::vector<std::string>& t)
{
  if (!g_machinery.empty()) return "machinery:" + g_machinery;
  if (t.empty()) return "bad-op";
  const std::string& op = t[0];
  static std::string opKeep;
  opKeep = op;
  g_opName.store(opKeep.c_str());
  if (op == "reset") return doReset(t);
  if (!W.eng) return "bad-op";
  UdpEngine& e = *W.eng;
  unsigned long long a = 0, b = 0;
  if (op == "listen" && t.size() == 1)
  {
    auto before = e._atomicStats.commands.load();
    auto fut = std::async(std::launch::async, [&e] { return e.addListener("127.0.0.1", 0, iora::network::TlsMode::None); });
    long long t0 = realMs();
    while (e._atomicStats.commands.load() == before)
    {
      usleep(50);
      if (realMs() - t0 > kWatchdogMs) hang("listen-enqueue");
    }
    if (!deliver(e._eventFd, EPOLLIN)) hang("listen");
    auto r = fut.get();
    if (!r.isOk()) { g_machinery = "cannot-bind-loopback"; return "machinery:" + g_machinery; }
    W.lids.push_back(r.value());
    auto la = e.getListenerAddress(r.value());
    W.srcName[la.port] = "L" + std::to_string(W.lids.size());
    g_log.clear();
    return "L" + std::to_string(W.lids.size()) + " | " + stateLine();
  }
  if (op == "dg" && t.size() == 3 && vh::parseNat(t[1], a))
  {
    std::vector<std::pair<int, vh::Bytes>> dgs;
    std::stringstream ss(t[2]);
    std::string item;
    while (std::getline(ss, item, ','))
    {
      auto c = item.find(':');
      unsigned long long p;
      vh::Bytes pl;
      if (c == std::string::npos || !vh::parseNat(item.substr(0, c), p) || p >= (unsigned)kPeers || !expand(item.substr(c + 1), pl)) return "bad-op";
      dgs.emplace_back((int)p, std::move(pl));
    }
    if (a == 0 || a > W.lids.size()) return answer();            // no such listener: nothing can arrive
    auto it = e._listeners.find(W.lids[a - 1]);
    if (it == e._listeners.end()) return answer();
    int lfd = it->second->fd;
    int lport = e.getListenerAddress(W.lids[a - 1]).port;
    for (auto& d : dgs)
      if (!rawSendAndWait(d.first, lport, lfd, d.second)) return "machinery:" + g_machinery;
    if (!deliver(lfd, EPOLLIN)) hang("dg");
    return answer();
  }
  if (op == "cdg" && t.size() == 3 && vh::parseNat(t[1], a))
  {
    std::vector<vh::Bytes> dgs;
    std::stringstream ss(t[2]);
    std::string item;
    while (std::getline(ss, item, ','))
    {
      vh::Bytes pl;
      if (!expand(item, pl)) return "bad-op";
      dgs.push_back(std::move(pl));
    }
    auto it = e._sessions.find((SessionId)a);
    auto cp = W.clientPeer.find((SessionId)a);
    if (it == e._sessions.end() || !it->second || it->second->role != iora::network::Role::ClientConnected || cp == W.clientPeer.end())
      return answer();                                             // no such client socket: nothing can arrive
    int cfd = it->second->fd;
    int cport = e.getLocalAddress((SessionId)a).port;
    for (auto& d : dgs)
      if (!rawSendAndWait(cp->second, cport, cfd, d)) return "machinery:" + g_machinery;
    if (!deliver(cfd, EPOLLIN)) hang("cdg");
    return answer();
  }
  if (op == "connect" && t.size() == 2 && vh::parseNat(t[1], a) && a < (unsigned)kPeers)
  {
    auto r = e.connect("127.0.0.1", (std::uint16_t)g_peerPort[a], iora::network::TlsMode::None);
    if (!r.isOk()) return "connect-refused";
    if (!deliver(e._eventFd, EPOLLIN)) hang("connect");
    auto la = e.getLocalAddress(r.value());
    if (la.port) { W.srcName[la.port] = "C" + std::to_string(r.value()); W.clientPeer[r.value()] = (int)a; }
    return answer();
  }
  if (op == "via" && t.size() == 3 && vh::parseNat(t[1], a) && vh::parseNat(t[2], b) && b < (unsigned)kPeers)
  {
    iora::network::ListenerId real = (a >= 1 && a <= W.lids.size()) ? W.lids[a - 1] : (iora::network::ListenerId)(1000000 + a);
    auto r = e.connectViaListener(real, "127.0.0.1", (std::uint16_t)g_peerPort[b]);
    if (!r.isOk()) return "via-refused";
    if (!deliver(e._eventFd, EPOLLIN)) hang("via");
    return answer();
  }
  if (op == "close" && t.size() == 2 && vh::parseNat(t[1], a))
  {
    if (!e.close((SessionId)a)) return "close-refused";
    if (!deliver(e._eventFd, EPOLLIN)) hang("close");
    return answer();
  }
  if (op == "send" && t.size() == 4 && vh::parseNat(t[1], a))
  {
    vh::Bytes pl;
    if (!expand(t[2], pl)) return "bad-op";
    if (t[3] == "ok") parseScript("o");
    else if (t[3] == "eagain") parseScript("e");
    else if (t[3] == "err") parseScript("x");
    else return "bad-op";
    if (pl.empty())
    {
      bool ok = e.send((SessionId)a, pl.data(), 0);    // accepted, nothing queued, nothing to step
      (void)ok;
      g_script.clear();
      return answer();
    }
    if (!e.send((SessionId)a, pl.data(), pl.size())) return "send-refused";
    if (!deliver(e._eventFd, EPOLLIN)) hang("send");
    g_script.clear();
    return answer();
  }
  if ((op == "wl" || op == "wc") && t.size() == 3 && vh::parseNat(t[1], a))
  {
    if (!parseScript(t[2])) return "bad-op";
    int fd = -1;
    if (op == "wl")
    {
      if (a >= 1 && a <= W.lids.size())
      {
        auto it = e._listeners.find(W.lids[a - 1]);
        if (it != e._listeners.end()) fd = it->second->fd;
      }
    }
    else
    {
      auto it = e._sessions.find((SessionId)a);
      if (it != e._sessions.end() && it->second && it->second->role == iora::network::Role::ClientConnected) fd = it->second->fd;
    }
    if (fd >= 0 && armedOut(fd))
      if (!deliver(fd, EPOLLOUT)) hang(op);
    g_script.clear();
    return answer();
  }
  if (op == "adv" && t.size() == 2 && vh::parseNat(t[1], a))
  {
    g_vms.fetch_add((long long)a);
    return answer();
  }
  if (op == "restart" && t.size() == 1)
  {
    // stop(): the Shutdown command is the only event the loop sees (no real epoll readiness), then shutdownDrain; then start()
    g_opStartMs.store(realMs());
    auto before = e._atomicStats.commands.load();
    auto fut = std::async(std::launch::async, [&e] { e.stop(); return 0; });
    while (e._atomicStats.commands.load() == before) usleep(50);
    deliverNoWait(e._eventFd, EPOLLIN);
    fut.get();                                           // joined: the close callbacks of shutdownDrain are in g_log
    { std::lock_guard<std::mutex> lk(g_m); g_parked = false; g_go = false; g_deliver.clear(); }
    { std::lock_guard<std::mutex> g(g_maskM); g_mask.clear(); }
    W.srcName.clear();
    W.clientPeer.clear();
    auto sr = e.start();
    if (!sr.isOk()) { g_machinery = "engine-restart-failed"; return "machinery:" + g_machinery; }
    waitParked();
    g_opStartMs.store(0);
    return answer();
  }
  if (op == "gc" && t.size() == 1)
  {
    if (!deliver(e._timerFd, EPOLLIN)) hang("gc");
    return answer();
  }
  return "bad-op";
}

int main()
{
  g_main = pthread_self();
  signal(SIGPIPE, SIG_IGN);
  if (!initPeers()) g_machinery = "cannot-bind-loopback-peers";
  if (std::getenv("C06_FORCE_MACHINERY_FAILURE")) g_machinery = "forced-by-environment";   // self-test of the exit-2 path
  std::thread(watchdogMain).detach();
  int rc = vh::runLines([](const std::vector<std::string>& t) -> std::string {
    try { return step(t); }
    catch (const std::exception& ex) { return std::string("throw ") + typeid(ex).name(); }
    catch (...) { return "throw ?"; }
  });
  stopEngine();
  std::fprintf(stderr, "interposers: parks=%lu sendCalls=%lu eagain=%lu err=%lu forwarded=%lu kernelRefused=%lu\n", g_parks, g_sendCalls,
               g_injectedEagain, g_injectedErr, g_forwarded, g_kernelRefused);
  return rc;
}
