// C10, search tier: SPSC soak of the real RingBuffer<T,N> / DynamicRingBuffer<T> under ThreadSanitizer (no DetSched).
// The DRF theorem (R3) is about the model; this is the search for a real racing execution of the real class.
// usage: c10_ring_tsan <milliseconds per configuration> <seed>
// plus an MPMC soak of the real BlockingQueue<T> (3 producers, 3 consumers, a size()/empty()/full()/isClosed() sampler, close() at the
// end): its race-freedom otherwise rests on the extracted lock discipline only.
// prints one line per configuration: `<name> items=<n> fifo=<ok|BROKEN at k> maxsize=<m> cap=<c>`; TSan reports go to stderr.
#include <atomic>
#include <chrono>
#include <cstdint>
#include <cstdio>
#include <cstdlib>
#include <string>
#include <thread>
#include <vector>
#include "iora/core/blocking_queue.hpp"
#include "iora/core/ring_buffer.hpp"

using u64 = std::uint64_t;
static u64 rngState = 1;
static u64 rnd(u64& s) { u64 z = (s += 0x9E3779B97F4A7C15ULL); z = (z ^ (z >> 30)) * 0xBF58476D1CE4E5B9ULL; z = (z ^ (z >> 27)) * 0x94D049BB133111EBULL; return z ^ (z >> 31); }

// mode: 0 = single-item calls, 1 = batch calls, 2 = MIXED (each iteration picks single or batch at random: a batch producer against a
// single-item consumer and vice versa); both sides also call size()/empty()/full() (same-side callers: Iora.C10.R2_size_same_side says <= cap)
template <class R> static void soak(const char* name, R& ring, std::size_t cap, int ms, int mode, u64 seed)
{
  std::atomic<bool> stop{false};
  std::atomic<u64> produced{0};
  std::string fifo = "ok";
  u64 consumed = 0;
  std::size_t maxsize = 0, pmax = 0;
  std::thread prod([&] {
    u64 s = seed * 2 + 1, next = 1;
    std::vector<u64> buf(2 * cap + 2);
    while (!stop.load(std::memory_order_relaxed))
    {
      bool batch = mode == 1 || (mode == 2 && (rnd(s) & 1));
      if ((rnd(s) & 7) == 0)
      {
        std::size_t sz = ring.size();      // producer-side size(): own _head exact, _tail possibly stale - never above cap
        if (sz > pmax) pmax = sz;
        if (ring.empty() && ring.full() && cap > 0 && fifo == "ok") { /* both true is impossible for cap > 0 at one instant; two calls: not judged */ }
      }
      if (batch)
      {
        std::size_t k = static_cast<std::size_t>(rnd(s) % (2 * cap + 1));
        for (std::size_t i = 0; i < k; ++i) buf[i] = next + i;
        next += ring.tryPushBatch(buf.data(), k);
      }
      else if (rnd(s) & 1) { if (ring.tryPush(next)) ++next; }
      else { u64 v = next; if (ring.tryPush(std::move(v))) ++next; }
      if ((rnd(s) & 63) == 0) std::this_thread::yield();
    }
    produced.store(next - 1);
  });
  std::thread cons([&] {
    u64 s = seed * 2 + 2, expect = 1;
    std::vector<u64> buf(2 * cap + 2);
    auto check = [&](u64 v) { if (v != expect && fifo == "ok") fifo = "BROKEN at " + std::to_string(expect) + " got " + std::to_string(v); expect = v + 1; };
    auto drain = [&](bool final) {
      for (;;)
      {
        std::size_t sz = ring.size();      // consumer-side size(): own _tail exact, _head possibly stale - never above cap, never wrapped
        if (sz > maxsize) maxsize = sz;
        if ((rnd(s) & 7) == 0) { (void)ring.empty(); (void)ring.full(); }
        bool got = false;
        bool batch = mode == 1 || (mode == 2 && (rnd(s) & 1));
        if (batch)
        {
          std::size_t k = ring.tryPopBatch(buf.data(), static_cast<std::size_t>(rnd(s) % (2 * cap + 1)) + (final ? 1 : 0));
          for (std::size_t i = 0; i < k; ++i) check(buf[i]);
          got = k > 0;
        }
        else
        {
          u64 v = 0, p = 0;
          bool pk = (rnd(s) & 3) == 0 && ring.peek(p);
          if (ring.tryPop(v)) { if (pk && p != v && fifo == "ok") fifo = "BROKEN peek " + std::to_string(p) + " pop " + std::to_string(v); check(v); got = true; }
        }
        if (!final) return;
        if (!got) return;
      }
    };
    while (!stop.load(std::memory_order_relaxed)) { drain(false); if ((rnd(s) & 63) == 0) std::this_thread::yield(); }
    // the producer has stopped (joined below before the final drain result is read)
    consumed = expect - 1;
  });
  std::this_thread::sleep_for(std::chrono::milliseconds(ms));
  stop.store(true);
  prod.join();
  cons.join();
  // final drain on this thread (quiescent)
  u64 expect = consumed + 1, v = 0;
  while (ring.tryPop(v)) { if (v != expect && fifo == "ok") fifo = "BROKEN at " + std::to_string(expect) + " got " + std::to_string(v); expect = v + 1; }
  if (expect - 1 != produced.load() && fifo == "ok") fifo = "BROKEN lost: produced " + std::to_string(produced.load()) + " consumed " + std::to_string(expect - 1);
  if (pmax > maxsize) maxsize = pmax;
  std::printf("%s items=%llu fifo=%s maxsize=%zu cap=%zu\n", name, static_cast<unsigned long long>(produced.load()), fifo.c_str(), maxsize, cap);
  std::fflush(stdout);
}

static void soakBq(const char* name, std::size_t cap, int ms, u64 seed)
{
  iora::core::BlockingQueue<u64> q(cap);
  constexpr int NP = 3, NC = 3;
  std::atomic<bool> stop{false};
  std::atomic<u64> put{0}, got{0};
  std::atomic<std::size_t> maxsize{0};
  std::string fifo = "ok";
  std::atomic<bool> broken{false};
  std::vector<std::thread> ts;
  for (int p = 0; p < NP; ++p)
    ts.emplace_back([&, p] {
      u64 s = seed * 16 + static_cast<u64>(p), seq = 1;
      while (!stop.load(std::memory_order_relaxed))
      {
        u64 v = (static_cast<u64>(p) << 32) | seq;
        bool ok;
        switch (rnd(s) % 5)
        {
          case 0: ok = q.queue(v); break;
          case 1: { u64 m = v; ok = q.queue(std::move(m)); break; }
          case 2: ok = q.tryQueue(v, std::chrono::milliseconds(1)); break;
          case 3: ok = q.tryQueue(v); break;
          default: { u64 m = v; ok = q.tryQueue(std::move(m)); break; }
        }
        if (ok) { ++seq; put.fetch_add(1, std::memory_order_relaxed); }
      }
    });
  for (int c = 0; c < NC; ++c)
    ts.emplace_back([&, c] {
      u64 s = seed * 16 + 8 + static_cast<u64>(c);
      u64 last[NP] = {0, 0, 0};
      for (;;)
      {
        u64 v = 0;
        bool ok;
        switch (rnd(s) % 3)
        {
          case 0: ok = q.dequeue(v); break;
          case 1: ok = q.dequeue(v, std::chrono::milliseconds(1)); break;
          default: ok = q.tryDequeue(v); break;
        }
        if (ok)
        {
          u64 p = v >> 32, seq = v & 0xffffffffu;
          if (p >= NP || seq <= last[p]) broken.store(true);
          else last[p] = seq;
          got.fetch_add(1, std::memory_order_relaxed);
        }
        else if (q.isClosed() && q.empty()) return;
      }
    });
  ts.emplace_back([&] {
    while (!stop.load(std::memory_order_relaxed))
    {
      std::size_t n = q.size();
      std::size_t m = maxsize.load(std::memory_order_relaxed);
      if (n > m) maxsize.store(n, std::memory_order_relaxed);
      (void)q.empty(); (void)q.full(); (void)q.isClosed(); (void)q.capacity();
      std::this_thread::yield();
    }
  });
  std::this_thread::sleep_for(std::chrono::milliseconds(ms));
  stop.store(true);
  q.close();
  for (auto& t : ts) t.join();
  if (broken.load()) fifo = "BROKEN per-producer order or foreign item";
  else if (put.load() != got.load() + q.size()) fifo = "BROKEN lost: put " + std::to_string(put.load()) + " got " + std::to_string(got.load()) + " left " + std::to_string(q.size());
  std::printf("%s items=%llu fifo=%s maxsize=%zu cap=%zu\n", name, static_cast<unsigned long long>(put.load()), fifo.c_str(), maxsize.load(), cap);
  std::fflush(stdout);
}

int main(int argc, char** argv)
{
  int ms = argc > 1 ? std::atoi(argv[1]) : 300;
  u64 seed = argc > 2 ? std::strtoull(argv[2], nullptr, 10) : 1;
  rngState = seed;
  { iora::core::RingBuffer<u64, 4> r; soak("static4-single", r, 4, ms, 0, seed); }
  { iora::core::RingBuffer<u64, 4> r; soak("static4-batch", r, 4, ms, 1, seed + 1); }
  { iora::core::RingBuffer<u64, 1> r; soak("static1-single", r, 1, ms, 0, seed + 2); }
  { iora::core::DynamicRingBuffer<u64> r(3); soak("dynamic4-single", r, 4, ms, 0, seed + 3); }
  { iora::core::DynamicRingBuffer<u64> r(8); soak("dynamic8-batch", r, 8, ms, 1, seed + 4); }
  { iora::core::RingBuffer<u64, 64> r; soak("static64-mixed", r, 64, ms, 2, seed + 7); }
  { iora::core::DynamicRingBuffer<u64> r(200); soak("dynamic256-mixed", r, 256, ms, 2, seed + 8); }
  { iora::core::DynamicRingBuffer<u64> r(2); soak("dynamic2-mixed", r, 2, ms, 2, seed + 9); }
  soakBq("bq-mpmc-cap4", 4, ms, seed + 5);
  soakBq("bq-mpmc-cap1", 1, ms, seed + 6);
  return 0;
}
