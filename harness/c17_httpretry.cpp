// Correspondence harness for C17: the REAL iora::network::HttpClient (real Transport, real TcpEngine, real sockets)
// against a scripted raw-socket server on loopback inside this process.
//
//  * every attempt of every request gets one entry of a fault script; the entry is made current on the requesting
//    thread at the attempt boundary (request start / inside the interposed back-off sleep), after the server has
//    accepted every connection the client opened so far;
//  * client-side faults: lease held by "someone else", connect() refused (interposed libc connect), connect black-holed
//    (redirected to a listener whose accept queue is full), sync-mode switch refused, engine->send refused, sync receive
//    buffer too small (overflow), async-mode switch refused;
//  * server-side faults at a byte offset of the request (RST at accept / RST without reading / RST, FIN or silence after
//    k request bytes) or of the response (j bytes, then FIN / RST / silence / keep open);
//  * a decorator around the real TcpEngine records the calls the requesting thread makes on the engine
//    (connect / send / close) — the observable trace the Lean model predicts;
//  * time: CLOCK_MONOTONIC as seen by the process is virtual (real time / SCALE + warps). A peer that stays silent makes
//    the harness advance the virtual clock, so time-outs fire because of silence, never because the machine is busy;
//    back-off sleeps of the requesting thread are recorded and skipped.
#include <algorithm>
#include <atomic>
#include <chrono>
#include <cstring>
#include <functional>
#include <map>
#include <memory>
#include <mutex>
#include <set>
#include <sstream>
#include <stdexcept>
#include <string>
#include <thread>
#include <typeinfo>
#include <unordered_map>
#include <unordered_set>
#include <vector>
#include <future>
#include <condition_variable>
#include <deque>
#include <queue>
#include <list>
#include <optional>
#include <variant>
#include <fstream>
#include <iostream>
#include <regex>
#include <random>
#include <filesystem>
#include <shared_mutex>
#include <array>
#include <bitset>
#include <iomanip>
#include <numeric>
#include <tuple>
#include <type_traits>
#include <utility>
#include <limits>
#include <cassert>
#include <cctype>
#include <cerrno>
#include <cmath>
#include <csignal>
#include <cstdarg>
#include <cstddef>
#include <cstdio>
#include <cstdlib>
#include <ctime>
#include <any>
#include <charconv>
#include <string_view>
#include <system_error>
#include <exception>
#include <iterator>
#include <initializer_list>
#include <ostream>
#include <istream>
#include <streambuf>
#include <locale>
#include <codecvt>
#include <cxxabi.h>
#include <dlfcn.h>
#include <fcntl.h>
#include <poll.h>
#include <pthread.h>
#include <time.h>
#include <unistd.h>
#include <arpa/inet.h>
#include <netinet/in.h>
#include <netinet/tcp.h>
#include <sys/socket.h>
#include <sys/types.h>
#include <sys/epoll.h>
#include <sys/eventfd.h>
#include <sys/timerfd.h>
#include <netdb.h>
#include <openssl/ssl.h>
#include <openssl/err.h>
#include <openssl/evp.h>
#include <openssl/x509.h>
#include <openssl/x509v3.h>
#include <openssl/sha.h>
#include <openssl/rand.h>
#include <openssl/hmac.h>
#include <openssl/bio.h>
#include <openssl/pem.h>
#define private public
#define protected public
#include "iora/network/dns_client.hpp"
#include "iora/network/transport_impl.hpp"
#include "iora/parsers/http_message.hpp"
#include "iora/parsers/json.hpp"
// Every receiveSync call WRITTEN IN http_client.hpp (the receive loop of executeRequest, the residual-data probe) is counted per
// attempt of the requesting thread; everything http_client.hpp includes has been included above, so only its own text is affected.
static void c17NoteRecv(long long timeoutMs);
#define receiveSync(a, b, c, d) \
  receiveSync((c17NoteRecv(std::chrono::duration_cast<std::chrono::milliseconds>(d).count()), (a)), (b), (c), (d))
#include "iora/network/http_client.hpp"
#undef receiveSync
#undef private
#undef protected
#include "common/fake_engine.hpp"
#include "common/lineproto.hpp"

using namespace iora::network;
using vh::Bytes;

// =====================================================================================================================
// Virtual monotonic clock + interposers (DESIGN §3.1)
// =====================================================================================================================
static std::atomic<long long> g_voff{0};          // ns added by warps
static std::atomic<long long> g_scale{50};        // virtual time runs this much slower than real time
static std::atomic<bool> g_wantTimeout{false};    // the current attempt can only end by a time-out: advance the clock
static std::atomic<bool> g_manualClock{false};    // `contend`: the virtual clock moves ONLY when the operation advances it
static std::atomic<long long> g_warps{0};
static std::atomic<long long> n_clockwait{0}, n_nanosleep_skipped{0}, n_connect_seen{0}, n_connect_refused{0},
  n_connect_blackholed{0}, n_send_seen{0};
static long long g_anchor = 0;

using clock_gettime_t = int (*)(clockid_t, struct timespec*);
using clockwait_t = int (*)(pthread_cond_t*, pthread_mutex_t*, clockid_t, const struct timespec*);
using nanosleep_t = int (*)(const struct timespec*, struct timespec*);
using clock_nanosleep_t = int (*)(clockid_t, int, const struct timespec*, struct timespec*);
using connect_t = int (*)(int, const struct sockaddr*, socklen_t);
using send_t = ssize_t (*)(int, const void*, size_t, int);

static clock_gettime_t real_clock_gettime()
{
  static clock_gettime_t f = reinterpret_cast<clock_gettime_t>(dlsym(RTLD_NEXT, "clock_gettime"));
  return f;
}
static long long realMonoNs()
{
  struct timespec ts;
  real_clock_gettime()(CLOCK_MONOTONIC, &ts);
  return ts.tv_sec * 1000000000LL + ts.tv_nsec;
}
static long long virtNowNs()
{
  long long r = realMonoNs();
  if (g_anchor == 0) g_anchor = r;
  return g_anchor + (r - g_anchor) / g_scale.load(std::memory_order_relaxed) + g_voff.load(std::memory_order_relaxed);
}
static void toTs(long long ns, struct timespec* ts)
{
  ts->tv_sec = ns / 1000000000LL;
  ts->tv_nsec = ns % 1000000000LL;
}

extern "C" int clock_gettime(clockid_t id, struct timespec* ts)
{
  if (id == CLOCK_MONOTONIC)
  {
    toTs(virtNowNs(), ts);
    return 0;
  }
  return real_clock_gettime()(id, ts);
}

static std::atomic<long long> n_stalls{0};
static std::atomic<long long> g_waitEpisodeStartReal{0}; // real time at which the requesting thread entered its current timed wait

// ---- per-request context of the requesting thread ------------------------------------------------------------------
struct Fault
{
  char cls = 'K';            // L R B M E T C D F P V K S
  bool idle = false;         // the cached connection (if any) is older than the idle timeout when this attempt starts
  // server side
  char reqAct = 'n';         // n none | a RST at accept | w RST when readable, nothing read | r RST | f FIN | s silence  (after k bytes)
  long long k = 0;
  std::string resp;          // bytes of the scripted response ("" = default 200 keep-alive)
  long long j = -1;          // send this many response bytes (-1 = all)
  char respAct = 'k';        // k keep open | f FIN | r RST | s silence
  long long cut = 0;         // pause after this many response bytes (segmentation), 0 = none
  bool asyncFail = false;    // refuse the switch back to async mode
};
struct ReqCtx
{
  std::vector<Fault> script;
  int attempt = 0;
  bool exhausted = false;
  std::vector<long long> sleepsMs;
  std::vector<long long> attemptVms;
  long long attemptStartV = 0;
  std::string hostPort;
  HttpClient* client = nullptr;
  bool par = false;          // one of several concurrent callers: faults are bound by the server from X-Req-Id, nothing global is touched
  // timed waits of the requesting thread (client-visible milliseconds)
  long long maxWaitMs = 0;   // longest single timed wait asked for
  long long waitTimeouts = 0;// timed waits (> 0 ms) that ended by time-out
  long long lastDeadline = -1;
  long long episodeMs = 0;   // length of the wait in progress (0 = a pure probe, e.g. residualDataPending)
  long long episodeStartReal = 0;
  long long stalls = 0;
  char curCls = 'K';         // fault class of the attempt in progress
  std::vector<long long> attemptRecvs;           // per attempt: receiveSync calls of the receive loop (the zero-timeout probe not counted)
  long long probes = 0;
  // the lease wait (`_cv` of the client): distinct absolute deadlines asked for, number of waits entered, first entry / deadline
  std::mutex leaseMx;
  std::set<long long> leaseDeadlines;
  std::atomic<long long> leaseWaitCalls{0};
  std::atomic<long long> leaseFirstV{-1}, leaseFirstDl{-1};
  std::vector<long long> attemptTw;              // per attempt: length of the wait that ended by time-out (0 = none)
  std::vector<std::set<long long>> attemptWaits; // per attempt: distinct lengths of the timed waits asked for
  void noteWait(long long ms)
  {
    std::size_t i = static_cast<std::size_t>(attempt < 0 ? 0 : attempt);
    if (attemptWaits.size() <= i) attemptWaits.resize(i + 1);
    attemptWaits[i].insert(ms);
    if (ms > maxWaitMs) maxWaitMs = ms;
  }
  // The wait in progress is over (the thread enters another one, or the attempt ends). It ended by its time-out iff the clock had
  // reached its deadline: libstdc++ decides that by reading the clock itself after the wait returns, so the interposed wait need
  // not have returned ETIMEDOUT. (The clock stands still for 5 ms after every notification, so a wait that ended by a notification
  // is not mistaken for one that timed out.)
  void closeEpisode(long long vnow)
  {
    if (lastDeadline >= 0 && episodeMs > 0 && vnow >= lastDeadline) noteTimeout(episodeMs);
    lastDeadline = -1;
    episodeMs = 0;
  }
  void noteTimeout(long long ms)
  {
    std::size_t i = static_cast<std::size_t>(attempt < 0 ? 0 : attempt);
    if (attemptTw.size() <= i) attemptTw.resize(i + 1, 0);
    attemptTw[i] = ms;
    waitTimeouts++;
  }
};
static thread_local ReqCtx* t_ctx = nullptr;
// A request issued through an ...Async entry point runs on a thread the library creates (std::async): during such an operation
// every thread that is neither one of the harness' own threads nor the engine's I/O thread is the requesting thread.
static thread_local bool t_harnessThread = false;
static std::atomic<bool> g_asyncOp{false};
static ReqCtx* g_seqCtx = nullptr;
static std::thread::id g_ioThreadId;
static ReqCtx* reqCtx()
{
  if (t_ctx) return t_ctx;
  if (g_asyncOp.load() && !t_harnessThread && g_seqCtx && std::this_thread::get_id() != g_ioThreadId) return g_seqCtx;
  return nullptr;
}
static void beginAttempt(ReqCtx& cx, int idx);
static void c17NoteRecv(long long timeoutMs)
{
  ReqCtx* cx = reqCtx();
  if (!cx) return;
  if (timeoutMs == 0) { cx->probes++; return; }
  std::size_t i = static_cast<std::size_t>(cx->attempt < 0 ? 0 : cx->attempt);
  if (cx->attemptRecvs.size() <= i) cx->attemptRecvs.resize(i + 1, 0);
  cx->attemptRecvs[i]++;
}


// A timed wait against the virtual clock: wait in short real slices; report a time-out only when the VIRTUAL deadline
// has passed, otherwise return as a spurious wake-up (which every caller must tolerate).
extern "C" int pthread_cond_clockwait(pthread_cond_t* c, pthread_mutex_t* m, clockid_t id, const struct timespec* abs)
{
  static clockwait_t real = reinterpret_cast<clockwait_t>(dlsym(RTLD_NEXT, "pthread_cond_clockwait"));
  if (id != CLOCK_MONOTONIC) return real(c, m, id, abs);
  n_clockwait++;
  long long vdl = abs->tv_sec * 1000000000LL + abs->tv_nsec;
  long long vn = virtNowNs();
  ReqCtx* rc_ = reqCtx();
  bool leaseWait = false;
  if (rc_ && rc_->client && c == rc_->client->_cv.native_handle())
  {
    leaseWait = true;
    // the lease wait of acquireLease: a wait re-entered after a wake-up must keep the SAME absolute deadline
    {
      std::lock_guard<std::mutex> g(rc_->leaseMx);
      rc_->leaseDeadlines.insert(vdl);
    }
    if (rc_->leaseFirstV.load() < 0) { rc_->leaseFirstDl = vdl; rc_->leaseFirstV = vn; }
    rc_->leaseWaitCalls++;
  }
  if (rc_)
  {
    if (vdl != rc_->lastDeadline)
    {
      rc_->closeEpisode(vn);
      rc_->lastDeadline = vdl;
      rc_->episodeStartReal = realMonoNs();
      g_waitEpisodeStartReal = rc_->episodeStartReal;
      long long ms = vn < vdl ? (vdl - vn + 999999LL) / 1000000LL : 0;
      rc_->episodeMs = ms;
      rc_->noteWait(ms);
      // class L ("another caller holds the lease"): this wait can only end by its time-out; the clock starts to run 5 ms from now
      if (rc_->curCls == 'L' && ms > 0 && !rc_->par) { g_waitEpisodeStartReal = realMonoNs(); g_wantTimeout = true; }
    }
    else if (realMonoNs() - rc_->episodeStartReal > 1000000000LL && !g_wantTimeout.load() && !g_manualClock.load() && !(leaseWait && rc_->par))
    {
      // Nothing has happened for 1 s of REAL time (several nominal time-outs): whatever the script said, the peer is
      // silent for this caller — let the virtual clock run so that the wait ends by its own time-out.
      n_stalls++;
      rc_->stalls++;
      { g_waitEpisodeStartReal = realMonoNs(); g_wantTimeout = true; }
    }
  }
  long long slice = 0;
  if (vn < vdl)
  {
    slice = (vdl - vn) * g_scale.load(std::memory_order_relaxed);
    if (slice > 1000000LL) slice = 1000000LL; // 1 ms real
  }
  struct timespec rts;
  toTs(realMonoNs() + slice, &rts);
  int rc = real(c, m, CLOCK_MONOTONIC, &rts);
  // Class L outside `par`/`contend` ("another caller holds the lease", nobody will release it): no spurious wake-ups are injected into
  // this wait — it stays here until a real notification or its VIRTUAL deadline. (A lease wait that re-arms its time-out at every
  // wake-up would otherwise be kept alive by the 1 ms slices for as long as the real-time watchdog allows; wake-ups of a lease waiter
  // are exercised deterministically by `contend`.)
  while (rc == ETIMEDOUT && leaseWait && rc_ && !rc_->par && rc_->curCls == 'L' && virtNowNs() < vdl)
  {
    long long left = (vdl - virtNowNs()) * g_scale.load(std::memory_order_relaxed);
    if (left > 1000000LL) left = 1000000LL;
    toTs(realMonoNs() + (left > 0 ? left : 0), &rts);
    rc = real(c, m, CLOCK_MONOTONIC, &rts);
  }
  // a real notification (something happened: data, a close, a released lease): the caller may compute its next deadline now —
  // the clock must stand still while it does (see warperLoop)
  if (rc == 0 && rc_) g_waitEpisodeStartReal = realMonoNs();
  if (rc == ETIMEDOUT && virtNowNs() < vdl) return 0;

  return rc;
}

extern "C" int nanosleep(const struct timespec* req, struct timespec* rem)
{
  static nanosleep_t real = reinterpret_cast<nanosleep_t>(dlsym(RTLD_NEXT, "nanosleep"));
  if (ReqCtx* cx = reqCtx())
  {
    // back-off of performRequest: record, skip, and make the next script entry current
    n_nanosleep_skipped++;
    cx->sleepsMs.push_back(req->tv_sec * 1000LL + req->tv_nsec / 1000000LL);
    beginAttempt(*cx, cx->attempt + 1);
    if (rem) { rem->tv_sec = 0; rem->tv_nsec = 0; }
    return 0;
  }
  return real(req, rem);
}
extern "C" int clock_nanosleep(clockid_t id, int flags, const struct timespec* req, struct timespec* rem)
{
  static clock_nanosleep_t real = reinterpret_cast<clock_nanosleep_t>(dlsym(RTLD_NEXT, "clock_nanosleep"));
  ReqCtx* cx = flags == 0 ? reqCtx() : nullptr;
  if (cx)
  {
    n_nanosleep_skipped++;
    cx->sleepsMs.push_back(req->tv_sec * 1000LL + req->tv_nsec / 1000000LL);
    beginAttempt(*cx, cx->attempt + 1);
    if (rem) { rem->tv_sec = 0; rem->tv_nsec = 0; }
    return 0;
  }
  return real(id, flags, req, rem);
}

static void realSleepUs(long us)
{
  static nanosleep_t real = reinterpret_cast<nanosleep_t>(dlsym(RTLD_NEXT, "nanosleep"));
  struct timespec ts;
  ts.tv_sec = us / 1000000;
  ts.tv_nsec = (us % 1000000) * 1000L;
  while (real(&ts, &ts) != 0 && errno == EINTR) {}
}

// ---- connect / send -------------------------------------------------------------------------------------------------
static std::atomic<int> g_serverPort{0}, g_serverPort2{0}, g_blackholePort{0};
static bool isSrvPort(int p) { return p != 0 && (p == g_serverPort.load() || p == g_serverPort2.load()); }
static std::atomic<bool> g_refuse{false}, g_blackhole{false};
static std::atomic<long long> g_forwardedConnects{0}; // connects that really went to the scripted server
static std::mutex g_wireMx;
static std::map<int, long long> g_wire;               // client local port -> request bytes accepted by the kernel (this request)
static std::map<int, long long> g_sentByPort;         // client local port -> bytes accepted by the kernel (since process start)

extern "C" int connect(int fd, const struct sockaddr* addr, socklen_t len)
{
  static connect_t real = reinterpret_cast<connect_t>(dlsym(RTLD_NEXT, "connect"));
  if (addr && addr->sa_family == AF_INET && len >= sizeof(sockaddr_in))
  {
    const sockaddr_in* in = reinterpret_cast<const sockaddr_in*>(addr);
    if (isSrvPort(ntohs(in->sin_port)))
    {
      n_connect_seen++;
      if (g_refuse.load())
      {
        n_connect_refused++;
        errno = ECONNREFUSED;
        return -1;
      }
      if (g_blackhole.load() && g_blackholePort.load() != 0)
      {
        n_connect_blackholed++;
        sockaddr_in alt = *in;
        alt.sin_port = htons(static_cast<uint16_t>(g_blackholePort.load()));
        { g_waitEpisodeStartReal = realMonoNs(); g_wantTimeout = true; }
        return real(fd, reinterpret_cast<const sockaddr*>(&alt), sizeof(alt));
      }
      int rc = real(fd, addr, len);
      int saved = errno;
      sockaddr_in me{};
      socklen_t ml = sizeof(me);
      if (getsockname(fd, reinterpret_cast<sockaddr*>(&me), &ml) == 0)
      {
        std::lock_guard<std::mutex> g(g_wireMx);
        g_sentByPort[ntohs(me.sin_port)] = 0; // a new connection on this (possibly recycled) local port
      }
      g_forwardedConnects++;
      errno = saved;
      return rc;
    }
  }
  return real(fd, addr, len);
}

extern "C" ssize_t send(int fd, const void* buf, size_t n, int flags)
{
  static send_t real = reinterpret_cast<send_t>(dlsym(RTLD_NEXT, "send"));
  ssize_t r = real(fd, buf, n, flags);
  if (r > 0 && g_serverPort.load() != 0)
  {
    int saved = errno;
    sockaddr_in peer{};
    socklen_t pl = sizeof(peer);
    if (getpeername(fd, reinterpret_cast<sockaddr*>(&peer), &pl) == 0 && peer.sin_family == AF_INET &&
        isSrvPort(ntohs(peer.sin_port)))
    {
      sockaddr_in me{};
      socklen_t ml = sizeof(me);
      if (getsockname(fd, reinterpret_cast<sockaddr*>(&me), &ml) == 0)
      {
        n_send_seen++;
        std::lock_guard<std::mutex> g(g_wireMx);
        g_wire[ntohs(me.sin_port)] += r;
        g_sentByPort[ntohs(me.sin_port)] += r;
      }
    }
    errno = saved;
  }
  return r;
}

// =====================================================================================================================
// Scripted raw-socket server
// =====================================================================================================================
struct SrvConnRec
{
  int ord = 0;               // accept order within the case
  long long reqBytes = 0;    // bytes of the CURRENT logical request read (or seen, for 'w') on this connection
  long long respBytes = 0;
  int requests = 0;          // complete requests read on this connection (all logical requests)
  std::string how;           // how the exchange of the current logical request ended on this connection
  long long reqId = -1;      // logical request (harness sequence number) the counters refer to
};

struct ConnStat
{
  int peerPort = 0;
  std::atomic<long long> read{0};   // request bytes taken from the socket on this connection (since accept)
  std::atomic<bool> stopped{false}; // the handler will not read any further (it acted, or it is gone)
};

struct Server
{
  std::vector<std::shared_ptr<ConnStat>> conns; // guarded by mx
  int lfd = -1;
  int port = 0;
  int lfd2 = -1;             // a second listening port of the same scripted server (another host:port key for the client)
  int port2 = 0;
  std::map<long long, int> parSeen;                   // guarded by mx: X-Req-Id -> complete requests with that id that arrived (par mode)
  int bhfd = -1;
  std::vector<int> bhFill;
  std::thread acceptor;
  std::atomic<bool> stop{false};
  std::atomic<long long> accepted{0};
  std::atomic<int> liveHandlers{0};
  std::mutex mx;
  Fault cur;                 // fault of the current attempt (guarded by mx)
  long long curReq = 0;      // harness sequence number of the current logical request (guarded by mx)
  int nextOrd = 1;
  std::vector<SrvConnRec> recs;   // one per (connection, logical request) that carried at least one byte / was acted on
  std::function<void(bool)> setAllowSwitch;
  std::atomic<int> inExchange{0};           // connections currently between first request byte and end of response
  std::atomic<int> maxInExchange{0};
  // concurrent callers (`par`): the fault of an exchange is looked up from the request's X-Req-Id once the request is in
  std::atomic<bool> parMode{false};
  std::map<long long, std::vector<Fault>> parScripts; // guarded by mx
  std::map<long long, int> parAttempt;                // guarded by mx
  std::atomic<long long> closeIdleGen{0};             // bumped by `srvclose`: idle keep-alive handlers close their connection
  std::atomic<bool> closeIdleRst{false};
  int hostEx[2] = {0, 0};                             // exchanges in progress per Host header (guarded by mx)
  int hostExMax[2] = {0, 0};

  static void rst(int fd)
  {
    struct linger lg;
    lg.l_onoff = 1;
    lg.l_linger = 0;
    setsockopt(fd, SOL_SOCKET, SO_LINGER, &lg, sizeof(lg));
    ::close(fd);
  }
  // FIN without an RST even if unread request bytes are pending: half-close, then swallow until the peer closes
  void finAndDrain(int fd)
  {
    ::shutdown(fd, SHUT_WR);
    char b[4096];
    for (int i = 0; i < 5000 && !stop.load(); ++i)
    {
      struct pollfd p{fd, POLLIN, 0};
      int pr = ::poll(&p, 1, 20);
      if (pr > 0)
      {
        ssize_t n = ::recv(fd, b, sizeof(b), 0);
        if (n <= 0) break;
      }
    }
    ::close(fd);
  }
  void waitPeerClose(int fd)
  {
    for (int i = 0; i < 100000 && !stop.load(); ++i)
    {
      struct pollfd p{fd, POLLRDHUP, 0};
      int pr = ::poll(&p, 1, 20);
      if (pr > 0 && (p.revents & (POLLRDHUP | POLLHUP | POLLERR))) break;
    }
    ::close(fd);
  }
  bool waitReadable(int fd)
  {
    while (!stop.load())
    {
      struct pollfd p{fd, POLLIN, 0};
      int pr = ::poll(&p, 1, 20);
      if (pr > 0) return true;
    }
    return false;
  }
  static bool requestComplete(const std::string& in)
  {
    auto he = in.find("\r\n\r\n");
    if (he == std::string::npos) return false;
    std::size_t cl = 0;
    auto p = in.find("\r\nContent-Length: ");
    if (p != std::string::npos && p < he) cl = static_cast<std::size_t>(std::strtoull(in.c_str() + p + 18, nullptr, 10));
    return in.size() >= he + 4 + cl;
  }
  SrvConnRec& rec(int ord, long long reqId)
  {
    for (auto& r : recs)
      if (r.ord == ord && r.reqId == reqId) return r;
    SrvConnRec r;
    r.ord = ord;
    r.reqId = reqId;
    recs.push_back(r);
    return recs.back();
  }
  void note(int ord, long long reqId, long long addReq, long long addResp, const char* how, bool completeReq = false)
  {
    std::lock_guard<std::mutex> g(mx);
    auto& r = rec(ord, reqId);
    r.reqBytes += addReq;
    r.respBytes += addResp;
    if (completeReq) r.requests++;
    if (how) r.how = how;
  }
  bool sendAll(int fd, const char* p, std::size_t n)
  {
    std::size_t off = 0;
    while (off < n)
    {
      ssize_t w = ::send(fd, p + off, n - off, MSG_NOSIGNAL);
      if (w <= 0) return false;
      off += static_cast<std::size_t>(w);
    }
    return true;
  }

  void handle(int fd, int ord, std::shared_ptr<ConnStat> cs)
  {
    struct Dec { std::atomic<int>& c; ~Dec() { c--; } } dec{liveHandlers};
    struct Stop { ConnStat& c; ~Stop() { c.stopped = true; } } stopOnExit{*cs};
    t_harnessThread = true;
    char buf[4096];
    const long long idleGen = closeIdleGen.load();
    for (;;)
    {
      // idle: wait for the next request, for the client's close, or for `srvclose`
      for (;;)
      {
        if (stop.load()) { ::close(fd); return; }
        if (closeIdleGen.load() != idleGen)
        {
          if (closeIdleRst.load()) rst(fd); else ::close(fd);
          return;
        }
        struct pollfd pi{fd, POLLIN, 0};
        if (::poll(&pi, 1, 5) > 0) break;
      }
      ssize_t pk = ::recv(fd, buf, 1, MSG_PEEK);
      if (pk <= 0) { ::close(fd); return; } // the client closed (or reset) an idle / unused connection
      if (static_cast<unsigned char>(buf[0]) == 0x16)
      {
        // a TLS ClientHello (an https:// request): this plain server never answers it, the handshake can only time out
        cs->stopped = true;
        { g_waitEpisodeStartReal = realMonoNs(); g_wantTimeout = true; }
        waitPeerClose(fd);
        return;
      }
      Fault f;
      long long reqId;
      {
        std::lock_guard<std::mutex> g(mx);
        f = cur;
        reqId = curReq;
      }
      struct ExGuard
      {
        Server& s;
        explicit ExGuard(Server& sv) : s(sv)
        {
          int v = ++s.inExchange;
          int m = s.maxInExchange.load();
          while (v > m && !s.maxInExchange.compare_exchange_weak(m, v)) {}
        }
        ~ExGuard() { s.inExchange--; }
      } ex(*this);
      if (f.reqAct == 'w' || f.reqAct == 'a') // 'a' on a connection that already exists: the same, at first sight of the request
      {
        cs->stopped = true;
        note(ord, reqId, 1, 0, "rst-unread"); // at least one byte of the request arrived; none was read
        rst(fd);
        return;
      }
      const bool limited = (f.reqAct == 'r' || f.reqAct == 'f' || f.reqAct == 's');
      long long got = 0;
      std::string in;
      bool acted = false;
      for (;;)
      {
        if (limited && got >= f.k) { acted = true; break; }
        if (requestComplete(in)) break;
        if (!waitReadable(fd)) { ::close(fd); return; }
        std::size_t want = sizeof(buf);
        if (limited && static_cast<long long>(want) > f.k - got) want = static_cast<std::size_t>(f.k - got);
        ssize_t n = ::recv(fd, buf, want, 0);
        if (n <= 0) { note(ord, reqId, 0, 0, "client-closed-midrequest"); ::close(fd); return; }
        in.append(buf, static_cast<std::size_t>(n));
        got += n;
        cs->read += n;
        note(ord, reqId, n, 0, nullptr);
      }
      if (!acted && limited) acted = true; // offset beyond the request: act once the whole request is in
      if (acted) cs->stopped = true;
      if (!acted) note(ord, reqId, 0, 0, nullptr, true);
      // Server-side view of "an exchange with this host:port is in progress": from the complete request to just BEFORE the
      // server's last action (the client can only finish the exchange after that action, so two such intervals of one host
      // overlap only if two exchanges really overlapped).
      struct HostGuard
      {
        Server& s;
        int h = -1;
        void release()
        {
          if (h >= 0)
          {
            std::lock_guard<std::mutex> g(s.mx);
            s.hostEx[h]--;
            h = -1;
          }
        }
        ~HostGuard() { release(); }
      } hostGuard{*this};
      if (!acted && parMode.load())
      {
        long long id = -1;
        auto p = in.find("\r\nX-Req-Id: ");
        if (p != std::string::npos) id = std::strtoll(in.c_str() + p + 12, nullptr, 10);
        int h = in.find("\r\nHost: localhost") != std::string::npos ? 1 : 0;
        std::lock_guard<std::mutex> g(mx);
        f = Fault{};
        parSeen[id]++;
        auto it = parScripts.find(id);
        if (it != parScripts.end())
        {
          int k = parAttempt[id]++;
          if (static_cast<std::size_t>(k) < it->second.size()) f = it->second[static_cast<std::size_t>(k)];
        }
        hostGuard.h = h;
        hostEx[h]++;
        if (hostEx[h] > hostExMax[h]) hostExMax[h] = hostEx[h];
      }
      if (acted)
      {
        if (f.reqAct == 'r') { note(ord, reqId, 0, 0, "rst-req"); rst(fd); return; }
        if (f.reqAct == 'f') { note(ord, reqId, 0, 0, "fin-req"); finAndDrain(fd); return; }
        note(ord, reqId, 0, 0, "silence-req");
        { g_waitEpisodeStartReal = realMonoNs(); g_wantTimeout = true; }
        waitPeerClose(fd);
        return;
      }
      // ---- respond
      std::string resp = f.resp;
      if (resp.empty())
      {
        std::string body = "default";
        resp = "HTTP/1.1 200 OK\r\nContent-Length: " + std::to_string(body.size()) + "\r\n\r\n";
        if (in.rfind("HEAD ", 0) != 0) resp += body; // a HEAD response carries the length but no body
      }
      std::size_t j = (f.j < 0 || static_cast<std::size_t>(f.j) > resp.size()) ? resp.size() : static_cast<std::size_t>(f.j);
      if (f.asyncFail && setAllowSwitch) setAllowSwitch(false);
      std::size_t first = j;
      if (f.cut > 0 && static_cast<std::size_t>(f.cut) < j) first = static_cast<std::size_t>(f.cut);
      bool ok = true;
      if (first < j)
      {
        ok = sendAll(fd, resp.data(), first);
        realSleepUs(2500);
        hostGuard.release();
        if (ok) ok = sendAll(fd, resp.data() + first, j - first);
      }
      else
      {
        hostGuard.release();
        ok = sendAll(fd, resp.data(), first);
      }
      note(ord, reqId, 0, static_cast<long long>(j), nullptr);
      if (!ok) { note(ord, reqId, 0, 0, "send-failed"); ::close(fd); return; }
      if (f.respAct != 'k') cs->stopped = true;
      if (f.respAct == 'f') { note(ord, reqId, 0, 0, "fin-resp"); finAndDrain(fd); return; }
      if (f.respAct == 'r') { note(ord, reqId, 0, 0, "rst-resp"); rst(fd); return; }
      if (f.respAct == 's')
      {
        note(ord, reqId, 0, 0, "silence-resp");
        { g_waitEpisodeStartReal = realMonoNs(); g_wantTimeout = true; }
        waitPeerClose(fd);
        return;
      }
      note(ord, reqId, 0, 0, "answered");
      // keep-alive: next request on this connection
    }
  }

  void acceptLoop()
  {
    t_harnessThread = true;
    while (!stop.load())
    {
      struct pollfd p[2] = {{lfd, POLLIN, 0}, {lfd2, POLLIN, 0}};
      int pr = ::poll(p, lfd2 >= 0 ? 2 : 1, 20);
      if (pr <= 0) continue;
      int fd = ::accept4((p[0].revents & POLLIN) ? lfd : lfd2, nullptr, nullptr, SOCK_CLOEXEC);
      if (fd < 0) continue;
      int one = 1;
      setsockopt(fd, IPPROTO_TCP, TCP_NODELAY, &one, sizeof(one));
      Fault f;
      int ord;
      long long reqId;
      {
        std::lock_guard<std::mutex> g(mx);
        f = cur;
        ord = nextOrd++;
        reqId = curReq;
      }
      auto cs = std::make_shared<ConnStat>();
      {
        sockaddr_in peer{};
        socklen_t pl = sizeof(peer);
        if (getpeername(fd, reinterpret_cast<sockaddr*>(&peer), &pl) == 0) cs->peerPort = ntohs(peer.sin_port);
        std::lock_guard<std::mutex> g(mx);
        conns.push_back(cs);
      }
      if (f.reqAct == 'a')
      {
        note(ord, reqId, 0, 0, "rst-accept");
        cs->stopped = true;
        rst(fd);
        accepted++;
        continue;
      }
      liveHandlers++;
      std::thread([this, fd, ord, cs] { handle(fd, ord, cs); }).detach();
      accepted++;
    }
  }

  bool start()
  {
    lfd = ::socket(AF_INET, SOCK_STREAM | SOCK_CLOEXEC, 0);
    if (lfd < 0) return false;
    int one = 1;
    setsockopt(lfd, SOL_SOCKET, SO_REUSEADDR, &one, sizeof(one));
    sockaddr_in a{};
    a.sin_family = AF_INET;
    a.sin_addr.s_addr = htonl(INADDR_LOOPBACK);
    a.sin_port = 0;
    if (::bind(lfd, reinterpret_cast<sockaddr*>(&a), sizeof(a)) != 0) return false;
    if (::listen(lfd, 128) != 0) return false;
    socklen_t al = sizeof(a);
    getsockname(lfd, reinterpret_cast<sockaddr*>(&a), &al);
    port = ntohs(a.sin_port);
    lfd2 = ::socket(AF_INET, SOCK_STREAM | SOCK_CLOEXEC, 0);
    if (lfd2 >= 0)
    {
      sockaddr_in a2{};
      a2.sin_family = AF_INET;
      a2.sin_addr.s_addr = htonl(INADDR_LOOPBACK);
      a2.sin_port = 0;
      setsockopt(lfd2, SOL_SOCKET, SO_REUSEADDR, &one, sizeof(one));
      socklen_t al2 = sizeof(a2);
      if (::bind(lfd2, reinterpret_cast<sockaddr*>(&a2), sizeof(a2)) != 0 || ::listen(lfd2, 128) != 0 ||
          getsockname(lfd2, reinterpret_cast<sockaddr*>(&a2), &al2) != 0)
        return false;
      port2 = ntohs(a2.sin_port);
    }
    // black hole: a listener whose accept queue is full drops further SYNs
    bhfd = ::socket(AF_INET, SOCK_STREAM | SOCK_CLOEXEC, 0);
    sockaddr_in b{};
    b.sin_family = AF_INET;
    b.sin_addr.s_addr = htonl(INADDR_LOOPBACK);
    b.sin_port = 0;
    if (bhfd >= 0 && ::bind(bhfd, reinterpret_cast<sockaddr*>(&b), sizeof(b)) == 0 && ::listen(bhfd, 0) == 0)
    {
      socklen_t bl = sizeof(b);
      getsockname(bhfd, reinterpret_cast<sockaddr*>(&b), &bl);
      static connect_t realc = reinterpret_cast<connect_t>(dlsym(RTLD_NEXT, "connect"));
      bool holed = false;
      for (int i = 0; i < 8 && !holed; ++i)
      {
        int cfd = ::socket(AF_INET, SOCK_STREAM | SOCK_NONBLOCK | SOCK_CLOEXEC, 0);
        int rc = realc(cfd, reinterpret_cast<sockaddr*>(&b), sizeof(b));
        bhFill.push_back(cfd);
        if (rc == 0) continue;
        struct pollfd p{cfd, POLLOUT, 0};
        int pr = ::poll(&p, 1, 60);
        if (pr == 0) holed = true; // still in SYN_SENT after 60 ms: the queue is full
      }
      if (holed) g_blackholePort = ntohs(b.sin_port);
    }
    g_serverPort = port;
    g_serverPort2 = port2;
    acceptor = std::thread([this] { acceptLoop(); });
    return true;
  }
  void shutdown()
  {
    stop = true;
    if (acceptor.joinable()) acceptor.join();
    for (int i = 0; i < 200 && liveHandlers.load() > 0; ++i) realSleepUs(5000);
    if (lfd >= 0) ::close(lfd);
    if (lfd2 >= 0) ::close(lfd2);
    for (int fd : bhFill) ::close(fd);
    if (bhfd >= 0) ::close(bhfd);
  }
};

// =====================================================================================================================
// Decorator around the real engine: records the calls of the requesting thread, can refuse a send
// =====================================================================================================================
static thread_local int t_tid = 0; // index of the calling thread within a `par` operation (0 otherwise)

struct SpyCall
{
  char k;        // 'c' connect, 's' send, 'x' close
  SessionId sid;
  int tid;
};

struct SpyEngine : detail::EngineBase
{
  std::unique_ptr<detail::EngineBase> real;
  std::mutex mx;
  std::vector<SpyCall> calls;
  std::atomic<bool> failSend{false};
  std::function<void()> onSendHook;          // runs on the calling thread inside send(), before forwarding
  std::set<SessionId> closeCalled, closeFired; // guarded by mx: close() was called / the engine's onClose has fired
  std::atomic<long long> nOnData{0}, nOnClose{0}, nOnConnect{0};

  explicit SpyEngine(std::unique_ptr<detail::EngineBase> r) : real(std::move(r)) {}
  void rec(char k, SessionId s)
  {
    std::lock_guard<std::mutex> g(mx);
    calls.push_back(SpyCall{k, s, t_tid});
  }
  StartResult start() override { return real->start(); }
  void stop() override { real->stop(); }
  bool isRunning() const override { return real->isRunning(); }
  TransportErrorInfo lastError() const override { return real->lastError(); }
  ListenResult addListener(const std::string& ip, std::uint16_t p, TlsMode t) override { return real->addListener(ip, p, t); }
  ConnectResult connect(const std::string& h, std::uint16_t p, TlsMode t) override
  {
    // record under the lock together with the id so that the order of records is the order of ids
    std::lock_guard<std::mutex> g(mx);
    auto r = real->connect(h, p, t);
    if (r.isOk()) calls.push_back(SpyCall{'c', r.value(), t_tid});
    return r;
  }
  ConnectResult connectViaListener(ListenerId l, const std::string& h, std::uint16_t p) override
  {
    return real->connectViaListener(l, h, p);
  }
  bool close(SessionId sid) override
  {
    {
      std::lock_guard<std::mutex> g(mx);
      calls.push_back(SpyCall{'x', sid, t_tid});
      closeCalled.insert(sid);
    }
    return real->close(sid);
  }
  bool engineDoneWithClosed()
  {
    std::lock_guard<std::mutex> g(mx);
    for (auto sid : closeCalled)
      if (!closeFired.count(sid)) return false;
    return true;
  }
  bool send(SessionId sid, const void* d, std::size_t n) override
  {
    rec('s', sid);
    if (failSend.load()) return false;
    bool r = real->send(sid, d, n);
    if (onSendHook) onSendHook();
    return r;
  }
  void sendAsync(SessionId sid, const void* d, std::size_t n, SendCompleteCallback cb) override
  {
    rec('s', sid);
    real->sendAsync(sid, d, n, std::move(cb));
  }
  void setCallbacks(Callbacks c) override
  {
    Callbacks w;
    w.onAccept = c.onAccept;
    w.onError = c.onError;
    w.onConnect = [this, f = c.onConnect](SessionId s, const TransportAddress& a) { nOnConnect++; if (f) f(s, a); };
    w.onData = [this, f = c.onData](SessionId s, iora::core::BufferView v, std::chrono::steady_clock::time_point t)
    { nOnData++; if (f) f(s, v, t); };
    w.onClose = [this, f = c.onClose](SessionId s, const TransportErrorInfo& e)
    {
      nOnClose++;
      {
        std::lock_guard<std::mutex> g(mx);
        closeFired.insert(s);
      }
      if (f) f(s, e);
    };
    real->setCallbacks(std::move(w));
  }
  TransportStats getStats() const override { return real->getStats(); }
  TransportAddress getListenerAddress(ListenerId l) const override { return real->getListenerAddress(l); }
  TransportAddress getLocalAddress(SessionId s) const override { return real->getLocalAddress(s); }
  TransportAddress getRemoteAddress(SessionId s) const override { return real->getRemoteAddress(s); }
  bool setDscp(SessionId s, std::uint8_t d) override { return real->setDscp(s, d); }
  std::thread::id getIoThreadId() const override { return real->getIoThreadId(); }
  void detachForTermination() override { real->detachForTermination(); }
  void scheduleSelfDestruct(std::function<void()> d) override { real->scheduleSelfDestruct(std::move(d)); }
};

// =====================================================================================================================
// The client under test
// =====================================================================================================================
static Server g_srv;
static SpyEngine* g_spy = nullptr;
static long long g_reqSeq = 0;
static std::map<std::string, std::string> g_callerHeaders; // `hdr`: extra request header fields the caller supplies (cleared by `reset`)
static std::size_t g_origSyncBuf = 0;
static const long long IDLE_S = 1000000;       // connectionIdleTimeout of the client under test (virtual seconds)
static long long g_requestTimeoutMs = 400;
static std::atomic<long long> g_opDeadlineReal{0};

static std::atomic<bool> g_realtime{false}; // virtual clock = real clock (no scaling, no warps): measures real time-outs

// change the scale without a jump of the virtual clock
static void setScale(long long sc)
{
  long long v = virtNowNs();
  long long r = realMonoNs();
  g_scale = sc;
  g_voff = v - (g_anchor + (r - g_anchor) / sc);
}

static void warperLoop()
{
  t_harnessThread = true;
  for (;;)
  {
    // The clock is advanced only once the requesting thread has been inside ONE timed wait for 5 ms of real time: what the server
    // wrote before it fell silent must reach the client first (every delivery ends the wait and starts a new one).
    if (g_wantTimeout.load() && !g_realtime.load() && !g_manualClock.load() && realMonoNs() - g_waitEpisodeStartReal.load() > 5000000LL)
    {
      g_voff += 20LL * 1000000LL; // +20 ms virtual
      g_warps++;
    }
    realSleepUs(150);
    long long dl = g_opDeadlineReal.load();
    if (dl != 0 && realMonoNs() > dl)
    {
      std::fprintf(stderr, "c17 harness watchdog: an operation did not finish within its real-time budget\n");
      std::fflush(stderr);
      _exit(97);
    }
  }
}

static HttpClient* g_clientPtr = nullptr;
static TransportConfig& tcfg();

// One real client per configuration for the whole run (building one costs ~70 ms of TLS-context set-up); a `reset`
// returns it to the initial state through the client's own dropConnection.
struct ClientBox
{
  std::unique_ptr<HttpClient> client;
  SpyEngine* spy = nullptr;
  std::size_t origSyncBuf = 0;
  bool dead = false;           // cleanup() was called on it: its transport is stopped for good; `reset` builds a new one
};
static std::atomic<bool> g_clientDead{false};
static std::map<std::tuple<bool, std::size_t, long long, long long, long long>, ClientBox> g_boxes;

static long long g_connectTimeoutMs = 170, g_leaseTimeoutMs = 250;

static void makeClient(bool reuse, std::size_t cap, long long leaseMs, long long requestMs, long long connectMs)
{
  g_requestTimeoutMs = requestMs;
  g_connectTimeoutMs = connectMs;
  g_leaseTimeoutMs = leaseMs;
  auto key = std::make_tuple(reuse, cap, leaseMs, requestMs, connectMs);
  g_clientDead = false;
  for (auto bi = g_boxes.begin(); bi != g_boxes.end();)
  {
    if (bi->second.dead) { g_clientPtr = nullptr; g_spy = nullptr; bi = g_boxes.erase(bi); } // ~HttpClient: cleanup() once more, harmless
    else ++bi;
  }
  auto it = g_boxes.find(key);
  if (it == g_boxes.end())
  {
    HttpClient::Config cfg; // every default comes from the real constructor; only what the scenario needs is changed
    cfg.reuseConnections = reuse;
    cfg.requestTimeout = std::chrono::milliseconds(g_requestTimeoutMs);
    cfg.connectTimeout = std::chrono::milliseconds(g_connectTimeoutMs);
    cfg.connectionIdleTimeout = std::chrono::seconds(IDLE_S);
    cfg.leaseAcquireTimeout = std::chrono::milliseconds(leaseMs);
    if (cap > 0)
    {
      cfg.maxResponseBytes = cap;
      cfg.jsonConfig.maxPayloadSize = cap;
    }
    ClientBox box;
    box.client = std::make_unique<HttpClient>(cfg);
    HttpClient& hc = *box.client;
    // Let the real ensureInitialized() build the TransportConfig, then re-create the transport with the SAME config
    // around a recording decorator of a real TcpEngine (repository seam Transport::withEngine).
    {
      std::lock_guard<std::mutex> lock(hc._mutex);
      hc.ensureInitialized();
    }
    TransportConfig tc = hc._transport->_impl->config;
    hc._transport->stop();
    hc._transport.reset();
    if (hc._dnsClient)
    {
      hc._dnsClient->stop();
      hc._dnsClient.reset(); // only 127.0.0.1 / localhost are used: resolveHostAddress never touches it
    }
    auto spy = std::make_unique<SpyEngine>(std::make_unique<TcpEngine>(tc));
    box.spy = spy.get();
    hc._transport = iora::network::test::TransportEngineInjector::withEngine(std::move(spy), tc);
    auto sr = hc._transport->start();
    if (sr.isErr()) throw std::runtime_error("harness: transport start failed");
    box.origSyncBuf = hc._transport->_impl->config.maxSyncReceiveBuffer;
    it = g_boxes.emplace(key, std::move(box)).first;
  }
  g_clientPtr = it->second.client.get();
  g_spy = it->second.spy;
  g_ioThreadId = g_spy->real->getIoThreadId();
  g_origSyncBuf = it->second.origSyncBuf;
  // back to the initial state: nothing cached, nothing leased
  std::vector<std::pair<std::string, SessionId>> cached;
  {
    std::lock_guard<std::mutex> lock(g_clientPtr->_mutex);
    for (auto& [hp, e] : g_clientPtr->_connections) cached.emplace_back(hp, e.id);
    g_clientPtr->_leasedHosts.clear();
  }
  for (auto& [hp, id] : cached) g_clientPtr->dropConnection(hp, id);
  g_srv.setAllowSwitch = [](bool v) { tcfg().allowReadModeSwitch = v; };
}

static TransportConfig& tcfg() { return g_clientPtr->_transport->_impl->config; }

// Between two attempts nothing of the previous one may still be in flight, or the server would bind it to the next fault:
// (1) the server accepted every connection the client opened, (2) the engine is done with every session the client closed
// (its onClose fired: nothing more will be written), (3) the server has taken every byte the client wrote, on every connection
// it is still reading.
static bool quiescent()
{
  if (g_srv.accepted.load() < g_forwardedConnects.load()) return false;
  if (g_spy && !g_clientDead.load() && !g_spy->engineDoneWithClosed()) return false;
  std::vector<std::shared_ptr<ConnStat>> cs;
  {
    std::lock_guard<std::mutex> g(g_srv.mx);
    auto& v = g_srv.conns;
    v.erase(std::remove_if(v.begin(), v.end(), [](const std::shared_ptr<ConnStat>& c) { return c->stopped.load(); }), v.end());
    cs = v;
  }
  std::lock_guard<std::mutex> g(g_wireMx);
  for (auto& c : cs)
  {
    if (c->stopped.load()) continue;
    auto it = g_sentByPort.find(c->peerPort);
    long long sent = it == g_sentByPort.end() ? 0 : it->second;
    if (c->read.load() < sent) return false;
  }
  return true;
}
static bool waitAccepted()
{
  for (int i = 0; i < 8000; ++i)
  {
    if (quiescent()) return true;
    realSleepUs(250);
  }
  return false;
}

static std::atomic<bool> g_quiesceFailed{false};

static bool g_fakeHolder = false;
static bool g_aged = false;
static SessionId g_agedSid = 0;
static std::chrono::steady_clock::time_point g_agedTo{};

static void beginAttempt(ReqCtx& cx, int idx)
{
  long long vnow = virtNowNs();
  if (idx != 0) cx.closeEpisode(vnow); // still attributed to the attempt that is ending
  if (idx > 0) cx.attemptVms.push_back((vnow - cx.attemptStartV) / 1000000LL);
  if (cx.par)
  {
    cx.attempt = idx;
    cx.attemptStartV = vnow;
    return;
  }
  // 1. undo what the previous attempt needed
  g_wantTimeout = false;
  g_refuse = false;
  g_blackhole = false;
  g_spy->failSend = false;
  g_spy->onSendHook = nullptr;
  {
    std::lock_guard<std::mutex> lk(cx.client->_transport->_impl->syncMutex);
    cx.client->_transport->_impl->shuttingDown = false;
    for (auto& kv : cx.client->_transport->_impl->receiveBuffers) kv.second->flushing = false; // class O
  }
  tcfg().allowReadModeSwitch = true;
  tcfg().maxSyncReceiveBuffer = g_origSyncBuf;
  if (g_fakeHolder)
  {
    {
      std::lock_guard<std::mutex> lock(cx.client->_mutex);
      cx.client->_leasedHosts.erase(cx.hostPort);
    }
    cx.client->_cv.notify_all();
    g_fakeHolder = false;
  }
  if (g_aged)
  {
    // the aged entry was not looked at (the attempt failed before acquireConnection): un-age it
    std::lock_guard<std::mutex> lock(cx.client->_mutex);
    auto it = cx.client->_connections.find(cx.hostPort);
    if (it != cx.client->_connections.end() && it->second.id == g_agedSid && it->second.lastUsed == g_agedTo)
      it->second.lastUsed += std::chrono::seconds(IDLE_S + 5);
    g_aged = false;
  }
  // 2. the server must have accepted every connection opened so far, so that it binds the NEXT one to the next fault
  if (!waitAccepted()) g_quiesceFailed = true;
  cx.attempt = idx;
  if (idx < 0) return; // request finished
  Fault f;
  if (static_cast<std::size_t>(idx) < cx.script.size()) f = cx.script[static_cast<std::size_t>(idx)];
  else cx.exhausted = true; // more attempts than the script foresaw: serve a plain 200
  if (f.idle)
  {
    // "the cached connection of this host was last used longer ago than connectionIdleTimeout": age the entry
    // (a global clock warp would age every other host's entry too)
    std::lock_guard<std::mutex> lock(cx.client->_mutex);
    auto it = cx.client->_connections.find(cx.hostPort);
    if (it != cx.client->_connections.end())
    {
      it->second.lastUsed -= std::chrono::seconds(IDLE_S + 5);
      g_aged = true;
      g_agedSid = it->second.id;
      g_agedTo = it->second.lastUsed;
    }
  }
  {
    std::lock_guard<std::mutex> g(g_srv.mx);
    g_srv.cur = f;
  }
  cx.curCls = f.cls;
  switch (f.cls)
  {
  case 'L':
  {
    std::lock_guard<std::mutex> lock(cx.client->_mutex);
    cx.client->_leasedHosts.insert(cx.hostPort); // "another thread" holds the lease for the whole wait
    g_fakeHolder = true;                         // (the clock is set running when the caller enters the lease wait)
    break;
  }
  case 'R': g_refuse = true; break;
  case 'B': g_blackhole = true; break;
  case 'M': tcfg().allowReadModeSwitch = false; break;
  case 'E': g_spy->failSend = true; break;
  case 'V': tcfg().maxSyncReceiveBuffer = 256; break;
  case 'O':
  {
    // "receiveSync answers with an error that has no branch of its own": mark the session's sync buffer as being flushed
    // right after the hand-over, so that the receive is refused with TransportError::Cancelled
    HttpClient* hc = cx.client;
    g_spy->onSendHook = [hc] {
      auto& impl = *hc->_transport->_impl;
      std::lock_guard<std::mutex> lk(impl.syncMutex);
      for (auto& kv : impl.receiveBuffers)
        if (!kv.second->closed) kv.second->flushing = true;
    };
    break;
  }
  case 'S':
  {
    // "the transport starts shutting down after the request was handed over": receiveSync's entry fence answers ShuttingDown
    HttpClient* hc = cx.client;
    g_spy->onSendHook = [hc] {
      std::lock_guard<std::mutex> lk(hc->_transport->_impl->syncMutex);
      hc->_transport->_impl->shuttingDown = true;
    };
    break;
  }
  default: break;
  }
  cx.attemptStartV = virtNowNs();
}

// ---- script parsing -------------------------------------------------------------------------------------------------
static bool parseLL(const std::string& s, long long& out)
{
  if (s.empty()) return false;
  bool neg = s[0] == '-';
  unsigned long long v = 0;
  if (!vh::parseNat(neg ? s.substr(1) : s, v)) return false;
  out = neg ? -static_cast<long long>(v) : static_cast<long long>(v);
  return true;
}
static std::vector<std::string> splitc(const std::string& s, char c)
{
  std::vector<std::string> o;
  std::string cur;
  for (char ch : s)
  {
    if (ch == c) { o.push_back(cur); cur.clear(); }
    else cur.push_back(ch);
  }
  o.push_back(cur);
  return o;
}
// token: <sem>@<reqAct><k>,<respHex>,<j>,<respAct>,<cut>   where <sem> = [I]<cls>[:...]; for K the last sem field is setAsync (0|1)
static bool parseFault(const std::string& tok, Fault& f)
{
  auto at = tok.find('@');
  if (at == std::string::npos) return false;
  std::string sem = tok.substr(0, at), conc = tok.substr(at + 1);
  std::size_t p = 0;
  if (!sem.empty() && sem[0] == 'I') { f.idle = true; p = 1; }
  if (p >= sem.size()) return false;
  f.cls = sem[p];
  if (std::string("LRBMETCDFPVKSOH").find(f.cls) == std::string::npos) return false;
  if (f.cls == 'K')
  {
    auto fs = splitc(sem.substr(p), ':');
    if (fs.size() != 3 && fs.size() != 4) return false; // optional 4th field (residue in the transport) is for the model only
    f.asyncFail = fs[2] == "0";
  }
  auto cs = splitc(conc, ',');
  if ((cs.size() != 5 && cs.size() != 6) || cs[0].empty() || cs[3].size() != 1) return false; // 6th field: generator's note (expected body), unused here
  f.reqAct = cs[0][0];
  if (std::string("nawrfs").find(f.reqAct) == std::string::npos) return false;
  if (!parseLL(cs[0].substr(1), f.k)) return false;
  Bytes rb;
  if (!vh::ofHex(cs[1], rb)) return false;
  f.resp.assign(rb.begin(), rb.end());
  if (!parseLL(cs[2], f.j)) return false;
  f.respAct = cs[3][0];
  if (std::string("kfrs").find(f.respAct) == std::string::npos) return false;
  if (!parseLL(cs[4], f.cut)) return false;
  return true;
}

static std::string hostPortOf(int hostIdx)
{
  if (hostIdx == 2) return "127.0.0.1:" + std::to_string(g_srv.port2);
  return std::string(hostIdx == 1 ? "localhost" : "127.0.0.1") + ":" + std::to_string(g_srv.port);
}

struct ReqResult
{
  std::string res;
  std::string body;
};

// one logical request: method, budget, url kind (0 = 127.0.0.1, 1 = localhost, 9 = malformed URL), body length, script
// `entry` empty: performRequest(method, …) directly; otherwise the public entry point of that name (its method is the API's)
static std::string doRequest(const std::string& entry, const std::string& method, long long budget, int urlKind, std::size_t bodyLen,
                             std::vector<Fault> script, std::size_t& callMark)
{
  if (g_blackholePort.load() == 0)
    for (auto& f : script)
      if (f.cls == 'B') return "skip:no-blackhole"; // this kernel does not drop SYNs on a full accept queue: class B cannot be injected
  ReqCtx cx;
  cx.script = std::move(script);
  cx.client = g_clientPtr;
  cx.hostPort = hostPortOf(urlKind == 1 ? 1 : (urlKind == 5 ? 2 : 0));
  long long seq = ++g_reqSeq;
  {
    std::lock_guard<std::mutex> g(g_srv.mx);
    g_srv.curReq = seq;
  }
  {
    std::lock_guard<std::mutex> g(g_wireMx);
    g_wire.clear();
  }
  {
    std::lock_guard<std::mutex> g(g_spy->mx);
    callMark = g_spy->calls.size();
  }
  // url kinds: 0 = 127.0.0.1:P, 1 = localhost:P, 2 = https://127.0.0.1:P, 3 = 127.0.0.1:(P + 65536) (the uint16_t cast of parseUrl wraps
  // it to P), 4 = a port beyond `int` (std::stoi throws std::out_of_range), 5 = 127.0.0.1:P2 (second port), 9 = not a URL
  std::string portText = urlKind == 3 ? std::to_string(static_cast<long long>(g_srv.port) + 65536)
                       : urlKind == 4 ? std::string("99999999999")
                       : urlKind == 5 ? std::to_string(g_srv.port2) : std::to_string(g_srv.port);
  std::string url = urlKind == 9 ? std::string("not a url")
                                 : std::string(urlKind == 2 ? "https://" : "http://") + std::string(urlKind == 1 ? "localhost" : "127.0.0.1") + ":" +
                                     portText + "/r" + std::to_string(seq) + "?q=1";
  std::string body(bodyLen, 'b');
  std::map<std::string, std::string> headers{{"X-Req-Id", std::to_string(seq)}};
  for (auto& kv : g_callerHeaders) headers[kv.first] = kv.second;
  long long v0 = virtNowNs(), r0 = realMonoNs();
  g_opDeadlineReal = r0 + 45LL * 1000000000LL;
  beginAttempt(cx, 0);
  std::string res, rbody = "-";
  g_seqCtx = &cx;
  t_ctx = &cx;
  try
  {
    HttpClient& hc = *g_clientPtr;
    const int b = static_cast<int>(budget);
    HttpClient::Response resp;
    if (entry.empty()) resp = hc.performRequest(method, url, body, headers, b);
    else if (entry == "get") resp = hc.get(url, headers, b);
    else if (entry == "head") resp = hc.head(url, headers, b);
    else if (entry == "post") resp = hc.post(url, body, headers, b);
    else if (entry == "postJson") resp = hc.postJson(url, iora::parsers::Json(body), headers, b);
    else if (entry == "deleteRequest") resp = hc.deleteRequest(url, headers, b);
    else if (entry == "postFile")
    {
      std::string path = "/tmp/c17_harness_upload_" + std::to_string(::getpid());
      { std::ofstream f(path, std::ios::binary); f << body; }
      try { resp = hc.postFile(url, "f", path, headers, b); }
      catch (...) { ::unlink(path.c_str()); throw; }
      ::unlink(path.c_str());
    }
    else if (entry == "postStream")
    {
      std::string lines;
      hc.postStream(url, iora::parsers::Json(body), headers, [&](const std::string& l) { lines += l + "\n"; }, b);
      resp.statusCode = 200; // postStream returns nothing: it throws unless the response was 2xx
      resp.body = "-";
    }
    else if (entry == "getAsync" || entry == "postJsonAsync")
    {
      // the request runs on a thread std::async creates; this thread only waits for it
      t_ctx = nullptr;
      g_asyncOp = true;
      struct Off { ~Off() { g_asyncOp = false; } } off;
      auto fut = entry == "getAsync" ? hc.getAsync(url, headers, b) : hc.postJsonAsync(url, iora::parsers::Json(body), headers, b);
      while (fut.wait_for(std::chrono::milliseconds(0)) != std::future_status::ready) realSleepUs(100);
      resp = fut.get();
    }
    else throw std::logic_error("harness: unknown entry point");
    res = "ok:" + std::to_string(resp.statusCode);
    rbody = entry == "postStream" ? std::string("-") : vh::toHex(resp.body);
  }
  catch (const HttpFramingError&) { res = "err:framing"; }
  catch (const HttpRequestNotSentError&) { res = "err:notsent"; }
  catch (const std::invalid_argument&) { res = "err:invalid"; }
  catch (const std::out_of_range&) { res = "err:other"; } // std::stoi in parseUrl: a class the retry loop knows only as std::exception
  catch (const std::logic_error&) { res = "err:harness"; }
  catch (const std::runtime_error& e)
  {
    res = std::string(typeid(e) == typeid(std::runtime_error) ? "err:runtime" : "err:other");
  }
  catch (const std::exception&) { res = "err:other"; }
  catch (...) { res = "err:nonstd"; }
  t_ctx = nullptr;
  g_seqCtx = nullptr;
  int attempts = cx.attempt + 1;
  cx.attemptVms.push_back((virtNowNs() - cx.attemptStartV) / 1000000LL);
  beginAttempt(cx, -1);
  g_opDeadlineReal = 0;
  long long v1 = virtNowNs(), r1 = realMonoNs();
  // ---- compared part
  std::ostringstream o;
  o << "res=" << res << " att=" << attempts << " tw=";
  for (int i = 0; i < attempts; ++i)
  {
    long long v = static_cast<std::size_t>(i) < cx.attemptTw.size() ? cx.attemptTw[static_cast<std::size_t>(i)] : 0;
    o << (i ? "," : "") << (v > 0 ? std::to_string(v) : std::string("-"));
  }
  // per attempt: did the receive loop call receiveSync at all (`0` = never: the attempt ended before the loop)
  o << " rz=";
  for (int i = 0; i < attempts; ++i)
    o << (i ? "," : "") << ((static_cast<std::size_t>(i) < cx.attemptRecvs.size() && cx.attemptRecvs[static_cast<std::size_t>(i)] > 0) ? "+" : "0");
  // ---- monitor-only part
  std::ostringstream mo;
  {
    std::string rc;
    for (int i = 0; i < attempts; ++i)
      rc += (i ? "," : "") + std::to_string(static_cast<std::size_t>(i) < cx.attemptRecvs.size() ? cx.attemptRecvs[static_cast<std::size_t>(i)] : 0);
    mo << "rc=" << (rc.empty() ? "-" : rc) << " probes=" << cx.probes << " ";
  }
  {
    std::lock_guard<std::mutex> g(g_wireMx);
    int n = 0;
    std::string lst;
    for (auto& kv : g_wire)
      if (kv.second > 0) { n++; lst += (lst.empty() ? "" : ",") + std::to_string(kv.second); }
    mo << "wire=" << n << " wirebytes=" << (lst.empty() ? "-" : lst);
  }
  {
    std::lock_guard<std::mutex> g(g_srv.mx);
    int n = 0;
    std::string lst;
    for (auto& r : g_srv.recs)
      if (r.reqId == seq)
      {
        if (r.reqBytes > 0) n++;
        lst += (lst.empty() ? "" : ",") + std::to_string(r.ord) + ":" + std::to_string(r.reqBytes) + ":" +
               std::to_string(r.respBytes) + ":" + (r.how.empty() ? "?" : r.how);
      }
    mo << " srvwire=" << n << " srv=" << (lst.empty() ? "-" : lst);
  }
  {
    std::string s;
    for (auto v : cx.sleepsMs) s += (s.empty() ? "" : ",") + std::to_string(v);
    mo << " sleeps=" << (s.empty() ? "-" : s);
    std::string a;
    for (auto v : cx.attemptVms) a += (a.empty() ? "" : ",") + std::to_string(v);
    mo << " avms=" << (a.empty() ? "-" : a);
  }
  {
    std::string aw;
    for (std::size_t i = 0; i < cx.attemptWaits.size(); ++i)
    {
      std::string one;
      for (auto v : cx.attemptWaits[i]) one += (one.empty() ? "" : ":") + std::to_string(v);
      aw += (i ? "," : "") + (one.empty() ? std::string("-") : one);
    }
    mo << " aw=" << (aw.empty() ? "-" : aw) << " stall=" << cx.stalls;
  }
  mo << " maxwait=" << cx.maxWaitMs << " tow=" << cx.waitTimeouts << " vms=" << (v1 - v0) / 1000000LL << " rms=" << (r1 - r0) / 1000000LL << " exhausted=" << (cx.exhausted ? 1 : 0)
     << " body=" << rbody << " quiesce=" << (g_quiesceFailed.load() ? "FAILED" : "ok");
  return o.str() + "\x01" + mo.str();
}

static std::map<SessionId, int> g_sidOrd; // engine session id -> order of creation within the case
static int g_nextSidOrd = 1;

static std::string traceSince(std::size_t mark)
{
  std::lock_guard<std::mutex> g(g_spy->mx);
  std::string s;
  for (std::size_t i = mark; i < g_spy->calls.size(); ++i)
  {
    char k = g_spy->calls[i].k;
    SessionId sid = g_spy->calls[i].sid;
    if (k == 'c' && !g_sidOrd.count(sid)) g_sidOrd[sid] = g_nextSidOrd++;
    int ord = g_sidOrd.count(sid) ? g_sidOrd[sid] : 0;
    s += (s.empty() ? "" : ",") + std::string(1, k) + std::to_string(ord);
  }
  return s.empty() ? "-" : s;
}

static std::string cacheState()
{
  std::vector<std::string> items;
  std::size_t leased;
  {
    std::lock_guard<std::mutex> lock(g_clientPtr->_mutex);
    for (auto& [hp, e] : g_clientPtr->_connections)
    {
      int h = hp == hostPortOf(0) ? 0 : (hp == hostPortOf(1) ? 1 : (hp == hostPortOf(2) ? 2 : 7));
      int ord = g_sidOrd.count(e.id) ? g_sidOrd[e.id] : 0;
      items.push_back("h" + std::to_string(h) + "#" + std::to_string(ord));
    }
    leased = g_clientPtr->_leasedHosts.size();
  }
  std::sort(items.begin(), items.end());
  std::string s;
  for (auto& i : items) s += (s.empty() ? "" : ",") + i;
  return "cache=" + (s.empty() ? std::string("-") : s) + " leased=" + std::to_string(leased);
}

// ---- concurrent callers sharing the client ----------------------------------------------------------------------------
struct ParThread
{
  std::string method;
  long long budget = 0;
  int urlKind = 0;
  std::vector<Fault> script;
  long long reqId = 0;
  std::string res;
  int attempts = 0;
  std::string body = "-";
};

static std::string classify(const std::function<void(std::string&)>& f, std::string& body)
{
  try
  {
    f(body);
    return "";
  }
  catch (const HttpFramingError&) { return "err:framing"; }
  catch (const HttpRequestNotSentError&) { return "err:notsent"; }
  catch (const std::invalid_argument&) { return "err:invalid"; }
  catch (const std::runtime_error& e) { return typeid(e) == typeid(std::runtime_error) ? "err:runtime" : "err:other"; }
  catch (const std::exception&) { return "err:other"; }
  catch (...) { return "err:nonstd"; }
}

// par <thread>...   with <thread> = <method hex>/<budget>/<url kind>/<token>;<token>;...
static std::string doPar(std::vector<ParThread>& th)
{
  std::size_t mark;
  {
    std::lock_guard<std::mutex> g(g_spy->mx);
    mark = g_spy->calls.size();
  }
  {
    std::lock_guard<std::mutex> g(g_srv.mx);
    g_srv.parScripts.clear();
    g_srv.parAttempt.clear();
    for (auto& t : th)
    {
      t.reqId = ++g_reqSeq;
      g_srv.parScripts[t.reqId] = t.script;
    }
    g_srv.cur = Fault{};
    g_srv.hostExMax[0] = g_srv.hostExMax[1] = 0;
  }
  g_srv.parMode = true;
  g_opDeadlineReal = realMonoNs() + 120LL * 1000000000LL;
  std::atomic<int> ready{0};
  std::atomic<bool> go{false};
  std::vector<std::thread> ts;
  for (std::size_t i = 0; i < th.size(); ++i)
  {
    ts.emplace_back([&, i] {
      ParThread& t = th[i];
      ReqCtx cx;
      cx.par = true;
      cx.client = g_clientPtr;
      cx.script = t.script;
      t_tid = static_cast<int>(i);
      std::string url = t.urlKind == 9 ? std::string("not a url")
                                       : "http://" + std::string(t.urlKind == 1 ? "localhost" : "127.0.0.1") + ":" +
                                           std::to_string(g_srv.port) + "/p" + std::to_string(t.reqId);
      std::map<std::string, std::string> headers{{"X-Req-Id", std::to_string(t.reqId)}};
      ready++;
      while (!go.load()) realSleepUs(50);
      t_ctx = &cx;
      int status = 0;
      std::string r = classify(
        [&](std::string& body) {
          auto resp = g_clientPtr->performRequest(t.method, url, "", headers, static_cast<int>(t.budget));
          status = resp.statusCode;
          body = vh::toHex(resp.body);
        },
        t.body);
      t_ctx = nullptr;
      t.res = r.empty() ? "ok:" + std::to_string(status) : r;
      t.attempts = cx.attempt + 1;
    });
  }
  while (ready.load() < static_cast<int>(th.size())) realSleepUs(50);
  go = true;
  for (auto& t : ts) t.join();
  g_opDeadlineReal = 0;
  g_srv.parMode = false;
  waitAccepted();
  std::ostringstream o;
  {
    std::lock_guard<std::mutex> g(g_spy->mx);
    std::string s;
    for (std::size_t i = mark; i < g_spy->calls.size(); ++i)
    {
      auto& c = g_spy->calls[i];
      if (c.k == 'c' && !g_sidOrd.count(c.sid)) g_sidOrd[c.sid] = g_nextSidOrd++;
      int ord = g_sidOrd.count(c.sid) ? g_sidOrd[c.sid] : 0;
      s += (s.empty() ? "" : ",") + std::to_string(c.tid) + std::string(1, c.k) + std::to_string(ord);
    }
    o << "ev=" << (s.empty() ? "-" : s);
  }
  for (std::size_t i = 0; i < th.size(); ++i) o << " r" << i << "=" << th[i].res << "/" << th[i].attempts << "/" << th[i].body;
  o << " " << cacheState();
  {
    std::lock_guard<std::mutex> g(g_srv.mx);
    o << " | maxex=" << g_srv.hostExMax[0] << "," << g_srv.hostExMax[1];
  }
  return o.str();
}

// ---- three callers, deterministic in virtual time (seeded change C17-d) ----------------------------------------------------
// contend <lease ms> <step ms> <n>: T1 holds host X (127.0.0.1:P) behind a peer that takes the request and stays silent; T2 asks
// for X and blocks in acquireLease (leaseAcquireTimeout = <lease>, configured by the preceding `reset`); T3 (this thread) completes
// <n> exchanges with the healthy host Y (localhost:P), advancing the VIRTUAL clock by <step> ms before each — every releaseLease of
// Y does notify_all on the client's single condition variable and wakes T2. The clock moves only when this operation moves it.
// Compared with the model: the results, the round in which T2's lease wait ended, the engine calls per caller. Monitors: T2 keeps
// ONE absolute deadline over all its wake-ups, its wait lasts <lease> (+ one step) of virtual time, its request never reaches X.
static std::string kindsOf(std::size_t mark, int tid)
{
  std::lock_guard<std::mutex> g(g_spy->mx);
  std::string s;
  for (std::size_t i = mark; i < g_spy->calls.size(); ++i)
    if (g_spy->calls[i].tid == tid) s += (s.empty() ? "" : ",") + std::string(1, g_spy->calls[i].k);
  return s.empty() ? "-" : s;
}

static std::string doContend(long long leaseMs, long long stepMs, int n)
{
  std::size_t mark;
  {
    std::lock_guard<std::mutex> g(g_spy->mx);
    mark = g_spy->calls.size();
  }
  // an id space of its own: the running number of `req` operations (which the generator predicts) is not consumed
  static long long contendSeq = 1000000000LL;
  const long long id1 = ++contendSeq, id2 = ++contendSeq;
  {
    std::lock_guard<std::mutex> g(g_srv.mx);
    g_srv.parScripts.clear();
    g_srv.parAttempt.clear();
    g_srv.parSeen.clear();
    Fault silent;
    silent.cls = 'T';
    silent.resp = "x";
    silent.j = 0;
    silent.respAct = 's'; // the whole request is read, nothing is ever answered
    g_srv.parScripts[id1] = {silent};
    g_srv.cur = Fault{};
  }
  g_srv.parMode = true;
  g_manualClock = true;
  g_wantTimeout = false;
  setScale(1000000); // real time no longer moves the virtual clock noticeably (1 s real = 1 µs virtual)
  g_opDeadlineReal = realMonoNs() + 90LL * 1000000000LL;
  auto seen = [&](long long id) {
    std::lock_guard<std::mutex> g(g_srv.mx);
    auto it = g_srv.parSeen.find(id);
    return it == g_srv.parSeen.end() ? 0 : it->second;
  };
  const std::string base = ":" + std::to_string(g_srv.port);
  struct Caller
  {
    ReqCtx cx;
    std::string res, body;
    std::atomic<bool> done{false};
    std::atomic<long long> endV{0};
    std::thread th;
  };
  auto run = [&](Caller& c, int tid, const std::string& method, const std::string& url, long long id) {
    c.cx.par = true;
    c.cx.client = g_clientPtr;
    c.th = std::thread([&c, tid, method, url, id] {
      t_tid = tid;
      t_ctx = &c.cx;
      int status = 0;
      std::map<std::string, std::string> headers{{"X-Req-Id", std::to_string(id)}};
      std::string r = classify(
        [&](std::string& body) {
          auto resp = g_clientPtr->performRequest(method, url, "", headers, 0);
          status = resp.statusCode;
          body = vh::toHex(resp.body);
        },
        c.body);
      c.endV = virtNowNs();
      t_ctx = nullptr;
      c.res = r.empty() ? "ok:" + std::to_string(status) : r;
      c.done = true;
    });
  };
  Caller t1, t2;
  run(t1, 1, "POST", "http://127.0.0.1" + base + "/c" + std::to_string(id1), id1);
  for (int i = 0; i < 40000 && seen(id1) == 0 && !t1.done.load(); ++i) realSleepUs(250); // T1 holds X's lease and has sent its request
  run(t2, 2, "GET", "http://127.0.0.1" + base + "/c" + std::to_string(id2), id2);
  for (int i = 0; i < 40000 && t2.cx.leaseWaitCalls.load() == 0 && !t2.done.load(); ++i) realSleepUs(250); // T2 is inside the lease wait
  int round = 0, ok3 = 0;
  {
    ReqCtx cx3;
    cx3.par = true;
    cx3.client = g_clientPtr;
    for (int i = 1; i <= n; ++i)
    {
      const long long callsBefore = t2.cx.leaseWaitCalls.load();
      g_voff += stepMs * 1000000LL;
      const long long id3 = ++contendSeq;
      t_tid = 3;
      t_ctx = &cx3;
      std::string body;
      std::string r = classify(
        [&](std::string& b) {
          std::map<std::string, std::string> headers{{"X-Req-Id", std::to_string(id3)}};
          auto resp = g_clientPtr->performRequest("GET", "http://localhost" + base + "/c" + std::to_string(id3), "", headers, 0);
          if (resp.statusCode == 200) ok3++;
          b = "";
        },
        body);
      t_ctx = nullptr;
      t_tid = 0;
      // T2 has looked at the clock again since the advance: it either finished or has entered a third wait since
      for (int k = 0; k < 20000 && !t2.done.load() && t2.cx.leaseWaitCalls.load() < callsBefore + 3; ++k) realSleepUs(250);
      if (t2.done.load() && round == 0) round = i;
    }
  }
  if (round == 0) round = n + 1;
  // let T1's silent peer run into requestTimeout; a T2 that is still waiting (broken lease wait) then gets the lease and talks to X
  for (int k = 0; k < 40000 && !(t1.done.load() && t2.done.load()); ++k)
  {
    g_voff += (g_requestTimeoutMs + leaseMs + 50) * 1000000LL;
    realSleepUs(2000);
  }
  t1.th.join();
  t2.th.join();
  g_opDeadlineReal = 0;
  setScale(50);
  g_wantTimeout = false;
  g_manualClock = false;
  g_srv.parMode = false;
  waitAccepted();
  // so that the numbering of sessions by creation order stays complete for later operations
  {
    std::lock_guard<std::mutex> g(g_spy->mx);
    for (std::size_t i = mark; i < g_spy->calls.size(); ++i)
      if (g_spy->calls[i].k == 'c' && !g_sidOrd.count(g_spy->calls[i].sid)) g_sidOrd[g_spy->calls[i].sid] = g_nextSidOrd++;
  }
  std::vector<std::string> hosts;
  std::size_t leased;
  {
    std::lock_guard<std::mutex> lock(g_clientPtr->_mutex);
    for (auto& [hp, e] : g_clientPtr->_connections)
      hosts.push_back(hp == hostPortOf(0) ? "h0" : (hp == hostPortOf(1) ? "h1" : (hp == hostPortOf(2) ? "h2" : "h7")));
    leased = g_clientPtr->_leasedHosts.size();
  }
  std::sort(hosts.begin(), hosts.end());
  std::string hs;
  for (auto& h : hosts) hs += (hs.empty() ? "" : ",") + h;
  std::size_t nDeadlines;
  {
    std::lock_guard<std::mutex> g(t2.cx.leaseMx);
    nDeadlines = t2.cx.leaseDeadlines.size();
  }
  const long long waitMs = t2.cx.leaseFirstV.load() < 0 ? 0 : (t2.endV.load() - t2.cx.leaseFirstV.load()) / 1000000LL;
  const long long askedMs = t2.cx.leaseFirstV.load() < 0 ? 0 : (t2.cx.leaseFirstDl.load() - t2.cx.leaseFirstV.load() + 999999LL) / 1000000LL;
  std::ostringstream o;
  o << "t1=" << t1.res << "/" << (t1.cx.attempt + 1) << "/" << kindsOf(mark, 1) << " t2=" << t2.res << "/" << (t2.cx.attempt + 1) << "/"
    << kindsOf(mark, 2) << " round=" << round << " t3=" << ok3 << "/" << kindsOf(mark, 3) << " cache=" << (hs.empty() ? "-" : hs)
    << " leased=" << leased << " | t2wait=" << waitMs << " t2asked=" << askedMs << " t2deadlines=" << nDeadlines << " t2wakes=" << t2.cx.leaseWaitCalls.load()
    << " t2wire=" << seen(id2) << " lease=" << leaseMs << " step=" << stepMs;
  return o.str();
}

int main()
{
  iora::core::Logger::setLevel(iora::core::Logger::Level::Fatal);
  std::signal(SIGPIPE, SIG_IGN);
  if (!g_srv.start())
  {
    std::fprintf(stderr, "c17 harness: cannot start the loopback server\n");
    return 3;
  }
  t_harnessThread = true;
  std::thread(warperLoop).detach();
  int rc = vh::runLines([&](const std::vector<std::string>& t) -> std::string {
    try
    {
      unsigned long long a = 0, b = 0, c = 0, d = 0, e = 0;
      if (t.size() == 6 && t[0] == "reset" && vh::parseNat(t[1], a) && vh::parseNat(t[2], b) && vh::parseNat(t[3], c) &&
          vh::parseNat(t[4], d) && vh::parseNat(t[5], e))
      {
        // reset <reuseConnections> <response cap, 0 = default> <leaseAcquireTimeout ms> <requestTimeout ms> <connectTimeout ms>
        makeClient(a != 0, static_cast<std::size_t>(b), static_cast<long long>(c), static_cast<long long>(d), static_cast<long long>(e));
        g_sidOrd.clear();
        g_nextSidOrd = 1;
        g_callerHeaders.clear();
        {
          std::lock_guard<std::mutex> g(g_srv.mx);
          g_srv.nextOrd = 1;
          g_srv.recs.clear();
        }
        g_srv.maxInExchange = 0;
        return "ok";
      }
      if (t.size() >= 6 && (t[0] == "req" || t[0] == "call") && g_clientPtr)
      {
        // req  <method hex> …: performRequest(method, …) directly (any method string)
        // call <entry point> …: the public function of that name
        long long budget = 0;
        unsigned long long urlKind = 0, bodyLen = 0;
        Bytes m;
        std::string entry;
        if (t[0] == "call") entry = t[1];
        else if (!vh::ofHex(t[1], m)) return "bad-op";
        if (!parseLL(t[2], budget) || !vh::parseNat(t[3], urlKind) || !vh::parseNat(t[4], bodyLen))
          return "bad-op";
        std::vector<Fault> script;
        for (std::size_t i = 5; i < t.size(); ++i)
        {
          Fault f;
          if (!parseFault(t[i], f)) return "bad-op";
          script.push_back(f);
        }
        std::size_t mark = 0;
        std::string r = doRequest(entry, std::string(m.begin(), m.end()), budget, static_cast<int>(urlKind),
                                  static_cast<std::size_t>(bodyLen), std::move(script), mark);
        if (r.rfind("skip:", 0) == 0) return r;
        auto sep = r.find('\x01');
        std::string ev = traceSince(mark); // assigns creation-order numbers to new session ids (before cacheState uses them)
        std::string cs = cacheState();
        return "ev=" + ev + " " + r.substr(0, sep) + " " + cs + " | " + r.substr(sep + 1);
      }
      if (t.size() >= 2 && t[0] == "par" && g_clientPtr)
      {
        std::vector<ParThread> th;
        for (std::size_t i = 1; i < t.size(); ++i)
        {
          auto fs = splitc(t[i], '/');
          if (fs.size() != 4) return "bad-op";
          ParThread pt;
          Bytes m;
          long long uk = 0;
          if (!vh::ofHex(fs[0], m) || !parseLL(fs[1], pt.budget) || !parseLL(fs[2], uk)) return "bad-op";
          pt.method.assign(m.begin(), m.end());
          pt.urlKind = static_cast<int>(uk);
          for (auto& tk : splitc(fs[3], ';'))
          {
            Fault f;
            if (!parseFault(tk, f)) return "bad-op";
            pt.script.push_back(f);
          }
          th.push_back(std::move(pt));
        }
        return doPar(th);
      }
      if (t.size() == 3 && t[0] == "hdr")
      {
        // a header field the CALLER passes with every following request (e.g. its own `Connection: close`): executeRequest copies
        // it into the request after its own fields; it must not change the retry / reuse decisions
        Bytes n, v;
        if (!vh::ofHex(t[1], n) || !vh::ofHex(t[2], v) || n.empty()) return "bad-op";
        g_callerHeaders[std::string(n.begin(), n.end())] = std::string(v.begin(), v.end());
        return "ok";
      }
      if (t.size() == 1 && t[0] == "cleanup" && g_clientPtr)
      {
        // HttpClient::cleanup() on the client under test: afterwards it is dead for good (`reset` builds a new one)
        std::size_t mark;
        {
          std::lock_guard<std::mutex> g(g_spy->mx);
          mark = g_spy->calls.size();
        }
        g_clientPtr->cleanup();
        g_clientDead = true;
        g_ioThreadId = std::thread::id(); // the engine's I/O thread is gone; its id may be recycled for a thread std::async creates
        for (auto& kv : g_boxes)
          if (kv.second.client.get() == g_clientPtr) kv.second.dead = true;
        std::vector<std::string> xs;
        {
          std::lock_guard<std::mutex> g(g_spy->mx);
          for (std::size_t i = mark; i < g_spy->calls.size(); ++i)
          {
            auto& c = g_spy->calls[i];
            xs.push_back(std::string(1, c.k) + std::to_string(g_sidOrd.count(c.sid) ? g_sidOrd[c.sid] : 0));
          }
        }
        std::sort(xs.begin(), xs.end());
        std::string s;
        for (auto& x : xs) s += (s.empty() ? "" : ",") + x;
        return "ev=" + (s.empty() ? std::string("-") : s) + " " + cacheState();
      }
      if (t.size() == 4 && t[0] == "contend" && g_clientPtr && vh::parseNat(t[1], a) && vh::parseNat(t[2], b) && vh::parseNat(t[3], c) &&
          a > 0 && b > 0 && c <= 200 && static_cast<long long>(a) == g_leaseTimeoutMs)
        return doContend(static_cast<long long>(a), static_cast<long long>(b), static_cast<int>(c));
      if (t.size() == 3 && t[0] == "rrc")
      {
        // responseRequestsClose on a response with the given Connection field (~ = absent) and HTTP version
        HttpClient::Response resp;
        Bytes v, ver;
        if (t[1] != "~")
        {
          if (!vh::ofHex(t[1], v)) return "bad-op";
          resp.headers["Connection"] = std::string(v.begin(), v.end());
        }
        if (!vh::ofHex(t[2], ver)) return "bad-op";
        resp.httpVersion = std::string(ver.begin(), ver.end());
        HttpClient hc;
        return hc.responseRequestsClose(resp) ? "1" : "0";
      }
      if (t.size() == 2 && t[0] == "idem")
      {
        Bytes m;
        if (!vh::ofHex(t[1], m)) return "bad-op";
        return HttpClient::isIdempotentMethod(std::string(m.begin(), m.end())) ? "1" : "0";
      }
      if (t.size() == 2 && t[0] == "vclock" && (t[1] == "0" || t[1] == "1"))
      {
        // vclock 0: from now on time-outs are real (the following requests take their configured time-outs in real time)
        g_realtime = t[1] == "0";
        setScale(g_realtime.load() ? 1 : 50);
        return "ok";
      }
      if (t.size() == 2 && t[0] == "srvclose" && (t[1] == "f" || t[1] == "r"))
      {
        // the server closes (FIN) or resets every kept-alive connection that is idle, and the client gets time to notice
        g_srv.closeIdleRst = t[1] == "r";
        g_srv.closeIdleGen++;
        realSleepUs(60000);
        return "ok";
      }
      if (t.size() == 2 && t[0] == "pause" && vh::parseNat(t[1], a) && a <= 1000)
      {
        // the client is idle for a while (real milliseconds): whatever the server still writes arrives on a cached connection
        realSleepUs(static_cast<long>(a) * 1000);
        return "ok";
      }
      if (t.size() == 1 && t[0] == "stats")
      {
        std::ostringstream o;
        o << "clockwait=" << n_clockwait.load() << " sleeps_skipped=" << n_nanosleep_skipped.load()
          << " connects=" << n_connect_seen.load() << " refused=" << n_connect_refused.load()
          << " blackholed=" << n_connect_blackholed.load() << " sends=" << n_send_seen.load() << " warps=" << g_warps.load()
          << " stalls=" << n_stalls.load() << " blackhole=" << (g_blackholePort.load() != 0 ? 1 : 0) << " max_in_exchange=" << g_srv.maxInExchange.load();
        return o.str();
      }
      return "bad-op";
    }
    catch (const std::exception& e)
    {
      return std::string("throw ") + typeid(e).name();
    }
  });
  g_opDeadlineReal = 0;
  g_boxes.clear(); // ~HttpClient -> cleanup(): closes cached connections, stops the transport
  g_srv.shutdown();
  std::fflush(stdout);
  _exit(rc); // detached helper threads (warper, idle connection handlers) are not joined
}
