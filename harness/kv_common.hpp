// Shared part of the C11/C12 harnesses: the REAL iora::storage::KVStore behind the line protocol of `iora_model_kv`.
// File-system calls and clocks are interposed inside this executable (kv_interpose.hpp).
#pragma once
#include "kv_interpose.hpp"

#define private public
#define protected public
#include "iora/storage/kvstore.hpp"
#undef private
#undef protected

namespace kvh
{
using iora::storage::KVStore;
using iora::storage::KVStoreConfig;
using Clock = std::chrono::system_clock;

inline Clock::time_point tpOfMs(long long ms) { return Clock::time_point(std::chrono::milliseconds(ms)); }
inline long long msOfTp(Clock::time_point tp)
{
  return std::chrono::duration_cast<std::chrono::milliseconds>(tp.time_since_epoch()).count();
}

inline bool parseInt(const std::string &s, long long &out)
{
  if (s.empty()) return false;
  bool neg = s[0] == '-';
  unsigned long long v;
  if (!vh::parseNat(neg ? s.substr(1) : s, v)) return false;
  if (v > 9223372036854775807ULL) return false;
  out = neg ? -static_cast<long long>(v) : static_cast<long long>(v);
  return true;
}

inline std::string csv(std::vector<std::string> v, bool sort = true)
{
  if (sort) std::sort(v.begin(), v.end());
  if (v.empty()) return "-";
  std::string o;
  for (size_t i = 0; i < v.size(); ++i)
  {
    if (i) o += ",";
    o += v[i];
  }
  return o;
}

struct Harness
{
  std::string work;
  unsigned long dirCounter = 0;
  std::string dir;
  std::unique_ptr<KVStore> store;
  KVStoreConfig cfg;
  bool freeRunning = false;

  explicit Harness(std::string w) : work(std::move(w)) { std::filesystem::create_directories(work); }
  ~Harness() { closeStore(); }

  void closeStore()
  {
    if (store)
    {
      store.reset();
      takeEvents();
    }
    g_base.clear();
    if (!dir.empty())
    {
      std::error_code ec;
      std::filesystem::remove_all(dir, ec);
      dir.clear();
    }
  }

  void newDir()
  {
    closeStore();
    dir = work + "/d" + std::to_string(++dirCounter);
    std::error_code ec;
    std::filesystem::remove_all(dir, ec);
    std::filesystem::create_directories(dir);
  }

  void makeCfg(unsigned long long maxCache, unsigned long long maxLog, bool inlineCompact)
  {
    cfg = KVStoreConfig{};
    cfg.maxCacheSize = static_cast<uint32_t>(maxCache);
    cfg.maxLogSizeBytes = static_cast<uint32_t>(maxLog);
    cfg.enableBackgroundCompaction = !inlineCompact;
    if (freeRunning)
    {
      cfg.ttlTickDuration = std::chrono::milliseconds(1);
      cfg.ttlTicksPerWheel = 256;
      cfg.ttlNumWheels = 4;
      cfg.compactionInterval = std::chrono::milliseconds(2);
    }
    else
    {
      cfg.ttlTickDuration = std::chrono::milliseconds(3600000);
      cfg.ttlTicksPerWheel = 256;
      cfg.ttlNumWheels = 2;
      // steady_clock is frozen: a wait_for deadline is "start + interval" in frozen time but the kernel waits in real time, so an
      // interval shorter than the life of this process would make the compaction thread spin once real time has passed it
      cfg.compactionInterval = std::chrono::milliseconds(86400000);
    }
  }

  std::string openStore()
  {
    g_base = dir + "/s.db";
    store = std::make_unique<KVStore>(g_base, cfg);
    return "ok";
  }

  static std::string errKind(const std::string &m)
  {
    if (m.find("Key cannot be empty") != std::string::npos) return "emptyKey";
    if (m.find("Key too large") != std::string::npos) return "keyTooLarge";
    if (m.find("Value too large") != std::string::npos) return "valueTooLarge";
    if (m.find("TTL must be greater than zero") != std::string::npos) return "badTtl";
    if (m.find("Invalid key or value in batch") != std::string::npos) return "badBatch";
    if (m.find("Failed to initialize KVStore") != std::string::npos) return "loadFailed";
    return "other";
  }

  static std::string optVal(const std::optional<std::vector<std::uint8_t>> &v)
  {
    if (!v) return "none";
    return "val:" + vh::toHex(*v);
  }

  std::string lstate()
  {
    std::shared_lock<std::shared_mutex> lock(store->_mutex);
    std::vector<std::string> a, b;
    for (auto &[k, v] : store->_kv) a.push_back(vh::toHex(k) + ":" + vh::toHex(v));
    for (auto &[k, e] : store->_expiry) b.push_back(vh::toHex(k) + ":" + std::to_string(msOfTp(e.expiry)));
    return "kv=" + csv(a) + " exp=" + csv(b);
  }

  // implementation-only invariants (cache coherence, bounded cache, _expiry within _kv)
  std::string invariants()
  {
    std::shared_lock<std::shared_mutex> lock(store->_mutex);
    std::shared_lock<std::shared_mutex> cacheLock(store->_cacheMutex);
    for (auto &[k, e] : store->_expiry)
      if (store->_kv.find(k) == store->_kv.end()) return "BAD:expiry-without-value:" + vh::toHex(k);
    if (store->_cache.size() > std::max<size_t>(cfg.maxCacheSize, 1)) return "BAD:cache-over-capacity";
    for (auto &[k, c] : store->_cache)
    {
      auto it = store->_kv.find(k);
      if (it == store->_kv.end()) return "BAD:cache-entry-without-value:" + vh::toHex(k);
      if (it->second != c.value) return "BAD:cache-value-stale:" + vh::toHex(k);
      auto eit = store->_expiry.find(k);
      auto want = eit == store->_expiry.end() ? KVStore::kNoExpiry() : eit->second.expiry;
      if (want != c.expiry) return "BAD:cache-expiry-stale:" + vh::toHex(k);
    }
    return "ok";
  }

  std::string step(const std::vector<std::string> &t)
  {
    using vh::Bytes;
    auto str = [](const Bytes &b) { return std::string(b.begin(), b.end()); };
    if (t.empty()) return "bad-op";
    const std::string &op = t[0];
    unsigned long long a, b, c;
    long long now;
    if (op == "reset" || op == "resetfree")
    {
      if (t.size() != 5 || !vh::parseNat(t[1], a) || !vh::parseNat(t[2], b) || !vh::parseNat(t[3], c) || c > 1 ||
          !parseInt(t[4], now))
        return "bad-op";
      freeRunning = (op == "resetfree");
      g_freezeSteady = !freeRunning;
      newDir();
      makeCfg(a, b, c == 1);
      g_wallMs = now;
      std::string r = openStore();
      return r + " | " + takeEvents();
    }
    if (op == "crashimg")
    {
      // crashimg <maxCache> <maxLog> <inline> <now> <snap|none> <log|none> <tmp|none>: a new process on a crash image
      if (t.size() != 8 || !vh::parseNat(t[1], a) || !vh::parseNat(t[2], b) || !vh::parseNat(t[3], c) || c > 1 ||
          !parseInt(t[4], now))
        return "bad-op";
      Bytes f[3];
      bool have[3];
      for (int i = 0; i < 3; ++i)
      {
        have[i] = t[5 + i] != "none";
        if (have[i] && !vh::ofHex(t[5 + i], f[i])) return "bad-op";
      }
      freeRunning = false;
      g_freezeSteady = true;
      newDir();
      makeCfg(a, b, c == 1);
      g_wallMs = now;
      const char *suffix[3] = {"", ".log", ".tmp"};
      for (int i = 0; i < 3; ++i)
        if (have[i])
        {
          std::ofstream o(dir + "/s.db" + suffix[i], std::ios::binary | std::ios::trunc);
          o.write(reinterpret_cast<const char *>(f[i].data()), static_cast<std::streamsize>(f[i].size()));
        }
      try
      {
        openStore();
      }
      catch (const std::exception &e)
      {
        store.reset();
        takeEvents();
        return std::string("err:loadFailed | -");
      }
      return "ok | " + takeEvents();
    }
    if (op == "stats")
    {
      return "stats clock_realtime=" + std::to_string(g_clockReal.load()) + " clock_monotonic=" + std::to_string(g_clockMono.load()) +
             " write=" + std::to_string(g_nWrite.load()) + " open=" + std::to_string(g_nOpen.load()) + " rename=" +
             std::to_string(g_nRename.load()) + " truncate=" + std::to_string(g_nTrunc.load()) + " unlink=" +
             std::to_string(g_nUnlink.load()) + " sliced_waits=" + std::to_string(g_slicedWaits.load()) + " stress_reads=" +
             std::to_string(g_stressReads.load()) + " stress_rounds=" + std::to_string(g_stressRounds.load()) + " stress_big_rounds=" +
             std::to_string(g_stressBigRounds.load()) + " gate_ops=" + std::to_string(g_gateOps.load()) + " gate_hits=" +
             std::to_string(g_gateHits.load()) + " gate_writer_blocked=" + std::to_string(g_gateWriterBlocked.load()) +
             " gate_writer_passed=" + std::to_string(g_gateWriterPassed.load()) + " gate_timeouts=" + std::to_string(g_gateTimeouts.load()) +
             " wgate_ops=" + std::to_string(g_wgateOps.load()) + " wgate_hits=" + std::to_string(g_wgateHits.load()) + " wgate_writer_blocked=" +
             std::to_string(g_wgateWriterBlocked.load()) + " wgate_writer_passed=" + std::to_string(g_wgateWriterPassed.load()) +
             " max_plausible_ms=" + std::to_string(static_cast<long long>(KVStore::kMaxPlausibleEpochMs)) +
             " tp_max_ms=" + std::to_string(static_cast<long long>(KVStore::toEpochMs(Clock::time_point::max())));
    }
    if (!store) return "bad-op";
    if (op == "now")
    {
      if (t.size() != 2 || !parseInt(t[1], now) || now < g_wallMs.load()) return "bad-op";
      g_wallMs = now;
      return "ok | -";
    }
    if (op == "stress")
    { // stress <seed> <ms>: one writer, two readers and the clock race the real wheel + eviction worker (free-running mode), in ROUNDS:
      // the writer does a burst of operations on four keys while the readers read them; then all three stop (quiescence) and the
      // main thread checks, with the clock standing still, that the cache path and the authoritative path agree on every key
      // (get / getString vs exists / getBatch) and that the cache-coherence monitor holds.  Every third seed uses 1 MiB values.
      // Implementation-only monitors: every value read is one that was written for THAT key (equal bytes tagged with the key),
      // reads never throw, post-quiescence coherence; ASan/UBSan watch the rest.  Contents afterwards unspecified: last op of a case.
      unsigned long long seed, ms;
      if (t.size() != 3 || !vh::parseNat(t[1], seed) || !vh::parseNat(t[2], ms) || ms > 2000 || !freeRunning) return "bad-op";
      const bool big = seed % 3 == 0;
      const size_t bigLen = (1u << 20) + 17;
      std::atomic<bool> quit{false}, wdone{false};
      std::atomic<unsigned> gen{0};
      std::atomic<int> idle{0};
      std::atomic<unsigned> focus{0}; // the key this round is about: the writer writes it, the readers read it
      std::atomic<unsigned long> reads{0}, bad{0};
      std::string firstBad;
      std::mutex badMutex;
      auto keyOf = [](unsigned i) { return std::string("stress-") + static_cast<char>('a' + i); };
      auto lenOf = [&](unsigned i) { return big && i < 2 ? bigLen : size_t(64); };
      auto good = [&](unsigned i, const std::vector<std::uint8_t> &v)
      {
        if (v.size() != lenOf(i)) return false;
        for (auto b : v)
          if (b != v[0]) return false;
        return (v[0] >> 5) == i;
      };
      auto note = [&](const std::string &w)
      {
        bad++;
        std::lock_guard<std::mutex> g(badMutex);
        if (firstBad.empty()) firstBad = w;
      };
      auto waitRound = [&](unsigned &my)
      { // next round number, or false when the run is over
        while (gen.load() == my && !quit.load()) usleep(20);
        if (quit.load()) return false;
        my = gen.load();
        return true;
      };
      g_muteEvents = true;
      std::thread writer([&]
      {
        unsigned long long x = seed * 2654435761ULL + 1;
        unsigned n = 0, my = 0;
        while (waitRound(my))
        {
          // a short burst on the round's key: an op that drops the cache entry (expireAt / persist / remove) makes the readers' next
          // get() take the cache-miss path while the following op of the burst writes the key
          x = x * 6364136223846793005ULL + 1442695040888963407ULL;
          unsigned burst = 1 + static_cast<unsigned>((x >> 20) % 3);
          for (unsigned b = 0; b < burst; ++b)
          {
            x = x * 6364136223846793005ULL + 1442695040888963407ULL;
            unsigned i = ((x >> 33) % 8 == 0) ? static_cast<unsigned>((x >> 36) % 4) : focus.load(), c = (x >> 40) % 7;
            auto val = [&](unsigned j) { return std::vector<std::uint8_t>(lenOf(j), static_cast<std::uint8_t>((j << 5) | (n++ & 31))); };
            try
            {
              if (c == 0) store->set(keyOf(i), val(i));
              else if (c == 1) store->set(keyOf(i), val(i), std::chrono::seconds(1));
              else if (c == 2) store->expireAt(keyOf(i), tpOfMs(std::min<long long>(g_wallMs.load() + (((x >> 53) & 1) ? 3600000LL : static_cast<long long>((x >> 50) % 6)), 9223372036854LL)));
              else if (c == 3) store->persist(keyOf(i));
              else if (c == 4) store->remove(keyOf(i));
              else if (c == 5) store->setBatch({{keyOf(i), val(i)}, {keyOf((i + 1) % 4), val((i + 1) % 4)}});
              else store->compact();
            }
            catch (const std::exception &e)
            {
              note(std::string("writer threw ") + typeid(e).name());
            }
          }
          wdone = true;
          idle++;
        }
      });
      auto readerFn = [&](unsigned long long salt)
      {
        unsigned long long x = (seed ^ salt) * 0x9E3779B97F4A7C15ULL + 7;
        unsigned my = 0;
        while (waitRound(my))
        {
          unsigned it = 0;
          do
          {
            x = x * 6364136223846793005ULL + 1442695040888963407ULL;
            unsigned i = ((x >> 33) % 8 == 0) ? static_cast<unsigned>((x >> 36) % 4) : focus.load();
            try
            {
              auto v = store->get(keyOf(i));
              if (v && !good(i, *v)) note("get returned a torn or foreign value for " + keyOf(i));
              if (++it % 4 == 0)
              {
                auto gb = store->getBatch({keyOf(i), keyOf((i + 1) % 4)});
                for (auto &kv : gb)
                  if (!good(static_cast<unsigned>(kv.first.back() - 'a'), kv.second)) note("getBatch returned a torn or foreign value for " + kv.first);
                (void)store->exists(keyOf(i));
                (void)store->ttl(keyOf(i));
                (void)store->size();
                for (auto &k2 : store->keysWithPrefix("stress-"))
                  if (k2.size() != 8) note("keysWithPrefix returned a foreign key");
              }
              reads++;
            }
            catch (const std::exception &e)
            {
              note(std::string("reader threw ") + typeid(e).name());
            }
          } while (!wdone.load());
          idle++;
        }
      };
      std::thread r1(readerFn, 11), r2(readerFn, 23);
      // quiescence: no call of the three threads is in flight and the clock stands still; the wheel and the eviction worker may
      // still evict, but only keys whose expiry has passed, which no read path shows any more
      auto coherent = [&]() -> std::string
      {
        for (unsigned i = 0; i < 4; ++i)
        {
          const std::string k2 = keyOf(i);
          auto g = store->get(k2);      // cache fast path first
          auto gs = store->getString(k2);
          bool e = store->exists(k2);   // authoritative: _kv / _expiry under _mutex
          auto gb = store->getBatch({k2});
          if (g.has_value() != e)
            return "after the racing calls returned, get(" + k2 + ") " + (g ? "returns a value" : "returns nothing") + " but exists() is " + (e ? "true" : "false");
          if (gs.has_value() != e) return "after the racing calls returned, getString(" + k2 + ") and exists() disagree";
          if (g && (gb.find(k2) == gb.end() || gb[k2] != *g)) return "after the racing calls returned, get(" + k2 + ") and getBatch() return different values";
          if (g && !good(i, *g)) return "get returned a torn or foreign value for " + k2;
        }
        std::string inv = invariants();
        return inv == "ok" ? "" : "after the racing calls returned: " + inv;
      };
      auto t0 = std::chrono::steady_clock::now();
      unsigned long rounds = 0;
      std::string incoherent;
      while (incoherent.empty() && (rounds == 0 || std::chrono::steady_clock::now() - t0 < std::chrono::milliseconds(ms)))
      {
        wdone = false;
        idle = 0;
        focus = static_cast<unsigned>((seed + rounds * 2654435761ULL) >> 3) % 4;
        gen++;
        while (idle.load() < 3)
        {
          // (never past the last millisecond system_clock::time_point can hold: beyond it now() itself overflows)
          if (g_wallMs.load() + 4 < 9223372036854LL) g_wallMs += 1 + static_cast<long long>(seed % 3);
          usleep(100);
        }
        rounds++;
        incoherent = coherent();
      }
      quit = true;
      writer.join();
      r1.join();
      r2.join();
      g_stressReads += reads.load();
      g_stressRounds += rounds;
      if (big) g_stressBigRounds += rounds;
      g_muteEvents = false;
      takeEvents();
      if (bad.load()) return "BAD:" + firstBad;
      if (!incoherent.empty()) return "BAD:" + incoherent;
      return "ok";
    }
    if (op == "sleep")
    { // free-running mode only: let the real wheel / worker / compaction thread run
      if (t.size() != 2 || !vh::parseNat(t[1], a) || a > 1000) return "bad-op";
      std::this_thread::sleep_for(std::chrono::milliseconds(a));
      takeEvents();
      return "ok";
    }
    if (op == "racegate" || op == "wracegate")
    { // racegate <key> <remove | persist | clear | set <v> | setttl <v> <ttl> | expireat <ms>>   (deterministic mode)
      // wracegate <key> <v1> <same writers>: the gated call is set(key, v1) instead of get(key) (two writers, see below)
      // A deterministic schedule for get(key) on the cache-miss path against one writer of the key: the main thread calls get(key);
      // when it reaches its exclusive acquisition of _cacheMutex (updateCache) the gate (kv_interpose.hpp) releases a second thread
      // that runs the writer, and holds the reader until the writer has RETURNED or is about to BLOCK on _mutex.  With the lock
      // scopes the model assumes (Gen.Kv.getRefillsCacheUnderStoreLock) the writer blocks: the outcome is `get` then the writer,
      // sequentially, which is what the model answers.  If get() never reaches the gate (cache hit, absent or expired key,
      // cache off) the writer simply runs after it.  Answer: `<get result>;<writer result> | <file events>`.
      // `wracegate`: the same gate with set(key, v1) as the gated call: it stands at the exclusive acquisition of _cacheMutex inside
      // its updateCache when the second writer is released.  With the lock scope the model assumes for writers
      // (Gen.Kv.writersTouchCacheUnderStoreLock: _cache is updated while _mutex is still held exclusively) the second writer blocks
      // and the outcome is the set, then the writer.  A writer that gives _mutex back before its cache update lets the second
      // writer run in between and then overwrites the cache entry with v1 (theorem M6_any_threads_unlocked_writer_refuted).
      const bool gatedIsSet = op == "wracegate";
      std::vector<std::string> u(t.begin(), t.end());
      Bytes kk, wv, v1;
      long long warg = 0;
      if (gatedIsSet)
      {
        if (u.size() < 4 || !vh::ofHex(u[2], v1)) return "bad-op";
        u.erase(u.begin() + 2);
      }
      const std::vector<std::string> &t = u; // (shadows the op's tokens: from here on `key wop args` in both forms)
      if (t.size() < 3 || freeRunning || !vh::ofHex(t[1], kk)) return "bad-op";
      const std::string key = str(kk), wop = t[2];
      if (wop == "remove" || wop == "persist" || wop == "clear")
      {
        if (t.size() != 3) return "bad-op";
      }
      else if (wop == "set")
      {
        if (t.size() != 4 || !vh::ofHex(t[3], wv)) return "bad-op";
      }
      else if (wop == "setttl")
      {
        if (t.size() != 5 || !vh::ofHex(t[3], wv) || !parseInt(t[4], warg)) return "bad-op";
      }
      else if (wop == "expireat")
      {
        if (t.size() != 4 || !parseInt(t[3], warg)) return "bad-op";
      }
      else return "bad-op";
      (gatedIsSet ? g_wgateOps : g_gateOps)++;
      Gate &g = g_gate;
      g.gatedIsWriter = gatedIsSet;
      g.armed = false;
      g.writerBlocked = false;
      g.writerDone = false;
      g.go = false;
      g.writerActive = false;
      g.target = static_cast<pthread_rwlock_t *>(store->_cacheMutex.native_handle());
      g.storeLock = static_cast<pthread_rwlock_t *>(store->_mutex.native_handle());
      g.reader = pthread_self();
      std::string wres;
      std::thread writer([&]
      {
        g.writer = pthread_self();
        g.writerActive = true;
        while (!g.go.load()) usleep(50);
        try
        {
          if (wop == "remove") store->remove(key);
          else if (wop == "persist") store->persist(key);
          else if (wop == "clear") store->clear();
          else if (wop == "set") store->set(key, wv);
          else if (wop == "setttl") store->set(key, wv, std::chrono::seconds(warg));
          else store->expireAt(key, tpOfMs(warg));
          wres = "ok";
        }
        catch (const iora::storage::KVStoreException &e)
        {
          wres = "err:" + errKind(e.what());
        }
        catch (const std::exception &e)
        {
          wres = std::string("throw ") + typeid(e).name();
        }
        g.writerActive = false;
        g.writerDone = true;
      });
      while (!g.writerActive.load()) usleep(50); // the interposer knows the writer's identity before the gate can open
      g.armed = true;
      std::optional<std::vector<std::uint8_t>> r;
      std::string rres;
      try
      {
        if (gatedIsSet)
        {
          store->set(key, v1);
          rres = "ok";
        }
        else
        {
          r = store->get(key);
          rres = optVal(r);
        }
      }
      catch (const iora::storage::KVStoreException &e)
      {
        rres = "err:" + errKind(e.what());
      }
      catch (const std::exception &e)
      {
        rres = std::string("throw ") + typeid(e).name();
      }
      g.armed = false;
      g.go = true; // gate not reached: the writer runs now, after the get
      writer.join();
      g.target = nullptr;
      g.storeLock = nullptr;
      return rres + ";" + wres + " | " + takeEvents();
    }
    Bytes k, v;
    try
    {
      if (op == "set")
      {
        if (t.size() != 3 || !vh::ofHex(t[1], k) || !vh::ofHex(t[2], v)) return "bad-op";
        store->set(str(k), v);
        return "ok | " + takeEvents();
      }
      if (op == "bigvalue")
      { // bigvalue <key> <len> <byte> [ttl]: a value too large for the line protocol (boundary witness; implementation-only cases)
        unsigned long long len, fill;
        long long ttl = 0;
        if ((t.size() != 4 && t.size() != 5) || !vh::ofHex(t[1], k) || !vh::parseNat(t[2], len) || !vh::parseNat(t[3], fill) || fill > 255 ||
            (t.size() == 5 && !parseInt(t[4], ttl)))
          return "bad-op";
        if (t.size() == 5)
          store->set(str(k), std::vector<std::uint8_t>(static_cast<size_t>(len), static_cast<std::uint8_t>(fill)), std::chrono::seconds(ttl));
        else
          store->set(str(k), std::vector<std::uint8_t>(static_cast<size_t>(len), static_cast<std::uint8_t>(fill)));
        takeEvents();
        return "ok";
      }
      if (op == "bigkeys")
      { // bigkeys <n>: n keys through setBatch (chunks of 50 000), compact() (the snapshot then carries count = n), clean close, reopen,
        // every key counted and a sample read back.  Implementation-only (the traces are muted: too many records for the line protocol).
        unsigned long long n;
        if (t.size() != 2 || !vh::parseNat(t[1], n)) return "bad-op";
        g_muteEvents = true;
        std::unordered_map<std::string, std::vector<std::uint8_t>> batch;
        char buf[24];
        for (unsigned long long i = 0; i < n; ++i)
        {
          std::snprintf(buf, sizeof buf, "b%08llx", i);
          batch.emplace(buf, std::vector<std::uint8_t>{static_cast<std::uint8_t>(i & 0xff)});
          if (batch.size() == 50000)
          {
            store->setBatch(batch);
            batch.clear();
          }
        }
        if (!batch.empty()) store->setBatch(batch);
        const size_t before = store->size();
        store->compact();
        store.reset();
        std::string r;
        try
        {
          openStore();
          size_t okv = 0;
          for (unsigned long long i : {0ULL, n / 2, n - 1})
          {
            std::snprintf(buf, sizeof buf, "b%08llx", i);
            auto v = store->get(buf);
            okv += (v && v->size() == 1 && (*v)[0] == static_cast<std::uint8_t>(i & 0xff)) ? 1 : 0;
          }
          r = "before=" + std::to_string(before) + " reopen=ok size=" + std::to_string(store->size()) + " sample=" + std::to_string(okv) + "/3";
        }
        catch (const std::exception &e)
        {
          r = "before=" + std::to_string(before) + " reopen=throw " + errKind(e.what());
        }
        g_muteEvents = false;
        takeEvents();
        return r;
      }
      if (op == "setttl")
      {
        long long ttl;
        if (t.size() != 4 || !vh::ofHex(t[1], k) || !vh::ofHex(t[2], v) || !parseInt(t[3], ttl)) return "bad-op";
        store->set(str(k), v, std::chrono::seconds(ttl));
        return "ok | " + takeEvents();
      }
      if (op == "setbatch" || op == "setbatchttl")
      {
        size_t i0 = op == "setbatch" ? 1 : 2;
        long long ttl = 0;
        if (op == "setbatchttl" && (t.size() < 2 || !parseInt(t[1], ttl))) return "bad-op";
        if ((t.size() - i0) % 2) return "bad-op";
        std::unordered_map<std::string, std::vector<std::uint8_t>> batch;
        for (size_t i = i0; i + 1 < t.size(); i += 2)
        {
          if (!vh::ofHex(t[i], k) || !vh::ofHex(t[i + 1], v)) return "bad-op";
          batch[str(k)] = v;
        }
        if (op == "setbatch") store->setBatch(batch);
        else store->setBatch(batch, std::chrono::seconds(ttl));
        return "ok | " + takeEvents();
      }
      if (op == "get")
      {
        if (t.size() != 2 || !vh::ofHex(t[1], k)) return "bad-op";
        auto r = store->get(str(k));
        return optVal(r) + " | " + takeEvents();
      }
      if (op == "remove")
      {
        if (t.size() != 2 || !vh::ofHex(t[1], k)) return "bad-op";
        store->remove(str(k));
        return "ok | " + takeEvents();
      }
      if (op == "rmprefix")
      {
        // rmprefix <prefix> [<key>*]: the keys (the order a previous run observed; used by the model only) are ignored here.
        // removeWithPrefix() removes in the order keysWithPrefix() lists the keys = the iteration order of _kv, which does not change
        // between two traversals without a mutation in between: the same public call, made just before, reports the order used.
        // It is an INPUT of the model (third field); free-running cases (a worker may evict in between) compare results only.
        if (t.size() < 2 || !vh::ofHex(t[1], k)) return "bad-op";
        std::vector<std::string> order;
        for (auto &x : store->keysWithPrefix(str(k))) order.push_back(vh::toHex(x));
        size_t n = store->removeWithPrefix(str(k));
        return "count:" + std::to_string(n) + " | " + takeEvents() + " | order:" + csv(order, false);
      }
      if (op == "clear")
      {
        store->clear();
        return "ok | " + takeEvents();
      }
      if (op == "expireat")
      {
        long long when;
        if (t.size() != 3 || !vh::ofHex(t[1], k) || !parseInt(t[2], when)) return "bad-op";
        store->expireAt(str(k), tpOfMs(when));
        return "ok | " + takeEvents();
      }
      if (op == "persist")
      {
        if (t.size() != 2 || !vh::ofHex(t[1], k)) return "bad-op";
        store->persist(str(k));
        return "ok | " + takeEvents();
      }
      if (op == "compact")
      {
        store->compact();
        return "ok | " + takeEvents();
      }
      if (op == "evict")
      {
        if (t.size() != 3 || !vh::ofHex(t[1], k)) return "bad-op";
        iora::core::TimerId id = 0;
        {
          std::shared_lock<std::shared_mutex> lock(store->_mutex);
          auto it = store->_expiry.find(str(k));
          bool have = it != store->_expiry.end();
          if (t[2] == "cur") id = have ? it->second.timerId : 999999999ULL;
          else if (t[2] == "stale") id = (have ? it->second.timerId : 999999990ULL) + 1;
          else if (t[2] == "zero") id = 0;
          else return "bad-op";
        }
        store->evictionCallback(str(k), std::make_shared<iora::core::TimerId>(id));
        return "ok | " + takeEvents();
      }
      if (op == "reopen")
      {
        store.reset(); // clean close: shutdown() drains the wheel, joins the worker, closes the log
        std::string r = openStore();
        return r + " | " + takeEvents();
      }
      if (op == "read")
      {
        if (t.size() < 2 || !vh::ofHex(t[1], k)) return "bad-op";
        std::vector<std::string> ks;
        for (size_t i = 2; i < t.size(); ++i)
        {
          if (!vh::ofHex(t[i], v)) return "bad-op";
          ks.push_back(str(v));
        }
        std::vector<std::string> keys, pfx, batch, ttl;
        for (auto &x : store->keys()) keys.push_back(vh::toHex(x));
        for (auto &x : store->keysWithPrefix(str(k))) pfx.push_back(vh::toHex(x));
        // getBatch returns a map: duplicates in the request collapse; the model lists one entry per requested key
        auto gb = store->getBatch(ks);
        for (auto &x : ks)
        {
          auto it = gb.find(x);
          if (it != gb.end()) batch.push_back(vh::toHex(x) + ":" + vh::toHex(it->second));
        }
        std::string ex;
        for (auto &x : ks) ex += store->exists(x) ? "1" : "0";
        for (auto &x : ks)
        {
          auto r = store->ttl(x);
          ttl.push_back(r ? std::to_string(r->count()) : "n");
        }
        std::string out = "size=" + std::to_string(store->size()) + " keys=" + csv(keys) + " pfx=" + csv(pfx) +
                          " batch=" + csv(batch) + " ex=" + (ks.empty() ? "-" : ex) + " ttl=" + csv(ttl, false);
        std::string inv = invariants();
        if (inv != "ok") out += " inv=" + inv;
        takeEvents();
        return out;
      }
      if (op == "state")
      {
        return lstate();
      }
    }
    catch (const iora::storage::KVStoreException &e)
    {
      std::string kind = errKind(e.what());
      return "err:" + kind + " | " + takeEvents();
    }
    catch (const std::exception &e)
    {
      return std::string("throw ") + typeid(e).name();
    }
    return "bad-op";
  }
};
} // namespace kvh
