// Shared part of the C11/C12 harnesses: the REAL iora::storage::KVStore behind the line protocol, with the file-system
// calls and the clocks interposed inside this executable (DESIGN §3.1).
//
//  * clock_gettime(CLOCK_REALTIME)  -> the harness owns the wall clock (system_clock), in whole milliseconds.
//  * clock_gettime(CLOCK_MONOTONIC) -> in deterministic mode steady_clock advances 1 ns per reading, so the wheel never
//    fires on its own and TimingWheel::drain() at shutdown fires exactly the timers armed with delay 0, in arming order.
//    In free-running mode the steady clock is the real one (the real wheel and worker evict in the background).
//  * fopen/fopen64/open/openat/write/writev/pwrite/rename/truncate/ftruncate/unlink/remove on the store's files are
//    recorded as events (A:<file>:<hex> append, T:<file>:<n> truncate/create-trunc, R:<a>:<b> rename, U:<file> unlink);
//    consecutive appends to one file are one event.  Every call is forwarded unchanged.
#pragma once
#include <algorithm>
#include <atomic>
#include <chrono>
#include <condition_variable>
#include <cstdint>
#include <cstdio>
#include <cstdlib>
#include <cstring>
#include <filesystem>
#include <fstream>
#include <functional>
#include <iostream>
#include <limits>
#include <map>
#include <memory>
#include <mutex>
#include <optional>
#include <queue>
#include <set>
#include <shared_mutex>
#include <sstream>
#include <stdexcept>
#include <string>
#include <thread>
#include <typeinfo>
#include <unordered_map>
#include <vector>
#include <cassert>
#include <dlfcn.h>
#include <fcntl.h>
#include <stdarg.h>
#include <sys/stat.h>
#include <sys/types.h>
#include <sys/uio.h>
#include <time.h>
#include <unistd.h>

#include "common/lineproto.hpp"

namespace kvh
{
// ------------------------------------------------------------------ clocks
static std::atomic<long long> g_wallMs{1000};
static std::atomic<bool> g_freezeSteady{true};
static std::atomic<long long> g_steadyTicks{0};
static std::atomic<long long> g_steadyBase{0};
static std::atomic<unsigned long> g_clockReal{0}, g_clockMono{0};

// ------------------------------------------------------------------ file events
struct Event
{
  char kind; // 'A' 'T' 'R' 'U'
  std::string file, file2;
  std::string data;
  unsigned long long n = 0;
};
static std::mutex g_evMutex;
static std::vector<Event> g_events; // events of the current op (coalesced)
static std::string g_base;          // path of the snapshot file ("" = nothing tracked)
static std::atomic<unsigned long> g_nWrite{0}, g_nOpen{0}, g_nRename{0}, g_nTrunc{0}, g_nUnlink{0};

static std::string kindOfPath(const char *p)
{
  if (!p || g_base.empty()) return "";
  std::string s(p);
  if (s == g_base) return "snap";
  if (s == g_base + ".log") return "log";
  if (s == g_base + ".tmp") return "tmp";
  return "";
}
static std::string kindOfFd(int fd)
{
  if (g_base.empty() || fd < 3) return "";
  char link[64], buf[4096];
  snprintf(link, sizeof link, "/proc/self/fd/%d", fd);
  ssize_t n = readlink(link, buf, sizeof buf - 1);
  if (n <= 0) return "";
  buf[n] = 0;
  return kindOfPath(buf);
}
static void record(Event e)
{
  std::lock_guard<std::mutex> g(g_evMutex);
  if (e.kind == 'A' && !g_events.empty() && g_events.back().kind == 'A' && g_events.back().file == e.file)
  {
    g_events.back().data += e.data;
    return;
  }
  g_events.push_back(std::move(e));
}
static bool pathExists(const char *p)
{
  struct stat st;
  return ::stat(p, &st) == 0;
}
static std::string takeEvents()
{
  std::lock_guard<std::mutex> g(g_evMutex);
  if (g_events.empty()) return "-";
  std::string out;
  for (auto &e : g_events)
  {
    if (!out.empty()) out += ";";
    if (e.kind == 'A') out += "A:" + e.file + ":" + vh::toHex(e.data);
    else if (e.kind == 'T') out += "T:" + e.file + ":" + std::to_string(e.n);
    else if (e.kind == 'R') out += "R:" + e.file + ":" + e.file2;
    else out += "U:" + e.file;
  }
  g_events.clear();
  return out;
}
} // namespace kvh

// ------------------------------------------------------------------ interposers (C linkage, defined in the executable)
extern "C"
{
  int clock_gettime(clockid_t id, struct timespec *ts)
  {
    static auto real = (int (*)(clockid_t, struct timespec *))dlsym(RTLD_NEXT, "clock_gettime");
    if (id == CLOCK_REALTIME)
    {
      kvh::g_clockReal++;
      long long ms = kvh::g_wallMs.load();
      ts->tv_sec = ms / 1000;
      ts->tv_nsec = (ms % 1000) * 1000000LL;
      return 0;
    }
    if (id == CLOCK_MONOTONIC && kvh::g_freezeSteady.load())
    {
      kvh::g_clockMono++;
      long long base = kvh::g_steadyBase.load();
      if (base == 0)
      {
        struct timespec r;
        real(CLOCK_MONOTONIC, &r);
        long long b = r.tv_sec * 1000000000LL + r.tv_nsec;
        long long expected = 0;
        kvh::g_steadyBase.compare_exchange_strong(expected, b);
        base = kvh::g_steadyBase.load();
      }
      long long t = base + (++kvh::g_steadyTicks);
      ts->tv_sec = t / 1000000000LL;
      ts->tv_nsec = t % 1000000000LL;
      return 0;
    }
    return real(id, ts);
  }

  ssize_t write(int fd, const void *b, size_t n)
  {
    static auto real = (ssize_t(*)(int, const void *, size_t))dlsym(RTLD_NEXT, "write");
    std::string k = kvh::kindOfFd(fd);
    if (!k.empty())
    {
      kvh::g_nWrite++;
      kvh::record({'A', k, "", std::string(static_cast<const char *>(b), n), 0});
    }
    return real(fd, b, n);
  }
  ssize_t writev(int fd, const struct iovec *v, int c)
  {
    static auto real = (ssize_t(*)(int, const struct iovec *, int))dlsym(RTLD_NEXT, "writev");
    std::string k = kvh::kindOfFd(fd);
    if (!k.empty())
    {
      kvh::g_nWrite++;
      std::string d;
      for (int i = 0; i < c; ++i) d.append(static_cast<const char *>(v[i].iov_base), v[i].iov_len);
      kvh::record({'A', k, "", d, 0});
    }
    return real(fd, v, c);
  }
  ssize_t pwrite(int fd, const void *b, size_t n, off_t off)
  {
    static auto real = (ssize_t(*)(int, const void *, size_t, off_t))dlsym(RTLD_NEXT, "pwrite");
    std::string k = kvh::kindOfFd(fd);
    if (!k.empty())
    {
      // positional writes are not part of the store's I/O vocabulary: report them so that the comparison fails
      kvh::record({'U', "pwrite-" + k, "", "", 0});
    }
    return real(fd, b, n, off);
  }
  static void noteOpen(const char *path, bool trunc, bool create)
  {
    std::string k = kvh::kindOfPath(path);
    if (k.empty()) return;
    kvh::g_nOpen++;
    if (trunc) kvh::record({'T', k, "", "", 0});
    else if (create && !kvh::pathExists(path)) kvh::record({'A', k, "", "", 0});
  }
  FILE *fopen(const char *path, const char *mode)
  {
    static auto real = (FILE * (*)(const char *, const char *)) dlsym(RTLD_NEXT, "fopen");
    if (mode) noteOpen(path, mode[0] == 'w', mode[0] == 'a' || mode[0] == 'w');
    return real(path, mode);
  }
  FILE *fopen64(const char *path, const char *mode)
  {
    static auto real = (FILE * (*)(const char *, const char *)) dlsym(RTLD_NEXT, "fopen64");
    if (mode) noteOpen(path, mode[0] == 'w', mode[0] == 'a' || mode[0] == 'w');
    return real(path, mode);
  }
  int open(const char *path, int flags, ...)
  {
    static auto real = (int (*)(const char *, int, ...))dlsym(RTLD_NEXT, "open");
    mode_t m = 0;
    if (flags & (O_CREAT | O_TMPFILE))
    {
      va_list ap;
      va_start(ap, flags);
      m = va_arg(ap, mode_t);
      va_end(ap);
    }
    noteOpen(path, (flags & O_TRUNC) != 0, (flags & O_CREAT) != 0);
    return real(path, flags, m);
  }
  int open64(const char *path, int flags, ...)
  {
    static auto real = (int (*)(const char *, int, ...))dlsym(RTLD_NEXT, "open64");
    mode_t m = 0;
    if (flags & (O_CREAT | O_TMPFILE))
    {
      va_list ap;
      va_start(ap, flags);
      m = va_arg(ap, mode_t);
      va_end(ap);
    }
    noteOpen(path, (flags & O_TRUNC) != 0, (flags & O_CREAT) != 0);
    return real(path, flags, m);
  }
  int openat(int dirfd, const char *path, int flags, ...)
  {
    static auto real = (int (*)(int, const char *, int, ...))dlsym(RTLD_NEXT, "openat");
    mode_t m = 0;
    if (flags & (O_CREAT | O_TMPFILE))
    {
      va_list ap;
      va_start(ap, flags);
      m = va_arg(ap, mode_t);
      va_end(ap);
    }
    if (path && path[0] == '/') noteOpen(path, (flags & O_TRUNC) != 0, (flags & O_CREAT) != 0);
    return real(dirfd, path, flags, m);
  }
  int rename(const char *a, const char *b)
  {
    static auto real = (int (*)(const char *, const char *))dlsym(RTLD_NEXT, "rename");
    std::string ka = kvh::kindOfPath(a), kb = kvh::kindOfPath(b);
    if (!ka.empty() || !kb.empty())
    {
      kvh::g_nRename++;
      kvh::record({'R', ka.empty() ? "?" : ka, kb.empty() ? "?" : kb, "", 0});
    }
    return real(a, b);
  }
  int truncate(const char *p, off_t n)
  {
    static auto real = (int (*)(const char *, off_t))dlsym(RTLD_NEXT, "truncate");
    std::string k = kvh::kindOfPath(p);
    if (!k.empty())
    {
      kvh::g_nTrunc++;
      kvh::record({'T', k, "", "", static_cast<unsigned long long>(n)});
    }
    return real(p, n);
  }
  int truncate64(const char *p, off64_t n)
  {
    static auto real = (int (*)(const char *, off64_t))dlsym(RTLD_NEXT, "truncate64");
    std::string k = kvh::kindOfPath(p);
    if (!k.empty())
    {
      kvh::g_nTrunc++;
      kvh::record({'T', k, "", "", static_cast<unsigned long long>(n)});
    }
    return real(p, n);
  }
  int ftruncate(int fd, off_t n)
  {
    static auto real = (int (*)(int, off_t))dlsym(RTLD_NEXT, "ftruncate");
    std::string k = kvh::kindOfFd(fd);
    if (!k.empty())
    {
      kvh::g_nTrunc++;
      kvh::record({'T', k, "", "", static_cast<unsigned long long>(n)});
    }
    return real(fd, n);
  }
  int unlink(const char *p)
  {
    static auto real = (int (*)(const char *))dlsym(RTLD_NEXT, "unlink");
    std::string k = kvh::kindOfPath(p);
    if (!k.empty())
    {
      kvh::g_nUnlink++;
      kvh::record({'U', k, "", "", 0});
    }
    return real(p);
  }
  int remove(const char *p)
  {
    static auto real = (int (*)(const char *))dlsym(RTLD_NEXT, "remove");
    std::string k = kvh::kindOfPath(p);
    if (!k.empty())
    {
      kvh::g_nUnlink++;
      kvh::record({'U', k, "", "", 0});
    }
    return real(p);
  }
}

#define private public
#define protected public
#include "iora/storage/kvstore.hpp"
#undef private
#undef protected

namespace kvh
{
using iora::storage::KVStore;
using iora::storage::KVStoreConfig;
using Clock = std::chrono::system_clock;

inline Clock::time_point tpOfMs(long long ms) { return Clock::time_point(std::chrono::milliseconds(ms)); }
inline long long msOfTp(Clock::time_point tp)
{
  return std::chrono::duration_cast<std::chrono::milliseconds>(tp.time_since_epoch()).count();
}

inline bool parseInt(const std::string &s, long long &out)
{
  if (s.empty()) return false;
  bool neg = s[0] == '-';
  unsigned long long v;
  if (!vh::parseNat(neg ? s.substr(1) : s, v)) return false;
  if (v > 9223372036854775807ULL) return false;
  out = neg ? -static_cast<long long>(v) : static_cast<long long>(v);
  return true;
}

inline std::string csv(std::vector<std::string> v, bool sort = true)
{
  if (sort) std::sort(v.begin(), v.end());
  if (v.empty()) return "-";
  std::string o;
  for (size_t i = 0; i < v.size(); ++i)
  {
    if (i) o += ",";
    o += v[i];
  }
  return o;
}

struct Harness
{
  std::string work;
  unsigned long dirCounter = 0;
  std::string dir;
  std::unique_ptr<KVStore> store;
  KVStoreConfig cfg;
  bool freeRunning = false;

  explicit Harness(std::string w) : work(std::move(w)) { std::filesystem::create_directories(work); }
  ~Harness() { closeStore(); }

  void closeStore()
  {
    if (store)
    {
      store.reset();
      takeEvents();
    }
    g_base.clear();
    if (!dir.empty())
    {
      std::error_code ec;
      std::filesystem::remove_all(dir, ec);
      dir.clear();
    }
  }

  void newDir()
  {
    closeStore();
    dir = work + "/d" + std::to_string(++dirCounter);
    std::error_code ec;
    std::filesystem::remove_all(dir, ec);
    std::filesystem::create_directories(dir);
  }

  void makeCfg(unsigned long long maxCache, unsigned long long maxLog, bool inlineCompact)
  {
    cfg = KVStoreConfig{};
    cfg.maxCacheSize = static_cast<uint32_t>(maxCache);
    cfg.maxLogSizeBytes = static_cast<uint32_t>(maxLog);
    cfg.enableBackgroundCompaction = !inlineCompact;
    if (freeRunning)
    {
      cfg.ttlTickDuration = std::chrono::milliseconds(1);
      cfg.ttlTicksPerWheel = 256;
      cfg.ttlNumWheels = 4;
      cfg.compactionInterval = std::chrono::milliseconds(2);
    }
    else
    {
      cfg.ttlTickDuration = std::chrono::milliseconds(3600000);
      cfg.ttlTicksPerWheel = 256;
      cfg.ttlNumWheels = 2;
    }
  }

  std::string openStore()
  {
    g_base = dir + "/s.db";
    store = std::make_unique<KVStore>(g_base, cfg);
    return "ok";
  }

  static std::string optVal(const std::optional<std::vector<std::uint8_t>> &v)
  {
    if (!v) return "none";
    return "val:" + vh::toHex(*v);
  }

  std::string lstate()
  {
    std::vector<std::string> a, b;
    for (auto &[k, v] : store->_kv) a.push_back(vh::toHex(k) + ":" + vh::toHex(v));
    for (auto &[k, e] : store->_expiry) b.push_back(vh::toHex(k) + ":" + std::to_string(msOfTp(e.expiry)));
    return "kv=" + csv(a) + " exp=" + csv(b);
  }

  // implementation-only invariants (cache coherence, bounded cache, _expiry within _kv)
  std::string invariants()
  {
    for (auto &[k, e] : store->_expiry)
      if (store->_kv.find(k) == store->_kv.end()) return "BAD:expiry-without-value:" + vh::toHex(k);
    if (store->_cache.size() > std::max<size_t>(cfg.maxCacheSize, 1)) return "BAD:cache-over-capacity";
    for (auto &[k, c] : store->_cache)
    {
      auto it = store->_kv.find(k);
      if (it == store->_kv.end()) return "BAD:cache-entry-without-value:" + vh::toHex(k);
      if (it->second != c.value) return "BAD:cache-value-stale:" + vh::toHex(k);
      auto eit = store->_expiry.find(k);
      auto want = eit == store->_expiry.end() ? KVStore::kNoExpiry() : eit->second.expiry;
      if (want != c.expiry) return "BAD:cache-expiry-stale:" + vh::toHex(k);
    }
    return "ok";
  }

  std::string step(const std::vector<std::string> &t)
  {
    using vh::Bytes;
    auto str = [](const Bytes &b) { return std::string(b.begin(), b.end()); };
    if (t.empty()) return "bad-op";
    const std::string &op = t[0];
    unsigned long long a, b, c;
    long long now;
    if (op == "reset" || op == "resetfree")
    {
      if (t.size() != 5 || !vh::parseNat(t[1], a) || !vh::parseNat(t[2], b) || !vh::parseNat(t[3], c) || c > 1 ||
          !parseInt(t[4], now))
        return "bad-op";
      freeRunning = (op == "resetfree");
      g_freezeSteady = !freeRunning;
      newDir();
      makeCfg(a, b, c == 1);
      g_wallMs = now;
      std::string r = openStore();
      return r + " | " + takeEvents();
    }
    if (op == "crashimg")
    {
      // crashimg <maxCache> <maxLog> <inline> <now> <snap|none> <log|none> <tmp|none>: a new process on a crash image
      if (t.size() != 8 || !vh::parseNat(t[1], a) || !vh::parseNat(t[2], b) || !vh::parseNat(t[3], c) || c > 1 ||
          !parseInt(t[4], now))
        return "bad-op";
      Bytes f[3];
      bool have[3];
      for (int i = 0; i < 3; ++i)
      {
        have[i] = t[5 + i] != "none";
        if (have[i] && !vh::ofHex(t[5 + i], f[i])) return "bad-op";
      }
      freeRunning = false;
      g_freezeSteady = true;
      newDir();
      makeCfg(a, b, c == 1);
      g_wallMs = now;
      const char *suffix[3] = {"", ".log", ".tmp"};
      for (int i = 0; i < 3; ++i)
        if (have[i])
        {
          std::ofstream o(dir + "/s.db" + suffix[i], std::ios::binary | std::ios::trunc);
          o.write(reinterpret_cast<const char *>(f[i].data()), static_cast<std::streamsize>(f[i].size()));
        }
      try
      {
        openStore();
      }
      catch (const std::exception &e)
      {
        store.reset();
        takeEvents();
        return std::string("err:loadFailed | -");
      }
      return "ok | " + takeEvents();
    }
    if (!store) return "bad-op";
    if (op == "now")
    {
      if (t.size() != 2 || !parseInt(t[1], now) || now < g_wallMs.load()) return "bad-op";
      g_wallMs = now;
      return "ok | -";
    }
    if (op == "sleep")
    { // free-running mode only: let the real wheel / worker / compaction thread run
      if (t.size() != 2 || !vh::parseNat(t[1], a) || a > 1000) return "bad-op";
      std::this_thread::sleep_for(std::chrono::milliseconds(a));
      takeEvents();
      return "ok";
    }
    Bytes k, v;
    try
    {
      if (op == "set")
      {
        if (t.size() != 3 || !vh::ofHex(t[1], k) || !vh::ofHex(t[2], v)) return "bad-op";
        store->set(str(k), v);
        return "ok | " + takeEvents();
      }
      if (op == "setttl")
      {
        long long ttl;
        if (t.size() != 4 || !vh::ofHex(t[1], k) || !vh::ofHex(t[2], v) || !parseInt(t[3], ttl)) return "bad-op";
        store->set(str(k), v, std::chrono::seconds(ttl));
        return "ok | " + takeEvents();
      }
      if (op == "setbatch" || op == "setbatchttl")
      {
        size_t i0 = op == "setbatch" ? 1 : 2;
        long long ttl = 0;
        if (op == "setbatchttl" && (t.size() < 2 || !parseInt(t[1], ttl))) return "bad-op";
        if ((t.size() - i0) % 2) return "bad-op";
        std::unordered_map<std::string, std::vector<std::uint8_t>> batch;
        for (size_t i = i0; i + 1 < t.size(); i += 2)
        {
          if (!vh::ofHex(t[i], k) || !vh::ofHex(t[i + 1], v)) return "bad-op";
          batch[str(k)] = v;
        }
        if (op == "setbatch") store->setBatch(batch);
        else store->setBatch(batch, std::chrono::seconds(ttl));
        return "ok | " + takeEvents();
      }
      if (op == "get")
      {
        if (t.size() != 2 || !vh::ofHex(t[1], k)) return "bad-op";
        auto r = store->get(str(k));
        return optVal(r) + " | " + takeEvents();
      }
      if (op == "remove")
      {
        if (t.size() != 2 || !vh::ofHex(t[1], k)) return "bad-op";
        store->remove(str(k));
        return "ok | " + takeEvents();
      }
      if (op == "rmprefix")
      {
        if (t.size() != 2 || !vh::ofHex(t[1], k)) return "bad-op";
        size_t n = store->removeWithPrefix(str(k));
        return "count:" + std::to_string(n) + " | " + takeEvents();
      }
      if (op == "clear")
      {
        store->clear();
        return "ok | " + takeEvents();
      }
      if (op == "expireat")
      {
        long long when;
        if (t.size() != 3 || !vh::ofHex(t[1], k) || !parseInt(t[2], when)) return "bad-op";
        store->expireAt(str(k), tpOfMs(when));
        return "ok | " + takeEvents();
      }
      if (op == "persist")
      {
        if (t.size() != 2 || !vh::ofHex(t[1], k)) return "bad-op";
        store->persist(str(k));
        return "ok | " + takeEvents();
      }
      if (op == "compact")
      {
        store->compact();
        return "ok | " + takeEvents();
      }
      if (op == "evict")
      {
        if (t.size() != 3 || !vh::ofHex(t[1], k)) return "bad-op";
        iora::core::TimerId id = 0;
        auto it = store->_expiry.find(str(k));
        bool have = it != store->_expiry.end();
        if (t[2] == "cur") id = have ? it->second.timerId : 999999999ULL;
        else if (t[2] == "stale") id = (have ? it->second.timerId : 999999990ULL) + 1;
        else if (t[2] == "zero") id = 0;
        else return "bad-op";
        store->evictionCallback(str(k), std::make_shared<iora::core::TimerId>(id));
        return "ok | " + takeEvents();
      }
      if (op == "reopen")
      {
        store.reset(); // clean close: shutdown() drains the wheel, joins the worker, closes the log
        std::string r = openStore();
        return r + " | " + takeEvents();
      }
      if (op == "read")
      {
        if (t.size() < 2 || !vh::ofHex(t[1], k)) return "bad-op";
        std::vector<std::string> ks;
        for (size_t i = 2; i < t.size(); ++i)
        {
          if (!vh::ofHex(t[i], v)) return "bad-op";
          ks.push_back(str(v));
        }
        std::vector<std::string> keys, pfx, batch, ttl;
        for (auto &x : store->keys()) keys.push_back(vh::toHex(x));
        for (auto &x : store->keysWithPrefix(str(k))) pfx.push_back(vh::toHex(x));
        // getBatch returns a map: duplicates in the request collapse; the model lists one entry per requested key
        auto gb = store->getBatch(ks);
        for (auto &x : ks)
        {
          auto it = gb.find(x);
          if (it != gb.end()) batch.push_back(vh::toHex(x) + ":" + vh::toHex(it->second));
        }
        std::string ex;
        for (auto &x : ks) ex += store->exists(x) ? "1" : "0";
        for (auto &x : ks)
        {
          auto r = store->ttl(x);
          ttl.push_back(r ? std::to_string(r->count()) : "n");
        }
        std::string out = "size=" + std::to_string(store->size()) + " keys=" + csv(keys) + " pfx=" + csv(pfx) +
                          " batch=" + csv(batch) + " ex=" + (ks.empty() ? "-" : ex) + " ttl=" + csv(ttl, false);
        std::string inv = invariants();
        if (inv != "ok") out += " inv=" + inv;
        takeEvents();
        return out;
      }
      if (op == "state")
      {
        return lstate();
      }
    }
    catch (const iora::storage::KVStoreException &e)
    {
      std::string m = e.what();
      std::string kind = "other";
      if (m.find("Key cannot be empty") != std::string::npos) kind = "emptyKey";
      else if (m.find("Key too large") != std::string::npos) kind = "keyTooLarge";
      else if (m.find("Value too large") != std::string::npos) kind = "valueTooLarge";
      else if (m.find("TTL must be greater than zero") != std::string::npos) kind = "badTtl";
      else if (m.find("Invalid key or value in batch") != std::string::npos) kind = "badBatch";
      else if (m.find("Failed to initialize KVStore") != std::string::npos) kind = "loadFailed";
      return "err:" + kind + " | " + takeEvents();
    }
    catch (const std::exception &e)
    {
      return std::string("throw ") + typeid(e).name();
    }
    return "bad-op";
  }
};
} // namespace kvh
