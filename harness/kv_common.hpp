// Shared part of the C11/C12 harnesses: the REAL iora::storage::KVStore behind the line protocol of `iora_model_kv`.
// File-system calls and clocks are interposed inside this executable (kv_interpose.hpp).
#pragma once
#include "kv_interpose.hpp"

#define private public
#define protected public
#include "iora/storage/kvstore.hpp"
#undef private
#undef protected

namespace kvh
{
using iora::storage::KVStore;
using iora::storage::KVStoreConfig;
using Clock = std::chrono::system_clock;

inline Clock::time_point tpOfMs(long long ms) { return Clock::time_point(std::chrono::milliseconds(ms)); }
inline long long msOfTp(Clock::time_point tp)
{
  return std::chrono::duration_cast<std::chrono::milliseconds>(tp.time_since_epoch()).count();
}

inline bool parseInt(const std::string &s, long long &out)
{
  if (s.empty()) return false;
  bool neg = s[0] == '-';
  unsigned long long v;
  if (!vh::parseNat(neg ? s.substr(1) : s, v)) return false;
  if (v > 9223372036854775807ULL) return false;
  out = neg ? -static_cast<long long>(v) : static_cast<long long>(v);
  return true;
}

inline std::string csv(std::vector<std::string> v, bool sort = true)
{
  if (sort) std::sort(v.begin(), v.end());
  if (v.empty()) return "-";
  std::string o;
  for (size_t i = 0; i < v.size(); ++i)
  {
    if (i) o += ",";
    o += v[i];
  }
  return o;
}

struct Harness
{
  std::string work;
  unsigned long dirCounter = 0;
  std::string dir;
  std::unique_ptr<KVStore> store;
  KVStoreConfig cfg;
  bool freeRunning = false;

  explicit Harness(std::string w) : work(std::move(w)) { std::filesystem::create_directories(work); }
  ~Harness() { closeStore(); }

  void closeStore()
  {
    if (store)
    {
      store.reset();
      takeEvents();
    }
    g_base.clear();
    if (!dir.empty())
    {
      std::error_code ec;
      std::filesystem::remove_all(dir, ec);
      dir.clear();
    }
  }

  void newDir()
  {
    closeStore();
    dir = work + "/d" + std::to_string(++dirCounter);
    std::error_code ec;
    std::filesystem::remove_all(dir, ec);
    std::filesystem::create_directories(dir);
  }

  void makeCfg(unsigned long long maxCache, unsigned long long maxLog, bool inlineCompact)
  {
    cfg = KVStoreConfig{};
    cfg.maxCacheSize = static_cast<uint32_t>(maxCache);
    cfg.maxLogSizeBytes = static_cast<uint32_t>(maxLog);
    cfg.enableBackgroundCompaction = !inlineCompact;
    if (freeRunning)
    {
      cfg.ttlTickDuration = std::chrono::milliseconds(1);
      cfg.ttlTicksPerWheel = 256;
      cfg.ttlNumWheels = 4;
      cfg.compactionInterval = std::chrono::milliseconds(2);
    }
    else
    {
      cfg.ttlTickDuration = std::chrono::milliseconds(3600000);
      cfg.ttlTicksPerWheel = 256;
      cfg.ttlNumWheels = 2;
      // steady_clock is frozen: a wait_for deadline is "start + interval" in frozen time but the kernel waits in real time, so an
      // interval shorter than the life of this process would make the compaction thread spin once real time has passed it
      cfg.compactionInterval = std::chrono::milliseconds(86400000);
    }
  }

  std::string openStore()
  {
    g_base = dir + "/s.db";
    store = std::make_unique<KVStore>(g_base, cfg);
    return "ok";
  }

  static std::string optVal(const std::optional<std::vector<std::uint8_t>> &v)
  {
    if (!v) return "none";
    return "val:" + vh::toHex(*v);
  }

  std::string lstate()
  {
    std::shared_lock<std::shared_mutex> lock(store->_mutex);
    std::vector<std::string> a, b;
    for (auto &[k, v] : store->_kv) a.push_back(vh::toHex(k) + ":" + vh::toHex(v));
    for (auto &[k, e] : store->_expiry) b.push_back(vh::toHex(k) + ":" + std::to_string(msOfTp(e.expiry)));
    return "kv=" + csv(a) + " exp=" + csv(b);
  }

  // implementation-only invariants (cache coherence, bounded cache, _expiry within _kv)
  std::string invariants()
  {
    std::shared_lock<std::shared_mutex> lock(store->_mutex);
    std::shared_lock<std::shared_mutex> cacheLock(store->_cacheMutex);
    for (auto &[k, e] : store->_expiry)
      if (store->_kv.find(k) == store->_kv.end()) return "BAD:expiry-without-value:" + vh::toHex(k);
    if (store->_cache.size() > std::max<size_t>(cfg.maxCacheSize, 1)) return "BAD:cache-over-capacity";
    for (auto &[k, c] : store->_cache)
    {
      auto it = store->_kv.find(k);
      if (it == store->_kv.end()) return "BAD:cache-entry-without-value:" + vh::toHex(k);
      if (it->second != c.value) return "BAD:cache-value-stale:" + vh::toHex(k);
      auto eit = store->_expiry.find(k);
      auto want = eit == store->_expiry.end() ? KVStore::kNoExpiry() : eit->second.expiry;
      if (want != c.expiry) return "BAD:cache-expiry-stale:" + vh::toHex(k);
    }
    return "ok";
  }

  std::string step(const std::vector<std::string> &t)
  {
    using vh::Bytes;
    auto str = [](const Bytes &b) { return std::string(b.begin(), b.end()); };
    if (t.empty()) return "bad-op";
    const std::string &op = t[0];
    unsigned long long a, b, c;
    long long now;
    if (op == "reset" || op == "resetfree")
    {
      if (t.size() != 5 || !vh::parseNat(t[1], a) || !vh::parseNat(t[2], b) || !vh::parseNat(t[3], c) || c > 1 ||
          !parseInt(t[4], now))
        return "bad-op";
      freeRunning = (op == "resetfree");
      g_freezeSteady = !freeRunning;
      newDir();
      makeCfg(a, b, c == 1);
      g_wallMs = now;
      std::string r = openStore();
      return r + " | " + takeEvents();
    }
    if (op == "crashimg")
    {
      // crashimg <maxCache> <maxLog> <inline> <now> <snap|none> <log|none> <tmp|none>: a new process on a crash image
      if (t.size() != 8 || !vh::parseNat(t[1], a) || !vh::parseNat(t[2], b) || !vh::parseNat(t[3], c) || c > 1 ||
          !parseInt(t[4], now))
        return "bad-op";
      Bytes f[3];
      bool have[3];
      for (int i = 0; i < 3; ++i)
      {
        have[i] = t[5 + i] != "none";
        if (have[i] && !vh::ofHex(t[5 + i], f[i])) return "bad-op";
      }
      freeRunning = false;
      g_freezeSteady = true;
      newDir();
      makeCfg(a, b, c == 1);
      g_wallMs = now;
      const char *suffix[3] = {"", ".log", ".tmp"};
      for (int i = 0; i < 3; ++i)
        if (have[i])
        {
          std::ofstream o(dir + "/s.db" + suffix[i], std::ios::binary | std::ios::trunc);
          o.write(reinterpret_cast<const char *>(f[i].data()), static_cast<std::streamsize>(f[i].size()));
        }
      try
      {
        openStore();
      }
      catch (const std::exception &e)
      {
        store.reset();
        takeEvents();
        return std::string("err:loadFailed | -");
      }
      return "ok | " + takeEvents();
    }
    if (op == "stats")
    {
      return "stats clock_realtime=" + std::to_string(g_clockReal.load()) + " clock_monotonic=" + std::to_string(g_clockMono.load()) +
             " write=" + std::to_string(g_nWrite.load()) + " open=" + std::to_string(g_nOpen.load()) + " rename=" +
             std::to_string(g_nRename.load()) + " truncate=" + std::to_string(g_nTrunc.load()) + " unlink=" +
             std::to_string(g_nUnlink.load()) + " sliced_waits=" + std::to_string(g_slicedWaits.load()) + " stress_reads=" +
             std::to_string(g_stressReads.load()) + " max_plausible_ms=" + std::to_string(static_cast<long long>(KVStore::kMaxPlausibleEpochMs)) +
             " tp_max_ms=" + std::to_string(static_cast<long long>(KVStore::toEpochMs(Clock::time_point::max())));
    }
    if (!store) return "bad-op";
    if (op == "now")
    {
      if (t.size() != 2 || !parseInt(t[1], now) || now < g_wallMs.load()) return "bad-op";
      g_wallMs = now;
      return "ok | -";
    }
    if (op == "stress")
    { // stress <seed> <ms>: one writer, two readers and the clock race the real wheel + eviction worker (free-running mode).
      // Implementation-only safety monitor: every value read is one that was written for THAT key (64 equal bytes tagged with
      // the key), reads never throw; ASan/UBSan watch the rest.  The store's contents afterwards are unspecified: last op of a case.
      unsigned long long seed, ms;
      if (t.size() != 3 || !vh::parseNat(t[1], seed) || !vh::parseNat(t[2], ms) || ms > 2000 || !freeRunning) return "bad-op";
      std::atomic<bool> stop{false};
      std::atomic<unsigned long> reads{0}, bad{0};
      std::string firstBad;
      std::mutex badMutex;
      auto keyOf = [](unsigned i) { return std::string("stress-") + static_cast<char>('a' + i); };
      auto good = [](unsigned i, const std::vector<std::uint8_t> &v)
      {
        if (v.size() != 64) return false;
        for (auto b : v)
          if (b != v[0]) return false;
        return (v[0] >> 5) == i;
      };
      auto note = [&](const std::string &w)
      {
        bad++;
        std::lock_guard<std::mutex> g(badMutex);
        if (firstBad.empty()) firstBad = w;
      };
      std::thread writer([&]
      {
        unsigned long long x = seed * 2654435761ULL + 1;
        unsigned n = 0;
        while (!stop.load())
        {
          x = x * 6364136223846793005ULL + 1442695040888963407ULL;
          unsigned i = (x >> 33) % 4, c = (x >> 40) % 7;
          std::vector<std::uint8_t> v(64, static_cast<std::uint8_t>((i << 5) | (n++ & 31)));
          try
          {
            if (c == 0) store->set(keyOf(i), v);
            else if (c == 1) store->set(keyOf(i), v, std::chrono::seconds(1));
            else if (c == 2) store->expireAt(keyOf(i), tpOfMs(std::min<long long>(g_wallMs.load() + static_cast<long long>((x >> 50) % 6), 9223372036854LL)));
            else if (c == 3) store->persist(keyOf(i));
            else if (c == 4) store->remove(keyOf(i));
            else if (c == 5) store->setBatch({{keyOf(i), v}, {keyOf((i + 1) % 4), std::vector<std::uint8_t>(64, static_cast<std::uint8_t>((((i + 1) % 4) << 5) | (n & 31)))}});
            else store->compact();
          }
          catch (const std::exception &e)
          {
            note(std::string("writer threw ") + typeid(e).name());
          }
        }
      });
      auto readerFn = [&](unsigned long long salt)
      {
        unsigned long long x = (seed ^ salt) * 0x9E3779B97F4A7C15ULL + 7;
        while (!stop.load())
        {
          x = x * 6364136223846793005ULL + 1442695040888963407ULL;
          unsigned i = (x >> 33) % 4;
          try
          {
            auto v = store->get(keyOf(i));
            if (v && !good(i, *v)) note("get returned a torn or foreign value for " + keyOf(i));
            auto gb = store->getBatch({keyOf(i), keyOf((i + 1) % 4)});
            for (auto &kv : gb)
              if (!good(static_cast<unsigned>(kv.first.back() - 'a'), kv.second)) note("getBatch returned a torn or foreign value for " + kv.first);
            (void)store->exists(keyOf(i));
            (void)store->ttl(keyOf(i));
            (void)store->size();
            for (auto &k2 : store->keysWithPrefix("stress-"))
              if (k2.size() != 8) note("keysWithPrefix returned a foreign key");
            reads++;
          }
          catch (const std::exception &e)
          {
            note(std::string("reader threw ") + typeid(e).name());
          }
        }
      };
      std::thread r1(readerFn, 11), r2(readerFn, 23);
      auto t0 = std::chrono::steady_clock::now();
      while (std::chrono::steady_clock::now() - t0 < std::chrono::milliseconds(ms))
      {
        // (never past the last millisecond system_clock::time_point can hold: beyond it now() itself overflows)
        if (g_wallMs.load() + 4 < 9223372036854LL) g_wallMs += 1 + static_cast<long long>(seed % 3);
        std::this_thread::sleep_for(std::chrono::milliseconds(1));
      }
      stop = true;
      writer.join();
      r1.join();
      r2.join();
      g_stressReads += reads.load();
      takeEvents();
      if (bad.load()) return "BAD:" + firstBad;
      return "ok";
    }
    if (op == "sleep")
    { // free-running mode only: let the real wheel / worker / compaction thread run
      if (t.size() != 2 || !vh::parseNat(t[1], a) || a > 1000) return "bad-op";
      std::this_thread::sleep_for(std::chrono::milliseconds(a));
      takeEvents();
      return "ok";
    }
    Bytes k, v;
    try
    {
      if (op == "set")
      {
        if (t.size() != 3 || !vh::ofHex(t[1], k) || !vh::ofHex(t[2], v)) return "bad-op";
        store->set(str(k), v);
        return "ok | " + takeEvents();
      }
      if (op == "bigvalue")
      { // bigvalue <key> <len> <byte> [ttl]: a value too large for the line protocol (boundary witness; implementation-only cases)
        unsigned long long len, fill;
        long long ttl = 0;
        if ((t.size() != 4 && t.size() != 5) || !vh::ofHex(t[1], k) || !vh::parseNat(t[2], len) || !vh::parseNat(t[3], fill) || fill > 255 ||
            (t.size() == 5 && !parseInt(t[4], ttl)))
          return "bad-op";
        if (t.size() == 5)
          store->set(str(k), std::vector<std::uint8_t>(static_cast<size_t>(len), static_cast<std::uint8_t>(fill)), std::chrono::seconds(ttl));
        else
          store->set(str(k), std::vector<std::uint8_t>(static_cast<size_t>(len), static_cast<std::uint8_t>(fill)));
        takeEvents();
        return "ok";
      }
      if (op == "setttl")
      {
        long long ttl;
        if (t.size() != 4 || !vh::ofHex(t[1], k) || !vh::ofHex(t[2], v) || !parseInt(t[3], ttl)) return "bad-op";
        store->set(str(k), v, std::chrono::seconds(ttl));
        return "ok | " + takeEvents();
      }
      if (op == "setbatch" || op == "setbatchttl")
      {
        size_t i0 = op == "setbatch" ? 1 : 2;
        long long ttl = 0;
        if (op == "setbatchttl" && (t.size() < 2 || !parseInt(t[1], ttl))) return "bad-op";
        if ((t.size() - i0) % 2) return "bad-op";
        std::unordered_map<std::string, std::vector<std::uint8_t>> batch;
        for (size_t i = i0; i + 1 < t.size(); i += 2)
        {
          if (!vh::ofHex(t[i], k) || !vh::ofHex(t[i + 1], v)) return "bad-op";
          batch[str(k)] = v;
        }
        if (op == "setbatch") store->setBatch(batch);
        else store->setBatch(batch, std::chrono::seconds(ttl));
        return "ok | " + takeEvents();
      }
      if (op == "get")
      {
        if (t.size() != 2 || !vh::ofHex(t[1], k)) return "bad-op";
        auto r = store->get(str(k));
        return optVal(r) + " | " + takeEvents();
      }
      if (op == "remove")
      {
        if (t.size() != 2 || !vh::ofHex(t[1], k)) return "bad-op";
        store->remove(str(k));
        return "ok | " + takeEvents();
      }
      if (op == "rmprefix")
      {
        if (t.size() != 2 || !vh::ofHex(t[1], k)) return "bad-op";
        size_t n = store->removeWithPrefix(str(k));
        return "count:" + std::to_string(n) + " | " + takeEvents();
      }
      if (op == "clear")
      {
        store->clear();
        return "ok | " + takeEvents();
      }
      if (op == "expireat")
      {
        long long when;
        if (t.size() != 3 || !vh::ofHex(t[1], k) || !parseInt(t[2], when)) return "bad-op";
        store->expireAt(str(k), tpOfMs(when));
        return "ok | " + takeEvents();
      }
      if (op == "persist")
      {
        if (t.size() != 2 || !vh::ofHex(t[1], k)) return "bad-op";
        store->persist(str(k));
        return "ok | " + takeEvents();
      }
      if (op == "compact")
      {
        store->compact();
        return "ok | " + takeEvents();
      }
      if (op == "evict")
      {
        if (t.size() != 3 || !vh::ofHex(t[1], k)) return "bad-op";
        iora::core::TimerId id = 0;
        {
          std::shared_lock<std::shared_mutex> lock(store->_mutex);
          auto it = store->_expiry.find(str(k));
          bool have = it != store->_expiry.end();
          if (t[2] == "cur") id = have ? it->second.timerId : 999999999ULL;
          else if (t[2] == "stale") id = (have ? it->second.timerId : 999999990ULL) + 1;
          else if (t[2] == "zero") id = 0;
          else return "bad-op";
        }
        store->evictionCallback(str(k), std::make_shared<iora::core::TimerId>(id));
        return "ok | " + takeEvents();
      }
      if (op == "reopen")
      {
        store.reset(); // clean close: shutdown() drains the wheel, joins the worker, closes the log
        std::string r = openStore();
        return r + " | " + takeEvents();
      }
      if (op == "read")
      {
        if (t.size() < 2 || !vh::ofHex(t[1], k)) return "bad-op";
        std::vector<std::string> ks;
        for (size_t i = 2; i < t.size(); ++i)
        {
          if (!vh::ofHex(t[i], v)) return "bad-op";
          ks.push_back(str(v));
        }
        std::vector<std::string> keys, pfx, batch, ttl;
        for (auto &x : store->keys()) keys.push_back(vh::toHex(x));
        for (auto &x : store->keysWithPrefix(str(k))) pfx.push_back(vh::toHex(x));
        // getBatch returns a map: duplicates in the request collapse; the model lists one entry per requested key
        auto gb = store->getBatch(ks);
        for (auto &x : ks)
        {
          auto it = gb.find(x);
          if (it != gb.end()) batch.push_back(vh::toHex(x) + ":" + vh::toHex(it->second));
        }
        std::string ex;
        for (auto &x : ks) ex += store->exists(x) ? "1" : "0";
        for (auto &x : ks)
        {
          auto r = store->ttl(x);
          ttl.push_back(r ? std::to_string(r->count()) : "n");
        }
        std::string out = "size=" + std::to_string(store->size()) + " keys=" + csv(keys) + " pfx=" + csv(pfx) +
                          " batch=" + csv(batch) + " ex=" + (ks.empty() ? "-" : ex) + " ttl=" + csv(ttl, false);
        std::string inv = invariants();
        if (inv != "ok") out += " inv=" + inv;
        takeEvents();
        return out;
      }
      if (op == "state")
      {
        return lstate();
      }
    }
    catch (const iora::storage::KVStoreException &e)
    {
      std::string m = e.what();
      std::string kind = "other";
      if (m.find("Key cannot be empty") != std::string::npos) kind = "emptyKey";
      else if (m.find("Key too large") != std::string::npos) kind = "keyTooLarge";
      else if (m.find("Value too large") != std::string::npos) kind = "valueTooLarge";
      else if (m.find("TTL must be greater than zero") != std::string::npos) kind = "badTtl";
      else if (m.find("Invalid key or value in batch") != std::string::npos) kind = "badBatch";
      else if (m.find("Failed to initialize KVStore") != std::string::npos) kind = "loadFailed";
      return "err:" + kind + " | " + takeEvents();
    }
    catch (const std::exception &e)
    {
      return std::string("throw ") + typeid(e).name();
    }
    return "bad-op";
  }
};
} // namespace kvh
