// Correspondence harness for C18: real WebSocketFrame codec and real WebSocketServer data path,
// driven by the line protocol.  Built against /repo/include on every check run.
#include <algorithm>
#include <atomic>
#include <chrono>
#include <cstring>
#include <functional>
#include <map>
#include <memory>
#include <mutex>
#include <set>
#include <sstream>
#include <stdexcept>
#include <string>
#include <thread>
#include <typeinfo>
#include <unordered_map>
#include <unordered_set>
#include <vector>
#include <future>
#include <condition_variable>
#include <deque>
#include <queue>
#include <list>
#include <optional>
#include <variant>
#include <fstream>
#include <iostream>
#include <regex>
#include <random>
#include <filesystem>
#include <shared_mutex>
#include <array>
#include <bitset>
#include <iomanip>
#include <numeric>
#include <tuple>
#include <type_traits>
#include <utility>
#include <limits>
#include <cassert>
#include <cctype>
#include <cerrno>
#include <cmath>
#include <csignal>
#include <cstdarg>
#include <cstddef>
#include <cstdio>
#include <cstdlib>
#include <ctime>
#include <any>
#include <charconv>
#include <string_view>
#include <system_error>
#include <exception>
#include <iterator>
#include <initializer_list>
#include <ostream>
#include <istream>
#include <streambuf>
#include <locale>
#include <codecvt>
#include <cxxabi.h>
#include <openssl/ssl.h>
#include <openssl/err.h>
#include <openssl/evp.h>
#include <openssl/x509.h>
#include <openssl/x509v3.h>
#include <openssl/sha.h>
#include <openssl/rand.h>
#include <openssl/hmac.h>
#include <openssl/bio.h>
#include <openssl/pem.h>
#define private public
#define protected public
#include "iora/network/websocket_frame.hpp"
#include "iora/network/websocket_server.hpp"
#include "iora/network/websocket_client.hpp"
#undef private
#undef protected
#include "common/fake_engine.hpp"
#include "common/lineproto.hpp"

using namespace iora::network;
using vh::Bytes;

static std::string showFrame(const WebSocketFrame& f, std::size_t consumed)
{
  std::ostringstream o;
  o << "frame " << (f.fin ? 1 : 0) << " " << static_cast<unsigned>(static_cast<std::uint8_t>(f.opcode)) << " "
    << (f.masked ? 1 : 0) << " " << vh::toHex(f.maskKey, 4) << " " << vh::toHex(f.payload) << " " << consumed;
  return o.str();
}

struct Srv
{
  std::unique_ptr<WebSocketServer> s;
  vh::FakeEngine* eng = nullptr;
  std::vector<std::string> evs;
  static constexpr SessionId sid = 7;

  // One server object for the whole run (constructing/destroying an HttpServer costs ~50 ms of
  // thread-pool sleeps); a reset re-creates the per-session state exactly as onUpgradeRequest does.
  void reset(std::size_t maxFrame)
  {
    evs.clear();
    if (!s)
    {
      s = std::make_unique<WebSocketServer>("127.0.0.1", 0);
      auto fe = std::make_unique<vh::FakeEngine>();
      eng = fe.get();
      TransportConfig cfg;
      cfg.protocol = Protocol::TCP;
      s->_transport = iora::network::test::TransportEngineInjector::withEngine(std::move(fe), cfg);
      eng->onSend = [this](SessionId, const std::string& b) { evs.push_back("S:" + vh::toHex(b)); };
      eng->onCloseCall = [this](SessionId) { evs.push_back("X"); };
      s->setOnTextMessage([this](SessionId, const std::string& t) { evs.push_back("T:" + vh::toHex(t)); });
      s->setOnBinaryMessage([this](SessionId, const Bytes& b) { evs.push_back("B:" + vh::toHex(b)); });
      s->setOnClose([this](SessionId, std::uint16_t c, const std::string& r) {
        evs.push_back("C:" + std::to_string(c) + ":" + vh::toHex(r));
      });
      s->setOnError([this](SessionId, const std::string&) { evs.push_back("E"); });
    }
    s->setMaxFrameSize(maxFrame);
    s->_sessions.clear();
    s->_sessions[sid] = WebSocketServer::WsSessionState{};
  }

  std::string flush()
  {
    std::string o;
    if (evs.empty()) o = "-";
    for (std::size_t i = 0; i < evs.size(); ++i) { if (i) o += ";"; o += evs[i]; }
    evs.clear();
    auto it = s->_sessions.find(sid);
    bool alive = it != s->_sessions.end();
    o += " | buf=" + std::to_string(alive ? it->second.buffer.size() : 0);
    o += std::string(" alive=") + (alive ? "1" : "0");
    o += std::string(" closeSent=") + ((alive && it->second.closeSent) ? "1" : "0");
    return o;
  }
};


// Real WebSocketClient, post-upgrade data path, with a capturing transport. Outgoing frames are masked with a
// random key: they are decoded (real parser; W1 covers it) and printed as opcode:fin:unmasked-payload.
struct Cli
{
  std::shared_ptr<WebSocketClient> c;
  vh::FakeEngine* eng = nullptr;
  std::vector<std::string> evs;
  static constexpr SessionId sid = 7;

  void reset()
  {
    evs.clear();
    if (!c)
    {
      c = WebSocketClient::create();
      auto fe = std::make_unique<vh::FakeEngine>();
      eng = fe.get();
      TransportConfig cfg;
      cfg.protocol = Protocol::TCP;
      c->_transport = iora::network::test::TransportEngineInjector::withEngine(std::move(fe), cfg);
      c->_sessionId = sid;
      eng->onSend = [this](SessionId, const std::string& b) {
        std::size_t consumed = 0;
        auto f = WebSocketFrame::parse(iora::core::BufferView(reinterpret_cast<const std::uint8_t*>(b.data()), b.size()), consumed);
        if (!f || consumed != b.size() || !f->masked) { evs.push_back("S:undecodable-or-unmasked:" + vh::toHex(b)); return; }
        evs.push_back("S:" + std::to_string(static_cast<unsigned>(static_cast<std::uint8_t>(f->opcode))) + ":" + (f->fin ? "1" : "0") + ":" +
                      vh::toHex(f->payload));
      };
      c->setOnTextMessage([this](const std::string& t) { evs.push_back("T:" + vh::toHex(t)); });
      c->setOnBinaryMessage([this](const Bytes& b) { evs.push_back("B:" + vh::toHex(b)); });
      c->setOnClose([this](std::uint16_t code, const std::string& r) { evs.push_back("C:" + std::to_string(code) + ":" + vh::toHex(r)); });
      c->setOnError([this](const std::string&) { evs.push_back("E"); });
    }
    {
      std::lock_guard<std::mutex> lock(c->_dataMutex);
      c->_buffer.clear();
      c->_fragmentBuffer.clear();
      c->_fragmentOpcode = WsOpcode::CONTINUATION;
    }
    c->_upgradeComplete.store(true);
    c->_closeEchoed.store(false);
    c->_protocolFailed.store(false);
#ifndef VERIF_WS_NO_F34
    c->_closeSent = false;
#endif
    c->_state.store(WebSocketState::CONNECTED);
  }

  std::string flush()
  {
    std::string o;
    if (evs.empty()) o = "-";
    for (std::size_t i = 0; i < evs.size(); ++i) { if (i) o += ";"; o += evs[i]; }
    evs.clear();
    o += " | buf=" + std::to_string(c->_buffer.size());
    o += std::string(" connected=") + (c->_state.load() == WebSocketState::CONNECTED ? "1" : "0");
#ifndef VERIF_WS_NO_F34
    o += std::string(" closeSent=") + (c->_closeSent ? "1" : "0");
#else
    o += std::string(" closeSent=?");
#endif
    o += std::string(" failed=") + (c->_protocolFailed.load() ? "1" : "0");
    return o;
  }
};

static std::string guarded(const std::function<std::string()>& f)
{
  try { return f(); }
  catch (const std::exception& e)
  {
    int st = 0;
    char* n = abi::__cxa_demangle(typeid(e).name(), nullptr, nullptr, &st);
    std::string name = n ? n : typeid(e).name();
    std::free(n);
    return "throw " + name;
  }
  catch (...) { return "throw unknown"; }
}

int main()
{
  iora::core::Logger::setLevel(iora::core::Logger::Level::Fatal);
  Srv srv;
  srv.reset(16777216);
  Cli cli;
  cli.reset();
  return vh::runLines([&](const std::vector<std::string>& t) -> std::string {
    return guarded([&]() -> std::string {
      Bytes d, k;
      unsigned long long n = 0, m = 0;
      if (t.size() == 3 && t[0] == "parse" && vh::parseNat(t[1], m) && vh::ofHex(t[2], d))
      {
        std::size_t consumed = 0;
#ifdef VERIF_WS_LEGACY_PARSE
        auto f = WebSocketFrame::parse(iora::core::BufferView(d.data(), d.size()), consumed);
        if (!f) return "incomplete";
#else
        WsParseStatus st = WsParseStatus::Ok;
        auto f = WebSocketFrame::parse(iora::core::BufferView(d.data(), d.size()), consumed, st, m);
        if (!f)
        {
          switch (st)
          {
          case WsParseStatus::Incomplete: return "incomplete";
          case WsParseStatus::ProtocolError: return "protocolError";
          case WsParseStatus::TooLarge: return "tooLarge";
          default: return "none-with-status-ok";
          }
        }
#endif
        return showFrame(*f, consumed);
      }
      if (t.size() == 6 && t[0] == "ser" && vh::parseNat(t[2], n) && vh::ofHex(t[4], k) && vh::ofHex(t[5], d) &&
          (t[1] == "0" || t[1] == "1") && (t[3] == "0" || t[3] == "1") && k.size() == 4)
      {
        WebSocketFrame f;
        f.fin = t[1] == "1";
        f.opcode = static_cast<WsOpcode>(n & 0xFF);
        f.masked = t[3] == "1";
        std::memcpy(f.maskKey, k.data(), 4);
        f.payload = d;
        return vh::toHex(f.serialize(f.masked));
      }
      if (t.size() == 2 && t[0] == "utf8" && vh::ofHex(t[1], d))
      {
        WebSocketFrame f;
        f.payload = d;
        return f.isValidUtf8() ? "1" : "0";
      }
      if (t.size() >= 2 && t[0] == "srv")
      {
        if (t.size() == 3 && t[1] == "reset" && vh::parseNat(t[2], m)) { srv.reset(m); return "ok"; }
        if (t.size() == 3 && t[1] == "data" && vh::ofHex(t[2], d))
        {
          srv.s->onUpgradedData(Srv::sid, d.data(), d.size());
          return srv.flush();
        }
        if (t.size() == 3 && t[1] == "sendText" && vh::ofHex(t[2], d))
        {
          srv.s->sendText(Srv::sid, std::string(d.begin(), d.end()));
          return srv.flush();
        }
        if (t.size() == 3 && t[1] == "sendBinary" && vh::ofHex(t[2], d)) { srv.s->sendBinary(Srv::sid, d); return srv.flush(); }
        if (t.size() == 3 && t[1] == "sendPing" && vh::ofHex(t[2], d)) { srv.s->sendPing(Srv::sid, d); return srv.flush(); }
        if (t.size() == 4 && t[1] == "sendClose" && vh::parseNat(t[2], n) && vh::ofHex(t[3], d))
        {
          srv.s->sendClose(Srv::sid, static_cast<std::uint16_t>(n), std::string(d.begin(), d.end()));
          return srv.flush();
        }
      }
      if (t.size() >= 2 && t[0] == "cli")
      {
        if (t.size() == 2 && t[1] == "reset") { cli.reset(); return "ok"; }
        if (t.size() == 3 && t[1] == "data" && vh::ofHex(t[2], d)) { cli.c->handleData(Cli::sid, d.data(), d.size()); return cli.flush(); }
        if (t.size() == 3 && t[1] == "sendText" && vh::ofHex(t[2], d)) { cli.c->sendText(std::string(d.begin(), d.end())); return cli.flush(); }
        if (t.size() == 3 && t[1] == "sendBinary" && vh::ofHex(t[2], d)) { cli.c->sendBinary(d); return cli.flush(); }
        if (t.size() == 3 && t[1] == "sendPing" && vh::ofHex(t[2], d)) { cli.c->sendPing(d); return cli.flush(); }
        if (t.size() == 4 && t[1] == "sendClose" && vh::parseNat(t[2], n) && vh::ofHex(t[3], d))
        {
          cli.c->sendClose(static_cast<std::uint16_t>(n), std::string(d.begin(), d.end()));
          return cli.flush();
        }
      }
      return "bad-op";
    });
  });
}
