// Correspondence harness for C18: real WebSocketFrame codec, real WebSocketServer / WebSocketClient data paths (incl. the
// HTTP upgrade boundary through HttpServer::handleIncomingData and the client's 101 handling), re-entrant application
// sends from callbacks, and two-thread send/close races under DetSched.  Driven by the line protocol; built against
// ${VERIF_REPO}/include on every check run (link harness/detsched/detsched.cpp).
#include <algorithm>
#include <atomic>
#include <chrono>
#include <cstring>
#include <functional>
#include <map>
#include <memory>
#include <mutex>
#include <set>
#include <sstream>
#include <stdexcept>
#include <string>
#include <thread>
#include <typeinfo>
#include <unordered_map>
#include <unordered_set>
#include <vector>
#include <future>
#include <condition_variable>
#include <deque>
#include <queue>
#include <list>
#include <optional>
#include <variant>
#include <fstream>
#include <iostream>
#include <regex>
#include <random>
#include <filesystem>
#include <shared_mutex>
#include <array>
#include <bitset>
#include <iomanip>
#include <numeric>
#include <tuple>
#include <type_traits>
#include <utility>
#include <limits>
#include <cassert>
#include <cctype>
#include <cerrno>
#include <cmath>
#include <csignal>
#include <cstdarg>
#include <cstddef>
#include <cstdio>
#include <cstdlib>
#include <ctime>
#include <any>
#include <charconv>
#include <string_view>
#include <system_error>
#include <exception>
#include <iterator>
#include <initializer_list>
#include <ostream>
#include <istream>
#include <streambuf>
#include <locale>
#include <codecvt>
#include <cxxabi.h>
#include <openssl/ssl.h>
#include <openssl/err.h>
#include <openssl/evp.h>
#include <openssl/x509.h>
#include <openssl/x509v3.h>
#include <openssl/sha.h>
#include <openssl/rand.h>
#include <openssl/hmac.h>
#include <openssl/bio.h>
#include <openssl/pem.h>
#define private public
#define protected public
#include "iora/network/websocket_frame.hpp"
#include "iora/network/websocket_server.hpp"
#include "iora/network/websocket_client.hpp"
#undef private
#undef protected
#include "common/fake_engine.hpp"
#include "common/lineproto.hpp"
#include "detsched/detsched.hpp"

#include <dlfcn.h>
using namespace iora::network;
using vh::Bytes;

// OpenSSL's RAND_bytes keeps per-thread state that it tears down (taking its own rwlocks) in a thread-exit destructor,
// i.e. after a DetSched-managed thread has finished - that wedges the scheduler. While a race runs, the client's
// mask keys therefore come from a counter (the key is not part of the model: the harness unmasks what was sent).
static std::atomic<bool> g_fakeRand{false};
static std::atomic<std::uint64_t> g_randCtr{0x9E3779B97F4A7C15ULL};
extern "C" int RAND_bytes(unsigned char* buf, int num)
{
  if (!g_fakeRand.load())
  {
    using F = int (*)(unsigned char*, int);
    static F real = reinterpret_cast<F>(dlsym(RTLD_NEXT, "RAND_bytes"));
    return real(buf, num);
  }
  for (int i = 0; i < num; ++i)
  {
    std::uint64_t z = (g_randCtr += 0x9E3779B97F4A7C15ULL);
    z = (z ^ (z >> 30)) * 0xBF58476D1CE4E5B9ULL;
    z = (z ^ (z >> 27)) * 0x94D049BB133111EBULL;
    buf[i] = static_cast<unsigned char>((z ^ (z >> 31)) & 0xFF);
  }
  return 1;
}

static std::string showFrame(const WebSocketFrame& f, std::size_t consumed)
{
  std::ostringstream o;
  o << "frame " << (f.fin ? 1 : 0) << " " << static_cast<unsigned>(static_cast<std::uint8_t>(f.opcode)) << " "
    << (f.masked ? 1 : 0) << " " << vh::toHex(f.maskKey, 4) << " " << vh::toHex(f.payload) << " " << consumed;
  return o.str();
}

// ---- scripted application sends (re-entrant from callbacks, or one thread's program in a race) -----------------
struct SendItem
{
  char kind = 't';          // t text, b binary, p ping, c close; race programs only: d inbound data, x disconnect (client)
  Bytes bytes;
  unsigned code = 1000;
};

static std::vector<std::string> splitOn(const std::string& s, char c)
{
  std::vector<std::string> out;
  std::string cur;
  for (char ch : s) { if (ch == c) { out.push_back(cur); cur.clear(); } else cur += ch; }
  out.push_back(cur);
  return out;
}

static bool parseItem(const std::string& s, SendItem& it, bool allowData)
{
  auto p = splitOn(s, ':');
  unsigned long long n = 0;
  if (p.size() == 2 && p[0].size() == 1 && std::string("tbp").find(p[0][0]) != std::string::npos)
  {
    it.kind = p[0][0];
    return vh::ofHex(p[1], it.bytes);
  }
  if (p.size() == 2 && p[0] == "d" && allowData) { it.kind = 'd'; return vh::ofHex(p[1], it.bytes); }
  if (p.size() == 3 && p[0] == "c" && vh::parseNat(p[1], n)) { it.kind = 'c'; it.code = static_cast<unsigned>(n); return vh::ofHex(p[2], it.bytes); }
  if (p.size() == 3 && p[0] == "x" && allowData && vh::parseNat(p[1], n)) { it.kind = 'x'; it.code = static_cast<unsigned>(n); return vh::ofHex(p[2], it.bytes); }
  return false;
}

static bool parseScript(const std::string& s, std::vector<SendItem>& out, bool allowData = false)
{
  out.clear();
  if (s == "-") return true;
  for (auto& part : splitOn(s, ','))
  {
    SendItem it;
    if (!parseItem(part, it, allowData)) return false;
    out.push_back(it);
  }
  return true;
}

// the client's limit is configurable only on a tree that has setMaxFrameSize (FC18b); elsewhere the request is ignored
template <class T> static auto setClientMax(T& c, std::size_t m, int) -> decltype(c.setMaxFrameSize(m), void()) { c.setMaxFrameSize(m); }
template <class T> static void setClientMax(T&, std::size_t, long) {}

// the transport-close path: the repaired tree has HttpServer::handleSessionClosed (the body of the close callback registered
// in start()); an older tree has only the lambda, whose effect on the HTTP-level maps is reproduced here
template <class T> static auto transportClosed(T& s, SessionId sid, int) -> decltype(s.handleSessionClosed(sid), void()) { s.handleSessionClosed(sid); }
template <class T> static void transportClosed(T& s, SessionId sid, long)
{
  std::lock_guard<std::mutex> lock(s._sessionMutex);
  s._sessionInfo.erase(sid);
  s._upgradedSessions.erase(sid);
}
template <class T> static auto clearPending(T& s, SessionId sid, int) -> decltype(s._upgradePending.erase(sid), void()) { s._upgradePending.erase(sid); }
template <class T> static void clearPending(T&, SessionId, long) {}
template <class T> static auto isPending(T& s, SessionId sid, int) -> decltype(s._upgradePending.count(sid), bool()) { return s._upgradePending.count(sid) > 0; }
template <class T> static bool isPending(T&, SessionId, long) { return false; }

static const char* kSampleKey = "dGhlIHNhbXBsZSBub25jZQ==";   // RFC 6455 1.3; accept = s3pPLMBiTxaQ9kYGzzhZRbK+xOo=

// a spin lock on an atomic, not a std::mutex: DetSched must not see it (it would add scheduling points to every race)
struct EvLock
{
  std::atomic_flag f = ATOMIC_FLAG_INIT;
  void lock() { while (f.test_and_set(std::memory_order_acquire)) {} }
  void unlock() { f.clear(std::memory_order_release); }
};

struct Srv
{
  std::unique_ptr<WebSocketServer> s;
  vh::FakeEngine* eng = nullptr;
  std::vector<std::string> evs;       // pushed by the pool thread during an upgrade: guarded by evMx
  EvLock evMx;
  std::vector<SendItem> onText, onBinary, onClose, onError;
  bool viaHttp = false;
  static constexpr SessionId sid = 7;
  std::size_t defaultMax = 0;
  // upgrade2: one read delivered "by the I/O thread" at a chosen point of the pool thread
  std::string injectAt;
  Bytes injectData;
  std::atomic<bool> injectArmed{false};

  void push(std::string e) { std::lock_guard<EvLock> l(evMx); evs.push_back(std::move(e)); }
  void inject(const char* point)
  {
    if (injectAt != point) return;
    bool exp = true;
    if (!injectArmed.compare_exchange_strong(exp, false)) return;
    s->handleIncomingData(sid, injectData.data(), injectData.size());
  }

  void exec(const SendItem& it)
  {
    switch (it.kind)
    {
    case 't': s->sendText(sid, std::string(it.bytes.begin(), it.bytes.end())); break;
    case 'b': s->sendBinary(sid, it.bytes); break;
    case 'p': s->sendPing(sid, it.bytes); break;
    case 'c': s->sendClose(sid, static_cast<std::uint16_t>(it.code), std::string(it.bytes.begin(), it.bytes.end())); break;
    case 'd': s->onUpgradedData(sid, it.bytes.data(), it.bytes.size()); break;
    }
  }
  void runScript(const std::vector<SendItem>& sc) { for (auto& it : sc) exec(it); }

  // One server object for the whole run (constructing/destroying an HttpServer costs ~50 ms of
  // thread-pool sleeps); a reset re-creates the per-session state exactly as onUpgradeRequest does.
  void reset(std::size_t maxFrame)
  {
    evs.clear();
    onText.clear(); onBinary.clear(); onClose.clear(); onError.clear();
    viaHttp = false;
    if (!s)
    {
      s = std::make_unique<WebSocketServer>("127.0.0.1", 0);
      defaultMax = s->_maxFrameSize;      // what the constructor leaves when setMaxFrameSize is never called
      auto fe = std::make_unique<vh::FakeEngine>();
      eng = fe.get();
      TransportConfig cfg;
      cfg.protocol = Protocol::TCP;
      s->_transport = iora::network::test::TransportEngineInjector::withEngine(std::move(fe), cfg);
      eng->onSend = [this](SessionId, const std::string& b) {
        if (b.compare(0, 12, "HTTP/1.1 101") == 0) push("H101");
        else if (b.compare(0, 5, "HTTP/") == 0) push("H:" + b.substr(9, 3));
        else push("S:" + vh::toHex(b));
      };
      eng->onCloseCall = [this](SessionId) { push("X"); };
      s->setOriginCallback([this](SessionId, const std::string&) { inject("origin"); return true; });
      s->setOnConnect([this](SessionId, const std::string&) { push("O"); inject("connect"); });
      s->setOnTextMessage([this](SessionId, const std::string& t) { push("T:" + vh::toHex(t)); inject("msg"); runScript(onText); });
      s->setOnBinaryMessage([this](SessionId, const Bytes& b) { push("B:" + vh::toHex(b)); inject("msg"); runScript(onBinary); });
      s->setOnClose([this](SessionId, std::uint16_t c, const std::string& r) {
        push("C:" + std::to_string(c) + ":" + vh::toHex(r));
        runScript(onClose);
      });
      s->setOnError([this](SessionId, const std::string&) { push("E"); runScript(onError); });
    }
    injectArmed.store(false);
    s->setMaxFrameSize(maxFrame == static_cast<std::size_t>(-1) ? defaultMax : maxFrame);
    s->_sessions.clear();
    s->_sessions[sid] = WebSocketServer::WsSessionState{};
    {
      std::lock_guard<std::mutex> lock(s->_sessionMutex);
      s->_upgradedSessions.erase(sid);
      s->_sessionInfo.erase(sid);
      clearPending(*s, sid, 0);
    }
  }

  bool poolIdle() { return s->_threadPool.getPendingTaskCount() == 0 && s->_threadPool.getActiveThreadCount() == 0; }

  // the REAL upgrade boundary: an upgrade request and `trailing` in one read through HttpServer::handleIncomingData
  // (request extracted, dispatched to the thread pool, onUpgradeRequest, 101 response, buffer drain -> onUpgradedData)
  // header values of the upgrade request; an empty value = the header is absent
  std::string hUpgrade = "websocket", hConnection = "Upgrade", hKey = kSampleKey, hVersion = "13";
  void defaultHeaders() { hUpgrade = "websocket"; hConnection = "Upgrade"; hKey = kSampleKey; hVersion = "13"; }

  void upgrade(const Bytes& trailing, const std::string& point = "", const Bytes& r2 = Bytes())
  {
    s->_sessions.clear();
    {
      std::lock_guard<std::mutex> lock(s->_sessionMutex);
      s->_upgradedSessions.erase(sid);
      clearPending(*s, sid, 0);
      s->_sessionInfo[sid] = HttpServer::SessionInfo{};
    }
    injectAt = point;
    injectData = r2;
    injectArmed.store(!point.empty());
    std::string req = "GET /ws HTTP/1.1\r\nHost: h\r\n";
    if (!hUpgrade.empty()) req += "Upgrade: " + hUpgrade + "\r\n";
    if (!hConnection.empty()) req += "Connection: " + hConnection + "\r\n";
    if (!hKey.empty()) req += "Sec-WebSocket-Key: " + hKey + "\r\n";
    if (!hVersion.empty()) req += "Sec-WebSocket-Version: " + hVersion + "\r\n";
    req += "\r\n";
    Bytes all(req.begin(), req.end());
    all.insert(all.end(), trailing.begin(), trailing.end());
    s->handleIncomingData(sid, all.data(), all.size());
    // the request runs on the server's thread pool: wait until it has answered and the pool is idle again.
    // A generous limit: expiry would be a wedged pool thread.
    auto t0 = std::chrono::steady_clock::now();
    int calm = 0;
    while (std::chrono::steady_clock::now() - t0 < std::chrono::seconds(120))
    {
      bool answered = false;
      {
        std::lock_guard<EvLock> l(evMx);
        for (auto& e : evs) if (e[0] == 'H') answered = true;
      }
      // (an idle pool means processHttpRequest has returned: whether the hold on the reads was released is final by then)
      if (answered && poolIdle()) { if (++calm >= 3) break; } else calm = 0;
      std::this_thread::sleep_for(std::chrono::microseconds(200));
    }
    viaHttp = true;
    // the chosen point never came (no message callback during the drain): the read arrives after the hand-over
    bool exp = true;
    if (injectArmed.compare_exchange_strong(exp, false)) s->handleIncomingData(sid, injectData.data(), injectData.size());
  }

  // the transport reports the connection closed (peer dropped TCP, or closeSession() completed)
  void tclose() { transportClosed(*s, sid, 0); }

  void data(const Bytes& d)
  {
    if (viaHttp) s->handleIncomingData(sid, d.data(), d.size());   // real routing: upgraded session -> onUpgradedData
    else s->onUpgradedData(sid, d.data(), d.size());
  }

  std::string flush()
  {
    std::string o;
    {
      std::lock_guard<EvLock> l(evMx);
      if (evs.empty()) o = "-";
      for (std::size_t i = 0; i < evs.size(); ++i) { if (i) o += ";"; o += evs[i]; }
      evs.clear();
    }
    std::lock_guard<std::mutex> wl(s->_wsMutex);
    auto it = s->_sessions.find(sid);
    bool alive = it != s->_sessions.end();
    o += " | buf=" + std::to_string(alive ? it->second.buffer.size() : 0);
    o += " frag=" + std::to_string(alive ? it->second.fragmentBuffer.size() : 0);
    o += std::string(" alive=") + (alive ? "1" : "0");
    o += std::string(" closeSent=") + ((alive && it->second.closeSent) ? "1" : "0");
    return o;
  }
};


// Real WebSocketClient with a capturing transport. Outgoing frames are masked with a
// random key: they are decoded (real parser; W1 covers it) and printed as opcode:fin:unmasked-payload.
struct Cli
{
  std::shared_ptr<WebSocketClient> c;
  vh::FakeEngine* eng = nullptr;
  std::vector<std::string> evs;       // xrace pushes from two real threads: guarded by evMx
  EvLock evMx;
  bool abbrev = false;                // print large payloads as len=<n>
  std::vector<SendItem> onText, onBinary, onClose, onError;
  static constexpr SessionId sid = 7;

  void push(std::string e) { std::lock_guard<EvLock> l(evMx); evs.push_back(std::move(e)); }

  // REAL threads: sendBinary of a large payload against disconnect(); the disconnect starts once the sender is inside its
  // _sendMutex critical section (flag tested, transport about to be snapshotted, payload about to be copied)
  std::string xrace(std::size_t bytes)
  {
    reset();
    abbrev = true;
    Bytes big(bytes, 0x5a);
    std::atomic<bool> done{false};
    std::thread a([&] { c->sendBinary(big); done.store(true); });
    while (!done.load())
    {
      if (c->_sendMutex.try_lock()) { c->_sendMutex.unlock(); std::this_thread::yield(); }
      else break;
    }
    c->disconnect(1000, "");
    a.join();
    abbrev = false;
    return flush();
  }

  void exec(const SendItem& it)
  {
    switch (it.kind)
    {
    case 't': c->sendText(std::string(it.bytes.begin(), it.bytes.end())); break;
    case 'b': c->sendBinary(it.bytes); break;
    case 'p': c->sendPing(it.bytes); break;
    case 'c': c->sendClose(static_cast<std::uint16_t>(it.code), std::string(it.bytes.begin(), it.bytes.end())); break;
    case 'd': c->handleData(sid, it.bytes.data(), it.bytes.size()); break;
    case 'x': c->disconnect(static_cast<std::uint16_t>(it.code), std::string(it.bytes.begin(), it.bytes.end())); break;
    }
  }
  void runScript(const std::vector<SendItem>& sc) { for (auto& it : sc) exec(it); }

  void reset(std::size_t maxFrame = 16777216)
  {
    evs.clear();
    onText.clear(); onBinary.clear(); onClose.clear(); onError.clear();
    if (c && !c->_transport) c.reset();     // a disconnect() took the transport away: a new client, as connect() would build
    if (!c)
    {
      c = WebSocketClient::create();
      auto fe = std::make_unique<vh::FakeEngine>();
      eng = fe.get();
      TransportConfig cfg;
      cfg.protocol = Protocol::TCP;
      c->_transport = iora::network::test::TransportEngineInjector::withEngine(std::move(fe), cfg);
      c->_sessionId = sid;
      eng->onSend = [this](SessionId, const std::string& b) {
        std::size_t consumed = 0;
        auto f = WebSocketFrame::parse(iora::core::BufferView(reinterpret_cast<const std::uint8_t*>(b.data()), b.size()), consumed);
        if (!f || consumed != b.size() || !f->masked) { push("S:undecodable-or-unmasked:" + vh::toHex(b.substr(0, 64))); return; }
        push("S:" + std::to_string(static_cast<unsigned>(static_cast<std::uint8_t>(f->opcode))) + ":" + (f->fin ? "1" : "0") + ":" +
             ((abbrev && f->payload.size() > 1024) ? "len=" + std::to_string(f->payload.size()) : vh::toHex(f->payload)));
      };
      c->setOnConnect([this](const std::string&) { evs.push_back("O"); });
      c->setOnTextMessage([this](const std::string& t) { evs.push_back("T:" + vh::toHex(t)); runScript(onText); });
      c->setOnBinaryMessage([this](const Bytes& b) { evs.push_back("B:" + vh::toHex(b)); runScript(onBinary); });
      c->setOnClose([this](std::uint16_t code, const std::string& r) {
        evs.push_back("C:" + std::to_string(code) + ":" + vh::toHex(r));
        runScript(onClose);
      });
      c->setOnError([this](const std::string&) { evs.push_back("E"); runScript(onError); });
    }
    setClientMax(*c, maxFrame, 0);
    {
      std::lock_guard<std::mutex> lock(c->_dataMutex);
      c->_buffer.clear();
      c->_fragmentBuffer.clear();
      c->_fragmentOpcode = WsOpcode::CONTINUATION;
    }
    c->_upgradeComplete.store(true);
    c->_closeEchoed.store(false);
    c->_protocolFailed.store(false);
#ifndef VERIF_WS_NO_F34
    c->_closeSent = false;
#endif
    c->_state.store(WebSocketState::CONNECTED);
  }

  // the state doConnect() leaves while the upgrade response is awaited (key fixed so that the accept value is known)
  void handshakeState()
  {
    c->_upgradeComplete.store(false);
    c->_wsKey = kSampleKey;
    c->_state.store(WebSocketState::CONNECTING);
  }

  std::string flush()
  {
    std::string o;
    if (evs.empty()) o = "-";
    for (std::size_t i = 0; i < evs.size(); ++i) { if (i) o += ";"; o += evs[i]; }
    evs.clear();
    o += " | buf=" + std::to_string(c->_buffer.size());
    o += " frag=" + std::to_string(c->_fragmentBuffer.size());
    o += std::string(" connected=") + (c->_state.load() == WebSocketState::CONNECTED ? "1" : "0");
#ifndef VERIF_WS_NO_F34
    o += std::string(" closeSent=") + (c->_closeSent ? "1" : "0");
#else
    o += std::string(" closeSent=?");
#endif
    o += std::string(" failed=") + (c->_protocolFailed.load() ? "1" : "0");
    o += std::string(" upgraded=") + (c->_upgradeComplete.load() ? "1" : "0");
    return o;
  }
};

// ---- two (or more) application threads racing under DetSched ---------------------------------------------------
// program: threads separated by '/', each a comma-separated list of items (t/b/p/c sends, d:<hex> inbound bytes).
// One schedule = one ds::run from a fresh session. The answer lists every DISTINCT event sequence seen with one
// schedule (choice list) that produced it.
template <class EP> struct Race
{
  EP& ep;
  std::function<void()> fresh;
  std::vector<std::vector<SendItem>> prog;

  struct Outcome { std::string evs; std::string choices; std::string status; };

  Outcome once()
  {
    fresh();
    g_fakeRand.store(true);
    bool ok = ds::run([&] {
      std::vector<std::thread> ts;
      for (auto& p : prog) ts.emplace_back([this, &p] { for (auto& it : p) ep.exec(it); });
      for (auto& t : ts) t.join();
    });
    g_fakeRand.store(false);
    Outcome o;
    o.status = ok ? "ok" : (ds::deadlocked() ? "deadlock" : (ds::stepLimit() ? "steplimit" : "diverged"));
    o.choices = ds::choicesString();
    std::string f = ep.flush();
    o.evs = f.substr(0, f.find(" | "));
    return o;
  }

  static std::string show(const std::map<std::string, Outcome>& seen, long runs, bool complete)
  {
    std::string out = "race runs=" + std::to_string(runs) + " complete=" + (complete ? "1" : "0") + " outcomes=" + std::to_string(seen.size());
    for (auto& kv : seen) out += " " + kv.second.status + "@" + (kv.second.choices.empty() ? "-" : kv.second.choices) + "@" + kv.second.evs;
    return out;
  }

  // exhaustive depth-first enumeration of the schedule tree (every alternative at every decision), up to `cap` runs
  std::string explore(long cap)
  {
    std::map<std::string, Outcome> seen;
    std::vector<std::vector<std::uint32_t>> stack;
    stack.push_back({});
    long runs = 0;
    bool complete = true;
    ds::Options opt;
    opt.timeoutOneIn = 0;
    while (!stack.empty())
    {
      if (runs >= cap) { complete = false; break; }
      auto prefix = stack.back();
      stack.pop_back();
      ds::options(opt);
      ds::init(prefix);
      Outcome o = once();
      ++runs;
      seen.emplace(o.status + "@" + o.evs, o);
      auto ch = ds::choices();
      auto alts = ds::alternatives();
      for (std::size_t i = prefix.size(); i < ch.size() && i < alts.size(); ++i)
        for (auto a : alts[i])
          if (a != ch[i])
          {
            std::vector<std::uint32_t> p(ch.begin(), ch.begin() + static_cast<long>(i));
            p.push_back(a);
            stack.push_back(std::move(p));
          }
    }
    return show(seen, runs, complete);
  }

  std::string random(std::uint64_t seed, long n)
  {
    std::map<std::string, Outcome> seen;
    ds::Options opt;
    opt.timeoutOneIn = 0;
    for (long i = 0; i < n; ++i)
    {
      ds::options(opt);
      ds::init(seed * 1000003ULL + static_cast<std::uint64_t>(i));
      Outcome o = once();
      seen.emplace(o.status + "@" + o.evs, o);
    }
    return show(seen, n, false);
  }

  std::string replay(const std::string& choices)
  {
    std::vector<std::uint32_t> ch;
    if (choices != "-")
      for (auto& p : splitOn(choices, ',')) ch.push_back(static_cast<std::uint32_t>(std::stoul(p)));
    ds::Options opt;
    opt.timeoutOneIn = 0;
    ds::options(opt);
    ds::init(ch);
    Outcome o = once();
    std::map<std::string, Outcome> seen;
    seen.emplace(o.status + "@" + o.evs, o);
    return show(seen, 1, false);
  }
};

template <class EP> static bool parseProgram(const std::string& s, Race<EP>& r)
{
  for (auto& th : splitOn(s, '/'))
  {
    std::vector<SendItem> p;
    if (!parseScript(th, p, true) || p.empty()) return false;
    r.prog.push_back(p);
  }
  return r.prog.size() >= 1 && r.prog.size() <= 4;
}

template <class EP> static std::string raceOp(Race<EP>& r, const std::vector<std::string>& t)
{
  // t: <ep> race <program> explore <cap> | random <seed> <n> | replay <choices>
  unsigned long long a = 0, b = 0;
  if (!parseProgram(t[2], r)) return "bad-op";
  if (t.size() == 5 && t[3] == "explore" && vh::parseNat(t[4], a)) return r.explore(static_cast<long>(a));
  if (t.size() == 6 && t[3] == "random" && vh::parseNat(t[4], a) && vh::parseNat(t[5], b)) return r.random(a, static_cast<long>(b));
  if (t.size() == 5 && t[3] == "replay") return r.replay(t[4]);
  return "bad-op";
}

static std::string guarded(const std::function<std::string()>& f)
{
  try { return f(); }
  catch (const std::exception& e)
  {
    int st = 0;
    char* n = abi::__cxa_demangle(typeid(e).name(), nullptr, nullptr, &st);
    std::string name = n ? n : typeid(e).name();
    std::free(n);
    return "throw " + name;
  }
  catch (...) { return "throw unknown"; }
}

int main()
{
  iora::core::Logger::setLevel(iora::core::Logger::Level::Fatal);
  Srv srv;
  srv.reset(16777216);
  Cli cli;
  cli.reset();
  return vh::runLines([&](const std::vector<std::string>& t) -> std::string {
    return guarded([&]() -> std::string {
      Bytes d, k;
      unsigned long long n = 0, m = 0;
      if (t.size() == 3 && t[0] == "parse" && vh::parseNat(t[1], m) && vh::ofHex(t[2], d))
      {
        std::size_t consumed = 0;
#ifdef VERIF_WS_LEGACY_PARSE
        auto f = WebSocketFrame::parse(iora::core::BufferView(d.data(), d.size()), consumed);
        if (!f) return "incomplete";
#else
        WsParseStatus st = WsParseStatus::Ok;
        auto f = WebSocketFrame::parse(iora::core::BufferView(d.data(), d.size()), consumed, st, m);
        if (!f)
        {
          switch (st)
          {
          case WsParseStatus::Incomplete: return "incomplete";
          case WsParseStatus::ProtocolError: return "protocolError";
          case WsParseStatus::TooLarge: return "tooLarge";
          default: return "none-with-status-ok";
          }
        }
#endif
        return showFrame(*f, consumed);
      }
      if (t.size() == 6 && t[0] == "ser" && vh::parseNat(t[2], n) && vh::ofHex(t[4], k) && vh::ofHex(t[5], d) &&
          (t[1] == "0" || t[1] == "1") && (t[3] == "0" || t[3] == "1") && k.size() == 4)
      {
        WebSocketFrame f;
        f.fin = t[1] == "1";
        f.opcode = static_cast<WsOpcode>(n & 0xFF);
        f.masked = t[3] == "1";
        std::memcpy(f.maskKey, k.data(), 4);
        f.payload = d;
        return vh::toHex(f.serialize(f.masked));
      }
      if (t.size() == 2 && t[0] == "utf8" && vh::ofHex(t[1], d))
      {
        WebSocketFrame f;
        f.payload = d;
        return f.isValidUtf8() ? "1" : "0";
      }
      if (t.size() == 3 && t[0] == "mkclose" && vh::parseNat(t[1], n) && vh::ofHex(t[2], d))
      {
        auto f = WebSocketFrame::makeClose(static_cast<std::uint16_t>(n), std::string(d.begin(), d.end()));
        return vh::toHex(f.serialize(false));
      }
      if (t.size() >= 2 && t[0] == "srv")
      {
        if (t.size() == 3 && t[1] == "reset" && t[2] == "default") { srv.reset(static_cast<std::size_t>(-1)); return "ok"; }
        if (t.size() == 3 && t[1] == "reset" && vh::parseNat(t[2], m)) { srv.reset(m); return "ok"; }
        if (t.size() == 5 && t[1] == "upgrade2" && vh::ofHex(t[2], d) && vh::ofHex(t[4], k) &&
            (t[3] == "origin" || t[3] == "connect" || t[3] == "msg")) { srv.upgrade(d, t[3], k); return srv.flush(); }
        if (t.size() == 2 && t[1] == "tclose") { srv.tclose(); return srv.flush(); }
        if (t.size() == 7 && t[1] == "upgradeh")
        {
          Bytes u, c, kk, v;
          if (!vh::ofHex(t[2], u) || !vh::ofHex(t[3], c) || !vh::ofHex(t[4], kk) || !vh::ofHex(t[5], v) || !vh::ofHex(t[6], d)) return "bad-op";
          srv.hUpgrade.assign(u.begin(), u.end()); srv.hConnection.assign(c.begin(), c.end());
          srv.hKey.assign(kk.begin(), kk.end()); srv.hVersion.assign(v.begin(), v.end());
          srv.upgrade(d);
          srv.defaultHeaders();
          std::string o = srv.flush();
          bool held;
          {
            std::lock_guard<std::mutex> lock(srv.s->_sessionMutex);
            held = isPending(*srv.s, Srv::sid, 0);
          }
          bool up;
          {
            std::lock_guard<std::mutex> lock(srv.s->_sessionMutex);
            up = srv.s->_upgradedSessions.count(Srv::sid) > 0;
          }
          return o + " held=" + (held ? "1" : "0") + " upgraded=" + (up ? "1" : "0");
        }
        if (t.size() == 6 && t[1] == "script")
        {
          std::vector<SendItem> a, b, c, e;
          if (!parseScript(t[2], a) || !parseScript(t[3], b) || !parseScript(t[4], c) || !parseScript(t[5], e)) return "bad-op";
          srv.onText = a; srv.onBinary = b; srv.onClose = c; srv.onError = e;
          return "ok";
        }
        if (t.size() == 3 && t[1] == "upgrade" && vh::ofHex(t[2], d)) { srv.upgrade(d); return srv.flush(); }
        if (t.size() == 3 && t[1] == "data" && vh::ofHex(t[2], d)) { srv.data(d); return srv.flush(); }
        if (t.size() == 3 && t[1] == "sendText" && vh::ofHex(t[2], d))
        {
          srv.s->sendText(Srv::sid, std::string(d.begin(), d.end()));
          return srv.flush();
        }
        if (t.size() == 3 && t[1] == "sendBinary" && vh::ofHex(t[2], d)) { srv.s->sendBinary(Srv::sid, d); return srv.flush(); }
        if (t.size() == 3 && t[1] == "sendPing" && vh::ofHex(t[2], d)) { srv.s->sendPing(Srv::sid, d); return srv.flush(); }
        if (t.size() == 4 && t[1] == "sendClose" && vh::parseNat(t[2], n) && vh::ofHex(t[3], d))
        {
          srv.s->sendClose(Srv::sid, static_cast<std::uint16_t>(n), std::string(d.begin(), d.end()));
          return srv.flush();
        }
        if (t.size() >= 5 && t[1] == "race")
        {
          Race<Srv> r{srv, [&] { srv.reset(16777216); }, {}};
          return raceOp(r, t);
        }
      }
      if (t.size() >= 2 && t[0] == "cli")
      {
        if (t.size() == 2 && t[1] == "reset") { cli.reset(); return "ok"; }
        if (t.size() == 3 && t[1] == "reset" && vh::parseNat(t[2], m)) { cli.reset(m); return "ok"; }
        if (t.size() == 6 && t[1] == "script")
        {
          std::vector<SendItem> a, b, c, e;
          if (!parseScript(t[2], a) || !parseScript(t[3], b) || !parseScript(t[4], c) || !parseScript(t[5], e)) return "bad-op";
          cli.onText = a; cli.onBinary = b; cli.onClose = c; cli.onError = e;
          return "ok";
        }
        if (t.size() == 2 && t[1] == "hs") { cli.reset(); cli.handshakeState(); return "ok"; }
        if (t.size() == 3 && t[1] == "data" && vh::ofHex(t[2], d)) { cli.c->handleData(Cli::sid, d.data(), d.size()); return cli.flush(); }
        if (t.size() == 3 && t[1] == "sendText" && vh::ofHex(t[2], d)) { cli.c->sendText(std::string(d.begin(), d.end())); return cli.flush(); }
        if (t.size() == 3 && t[1] == "sendBinary" && vh::ofHex(t[2], d)) { cli.c->sendBinary(d); return cli.flush(); }
        if (t.size() == 3 && t[1] == "sendPing" && vh::ofHex(t[2], d)) { cli.c->sendPing(d); return cli.flush(); }
        if (t.size() == 4 && t[1] == "sendClose" && vh::parseNat(t[2], n) && vh::ofHex(t[3], d))
        {
          cli.c->sendClose(static_cast<std::uint16_t>(n), std::string(d.begin(), d.end()));
          return cli.flush();
        }
        if (t.size() == 3 && t[1] == "xrace" && vh::parseNat(t[2], n) && n <= (256ull << 20)) return cli.xrace(static_cast<std::size_t>(n));
        if (t.size() == 4 && t[1] == "disconnect" && vh::parseNat(t[2], n) && vh::ofHex(t[3], d))
        {
          cli.c->disconnect(static_cast<std::uint16_t>(n), std::string(d.begin(), d.end()));
          return cli.flush();
        }
        if (t.size() >= 5 && t[1] == "race")
        {
          Race<Cli> r{cli, [&] { cli.reset(); }, {}};
          return raceOp(r, t);
        }
      }
      return "bad-op";
    });
  });
}
