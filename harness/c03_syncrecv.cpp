// Correspondence harness for C03 (and the receive/flush half of C05): the REAL Transport sync-receive layer
// (transport_impl.hpp: onData/onClose handlers, receiveSync, setReadMode incl. the flush loop) over the scripted engine
// injected through the repository's own seam.  Two kinds of operations:
//   (1) single-threaded lockstep ops   reset / data / close / recv / mode / fence      -> one canonical answer line each
//   (2) `sched …`: a 2–4 thread program run under DetSched; the answer line is the sequence of model steps the run
//       performed (one per syncMutex critical section / callback, in the order they really happened) with what the
//       implementation was observed to do in each; the plugin feeds the steps to the Lean acceptor.
#include "tsync_common.hpp"

using namespace ts;

namespace {

struct World
{
  std::shared_ptr<Transport> t;
  vh::FakeEngine* e = nullptr;
  std::vector<std::string> evs;   // callback events since the last op (single-threaded ops)
  bool sched = false;             // inside a DetSched run: callbacks become marks
};
World* g = nullptr;

void resetWorld(u64 maxBuf, u64 gcThr, bool allowSwitch)
{
  // the previous world is destroyed (stop + teardown handshake) unless a DetSched run left threads parked inside it
  delete g;
  g = new World();
  TransportConfig cfg;
  cfg.protocol = Protocol::TCP;
  cfg.maxSyncReceiveBuffer = static_cast<std::size_t>(maxBuf);
  cfg.syncBufferGcThreshold = static_cast<std::size_t>(gcThr);
  cfg.allowReadModeSwitch = allowSwitch;
  auto fe = std::make_unique<vh::FakeEngine>();
  g->e = fe.get();
  g->t = iora::network::test::TransportEngineInjector::withEngine(std::move(fe), cfg);
  g->t->start();
  World* w = g;
  g->t->onData([w](SessionId sid, iora::core::BufferView d, std::chrono::steady_clock::time_point) {
    std::string s = "cb:" + std::to_string(sid) + ":" + vh::toHex(d.data(), d.size());
    // DetSched only schedules at lock/wait/notify: without explicit points the window between the caller's unlock and the
    // callback (and the callback's own duration - a slow consumer) could never be interleaved with the other thread
    if (w->sched) { for (int k = 0; k < 4; ++k) ds::yield_point("cb-entry"); mark('C', s); ds::yield_point("cb-exit"); }
    else w->evs.push_back(s);
  });
  g->t->onClose([w](SessionId sid, const TransportErrorInfo&) {
    std::string s = "gclose:" + std::to_string(sid);
    if (w->sched) mark('C', s); else w->evs.push_back(s);
  });
}

std::string stateOf(SessionId sid)
{
  auto& im = *g->t->_impl;
  std::lock_guard<std::mutex> lk(im.syncMutex);
  std::string s = "m=";
  auto mi = im.readModes.find(sid);
  s += mi == im.readModes.end() ? "-" : mi->second == ReadMode::Async ? "a" : mi->second == ReadMode::Sync ? "s" : "d";
  auto bi = im.receiveBuffers.find(sid);
  if (bi == im.receiveBuffers.end()) s += " b=-";
  else
  {
    auto& b = *bi->second;
    s += " b=" + std::to_string(b.data.size()) + " h=" + (b.hasData ? "1" : "0") + " c=" + (b.closed ? "1" : "0") +
         " o=" + (b.overflow ? "1" : "0") + " f=" + (b.flushing ? "1" : "0") + " w=" + std::to_string(b.waiters);
  }
  s += " nb=" + std::to_string(im.receiveBuffers.size()) + " ar=" + std::to_string(im.activeReceives) +
       " af=" + std::to_string(im.activeFlushes) + " sh=" + (im.shuttingDown ? "1" : "0");
  return s;
}

std::string takeEvs()
{
  std::string s = join(g->evs, ";");
  g->evs.clear();
  return s;
}

bool parseMode(const std::string& s, ReadMode& m)
{
  if (s == "a") m = ReadMode::Async;
  else if (s == "s") m = ReadMode::Sync;
  else if (s == "d") m = ReadMode::Disabled;
  else return false;
  return true;
}

std::string recvResult(SessionId sid, std::size_t len, u64 timeoutMs)
{
  std::vector<std::uint8_t> buf(len ? len : 1);
  std::size_t n = len;
  auto r = g->t->receiveSync(sid, buf.data(), n, std::chrono::milliseconds(timeoutMs));
  if (r.isOk())
  {
    if (r.value() != n || n > len) return "ok-inconsistent-length";
    return "ok:" + vh::toHex(buf.data(), n);
  }
  return std::string("err:") + errName(r.error().code);
}

void fireData(SessionId sid, const vh::Bytes& d)
{
  static const std::uint8_t dummy = 0;
  g->e->cbs.onData(sid, iora::core::BufferView{d.empty() ? &dummy : d.data(), d.size()}, std::chrono::steady_clock::now());
}

void fireClose(SessionId sid)
{
  g->e->cbs.onClose(sid, TransportErrorInfo{TransportError::PeerClosed, "peer closed"});
}

// ------------------------------------------------------------------------------------------------------------------
// DetSched programs.  `sched <seed|c:choices> <timeoutOneIn> <spuriousOneIn> <maxBuf> <gcThr> io <ops…> app <ops…> [app <ops…>]…`
// thread ops:  d:<sid>:<hex>  c:<sid>  r:<sid>:<len>:<timeoutMs>  m:<sid>:<a|s|d>  f:<0|1>  y (yield)
struct ThreadProg { std::vector<std::string> ops; };

void runThreadOp(const std::string& op)
{
  auto parts = std::vector<std::string>();
  {
    std::string cur;
    for (char c : op) { if (c == ':') { parts.push_back(cur); cur.clear(); } else cur += c; }
    parts.push_back(cur);
  }
  u64 a = 0, b = 0, c = 0;
  const std::string& k = parts[0];
  if (k == "d" && parts.size() == 3 && vh::parseNat(parts[1], a))
  {
    vh::Bytes d;
    vh::ofHex(parts[2], d);
    mark('B', "data " + parts[1] + " " + parts[2]);
    fireData(a, d);
    mark('E', "-");
  }
  else if (k == "c" && parts.size() == 2 && vh::parseNat(parts[1], a))
  {
    mark('B', "close " + parts[1]);
    fireClose(a);
    mark('E', "-");
  }
  else if (k == "r" && parts.size() == 4 && vh::parseNat(parts[1], a) && vh::parseNat(parts[2], b) && vh::parseNat(parts[3], c))
  {
    mark('B', "recv " + parts[1] + " " + parts[2]);
    std::string r = recvResult(a, b, c);
    mark('E', "recvRet:" + parts[1] + ":" + r);
  }
  else if (k == "m" && parts.size() == 3 && vh::parseNat(parts[1], a))
  {
    ReadMode m;
    parseMode(parts[2], m);
    mark('B', "mode " + parts[1] + " " + parts[2]);
    bool ok = g->t->setReadMode(a, m);
    mark('E', "modeRet:" + parts[1] + ":" + (ok ? "1" : "0"));
  }
  else if (k == "f" && parts.size() == 2)
  {
    mark('B', "fence " + parts[1]);
    if (parts[1] == "1")
    {
      // teardownWaitOut(true) minus its final wait: set the fence and notify every parked condition variable
      auto& im = *g->t->_impl;
      std::unique_lock<std::mutex> lk(im.syncMutex);
      im.shuttingDown = true;
      for (auto& kv : im.pendingConnects) kv.second->cv.notify_all();
      for (auto& kv : im.receiveBuffers) kv.second->cv.notify_all();
    }
    else g->t->_impl->setTeardownFence();
    mark('E', "-");
  }
  else if (k == "y") ds::yield_point("y");
}

std::string runSched(const std::vector<std::string>& t)
{
  // t[0] = "sched"
  if (t.size() < 7) return "bad-op";
  u64 toIn = 0, spIn = 0, maxBuf = 0, gcThr = 0;
  if (!vh::parseNat(t[2], toIn) || !vh::parseNat(t[3], spIn) || !vh::parseNat(t[4], maxBuf) || !vh::parseNat(t[5], gcThr)) return "bad-op";
  std::vector<ThreadProg> progs;
  for (std::size_t i = 6; i < t.size(); ++i)
  {
    if (t[i] == "io" || t[i] == "app") progs.push_back(ThreadProg{});
    else if (progs.empty()) return "bad-op";
    else progs.back().ops.push_back(t[i]);
  }
  resetWorld(maxBuf, gcThr, true);
  World* w = g;
  w->sched = true;
  marks().clear();
  ds::Options opt;
  opt.timeoutOneIn = static_cast<unsigned>(toIn);
  opt.spuriousOneIn = static_cast<unsigned>(spIn);
  opt.maxSteps = 20000;
  ds::options(opt);
  if (t[1].rfind("c:", 0) == 0)
  {
    std::vector<std::uint32_t> ch;
    std::string cur;
    for (char c : t[1].substr(2) + ",")
    {
      if (c == ',') { if (!cur.empty()) ch.push_back(static_cast<std::uint32_t>(std::stoul(cur))); cur.clear(); }
      else cur += c;
    }
    ds::init(ch);
  }
  else
  {
    u64 seed = 0;
    if (!vh::parseNat(t[1], seed)) return "bad-op";
    ds::init(static_cast<std::uint64_t>(seed));
  }
  // touch the mutexes once outside the run so that their DetSched object indices do not depend on the schedule
  bool ok = ds::run([&progs] {
    std::vector<std::thread> th;
    for (auto& p : progs)
      th.emplace_back([&p] { for (auto& op : p.ops) runThreadOp(op); });
    for (auto& x : th) x.join();
  });
  w->sched = false;
  std::string status = ok ? "ok" : ds::deadlocked() ? "deadlock" : ds::stepLimit() ? "steplimit" : "diverged";
  auto& im = *w->t->_impl;
  int iSync = ds::object_index(im.syncMutex.native_handle());
  // merge marks and DetSched events into model steps
  struct Cur { std::string kind; std::vector<std::string> args; int nlock = 0; long last = -1; bool active = false; };
  std::map<int, Cur> cur;
  std::vector<StepLine> steps;
  const auto& tr = ds::trace();
  const auto& ms = marks();
  std::size_t mi = 0;
  auto handleMark = [&](const Mark& m) {
    Cur& c = cur[m.tid];
    if (m.kind == 'B')
    {
      c = Cur{};
      c.active = true;
      c.args = vh::split(m.text);
      c.kind = c.args[0];
    }
    else if (m.kind == 'E')
    {
      if (c.last >= 0 && m.text != "-")
      {
        if (steps[c.last].observed == "-") steps[c.last].observed = m.text;
        else steps[c.last].observed += ";" + m.text;
      }
      c.active = false;
    }
    else if (m.kind == 'C')
    {
      // a user callback: for `data` ops this is the async delivery (ioDeliver); for `mode` ops the flush delivery
      if (m.text.rfind("cb:", 0) == 0)
      {
        if (c.kind == "data") steps.push_back(StepLine{m.tid, "ioDeliver", m.text});
        else if (c.kind == "mode") steps.push_back(StepLine{m.tid, "flushStep " + c.args[1], m.text});
        else steps.push_back(StepLine{m.tid, "unexpected-callback", m.text});
        c.last = static_cast<long>(steps.size()) - 1;
      }
      // gclose (global close callback) is not a step of the receive model
    }
  };
  for (std::size_t i = 0; i <= tr.size(); ++i)
  {
    while (mi < ms.size() && ms[mi].at <= i) handleMark(ms[mi++]);
    if (i == tr.size()) break;
    const ds::Event& e = tr[i];
    if (e.obj != iSync || iSync < 0) continue;
    if (e.kind != ds::LOCK && e.kind != ds::REACQ) continue;
    Cur& c = cur[e.tid];
    if (!c.active) continue;
    std::string st;
    if (c.kind == "data") st = (c.nlock == 0) ? "ioData " + c.args[1] + " " + c.args[2] : "unexpected-lock";
    else if (c.kind == "close") st = (c.nlock == 0) ? "" : (c.nlock == 1) ? "ioClose " + c.args[1] : "unexpected-lock";   // 1st section = pendingConnects lookup (C04)
    else if (c.kind == "recv")
    {
      if (e.kind == ds::LOCK) st = (c.nlock == 0) ? "recvEnter " + c.args[1] + " " + c.args[2] : "unexpected-lock";
      else st = "recvWake " + c.args[1] + " " + (e.detail ? "1" : "0");
    }
    else if (c.kind == "mode") st = (c.nlock == 0) ? "setMode " + c.args[1] + " " + c.args[2] : "flushStep " + c.args[1];
    else if (c.kind == "fence") st = (c.nlock == 0) ? "fence " + c.args[1] : "unexpected-lock";
    c.nlock++;
    if (st.empty()) continue;
    steps.push_back(StepLine{e.tid, st, "-"});
    c.last = static_cast<long>(steps.size()) - 1;
  }
  std::string out = status + " |";
  for (auto& s : steps) out += " " + std::to_string(s.tid) + "," + [&] { std::string x = s.step; for (char& ch : x) if (ch == ' ') ch = ','; return x; }() + "=>" + s.observed;
  out += " | " + ds::choicesString();
  if (!ok)
  {
    // threads are parked inside the transport for ever: leak it
    std::string rep = ds::report();
    for (char& ch : rep) if (ch == '\n') ch = '/';
    out += " | " + rep;
    new std::shared_ptr<Transport>(w->t);
    g = nullptr;   // World leaked on purpose
  }
  return out;
}

std::string stepOp(const std::vector<std::string>& t)
{
  if (t.empty()) return "bad-op";
  u64 a = 0, b = 0, c = 0;
  if (t[0] == "reset" && t.size() == 4 && vh::parseNat(t[1], a) && vh::parseNat(t[2], b) && vh::parseNat(t[3], c))
  {
    resetWorld(a, b, c != 0);
    return "ok";
  }
  if (t[0] == "sched") return runSched(t);
  if (!g) return "no-world";
  if (t[0] == "data" && t.size() == 3 && vh::parseNat(t[1], a))
  {
    vh::Bytes d;
    if (!vh::ofHex(t[2], d)) return "bad-op";
    fireData(a, d);
    return takeEvs() + " | " + stateOf(a);
  }
  if (t[0] == "close" && t.size() == 2 && vh::parseNat(t[1], a))
  {
    fireClose(a);
    return takeEvs() + " | " + stateOf(a);
  }
  if (t[0] == "recv" && t.size() == 4 && vh::parseNat(t[1], a) && vh::parseNat(t[2], b) && vh::parseNat(t[3], c))
  {
    std::string r = recvResult(a, b, c);
    return r + " " + takeEvs() + " | " + stateOf(a);
  }
  if (t[0] == "mode" && t.size() == 3 && vh::parseNat(t[1], a))
  {
    ReadMode m;
    if (!parseMode(t[2], m)) return "bad-op";
    bool ok = g->t->setReadMode(a, m);
    return std::string("ret:") + (ok ? "1" : "0") + " " + takeEvs() + " | " + stateOf(a);
  }
  if (t[0] == "fence" && t.size() == 2)
  {
    if (t[1] == "1") g->t->_impl->teardownWaitOut(true);   // single-threaded: all counters are 0, returns at once
    else g->t->_impl->setTeardownFence();
    return "ok | " + stateOf(0);
  }
  return "bad-op";
}
} // namespace

int main()
{
  return vh::runLines([](const std::vector<std::string>& t) -> std::string {
    try { return stepOp(t); }
    catch (const std::exception& ex)
    {
      int st = 0;
      char* n = abi::__cxa_demangle(typeid(ex).name(), nullptr, nullptr, &st);
      std::string s = std::string("throw ") + (n ? n : typeid(ex).name());
      std::free(n);
      return s;
    }
  });
}
