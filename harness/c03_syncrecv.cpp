// Correspondence harness for C03 (and the receive/flush half of C05): the REAL Transport sync-receive layer
// (transport_impl.hpp: onData/onClose handlers, receiveSync, setReadMode incl. the flush loop) over the scripted engine
// injected through the repository's own seam.  Two kinds of operations:
//   (1) single-threaded lockstep ops   reset / data / close / recv / mode / fence      -> one canonical answer line each
//   (2) `sched …`: a 2–4 thread program run under DetSched; the answer line is the sequence of model steps the run
//       performed (one per syncMutex critical section / callback, in the order they really happened) with what the
//       implementation was observed to do in each; the plugin feeds the steps to the Lean acceptor.
#include "tsync_common.hpp"
#include <atomic>

using namespace ts;

// a DetSched run that ends in a deadlock / step limit abandons its threads inside the Transport, which is then leaked on purpose
extern "C" const char* __asan_default_options() { return "detect_leaks=0"; }

namespace {

struct World
{
  std::shared_ptr<Transport> t;
  vh::FakeEngine* e = nullptr;
  std::vector<std::string> evs;   // callback events since the last op (single-threaded ops)
  bool sched = false;             // inside a DetSched run: callbacks become marks
  std::vector<std::unique_ptr<CancellationToken>> tok;   // one cancellation token per session id (0..31), for receiveSyncCancellable
  long long tokVt[32];            // DetSched virtual time at which the token was cancelled (-1 = not under DetSched / not cancelled)
};
World* g = nullptr;

void resetWorld(u64 maxBuf, u64 gcThr, bool allowSwitch)
{
  // the previous world is destroyed (stop + teardown handshake) unless a DetSched run left threads parked inside it
  delete g;
  g = new World();
  TransportConfig cfg;
  cfg.protocol = Protocol::TCP;
  cfg.maxSyncReceiveBuffer = static_cast<std::size_t>(maxBuf);
  cfg.syncBufferGcThreshold = static_cast<std::size_t>(gcThr);
  cfg.allowReadModeSwitch = allowSwitch;
  auto fe = std::make_unique<vh::FakeEngine>();
  g->e = fe.get();
  g->t = iora::network::test::TransportEngineInjector::withEngine(std::move(fe), cfg);
  g->t->start();
  for (int i = 0; i < 32; ++i) { g->tok.push_back(std::make_unique<CancellationToken>()); g->tokVt[i] = -1; }
  World* w = g;
  g->t->onData([w](SessionId sid, iora::core::BufferView d, std::chrono::steady_clock::time_point) {
    std::string s = "cb:" + std::to_string(sid) + ":" + vh::toHex(d.data(), d.size());
    // DetSched only schedules at lock/wait/notify: without explicit points the window between the caller's unlock and the
    // callback (and the callback's own duration - a slow consumer) could never be interleaved with the other thread
    if (w->sched) { for (int k = 0; k < 4; ++k) ds::yield_point("cb-entry"); mark('C', s); ds::yield_point("cb-exit"); }
    else w->evs.push_back(s);
  });
  g->t->onClose([w](SessionId sid, const TransportErrorInfo&) {
    std::string s = "gclose:" + std::to_string(sid);
    if (w->sched) mark('C', s); else w->evs.push_back(s);
  });
}

std::string stateOf(SessionId sid)
{
  auto& im = *g->t->_impl;
  std::lock_guard<std::mutex> lk(im.syncMutex);
  std::string s = "m=";
  auto mi = im.readModes.find(sid);
  s += mi == im.readModes.end() ? "-" : mi->second == ReadMode::Async ? "a" : mi->second == ReadMode::Sync ? "s" : "d";
  auto bi = im.receiveBuffers.find(sid);
  if (bi == im.receiveBuffers.end()) s += " b=-";
  else
  {
    auto& b = *bi->second;
    s += " b=" + std::to_string(b.data.size()) + " h=" + (b.hasData ? "1" : "0") + " c=" + (b.closed ? "1" : "0") +
         " o=" + (b.overflow ? "1" : "0") + " f=" + (b.flushing ? "1" : "0") + " w=" + std::to_string(b.waiters);
  }
  s += " nb=" + std::to_string(im.receiveBuffers.size()) + " ar=" + std::to_string(im.activeReceives) +
       " af=" + std::to_string(im.activeFlushes) + " sh=" + (im.shuttingDown ? "1" : "0");
  return s;
}

std::string takeEvs()
{
  std::string s = join(g->evs, ";");
  g->evs.clear();
  return s;
}

bool parseMode(const std::string& s, ReadMode& m)
{
  if (s == "a") m = ReadMode::Async;
  else if (s == "s") m = ReadMode::Sync;
  else if (s == "d") m = ReadMode::Disabled;
  else return false;
  return true;
}

// `cancellable`: through ITransport::receiveSyncCancellable with the session's token.  A Timeout answer that comes before the
// requested time has passed (real time outside DetSched, virtual time inside) is tagged: the model never produces the tag.
std::string recvResult(SessionId sid, std::size_t len, u64 timeoutMs, bool cancellable = false)
{
  std::vector<std::uint8_t> buf(len ? len : 1);
  std::size_t n = len;
  const bool virt = ds::active();
  const long long v0 = virt ? ds::now_ns() : 0;
  const auto t0 = std::chrono::steady_clock::now();
  auto r = cancellable ? g->t->receiveSyncCancellable(sid, buf.data(), n, *g->tok[sid % 32], std::chrono::milliseconds(static_cast<long long>(timeoutMs)))
                       : g->t->receiveSync(sid, buf.data(), n, std::chrono::milliseconds(static_cast<long long>(timeoutMs)));
  // a cancel is honoured within one sub-interval (100 ms) + slack of virtual time, whatever the call then answers
  std::string late;
  if (cancellable && virt && g->tokVt[sid % 32] >= 0)
  {
    long long latMs = (ds::now_ns() - std::max(g->tokVt[sid % 32], v0)) / 1000000;
    if (latMs > 105) late = "!cancel-late-after-" + std::to_string(latMs) + "ms";
  }
  if (r.isOk())
  {
    if (r.value() != n || n > len) return "ok-inconsistent-length";
    return "ok:" + vh::toHex(buf.data(), n) + late;
  }
  std::string res = std::string("err:") + errName(r.error().code) + late;
  if (r.error().code == TransportError::Timeout)
  {
    long long elapsedMs = virt ? (ds::now_ns() - v0) / 1000000
                               : std::chrono::duration_cast<std::chrono::milliseconds>(std::chrono::steady_clock::now() - t0).count();
    const unsigned long long capMs = 3153600000000ULL;   // FC03b: timeouts are saturated at 100 years
    if (static_cast<unsigned long long>(elapsedMs) + 1 < (timeoutMs < capMs ? timeoutMs : capMs)) res += "!early-after-" + std::to_string(elapsedMs) + "ms";
    // virtual time: 5 ms of slack (every look at the clock costs 1 us); real time: 1.5 s. The plugin judges the tag only where it is
    // meaningful (under DetSched another thread's timed wait moves the shared clock).
    else if (static_cast<unsigned long long>(elapsedMs) > timeoutMs + (virt ? 5 : 1500)) res += "!late-after-" + std::to_string(elapsedMs) + "ms";
  }
  return res;
}

void fireData(SessionId sid, const vh::Bytes& d)
{
  static const std::uint8_t dummy = 0;
  g->e->cbs.onData(sid, iora::core::BufferView{d.empty() ? &dummy : d.data(), d.size()}, std::chrono::steady_clock::now());
}

void fireClose(SessionId sid)
{
  g->e->cbs.onClose(sid, TransportErrorInfo{TransportError::PeerClosed, "peer closed"});
}

// ------------------------------------------------------------------------------------------------------------------
// DetSched programs.  `sched <seed|c:choices> <timeoutOneIn> <spuriousOneIn> <maxBuf> <gcThr> io <ops…> app <ops…> [app <ops…>]…`
// thread ops:  d:<sid>:<hex>  c:<sid>  r:<sid>:<len>:<timeoutMs>  rc:<sid>:<len>:<timeoutMs> (receiveSyncCancellable, token of <sid>)
//              x:<sid> (cancel that token)  m:<sid>:<a|s|d>  f:<0|1>  y (yield)
// first argument: <seed> | c:<choice list> (replay) | e:<choice prefix> (exploration: the prefix is completed WITHOUT preemptions and the
// answer carries every decision's alternatives, so that the plugin can enumerate all schedules with at most K preemptions)
struct ThreadProg { std::vector<std::string> ops; };

void runThreadOp(const std::string& op)
{
  auto parts = std::vector<std::string>();
  {
    std::string cur;
    for (char c : op) { if (c == ':') { parts.push_back(cur); cur.clear(); } else cur += c; }
    parts.push_back(cur);
  }
  u64 a = 0, b = 0, c = 0;
  const std::string& k = parts[0];
  if (k == "d" && parts.size() == 3 && vh::parseNat(parts[1], a))
  {
    vh::Bytes d;
    vh::ofHex(parts[2], d);
    mark('B', "data " + parts[1] + " " + parts[2]);
    fireData(a, d);
    mark('E', "-");
  }
  else if (k == "c" && parts.size() == 2 && vh::parseNat(parts[1], a))
  {
    mark('B', "close " + parts[1]);
    fireClose(a);
    mark('E', "-");
  }
  else if (k == "r" && parts.size() == 4 && vh::parseNat(parts[1], a) && vh::parseNat(parts[2], b) && vh::parseNat(parts[3], c))
  {
    mark('B', "recv " + parts[1] + " " + parts[2]);
    std::string r = recvResult(a, b, c);
    mark('E', "recvRet:" + parts[1] + ":" + r);
  }
  else if (k == "rc" && parts.size() == 4 && vh::parseNat(parts[1], a) && vh::parseNat(parts[2], b) && vh::parseNat(parts[3], c))
  {
    mark('B', "recvc " + parts[1] + " " + parts[2]);
    std::string r = recvResult(a, b, c, true);
    mark('E', "wrapRet:" + parts[1] + ":" + r);
  }
  else if (k == "x" && parts.size() == 2 && vh::parseNat(parts[1], a))
  {
    mark('B', "cancel " + parts[1]);   // the store to the token's flag happens in this scheduling slice (cancel() then locks the token's own mutex)
    g->tokVt[a % 32] = ds::now_ns();
    g->tok[a % 32]->cancel();
    mark('E', "-");
  }
  else if (k == "xr" && parts.size() == 2 && vh::parseNat(parts[1], a))
  {
    mark('B', "creset " + parts[1]);   // CancellationToken::reset(): the token is reused by a later call (never during one)
    g->tokVt[a % 32] = -1;
    g->tok[a % 32]->reset();
    mark('E', "-");
  }
  else if (k == "m" && parts.size() == 3 && vh::parseNat(parts[1], a))
  {
    ReadMode m;
    parseMode(parts[2], m);
    mark('B', "mode " + parts[1] + " " + parts[2]);
    bool ok = g->t->setReadMode(a, m);
    mark('E', "modeRet:" + parts[1] + ":" + (ok ? "1" : "0"));
  }
  else if (k == "f" && parts.size() == 2)
  {
    mark('B', "fence " + parts[1]);
    if (parts[1] == "1")
    {
      // teardownWaitOut(true) minus its final wait: set the fence and notify every parked condition variable
      auto& im = *g->t->_impl;
      std::unique_lock<std::mutex> lk(im.syncMutex);
      im.shuttingDown = true;
      for (auto& kv : im.pendingConnects) kv.second->cv.notify_all();
      for (auto& kv : im.receiveBuffers) kv.second->cv.notify_all();
    }
    else g->t->_impl->setTeardownFence();
    mark('E', "-");
  }
  else if (k == "y") ds::yield_point("y");
}

std::string runSched(const std::vector<std::string>& t)
{
  // t[0] = "sched"
  if (t.size() < 7) return "bad-op";
  u64 toIn = 0, spIn = 0, maxBuf = 0, gcThr = 0;
  if (!vh::parseNat(t[2], toIn) || !vh::parseNat(t[3], spIn) || !vh::parseNat(t[4], maxBuf) || !vh::parseNat(t[5], gcThr)) return "bad-op";
  std::vector<ThreadProg> progs;
  for (std::size_t i = 6; i < t.size(); ++i)
  {
    if (t[i] == "io" || t[i] == "app") progs.push_back(ThreadProg{});
    else if (progs.empty()) return "bad-op";
    else progs.back().ops.push_back(t[i]);
  }
  resetWorld(maxBuf, gcThr, true);
  World* w = g;
  w->sched = true;
  marks().clear();
  ds::Options opt;
  opt.timeoutOneIn = static_cast<unsigned>(toIn);
  opt.spuriousOneIn = static_cast<unsigned>(spIn);
  opt.maxSteps = 20000;
  const bool explore = t[1].rfind("e:", 0) == 0;
  opt.continueCurrent = explore;
  ds::options(opt);
  std::size_t prefixLen = 0;
  if (t[1].rfind("c:", 0) == 0 || explore)
  {
    std::vector<std::uint32_t> ch;
    std::string cur;
    for (char c : t[1].substr(2) + ",")
    {
      if (c == ',') { if (!cur.empty()) ch.push_back(static_cast<std::uint32_t>(std::stoul(cur))); cur.clear(); }
      else cur += c;
    }
    prefixLen = ch.size();
    ds::init(ch);
  }
  else
  {
    u64 seed = 0;
    if (!vh::parseNat(t[1], seed)) return "bad-op";
    ds::init(static_cast<std::uint64_t>(seed));
  }
  // touch the mutexes once outside the run so that their DetSched object indices do not depend on the schedule
  bool ok = ds::run([&progs] {
    std::vector<std::thread> th;
    for (auto& p : progs)
      th.emplace_back([&p] { for (auto& op : p.ops) runThreadOp(op); });
    for (auto& x : th) x.join();
  });
  w->sched = false;
  std::string status = ok ? "ok" : ds::deadlocked() ? "deadlock" : ds::stepLimit() ? "steplimit" : "diverged";
  auto& im = *w->t->_impl;
  int iSync = ds::object_index(im.syncMutex.native_handle());
  // merge marks and DetSched events into model steps
  struct Cur
  {
    std::string kind; std::vector<std::string> args; int nlock = 0; long last = -1; bool active = false;
    long head = -1;        // recvc: placeholder for the wrapper's loop head (evaluated right after the previous sub-call released syncMutex)
    bool waited = false;   // recvc: the current sub-call has parked at least once
    bool first = true;     // recvc: no sub-call has been made yet
    bool forced = false;   // the thread's last time-out was FORCED (DetSched: nothing else could run)
  };
  std::map<int, Cur> cur;
  std::vector<StepLine> steps;
  const auto& tr = ds::trace();
  const auto& ms = marks();
  std::size_t mi = 0;
  auto handleMark = [&](const Mark& m) {
    Cur& c = cur[m.tid];
    if (m.kind == 'B')
    {
      c = Cur{};
      c.active = true;
      c.args = vh::split(m.text);
      c.kind = c.args[0];
      if (c.kind == "cancel") { steps.push_back(StepLine{m.tid, "cancel " + c.args[1], "-"}); c.last = static_cast<long>(steps.size()) - 1; }
      if (c.kind == "creset") { steps.push_back(StepLine{m.tid, "reset " + c.args[1], "-"}); c.last = static_cast<long>(steps.size()) - 1; }
      if (c.kind == "recvc")
      {
        // entry token check, then (same scheduling slice) the first loop head
        steps.push_back(StepLine{m.tid, "wCall " + c.args[1] + " " + c.args[2], "-"});
        c.last = static_cast<long>(steps.size()) - 1;
        steps.push_back(StepLine{m.tid, "", "-"});
        c.head = static_cast<long>(steps.size()) - 1;
      }
    }
    else if (m.kind == 'E')
    {
      if (c.kind == "recvc" && c.head >= 0)
      {
        // the call returned without another sub-call: decided by a loop head (deadline passed / token cancelled), by the entry
        // check, or - when the last sub-call answered something other than Timeout - not by a loop head at all
        const bool tmo = m.text.find(":err:Timeout") != std::string::npos;
        const bool can = m.text.find(":err:Cancelled") != std::string::npos;
        if (c.first) { if (tmo) { steps[c.head].step = "wLoop " + c.args[1] + " 1"; c.last = c.head; } }          // Cancelled: the entry check (wCall)
        else if (c.waited && tmo) { steps[c.head].step = "wLoop " + c.args[1] + " 1"; c.last = c.head; }
        else if (c.waited && can) { steps[c.head].step = "wLoop " + c.args[1] + " 0"; c.last = c.head; }
        c.head = -1;
      }
      if (c.last >= 0 && m.text != "-")
      {
        if (steps[c.last].observed == "-") steps[c.last].observed = m.text;
        else if (steps[c.last].observed == "-!forced-timeout") steps[c.last].observed = m.text + "!forced-timeout";
        else steps[c.last].observed += ";" + m.text;
      }
      c.active = false;
    }
    else if (m.kind == 'C')
    {
      // a user callback: for `data` ops this is the async delivery (ioDeliver); for `mode` ops the flush delivery
      if (m.text.rfind("cb:", 0) == 0)
      {
        if (c.kind == "data") steps.push_back(StepLine{m.tid, "ioDeliver", m.text});
        else if (c.kind == "mode") steps.push_back(StepLine{m.tid, "flushStep " + c.args[1], m.text});
        else steps.push_back(StepLine{m.tid, "unexpected-callback", m.text});
        c.last = static_cast<long>(steps.size()) - 1;
      }
      // the global close callback: a step of its own (`ioCloseCb`), in the place where it really ran relative to the handler's
      // syncMutex section that marks the session closed (`ioClose`) - T8 is measured from here
      else if (m.text.rfind("gclose:", 0) == 0)
      {
        steps.push_back(StepLine{m.tid, "ioCloseCb " + m.text.substr(7), m.text});
        c.last = static_cast<long>(steps.size()) - 1;
      }
    }
  };
  for (std::size_t i = 0; i <= tr.size(); ++i)
  {
    while (mi < ms.size() && ms[mi].at <= i) handleMark(ms[mi++]);
    if (i == tr.size()) break;
    const ds::Event& e = tr[i];
    if (e.kind == ds::TIMEOUT) { cur[e.tid].forced = e.detail == 1; continue; }   // forced = no thread was enabled when the time-out fired
    if (e.obj != iSync || iSync < 0) continue;
    if (e.kind == ds::UNLOCK)
    {
      Cur& cu = cur[e.tid];
      if (cu.active && cu.kind == "recvc" && cu.head < 0)
      {
        steps.push_back(StepLine{e.tid, "", "-"});   // a sub-call ended: the loop head is evaluated right here
        cu.head = static_cast<long>(steps.size()) - 1;
      }
      continue;
    }
    if (e.kind != ds::LOCK && e.kind != ds::REACQ) continue;
    Cur& c = cur[e.tid];
    if (!c.active) continue;
    std::string st;
    bool tagForced = false;
    if (c.kind == "recvc")
    {
      if (e.kind == ds::LOCK)
      {
        if (c.head >= 0) { steps[c.head].step = "wLoop " + c.args[1] + " 0"; c.head = -1; }
        c.first = false;
        c.waited = false;
        st = "recvEnter " + c.args[1] + " " + c.args[2];
      }
      else { st = "recvWake " + c.args[1] + " " + (e.detail ? "1" : "0"); c.waited = true; tagForced = e.detail && c.forced; c.forced = false; }
    }
    if (c.kind == "data") st = (c.nlock == 0) ? "ioData " + c.args[1] + " " + c.args[2] : "unexpected-lock";
    else if (c.kind == "close") st = (c.nlock == 0) ? "" : (c.nlock == 1) ? "ioClose " + c.args[1] : "unexpected-lock";   // 1st section = pendingConnects lookup (C04)
    else if (c.kind == "recv")
    {
      if (e.kind == ds::LOCK) st = (c.nlock == 0) ? "recvEnter " + c.args[1] + " " + c.args[2] : "unexpected-lock";
      else { st = "recvWake " + c.args[1] + " " + (e.detail ? "1" : "0"); c.waited = true; tagForced = e.detail && c.forced; c.forced = false; }
    }
    else if (c.kind == "mode") st = (c.nlock == 0) ? "setMode " + c.args[1] + " " + c.args[2] : "flushStep " + c.args[1];
    else if (c.kind == "fence") st = (c.nlock == 0) ? "fence " + c.args[1] : "unexpected-lock";
    else if (c.kind == "cancel" || c.kind == "creset") continue;
    c.nlock++;
    if (st.empty()) continue;
    // a FORCED time-out that finds the wait predicate true is a lost notification; the tag lets the plugin's monitor see which wake-ups
    // were forced (the model never prints it)
    steps.push_back(StepLine{e.tid, st, tagForced ? "-!forced-timeout" : "-"});
    c.last = static_cast<long>(steps.size()) - 1;
  }
  std::string out = status + " |";
  for (auto& s : steps)
  {
    if (s.step.empty()) continue;
    out += " " + std::to_string(s.tid) + "," + [&] { std::string x = s.step; for (char& ch : x) if (ch == ' ') ch = ','; return x; }() + "=>" + s.observed;
  }
  out += " | " + ds::choicesString();
  // final state of every session the program names (compared with the model's state after the replay)
  {
    std::vector<std::string> fin;
    if (ok)
    {
      std::vector<u64> sids;
      for (auto& p : progs)
        for (auto& op : p.ops)
        {
          std::size_t i = op.find(':');
          if (i == std::string::npos) continue;
          std::size_t j = op.find(':', i + 1);
          u64 sid = 0;
          if (op[0] == 'f' || !vh::parseNat(op.substr(i + 1, j == std::string::npos ? std::string::npos : j - i - 1), sid)) continue;
          if (std::find(sids.begin(), sids.end(), sid) == sids.end()) sids.push_back(sid);
        }
      std::sort(sids.begin(), sids.end());
      for (u64 sid : sids)
      {
        std::string x = stateOf(sid);
        for (char& ch : x) if (ch == ' ') ch = ',';
        fin.push_back(std::to_string(sid) + ":" + x);
      }
    }
    out += " | " + join(fin, ";");
  }
  if (!ok)
  {
    // threads are parked inside the transport for ever: leak it
    std::string rep = ds::report();
    for (char& ch : rep) if (ch == '\n') ch = '/';
    out += " | " + rep;
    new std::shared_ptr<Transport>(w->t);
    g = nullptr;   // World leaked on purpose
  }
  else out += " | -";
  if (explore)
  {
    // every alternative of every decision taken after the prefix:  <index>:<alt>.<alt>…
    const auto& alts = ds::alternatives();
    std::string a;
    for (std::size_t i = prefixLen; i < alts.size(); ++i)
    {
      if (alts[i].size() < 2) continue;
      if (!a.empty()) a += ",";
      a += std::to_string(i) + ":";
      for (std::size_t k = 0; k < alts[i].size(); ++k) { if (k) a += "."; a += std::to_string(alts[i][k]); }
    }
    out += " | " + (a.empty() ? std::string("-") : a);
  }
  return out;
}

std::string stepOp(const std::vector<std::string>& t)
{
  if (t.empty()) return "bad-op";
  u64 a = 0, b = 0, c = 0;
  if (t[0] == "reset" && t.size() == 4 && vh::parseNat(t[1], a) && vh::parseNat(t[2], b) && vh::parseNat(t[3], c))
  {
    resetWorld(a, b, c != 0);
    return "ok";
  }
  if (t[0] == "sched") return runSched(t);
  if (!g) return "no-world";
  if (t[0] == "data" && t.size() == 3 && vh::parseNat(t[1], a))
  {
    vh::Bytes d;
    if (!vh::ofHex(t[2], d)) return "bad-op";
    fireData(a, d);
    return takeEvs() + " | " + stateOf(a);
  }
  if (t[0] == "close" && t.size() == 2 && vh::parseNat(t[1], a))
  {
    fireClose(a);
    return takeEvs() + " | " + stateOf(a);
  }
  if (t[0] == "recv" && t.size() == 4 && vh::parseNat(t[1], a) && vh::parseNat(t[2], b) && vh::parseNat(t[3], c))
  {
    std::string r = recvResult(a, b, c);
    return r + " " + takeEvs() + " | " + stateOf(a);
  }
  if (t[0] == "recvc" && t.size() == 4 && vh::parseNat(t[1], a) && vh::parseNat(t[2], b) && vh::parseNat(t[3], c))
  {
    std::string r = recvResult(a, b, c, true);
    return r + " " + takeEvs() + " | " + stateOf(a);
  }
  if (t[0] == "cancel" && t.size() == 2 && vh::parseNat(t[1], a))
  {
    g->tok[a % 32]->cancel();
    return "ok | " + stateOf(a);
  }
  if (t[0] == "creset" && t.size() == 2 && vh::parseNat(t[1], a))
  {
    g->tok[a % 32]->reset();
    return "ok | " + stateOf(a);
  }
  if (t[0] == "closew" && t.size() == 3 && vh::parseNat(t[1], a))
  {
    // the close handler with a per-session close OBSERVER that lets an application thread call setReadMode(sid, m) and waits for it
    // (the observer runs on the I/O thread after the global close callback; setReadMode itself is refused on the I/O thread)
    ReadMode m;
    if (!parseMode(t[2], m)) return "bad-op";
    bool ok = false;
    World* w = g;
    g->t->observe(a, [w, m, &ok](SessionId sid, const TransportErrorInfo&) {
      std::thread app([w, m, sid, &ok] { ok = w->t->setReadMode(sid, m); });
      app.join();
    });
    fireClose(a);
    return takeEvs() + " ret:" + (ok ? "1" : "0") + " | " + stateOf(a);
  }
  if (t[0] == "recvcx" && t.size() == 5 && vh::parseNat(t[1], a) && vh::parseNat(t[2], b) && vh::parseNat(t[3], c))
  {
    // receiveSyncCancellable on another thread; once its sub-call is parked (or the call has returned) the token is cancelled and THEN
    // the chunk is delivered (same sub-interval): the bytes the sub-call takes out of the buffer must be returned
    vh::Bytes d;
    if (!vh::ofHex(t[4], d)) return "bad-op";
    std::string r;
    std::atomic<bool> done{false};
    std::thread th([&] { r = recvResult(a, b, c, true); done.store(true); });
    for (int i = 0; i < 4000 && !done.load(); ++i)
    {
      {
        std::lock_guard<std::mutex> lk(g->t->_impl->syncMutex);
        auto it = g->t->_impl->receiveBuffers.find(a);
        if (it != g->t->_impl->receiveBuffers.end() && it->second->waiters > 0) break;
      }
      std::this_thread::sleep_for(std::chrono::microseconds(500));
    }
    g->tok[a % 32]->cancel();
    fireData(a, d);
    th.join();
    return r + " " + takeEvs() + " | " + stateOf(a);
  }
  if (t[0] == "recvlong" && t.size() == 5 && vh::parseNat(t[1], a) && vh::parseNat(t[2], b) && vh::parseNat(t[3], c))
  {
    // a receive with a (very) long timeout on another thread; once it is parked (or has returned) the chunk is delivered
    vh::Bytes d;
    if (!vh::ofHex(t[4], d)) return "bad-op";
    std::string r;
    std::atomic<bool> done{false};
    std::thread th([&] { r = recvResult(a, b, c); done.store(true); });
    for (int i = 0; i < 4000 && !done.load(); ++i)
    {
      {
        std::lock_guard<std::mutex> lk(g->t->_impl->syncMutex);
        auto it = g->t->_impl->receiveBuffers.find(a);
        if (it != g->t->_impl->receiveBuffers.end() && it->second->waiters > 0) break;
      }
      std::this_thread::sleep_for(std::chrono::microseconds(500));
    }
    fireData(a, d);
    th.join();
    return r + " " + takeEvs() + " | " + stateOf(a);
  }
  if (t[0] == "mode" && t.size() == 3 && vh::parseNat(t[1], a))
  {
    ReadMode m;
    if (!parseMode(t[2], m)) return "bad-op";
    bool ok = g->t->setReadMode(a, m);
    return std::string("ret:") + (ok ? "1" : "0") + " " + takeEvs() + " | " + stateOf(a);
  }
  if (t[0] == "fence" && t.size() == 2)
  {
    if (t[1] == "1") g->t->_impl->teardownWaitOut(true);   // single-threaded: all counters are 0, returns at once
    else g->t->_impl->setTeardownFence();
    return "ok | " + stateOf(0);
  }
  return "bad-op";
}
} // namespace

int main()
{
  return vh::runLines([](const std::vector<std::string>& t) -> std::string {
    try { return stepOp(t); }
    catch (const std::exception& ex)
    {
      int st = 0;
      char* n = abi::__cxa_demangle(typeid(ex).name(), nullptr, nullptr, &st);
      std::string s = std::string("throw ") + (n ? n : typeid(ex).name());
      std::free(n);
      return s;
    }
  });
}
