// Correspondence harness for C20 (serve layer): the REAL iora::web::Application in front of the REAL iora::web::Assets.
// `serve` drives the handler that Application::serveStatic("/static/") registered with the REAL HttpServer route table
// (the server is never started; the route is found through HttpServer::classifyRequest, so the wildcard suffix `pathRest`
// is computed by the real routing code from the RAW request path), `render` drives Application::render (whose partial names
// come from TEMPLATE TEXT), `pdec` / `hasdd` drive parsers::urlDecode and Application::hasDotDotSegment directly.
// Same line protocol as lean/Driver/Assets.lean (+ Driver/AssetsServe.lean); everything after ` # ` is oracle data for the
// implementation-only monitor.  Nothing is ever created, changed or removed outside ${C20_SANDBOX} (every mutating path is
// checked; guard rails copied from harness/c20_assets.cpp).  No interposers here.
#include <algorithm>
#include <atomic>
#include <cerrno>
#include <cstdio>
#include <cstdlib>
#include <cstring>
#include <filesystem>
#include <fstream>
#include <functional>
#include <iostream>
#include <memory>
#include <mutex>
#include <optional>
#include <sstream>
#include <stdexcept>
#include <string>
#include <string_view>
#include <system_error>
#include <thread>
#include <typeinfo>
#include <unordered_map>
#include <vector>
#include <cxxabi.h>
#include <fcntl.h>
#include <limits.h>
#include <sys/stat.h>
#include <sys/syscall.h>
#include <sys/types.h>
#include <unistd.h>
#define private public
#define protected public
#include "iora/web/application.hpp"
#undef private
#undef protected
#include "common/lineproto.hpp"

// the one out-of-line definition the header-only build lacks (vtable anchor, verbatim from src/core/iora_core.cpp line 11)
iora::core::MetricBase::~MetricBase() = default;

namespace fs = std::filesystem;
using iora::network::HttpServer;
using iora::web::Application;
using iora::web::Assets;
using iora::web::GetStaticResult;
using vh::Bytes;

static std::string g_sandbox; // canonical, no trailing slash

static std::string str(const Bytes& b) { return std::string(b.begin(), b.end()); }

static bool hasDotDot(const std::string& p)
{
  std::size_t i = 0;
  while (i <= p.size())
  {
    std::size_t j = p.find('/', i);
    if (j == std::string::npos) j = p.size();
    if (p.compare(i, j - i, "..") == 0) return true;
    i = j + 1;
  }
  return false;
}

// a path this harness may create / replace / remove
static bool inSandbox(const std::string& p)
{
  return !g_sandbox.empty() && p.size() > g_sandbox.size() + 1 && p.compare(0, g_sandbox.size(), g_sandbox) == 0 &&
         p[g_sandbox.size()] == '/' && !hasDotDot(p) && p.find('\0') == std::string::npos;
}

[[noreturn]] static void die(const std::string& why)
{
  std::fprintf(stderr, "c20 serve harness: %s\n", why.c_str());
  std::fflush(stdout);
  std::_Exit(3);
}

static std::string guarded(const std::function<std::string()>& f)
{
  try { return f(); }
  catch (const std::exception& e)
  {
    int st = 0;
    char* n = abi::__cxa_demangle(typeid(e).name(), nullptr, nullptr, &st);
    std::string name = n ? n : typeid(e).name();
    std::free(n);
    return "throw " + name;
  }
  catch (...) { return "throw unknown"; }
}

static void removeSandboxContents()
{
  std::error_code ec;
  for (auto it = fs::directory_iterator(g_sandbox, ec); !ec && it != fs::directory_iterator(); it.increment(ec))
  {
    std::string p = it->path().string();
    if (!inSandbox(p)) die("refusing to remove " + p);
    std::error_code ec2;
    fs::remove_all(it->path(), ec2); // does not follow symlinks
  }
}

static void writeFile(const std::string& p, const std::string& data)
{
  int fd = static_cast<int>(::syscall(SYS_openat, AT_FDCWD, p.c_str(), O_WRONLY | O_CREAT | O_TRUNC | O_NOFOLLOW, 0644));
  if (fd < 0) die("cannot create " + p + ": " + std::strerror(errno));
  std::size_t off = 0;
  while (off < data.size())
  {
    ssize_t n = ::write(fd, data.data() + off, data.size() - off);
    if (n <= 0) die("write failed");
    off += static_cast<std::size_t>(n);
  }
  ::close(fd);
}

// remove whatever is at p (file, link, or directory tree), never following links
static void removeAt(const std::string& p)
{
  if (!inSandbox(p)) die("refusing to remove " + p);
  std::error_code ec;
  fs::remove_all(fs::path(p), ec);
}

static bool die2(const std::string& p) { die("cannot create " + p + ": " + std::strerror(errno)); }

static bool putEntry(char kind, const std::string& p, const std::string& data, bool replace)
{
  if (!inSandbox(p))
  {
    // the chain of directories from `/` down to the sandbox is part of the tree description (for the model only)
    struct stat sb;
    if (kind == 'd' && ::stat(p.c_str(), &sb) == 0 && S_ISDIR(sb.st_mode) &&
        (g_sandbox == p || (g_sandbox.size() > p.size() && g_sandbox.compare(0, p.size(), p) == 0 && (p == "/" || g_sandbox[p.size()] == '/'))))
      return true;
    die("entry outside the sandbox: " + p);
  }
  if (replace) removeAt(p);
  if (kind == 'd') return ::mkdir(p.c_str(), 0755) == 0 || die2(p);
  if (kind == 'f') { writeFile(p, data); return true; }
  if (kind == 'l') return ::symlink(data.c_str(), p.c_str()) == 0 || die2(p);
  return false;
}

struct Emb
{
  std::vector<std::string> store; // owns every string the registry views
  std::vector<iora::web::EmbeddedAsset> statics;
  std::vector<iora::web::EmbeddedTemplate> templates;
  std::vector<std::string_view> externals;
  std::string externalDir;
  iora::web::EmbeddedAssetRegistry reg;
};

struct State
{
  std::unique_ptr<Emb> emb;
  std::optional<Assets> a;
  std::unique_ptr<Application> app; // refers to `a`: destroyed first
  bool isFs = false;
};

static std::vector<std::string> splitOn(const std::string& s, char c)
{
  std::vector<std::string> out;
  std::size_t i = 0;
  for (;;)
  {
    std::size_t j = s.find(c, i);
    if (j == std::string::npos) { out.push_back(s.substr(i)); break; }
    out.push_back(s.substr(i, j - i));
    i = j + 1;
  }
  return out;
}

static std::string realpathHex(const std::string& p)
{
  if (p.find('\0') != std::string::npos) return "~";
  char* r = ::realpath(p.c_str(), nullptr);
  if (!r) return "~";
  std::string s(r);
  std::free(r);
  return vh::toHex(s);
}

static std::string showStatic(const GetStaticResult& r)
{
  switch (r.status)
  {
  case GetStaticResult::Status::NotFound: return "notfound";
  case GetStaticResult::Status::Rejected: return "rejected";
  case GetStaticResult::Status::Found:
  {
    std::string o = "found " + vh::toHex(std::string(r.blob.bytes)) + " ";
    o += r.blob.gzipBytes ? vh::toHex(std::string(*r.blob.gzipBytes)) : std::string("~");
    if (r.blob.gzipBytes.has_value() != r.blob.gzipVariantExists) o += "!gzflag";
    o += " " + vh::toHex(std::string(r.blob.mime));
    return o;
  }
  }
  return "?";
}

static std::string baseOf(const State& st, bool tmpl)
{
  if (!st.a) return "";
  if (st.isFs) return tmpl ? st.a->_fs->templatesRoot.string() : st.a->_fs->staticsRoot.string();
  if (st.emb) return st.emb->externalDir;
  return "";
}

// the harness's OWN one-level percent decoder (for the oracle only; never the library's)
static std::string refDecode(const std::string& in)
{
  auto hv = [](unsigned char c) -> int {
    if (c >= '0' && c <= '9') return c - '0';
    if (c >= 'a' && c <= 'f') return c - 'a' + 10;
    if (c >= 'A' && c <= 'F') return c - 'A' + 10;
    return -1;
  };
  std::string out;
  for (std::size_t i = 0; i < in.size();)
  {
    if (in[i] == '%' && in.size() - i >= 3 && hv(in[i + 1]) >= 0 && hv(in[i + 2]) >= 0)
    {
      out.push_back(static_cast<char>(hv(in[i + 1]) * 16 + hv(in[i + 2])));
      i += 3;
    }
    else out.push_back(in[i++]);
  }
  return out;
}

// (re)build the Application over the current Assets and register the static route in a CLEAN route table
static void makeApp(State& st, HttpServer& http, iora::core::TimerService& timer)
{
  st.app.reset();
  {
    std::lock_guard<std::mutex> lock(http._mutex);
    http._handlers.clear();
  }
  if (!st.a) return;
  st.app = std::make_unique<Application>(http, *st.a, timer);
  st.app->serveStatic("/static/");
}

int main()
{
  const char* sb = std::getenv("C20_SANDBOX");
  if (!sb || !*sb) die("C20_SANDBOX not set");
  {
    char* r = ::realpath(sb, nullptr);
    if (!r) die("C20_SANDBOX does not exist");
    g_sandbox = r;
    std::free(r);
    if (g_sandbox != sb) die("C20_SANDBOX must be canonical");
    if (g_sandbox.find("/.work/") == std::string::npos) die("C20_SANDBOX must be inside a .work directory");
  }
  iora::core::Logger::setLevel(iora::core::Logger::Level::Fatal);
  HttpServer http("127.0.0.1", 0);     // never started: only its route table and dispatcher classification are used
  iora::core::TimerService timer;      // Application needs one; nothing is ever scheduled on it here
  State st;
  int rc = vh::runLines([&](const std::vector<std::string>& t) -> std::string {
    return guarded([&]() -> std::string {
      Bytes a, b, c;
      if (t.size() >= 2 && t[0] == "tree" && vh::ofHex(t[1], a))
      {
        st.app.reset();
        st.a.reset();
        st.emb.reset();
        if (::chdir(g_sandbox.c_str()) != 0) die("chdir");
        removeSandboxContents();
        for (std::size_t i = 2; i < t.size(); ++i)
        {
          auto f = splitOn(t[i], ':');
          if (f.size() < 2 || f[0].size() != 1 || !vh::ofHex(f[1], b)) return "bad-op";
          c.clear();
          if (f.size() >= 3 && !vh::ofHex(f[2], c)) return "bad-op";
          if ((f[0] == "d") != (f.size() == 2)) return "bad-op";
          putEntry(f[0][0], str(b), str(c), false);
        }
        if (::chdir(str(a).c_str()) != 0) die("chdir to cwd " + str(a));
        return "ok";
      }
      if ((t.size() == 3 || t.size() == 4) && t[0] == "put" && t[1].size() == 1 && vh::ofHex(t[2], a))
      {
        b.clear();
        if (t.size() == 4 && !vh::ofHex(t[3], b)) return "bad-op";
        if ((t[1] == "d") != (t.size() == 3)) return "bad-op";
        putEntry(t[1][0], str(a), str(b), true);
        return "ok";
      }
      if (t.size() == 2 && t[0] == "rm" && vh::ofHex(t[1], a)) { removeAt(str(a)); return "ok"; }
      if (t.size() == 3 && t[0] == "newfs" && vh::ofHex(t[1], a) && (t[2] == "0" || t[2] == "1"))
      {
        st.app.reset();
        st.a.reset();
        st.emb.reset();
        st.isFs = true;
        const std::string rootArg = str(a);
        try { st.a.emplace(Assets::fromDirectory(fs::path(rootArg), t[2] == "1")); }
        catch (const fs::filesystem_error&) { makeApp(st, http, timer); return "throw"; }
        makeApp(st, http, timer);
        return "ok " + vh::toHex(st.a->_fs->staticsRoot.string()) + " " + vh::toHex(st.a->_fs->templatesRoot.string()) +
               " # rp=" + realpathHex(rootArg) + " srp=" + realpathHex(rootArg + "/static") +
               " trp=" + realpathHex(rootArg + "/templates");
      }
      if (t.size() == 5 && t[0] == "newemb" && vh::ofHex(t[1], a))
      {
        st.app.reset();
        st.a.reset();
        auto e = std::make_unique<Emb>();
        e->store.reserve(4096);
        auto keep = [&](const Bytes& x) -> std::string_view { e->store.push_back(str(x)); return std::string_view(e->store.back()); };
        e->externalDir = str(a);
        if (t[2] != "-")
          for (auto& item : splitOn(t[2], ','))
          {
            auto f = splitOn(item, ':');
            if (f.size() != 3 || !vh::ofHex(f[0], a) || !vh::ofHex(f[1], b)) return "bad-op";
            iora::web::EmbeddedAsset ea;
            ea.path = keep(a);
            ea.bytes = keep(b);
            ea.etag = "e";
            if (f[2] != "~")
            {
              if (!vh::ofHex(f[2], c)) return "bad-op";
              ea.gzipBytes = keep(c);
              ea.gzipEtag = "g";
            }
            e->statics.push_back(ea);
          }
        if (t[3] != "-")
          for (auto& item : splitOn(t[3], ','))
          {
            auto f = splitOn(item, ':');
            if (f.size() != 2 || !vh::ofHex(f[0], a) || !vh::ofHex(f[1], b)) return "bad-op";
            iora::web::EmbeddedTemplate et;
            et.name = keep(a);
            et.bytes = keep(b);
            e->templates.push_back(et);
          }
        if (t[4] != "-")
          for (auto& item : splitOn(t[4], ','))
          {
            if (!vh::ofHex(item, a)) return "bad-op";
            e->externals.push_back(keep(a));
          }
        if (e->store.size() > 4096) die("registry too large for the harness");
        e->reg.templates = e->templates.data();
        e->reg.templatesCount = e->templates.size();
        e->reg.statics = e->statics.data();
        e->reg.staticsCount = e->statics.size();
        e->reg.externalDir = e->externalDir;
        e->reg.externalPaths = e->externals.data();
        e->reg.externalPathsCount = e->externals.size();
        st.emb = std::move(e);
        st.isFs = false;
        st.a.emplace(Assets::fromEmbedded(st.emb->reg));
        makeApp(st, http, timer);
        return "ok # erp=" + realpathHex(st.emb->externalDir);
      }
      if (t.size() == 2 && t[0] == "static" && vh::ofHex(t[1], a))
      {
        if (!st.a) return "no-instance";
        std::string n = str(a);
        GetStaticResult r = st.a->getStatic(std::string_view(n));
        std::string o = showStatic(r);
        std::string base = baseOf(st, false);
        if (r.status == GetStaticResult::Status::Found && (st.isFs || r.blob._entry) && !base.empty()) o += " # rp=" + realpathHex(base + "/" + n);
        return o;
      }
      if (t.size() == 2 && t[0] == "template" && vh::ofHex(t[1], a))
      {
        if (!st.a) return "no-instance";
        std::string n = str(a);
        auto r = st.a->getTemplate(std::string_view(n));
        if (!r) return "none";
        std::string o = "some " + vh::toHex(std::string(*r));
        if (st.isFs) o += " # rp=" + realpathHex(baseOf(st, true) + "/" + n);
        return o;
      }
      if (t.size() == 1 && t[0] == "reload")
      {
        if (st.a) st.a->reload();
        return "ok";
      }
      if (t.size() == 2 && t[0] == "pdec" && vh::ofHex(t[1], a))
      {
        // an exactly-sized heap buffer WITHOUT a terminating NUL: a look-ahead past the end is an ASan error, not a lucky read
        std::unique_ptr<char[]> buf(new char[a.size()]);
        if (!a.empty()) std::memcpy(buf.get(), a.data(), a.size());
        return vh::toHex(iora::parsers::urlDecode(std::string_view(buf.get(), a.size())));
      }
      if (t.size() == 2 && t[0] == "hasdd" && vh::ofHex(t[1], a))
      {
        std::unique_ptr<char[]> buf(new char[a.size()]);
        if (!a.empty()) std::memcpy(buf.get(), a.data(), a.size());
        return Application::hasDotDotSegment(std::string_view(buf.get(), a.size())) ? "1" : "0";
      }
      if (t.size() == 3 && t[0] == "serve" && vh::ofHex(t[1], a) && (t[2] == "0" || t[2] == "1"))
      {
        if (!st.app) return "no-instance";
        const std::string raw = str(a);
        HttpServer::Request req;
        req.method = iora::network::HttpMethod::GET;
        req.path = "/static/" + raw;                      // what the dispatcher has after stripping the query string
        if (t[2] == "1") req.headers["Accept-Encoding"] = "gzip";
        // the REAL routing: tokenise, classify, copy the wildcard suffix into pathRest (dispatcher lines ~1164-1176)
        const std::vector<std::string> toks = HttpServer::splitPath(req.path);
        const HttpServer::DispatchDecision d = http.classifyRequest(req.method, req.path, toks);
        if (d.cat != HttpServer::DispatchDecision::Cat::MATCHED || !d.hasHandler) return "noroute";
        req.pathRest = d.pathRest;
        HttpServer::Response res;                          // status 200, as the dispatcher sets it for a MATCHED route
        res.status = 200;
        d.handler(req, res);
        auto ce = res.headers.find("Content-Encoding");
        auto ct = res.headers.find("Content-Type");
        std::string o = std::to_string(res.status) + " " + vh::toHex(res.body) + " " +
                        ((ce != res.headers.end() && ce->second == "gzip") ? "1" : "0") + " " +
                        vh::toHex(ct != res.headers.end() ? ct->second : std::string());
        o += " # pr=" + std::string(req.pathRest == raw ? "1" : "0");
        const std::string base = baseOf(st, false);
        const std::string dec = refDecode(raw);
        o += " rp=" + (base.empty() ? std::string("~") : realpathHex(base + "/" + dec));
        auto cl = res.headers.find("Content-Length");
        o += " cl=" + std::string((cl != res.headers.end() && cl->second == std::to_string(res.body.size())) ? "1" : "0");
        return o;
      }
      if (t.size() == 2 && t[0] == "render" && vh::ofHex(t[1], a))
      {
        if (!st.app) return "render # out=~ why=no-instance";
        const std::string name = str(a);
        try
        {
          std::string out = st.app->render(std::string_view(name), iora::parsers::Json{});
          return "render # out=" + vh::toHex(out);
        }
        catch (const std::exception&) { return "render # out=~ why=throw"; }
      }
      return "bad-op";
    });
  });
  st.app.reset();
  return rc;
}
