// Trace-inclusion harness for C01 (DESIGN §7 C01, §2.2, §3.1): a REAL iora Transport/TcpEngine (plain and TLS, server
// and client role, ET/LT, batching on/off, 1-4 sender threads) talks to a raw-socket / OpenSSL peer on loopback.
//
//  * `send`, `recv`, `SSL_write`, `SSL_read`, `SSL_get_error`, `SSL_do_handshake`, `epoll_ctl`, `epoll_wait`,
//    `getsockopt(SO_ERROR)`, `accept4`, `connect` and `pthread_mutex_lock` are defined INSIDE this executable and forward
//    with dlsym(RTLD_NEXT): calls made by the engine's I/O thread on the session fd are logged and, following the case's
//    fault schedule, cut short / refused (EAGAIN, WANT_READ, WANT_WRITE, error). The granted prefix is forwarded to the
//    real call, so the real peer really receives it. After an injected refusal the interposer re-issues the last
//    registered epoll mask (EPOLL_CTL_MOD): that is the edge a real kernel delivers when the refused direction becomes
//    ready again, so the injected environment is a legal one (no event is fabricated for a mask that lacks the bit).
//  * `pthread_mutex_lock` on `_cmdMutex` from the I/O thread marks `process()`'s swap and records how many commands it took.
//  * one op line per case; answer: `begin`, `acc` (accepted order of commands), `seg` lines (one per epoll_wait
//    wake-up: the events reported, then every interposed call / callback of the I/O thread in program order), `fin`
//    (implementation-only monitors: byte-for-byte comparison of what the peer read with the accepted payloads, and of
//    what the data callback delivered with what the peer wrote), `end`.
#include <algorithm>
#include <any>
#include <array>
#include <atomic>
#include <bitset>
#include <cassert>
#include <cctype>
#include <cerrno>
#include <charconv>
#include <chrono>
#include <cmath>
#include <condition_variable>
#include <csignal>
#include <cstdarg>
#include <cstddef>
#include <cstdio>
#include <cstdlib>
#include <cstring>
#include <ctime>
#include <deque>
#include <exception>
#include <filesystem>
#include <fstream>
#include <functional>
#include <future>
#include <iomanip>
#include <iostream>
#include <limits>
#include <list>
#include <map>
#include <memory>
#include <mutex>
#include <numeric>
#include <optional>
#include <queue>
#include <random>
#include <regex>
#include <set>
#include <shared_mutex>
#include <sstream>
#include <stdexcept>
#include <string>
#include <string_view>
#include <thread>
#include <tuple>
#include <typeinfo>
#include <unordered_map>
#include <unordered_set>
#include <variant>
#include <vector>
#include <arpa/inet.h>
#include <dlfcn.h>
#include <fcntl.h>
#include <netinet/in.h>
#include <netinet/tcp.h>
#include <poll.h>
#include <pthread.h>
#include <sys/epoll.h>
#include <sys/ioctl.h>
#include <linux/sockios.h>
#include <sys/socket.h>
#include <sys/stat.h>
#include <unistd.h>
#include <openssl/bio.h>
#include <openssl/ec.h>
#include <openssl/err.h>
#include <openssl/evp.h>
#include <openssl/pem.h>
#include <openssl/ssl.h>
#include <openssl/x509.h>
#include <openssl/x509v3.h>
#define private public
#define protected public
#include "iora/network/transport.hpp"
#include "iora/network/transport_impl.hpp"
#undef private
#undef protected
#include "common/lineproto.hpp"

using namespace iora::network;
using Clock = std::chrono::steady_clock;
using std::chrono::microseconds;
using std::chrono::milliseconds;

// ====================================================================================== shared state
static thread_local bool t_harness = false;        // true on every thread the harness itself creates (main, peer, senders)
static thread_local bool t_inCallbackSend = false;   // the harness itself calls Transport::send from a callback on the I/O thread
static thread_local int t_injErr = 0;              // SSL error the next SSL_get_error on this thread must report (injected)
static TcpEngine *g_engine = nullptr;              // engine of the running case (null between cases)
static std::atomic<int> g_sessFd{-1};              // fd of the (single) session of the case
static std::atomic<bool> g_sessDead{false};        // epoll DEL seen for it
static std::uint32_t g_lastMask = 0;               // last mask the engine registered for the session fd (I/O thread only)
static bool g_registered = false;

static std::vector<std::string> g_segs;            // trace: one string per epoll_wait wake-up (I/O thread only while running)
static std::string g_cur;                          // tokens of the current segment
static pthread_t g_ioThread;
static bool g_ioThreadKnown = false;
static std::atomic<bool> g_foreignThread{false};   // a second non-harness thread touched the session: trace not trustworthy

static std::map<std::string, long> g_cnt;          // interposer fire / inject counters (accumulated over the run)
static void cnt(const char *k) { g_cnt[k]++; }     // I/O thread only (and main between cases)

static inline std::uint32_t fnv(const std::uint8_t *p, std::size_t n, std::uint32_t h = 2166136261u)
{
  for (std::size_t i = 0; i < n; ++i) { h ^= p[i]; h *= 16777619u; }
  return h;
}
static inline std::uint8_t patByte(unsigned pat, std::size_t j)
{
  return static_cast<std::uint8_t>(pat * 31u + j * 7u + (j >> 8) * 13u + (j >> 16) * 101u);
}
static std::vector<std::uint8_t> mkPayload(unsigned pat, std::size_t len)
{
  std::vector<std::uint8_t> v(len);
  for (std::size_t j = 0; j < len; ++j) v[j] = patByte(pat, j);
  return v;
}

// payload that names its sender: 'T', thread, seq (2 BE), total length (4 BE), then a body derived from (thread, seq)
static std::vector<std::uint8_t> mkTagged(unsigned thr, unsigned seq, std::size_t len)
{
  std::vector<std::uint8_t> v(len);
  v[0] = 'T'; v[1] = static_cast<std::uint8_t>(thr); v[2] = static_cast<std::uint8_t>(seq >> 8); v[3] = static_cast<std::uint8_t>(seq);
  v[4] = static_cast<std::uint8_t>(len >> 24); v[5] = static_cast<std::uint8_t>(len >> 16); v[6] = static_cast<std::uint8_t>(len >> 8); v[7] = static_cast<std::uint8_t>(len);
  for (std::size_t j = 8; j < len; ++j) v[j] = patByte(thr * 64u + seq + 1u, j - 8);
  return v;
}

static void tok(const std::string &t)
{
  pthread_t me = pthread_self();
  if (!g_ioThreadKnown) { g_ioThread = me; g_ioThreadKnown = true; }
  else if (!pthread_equal(me, g_ioThread)) { g_foreignThread.store(true); return; }
  if (!g_cur.empty()) g_cur.push_back(';');
  g_cur += t;
}
static void newSegment()
{
  if (!g_cur.empty()) { g_segs.push_back(g_cur); g_cur.clear(); }
}

template <typename F> static F realSym(const char *name)
{
  void *p = dlsym(RTLD_NEXT, name);
  if (!p) { std::fprintf(stderr, "c01: dlsym(%s) failed\n", name); std::abort(); }
  return reinterpret_cast<F>(p);
}

// ====================================================================================== fault schedule
struct Fault
{
  char kind = 'p';   // p pass | c cut to n | m cut to len-n | f cut to len*n/1000 | a EAGAIN | r WANT_READ | w WANT_WRITE | e error
  long n = 0;
  // C / M / F / R (upper case in the schedule): the same short write / WANT_READ, but the socket STAYS writable and NO edge is
  // fabricated afterwards. That is a legal environment (send() may return a short count for any reason, e.g. memory pressure;
  // SSL_write wants to READ while the socket is writable): the only thing that makes an edge-triggered epoll report EPOLLOUT
  // again is the engine's own epoll_ctl(MOD) after the write attempt.
  bool noEdge = false;
};
struct Sched
{
  std::vector<Fault> v;
  std::size_t i = 0;
  Fault next() { return i < v.size() ? v[i++] : Fault{}; }
};
static Sched g_wf, g_rf, g_hf;
static std::vector<long> g_waitDelays;
static std::size_t g_waitIdx = 0;

static std::size_t cutLen(const Fault &f, std::size_t len)
{
  if (f.kind == 'c') return std::min<std::size_t>(static_cast<std::size_t>(f.n), len);
  if (f.kind == 'm') return len - std::min<std::size_t>(static_cast<std::size_t>(f.n), len);
  if (f.kind == 'f') return static_cast<std::size_t>((static_cast<unsigned long long>(len) * static_cast<unsigned long long>(f.n)) / 1000ull);
  return len;
}

using epoll_ctl_t = int (*)(int, int, int, struct epoll_event *);
static epoll_ctl_t real_epoll_ctl() { static auto r = realSym<epoll_ctl_t>("epoll_ctl"); return r; }

// the edge a real kernel would deliver once the refused direction is ready again
static void rearm()
{
  if (!g_engine || !g_registered || g_sessDead.load()) return;
  epoll_event e{};
  e.events = g_lastMask;
  e.data.fd = g_sessFd.load();
  real_epoll_ctl()(g_engine->_epollFd, EPOLL_CTL_MOD, g_sessFd.load(), &e);
  cnt("rearm_emulated");
}

// once the traced session is closed its fd number may be reused by another session of the same engine: stop tracing it
static bool engineCall(int fd) { return !t_harness && g_engine && fd >= 0 && fd == g_sessFd.load() && !g_sessDead.load(); }

// ====================================================================================== interposers: plain socket
// "mid" send: ONE more send() accepted from another thread WHILE process() is dispatching a batch that exceeds the engine's
// per-wake-up event budget (cfg.epollMaxEvents): fired from inside the first engine write call of such a batch (the I/O thread waits
// until the helper thread's send() has returned, so the interleaving is deterministic). With "one process() dispatches the whole
// swapped batch in order" the late command is dispatched after the whole batch; a budgeted re-queue puts the older tail behind it.
static std::function<void()> g_midHook;            // set by runCase; called on the I/O thread
static std::atomic<long> g_lastBatch{0};           // size of the batch the current process() call swapped out
static long g_midBudget = 0;                       // fire only inside a batch larger than this
static bool g_midFired = false;                    // I/O thread only
static std::atomic<bool> g_midArmed{false};
static void maybeMidSend()
{
  if (g_midFired || !g_midArmed.load() || !g_midHook || g_lastBatch.load() <= g_midBudget) return;
  g_midFired = true;
  cnt("mid_send_inside_batch");
  g_midHook();
}

extern "C" ssize_t send(int fd, const void *buf, size_t len, int flags)
{
  static auto real = realSym<ssize_t (*)(int, const void *, size_t, int)>("send");
  if (!engineCall(fd)) return real(fd, buf, len, flags);
  cnt("send_fired");
  maybeMidSend();
  Fault f = g_wf.next();
  ssize_t r;
  int e = 0;
  bool inj = false;
  if (f.kind == 'a' || f.kind == 'r' || f.kind == 'w') { r = -1; e = EAGAIN; inj = true; cnt("send_inj_eagain"); }
  else if (f.kind == 'e') { r = -1; e = ECONNRESET; cnt("send_inj_error"); }
  else
  {
    std::size_t k = cutLen(f, len);
    if (k < len) { inj = true; cnt("send_inj_short"); }
    if (k == 0 && len > 0) { r = 0; }
    else { r = real(fd, buf, k, flags); e = errno; }
  }
  char b[96];
  std::string res;
  if (r >= 0) res = "n" + std::to_string(r);
  else if (e == EAGAIN || e == EWOULDBLOCK) { res = "a"; if (!inj) cnt("send_real_eagain"); }
  else res = "e";
  if (r >= 0 && static_cast<std::size_t>(r) < len && !inj) cnt("send_real_short");
  std::snprintf(b, sizeof b, "W0:%zu:%08x:%s", len, fnv(static_cast<const std::uint8_t *>(buf), len), res.c_str());
  tok(b);
  if (inj && !f.noEdge) rearm();
  if (inj && f.noEdge) cnt("send_inj_short_no_edge");
  errno = e;
  return r;
}

extern "C" ssize_t recv(int fd, void *buf, size_t len, int flags)
{
  static auto real = realSym<ssize_t (*)(int, void *, size_t, int)>("recv");
  if (!engineCall(fd)) return real(fd, buf, len, flags);
  cnt("recv_fired");
  Fault f = g_rf.next();
  ssize_t r;
  int e = 0;
  bool inj = false;
  if (f.kind == 'a' || f.kind == 'r' || f.kind == 'w') { r = -1; e = EAGAIN; inj = true; cnt("recv_inj_eagain"); }
  else if (f.kind == 'e') { r = -1; e = ECONNRESET; cnt("recv_inj_error"); }      // a fatal receive error: the session must be reported closed
  else
  {
    std::size_t k = std::max<std::size_t>(1, cutLen(f, len));
    if (k < len) cnt("recv_inj_shortcap");
    r = real(fd, buf, k, flags);
    e = errno;
  }
  char b[96];
  if (r > 0) std::snprintf(b, sizeof b, "R0:%zu:d%zd:%08x", len, r, fnv(static_cast<const std::uint8_t *>(buf), static_cast<std::size_t>(r)));
  else if (r == 0) std::snprintf(b, sizeof b, "R0:%zu:z", len);
  else if (e == EAGAIN || e == EWOULDBLOCK) std::snprintf(b, sizeof b, "R0:%zu:a", len);
  else std::snprintf(b, sizeof b, "R0:%zu:e", len);
  tok(b);
  if (inj) rearm();
  errno = e;
  return r;
}

// ====================================================================================== interposers: OpenSSL
static bool engineSsl(const SSL *ssl)
{
  if (t_harness || !g_engine || !ssl) return false;
  int fd = SSL_get_fd(ssl);
  return fd >= 0 && fd == g_sessFd.load() && !g_sessDead.load();
}
using ssl_get_error_t = int (*)(const SSL *, int);
static ssl_get_error_t real_SSL_get_error() { static auto r = realSym<ssl_get_error_t>("SSL_get_error"); return r; }

extern "C" int SSL_get_error(const SSL *ssl, int ret)
{
  if (!t_harness && t_injErr != 0)
  {
    int e = t_injErr;
    t_injErr = 0;
    return e;
  }
  return real_SSL_get_error()(ssl, ret);
}

static int g_movedRetries = 0;
static const void *g_sslPendBuf = nullptr;   // a forwarded (possibly shortened) SSL_write hit a real WANT_*: OpenSSL wants the same call again
static int g_sslPendK = 0;

extern "C" int SSL_write(SSL *ssl, const void *buf, int num)
{
  static auto real = realSym<int (*)(SSL *, const void *, int)>("SSL_write");
  if (!engineSsl(ssl)) return real(ssl, buf, num);
  cnt("SSL_write_fired");
  maybeMidSend();
  t_injErr = 0;
  int r;
  std::string res;
  bool inj = false;
  bool noEdge = false;
  if (g_sslPendK > 0)
  {
    // retry of a call OpenSSL has already started: same buffer, same length, no new fault
    if (buf != g_sslPendBuf || num < g_sslPendK) { cnt("SSL_write_retry_moved_buffer"); g_movedRetries++; }
    int k = std::min(num, g_sslPendK);
    r = real(ssl, buf, k);
    if (r > 0) { g_sslPendK = 0; g_sslPendBuf = nullptr; }
  }
  else
  {
    Fault f = g_wf.next();
    noEdge = f.noEdge;
    if (f.kind == 'r' || f.kind == 'w' || f.kind == 'a')
    {
      r = -1; inj = true;
      t_injErr = (f.kind == 'r') ? SSL_ERROR_WANT_READ : SSL_ERROR_WANT_WRITE;
      res = (f.kind == 'r') ? "r" : "w";
      cnt(f.kind == 'r' ? "SSL_write_inj_want_read" : "SSL_write_inj_want_write");
    }
    else if (f.kind == 'e')
    {
      r = -1; t_injErr = SSL_ERROR_SSL; res = "e"; cnt("SSL_write_inj_error");
    }
    else
    {
      int k = static_cast<int>(std::max<std::size_t>(1, cutLen(f, static_cast<std::size_t>(num))));
      if (k < num) { inj = true; cnt("SSL_write_inj_short"); }
      r = real(ssl, buf, k);
      if (r <= 0)
      {
        int ge = real_SSL_get_error()(ssl, r);
        if (ge == SSL_ERROR_WANT_READ || ge == SSL_ERROR_WANT_WRITE) { g_sslPendBuf = buf; g_sslPendK = k; }
      }
    }
  }
  if (res.empty())
  {
    if (r > 0) res = "n" + std::to_string(r);
    else
    {
      int ge = real_SSL_get_error()(ssl, r);
      if (ge == SSL_ERROR_WANT_READ) { res = "r"; cnt("SSL_write_real_want_read"); }
      else if (ge == SSL_ERROR_WANT_WRITE) { res = "w"; cnt("SSL_write_real_want_write"); }
      else res = "e";
    }
  }
  char b[96];
  std::snprintf(b, sizeof b, "W1:%d:%08x:%s", num, fnv(static_cast<const std::uint8_t *>(buf), static_cast<std::size_t>(num)), res.c_str());
  tok(b);
  if (inj && !noEdge) rearm();
  if (inj && noEdge) cnt("SSL_write_inj_no_edge");
  return r;
}

extern "C" int SSL_read(SSL *ssl, void *buf, int num)
{
  static auto real = realSym<int (*)(SSL *, void *, int)>("SSL_read");
  if (!engineSsl(ssl)) return real(ssl, buf, num);
  cnt("SSL_read_fired");
  t_injErr = 0;
  Fault f = g_rf.next();
  int r;
  std::string res;
  bool inj = false;
  if ((f.kind == 'r' || f.kind == 'a' || f.kind == 'w') && !SSL_has_pending(ssl))
  {
    r = -1; inj = true;
    t_injErr = f.kind == 'w' ? SSL_ERROR_WANT_WRITE : SSL_ERROR_WANT_READ;
    res = f.kind == 'w' ? "w" : "r";
    cnt(f.kind == 'w' ? "SSL_read_inj_want_write" : "SSL_read_inj_want_read");
  }
  else if (f.kind == 'e')
  {
    r = -1; t_injErr = SSL_ERROR_SSL; res = "e";      // a fatal TLS read error: the session must be reported closed
    cnt("SSL_read_inj_error");
  }
  else
  {
    int k = static_cast<int>(std::max<std::size_t>(1, cutLen(f, static_cast<std::size_t>(num))));
    if (k < num) cnt("SSL_read_inj_shortcap");
    r = real(ssl, buf, k);
  }
  char b[96];
  if (!res.empty()) std::snprintf(b, sizeof b, "R1:%d:%s", num, res.c_str());
  else if (r > 0) std::snprintf(b, sizeof b, "R1:%d:d%d:%08x", num, r, fnv(static_cast<const std::uint8_t *>(buf), static_cast<std::size_t>(r)));
  else
  {
    int ge = real_SSL_get_error()(ssl, r);
    const char *c = ge == SSL_ERROR_WANT_READ ? "r" : ge == SSL_ERROR_WANT_WRITE ? "w" : ge == SSL_ERROR_ZERO_RETURN ? "z" : "e";
    std::snprintf(b, sizeof b, "R1:%d:%s", num, c);
  }
  tok(b);
  if (inj) rearm();
  return r;
}

extern "C" int SSL_do_handshake(SSL *ssl)
{
  static auto real = realSym<int (*)(SSL *)>("SSL_do_handshake");
  if (!engineSsl(ssl)) return real(ssl);
  cnt("SSL_do_handshake_fired");
  t_injErr = 0;
  Fault f = g_hf.next();
  int r;
  const char *c;
  if (f.kind == 'r' || f.kind == 'w')
  {
    r = -1;
    t_injErr = f.kind == 'r' ? SSL_ERROR_WANT_READ : SSL_ERROR_WANT_WRITE;
    c = f.kind == 'r' ? "r" : "w";
    cnt("SSL_do_handshake_inj_want");
    tok(std::string("H:") + c);
    rearm();
    return r;
  }
  if (f.kind == 'e')
  {
    // an injected fatal handshake failure (the real call is not made)
    t_injErr = SSL_ERROR_SSL;
    cnt("SSL_do_handshake_inj_error");
    tok("H:e");
    return -1;
  }
  r = real(ssl);
  if (r == 1) c = "d";
  else
  {
    int ge = real_SSL_get_error()(ssl, r);
    c = ge == SSL_ERROR_WANT_READ ? "r" : ge == SSL_ERROR_WANT_WRITE ? "w" : "e";
  }
  tok(std::string("H:") + c);
  return r;
}

// ====================================================================================== interposers: epoll, connect, accept, getsockopt
static std::string maskBits(std::uint32_t m)
{
  int v = ((m & EPOLLIN) ? 1 : 0) | ((m & EPOLLOUT) ? 2 : 0) | ((m & EPOLLET) ? 4 : 0) | ((m & (EPOLLHUP | EPOLLERR)) ? 8 : 0);
  return std::to_string(v);
}

extern "C" int epoll_ctl(int epfd, int op, int fd, struct epoll_event *ev)
{
  if (!t_harness && g_engine && epfd == g_engine->_epollFd && fd == g_sessFd.load() && fd >= 0 && !g_sessDead.load())
  {
    cnt("epoll_ctl_fired");
    if (op == EPOLL_CTL_DEL) { g_sessDead.store(true); tok("E:D:0"); }
    else
    {
      g_lastMask = ev ? ev->events : 0;
      g_registered = true;
      tok(std::string("E:") + (op == EPOLL_CTL_ADD ? "A:" : "M:") + maskBits(g_lastMask));
    }
  }
  return real_epoll_ctl()(epfd, op, fd, ev);
}

extern "C" int epoll_wait(int epfd, struct epoll_event *evs, int maxevents, int timeout)
{
  static auto real = realSym<int (*)(int, struct epoll_event *, int, int)>("epoll_wait");
  if (t_harness || !g_engine || epfd != g_engine->_epollFd) return real(epfd, evs, maxevents, timeout);
  int n = real(epfd, evs, maxevents, timeout);
  int e = errno;
  if (n > 0)
  {
    cnt("epoll_wait_wakeups");
    if (g_waitIdx < g_waitDelays.size())
    {
      long us = g_waitDelays[g_waitIdx++];
      if (us > 0) { struct timespec ts{0, us * 1000}; nanosleep(&ts, nullptr); cnt("epoll_wait_delayed"); }
    }
    newSegment();
    for (int i = 0; i < n; ++i)
    {
      int fd = evs[i].data.fd;
      const char *kind = fd == g_engine->_eventFd ? "v" : fd == g_engine->_timerFd ? "t" : (fd == g_sessFd.load() && !g_sessDead.load() ? "s" : "l");
      std::uint32_t m = evs[i].events;
      tok(std::string("V:") + kind + ":" + maskBits(m));
    }
  }
  errno = e;
  return n;
}

static int g_soInj = 0, g_soIdx = 0;     // so=<k>: the k-th SO_ERROR probe on the traced session reports ECONNREFUSED (I/O thread only)
extern "C" int getsockopt(int fd, int level, int optname, void *optval, socklen_t *optlen)
{
  static auto real = realSym<int (*)(int, int, int, void *, socklen_t *)>("getsockopt");
  int r = real(fd, level, optname, optval, optlen);
  if (engineCall(fd) && level == SOL_SOCKET && optname == SO_ERROR)
  {
    int e = errno;
    cnt("getsockopt_soerror_fired");
    if (++g_soIdx == g_soInj && r == 0 && optval) { *static_cast<int *>(optval) = ECONNREFUSED; cnt("getsockopt_inj_soerror"); }
    tok(std::string("G:") + (r == 0 ? std::to_string(*static_cast<int *>(optval)) : std::string("x")));
    errno = e;
  }
  return r;
}

// connect-completion probe: answer ENOTCONN ("not yet") / ECONNREFUSED for the first calls of a case (loopback connects complete
// inside doConnect otherwise, so the connect window would never be seen). After "not yet" the writability edge is re-issued.
static std::vector<char> g_gp;
static std::size_t g_gpIdx = 0;
extern "C" int getpeername(int fd, struct sockaddr *addr, socklen_t *len)
{
  static auto real = realSym<int (*)(int, struct sockaddr *, socklen_t *)>("getpeername");
  if (!engineCall(fd)) return real(fd, addr, len);
  cnt("getpeername_fired");
  char k = g_gpIdx < g_gp.size() ? g_gp[g_gpIdx++] : 'p';
  if (k == 'n') { cnt("getpeername_inj_enotconn"); rearm(); errno = ENOTCONN; return -1; }
  if (k == 'r') { cnt("getpeername_inj_refused"); errno = ECONNREFUSED; return -1; }
  return real(fd, addr, len);
}

extern "C" int accept4(int fd, struct sockaddr *addr, socklen_t *len, int flags)
{
  static auto real = realSym<int (*)(int, struct sockaddr *, socklen_t *, int)>("accept4");
  int r = real(fd, addr, len, flags);
  if (!t_harness && g_engine && r >= 0 && g_sessFd.load() < 0)
  {
    int e = errno;
    g_sessFd.store(r);
    cnt("accept4_fired");
    errno = e;
  }
  return r;
}

extern "C" int connect(int fd, const struct sockaddr *addr, socklen_t len)
{
  static auto real = realSym<int (*)(int, const struct sockaddr *, socklen_t)>("connect");
  int r = real(fd, addr, len);
  if (!t_harness && g_engine && g_sessFd.load() < 0)
  {
    int e = errno;
    if (r == 0 || e == EINPROGRESS) { g_sessFd.store(fd); cnt("connect_fired"); }
    errno = e;
  }
  return r;
}

// process(): the I/O thread takes _cmdMutex to swap the command queue — log how many commands it takes
using mutex_lock_t = int (*)(pthread_mutex_t *);
static mutex_lock_t g_realMutexLock = nullptr;
// Gate for "one accepted send is one command" (gate=1 cases): sender thread A makes ONE send() call with a large payload; the other
// sender threads are released when the engine's command counter has moved (A's first enqueue is done). If that one send() call comes
// back for _cmdMutex a SECOND time (i.e. it enqueues its payload in several commands), A is held here until the other threads'
// first send() has returned — their command then sits between A's commands, deterministically. With one enqueue per send() the gate
// never waits.
static thread_local bool t_gateA = false;          // this thread is inside A's gated send() call
static thread_local int t_gateLocks = 0;           // _cmdMutex acquisitions of that call so far
static std::atomic<bool> g_gateArmed{false};
static std::atomic<int> g_gateOthersDone{0};
static std::atomic<int> g_gateOthers{0};
static std::atomic<int> g_gateWaited{0};
extern "C" int pthread_mutex_lock(pthread_mutex_t *m)
{
  mutex_lock_t real = g_realMutexLock;
  if (!real) { real = reinterpret_cast<mutex_lock_t>(dlsym(RTLD_NEXT, "pthread_mutex_lock")); g_realMutexLock = real; }
  if (t_gateA && g_engine && g_gateArmed.load() && m == g_engine->_cmdMutex.native_handle())
  {
    if (++t_gateLocks >= 2 && g_gateOthersDone.load() < g_gateOthers.load())
    {
      g_gateWaited++;
      for (int i = 0; i < 20000 && g_gateOthersDone.load() < g_gateOthers.load(); ++i) { struct timespec ts{0, 100000}; nanosleep(&ts, nullptr); }
    }
  }
  int r = real(m);
  if (!t_harness && !t_inCallbackSend && g_engine && m == g_engine->_cmdMutex.native_handle())
  {
    cnt("cmdMutex_io_locks");
    g_lastBatch.store(static_cast<long>(g_engine->_cmds.size()));
    tok("S:" + std::to_string(g_engine->_cmds.size()));
  }
  return r;
}

// ====================================================================================== certificates
static std::string g_certPath, g_keyPath;
static void makeCert()
{
  char tmpl[] = "/tmp/c01certXXXXXX";
  char *d = mkdtemp(tmpl);
  if (!d) { std::fprintf(stderr, "c01: mkdtemp failed\n"); std::exit(2); }
  g_certPath = std::string(d) + "/cert.pem";
  g_keyPath = std::string(d) + "/key.pem";
  EVP_PKEY *k = EVP_EC_gen("P-256");
  X509 *x = X509_new();
  if (!k || !x) { std::fprintf(stderr, "c01: key/cert generation failed\n"); std::exit(2); }
  X509_set_version(x, 2);
  ASN1_INTEGER_set(X509_get_serialNumber(x), 1);
  X509_gmtime_adj(X509_getm_notBefore(x), -86400);
  X509_gmtime_adj(X509_getm_notAfter(x), 365L * 86400);
  X509_set_pubkey(x, k);
  X509_NAME *n = X509_get_subject_name(x);
  X509_NAME_add_entry_by_txt(n, "CN", MBSTRING_ASC, reinterpret_cast<const unsigned char *>("localhost"), -1, -1, 0);
  X509_set_issuer_name(x, n);
  if (!X509_sign(x, k, EVP_sha256())) { std::fprintf(stderr, "c01: X509_sign failed\n"); std::exit(2); }
  FILE *f = std::fopen(g_certPath.c_str(), "w");
  PEM_write_X509(f, x);
  std::fclose(f);
  f = std::fopen(g_keyPath.c_str(), "w");
  PEM_write_PrivateKey(f, k, nullptr, nullptr, 0, nullptr, nullptr);
  std::fclose(f);
  X509_free(x);
  EVP_PKEY_free(k);
}
static void removeCert()
{
  if (g_certPath.empty()) return;
  ::unlink(g_certPath.c_str());
  ::unlink(g_keyPath.c_str());
  ::rmdir(g_certPath.substr(0, g_certPath.rfind('/')).c_str());
}

// ====================================================================================== case description
struct SendItem { std::size_t len; unsigned pat; int thr; long gapUs; };   // len == 0: a close command
struct PeerWrite { std::size_t len; unsigned pat; long gapUs; };
struct Case
{
  std::string id = "0";
  bool srv = true, tls = false, et = true, batch = false, cob = true, early = false;
  int thr = 1;
  int sndbuf = 0, rcvbuf = 0, peerRcvbuf = 0;
  std::size_t mwq = 1024, chunk = 65536;
  long hsDelayUs = 0;
  std::vector<SendItem> sends;
  std::vector<PeerWrite> pw;
  std::vector<PeerWrite> echo;     // payloads sent from INSIDE the data callback (I/O thread), one per callback, in order
  std::size_t peerChunk = 65536;
  long peerDelayUs = 0, peerStartUs = 0;
  long long peerCloseAfter = -1;   // peer closes its end after having read this many bytes
  int async = 0;                   // 1: every second send through sendAsync; 2: through sendSync; 3: send / sendAsync / sendSync / sendSyncCancellable in turn
  bool gate = false;               // nolock + gate: see the comment at pthread_mutex_lock (one accepted send = one command)
  bool nolock = false;             // senders call Transport::send concurrently (no harness mutex); payloads carry (thread, seq)
  std::vector<PeerWrite> s2;       // payloads for a SECOND live session on the same engine (not traced; cross-talk monitor)
  int eme = 0;                     // > 0: TransportConfig::epollMaxEvents (the engine's per-wake-up event budget); 0 = default
  PeerWrite midSend{0, 0, 0};      // len > 0: one send from a helper thread while process() dispatches a batch larger than the budget
  PeerWrite cbSend{0, 0, 0};       // len > 0: one send issued from inside the accept / connect callback (I/O thread), whichever fires first
  PeerWrite clSend{0, 0, 0};       // len > 0: one send issued from inside the close callback (the session is gone: accepted, never written)
  bool expectEarlyEnd = false;     // the schedule contains something that may legitimately end the session early
  bool lossy = false;              // drop-oldest backpressure policy with a small queue: bytes may be dropped by design
};

static std::vector<std::string> splitc(const std::string &s, char c)
{
  std::vector<std::string> out;
  std::string cur;
  for (char ch : s) { if (ch == c) { out.push_back(cur); cur.clear(); } else cur.push_back(ch); }
  out.push_back(cur);
  return out;
}
static bool parseSched(const std::string &s, Sched &out)
{
  out = Sched{};
  if (s == "-" || s.empty()) return true;
  for (auto &t : splitc(s, ','))
  {
    if (t.empty()) return false;
    Fault f;
    f.kind = t[0];
    if (std::string("CMFR").find(f.kind) != std::string::npos) { f.noEdge = true; f.kind = static_cast<char>(std::tolower(f.kind)); }
    if (std::string("pcmfarwe").find(f.kind) == std::string::npos) return false;
    if (t.size() > 1) { unsigned long long v; if (!vh::parseNat(t.substr(1), v)) return false; f.n = static_cast<long>(v); }
    out.v.push_back(f);
  }
  return true;
}
static bool parseCase(const std::vector<std::string> &t, Case &c)
{
  if (t.empty() || t[0] != "case") return false;
  for (std::size_t i = 1; i < t.size(); ++i)
  {
    auto eq = t[i].find('=');
    if (eq == std::string::npos) return false;
    std::string k = t[i].substr(0, eq), v = t[i].substr(eq + 1);
    unsigned long long n = 0;
    auto nat = [&]() { return vh::parseNat(v, n); };
    if (k == "id") c.id = v;
    else if (k == "role") { if (v != "srv" && v != "cli") return false; c.srv = v == "srv"; }
    else if (k == "tls") { if (!nat()) return false; c.tls = n; }
    else if (k == "et") { if (!nat()) return false; c.et = n; }
    else if (k == "batch") { if (!nat()) return false; c.batch = n; }
    else if (k == "cob") { if (!nat()) return false; c.cob = n; }
    else if (k == "early") { if (!nat()) return false; c.early = n; }
    else if (k == "thr") { if (!nat() || n < 1 || n > 8) return false; c.thr = static_cast<int>(n); }
    else if (k == "sndbuf") { if (!nat()) return false; c.sndbuf = static_cast<int>(n); }
    else if (k == "rcvbuf") { if (!nat()) return false; c.rcvbuf = static_cast<int>(n); }
    else if (k == "prcvbuf") { if (!nat()) return false; c.peerRcvbuf = static_cast<int>(n); }
    else if (k == "mwq") { if (!nat()) return false; c.mwq = n; }
    else if (k == "chunk") { if (!nat() || n == 0) return false; c.chunk = n; }
    else if (k == "hsdelay") { if (!nat()) return false; c.hsDelayUs = static_cast<long>(n); }
    else if (k == "pclose") { if (v == "-") c.peerCloseAfter = -1; else { if (!nat()) return false; c.peerCloseAfter = static_cast<long long>(n); } }
    else if (k == "expectend") { if (!nat()) return false; c.expectEarlyEnd = n; }
    else if (k == "lossy") { if (!nat()) return false; c.lossy = n; }
    else if (k == "async") { if (!nat() || n > 3) return false; c.async = static_cast<int>(n); }
    else if (k == "nolock") { if (!nat()) return false; c.nolock = n; }
    else if (k == "gate") { if (!nat()) return false; c.gate = n; }
    else if (k == "eme") { if (!nat() || n > 100000) return false; c.eme = static_cast<int>(n); }
    else if (k == "mid")
    {
      if (v == "-") continue;
      auto p = splitc(v, '.');
      unsigned long long a, b;
      if (p.size() != 2 || !vh::parseNat(p[0], a) || !vh::parseNat(p[1], b) || a == 0) return false;
      c.midSend = PeerWrite{static_cast<std::size_t>(a), static_cast<unsigned>(b), 0};
    }
    else if (k == "so") { if (!nat()) return false; g_soInj = static_cast<int>(n); }
    else if (k == "gp")
    {
      g_gp.clear();
      if (v == "-") continue;
      for (char ch : v) { if (ch != 'n' && ch != 'r' && ch != 'p') return false; g_gp.push_back(ch); }
    }
    else if (k == "s2")
    {
      if (v == "-") continue;
      for (auto &it : splitc(v, ','))
      {
        auto p = splitc(it, '.');
        unsigned long long a, b;
        if (p.size() != 2 || !vh::parseNat(p[0], a) || !vh::parseNat(p[1], b) || a == 0) return false;
        c.s2.push_back(PeerWrite{static_cast<std::size_t>(a), static_cast<unsigned>(b), 0});
      }
    }
    else if (k == "peer")
    {
      auto p = splitc(v, '.');
      unsigned long long a, b, d;
      if (p.size() != 3 || !vh::parseNat(p[0], a) || !vh::parseNat(p[1], b) || !vh::parseNat(p[2], d) || a == 0) return false;
      c.peerChunk = a; c.peerDelayUs = static_cast<long>(b); c.peerStartUs = static_cast<long>(d);
    }
    else if (k == "sends")
    {
      if (v == "-") continue;
      for (auto &it : splitc(v, ','))
      {
        auto p = splitc(it, '.');
        unsigned long long a, b, d, e;
        if (p.size() != 4 || !vh::parseNat(p[0], a) || !vh::parseNat(p[1], b) || !vh::parseNat(p[2], d) || !vh::parseNat(p[3], e)) return false;
        c.sends.push_back(SendItem{static_cast<std::size_t>(a), static_cast<unsigned>(b), static_cast<int>(d), static_cast<long>(e)});
      }
    }
    else if (k == "pw")
    {
      if (v == "-") continue;
      for (auto &it : splitc(v, ','))
      {
        auto p = splitc(it, '.');
        unsigned long long a, b, d;
        if (p.size() != 3 || !vh::parseNat(p[0], a) || !vh::parseNat(p[1], b) || !vh::parseNat(p[2], d)) return false;
        c.pw.push_back(PeerWrite{static_cast<std::size_t>(a), static_cast<unsigned>(b), static_cast<long>(d)});
      }
    }
    else if (k == "echo")
    {
      if (v == "-") continue;
      for (auto &it : splitc(v, ','))
      {
        auto p = splitc(it, '.');
        unsigned long long a, b;
        if (p.size() != 2 || !vh::parseNat(p[0], a) || !vh::parseNat(p[1], b) || a == 0) return false;
        c.echo.push_back(PeerWrite{static_cast<std::size_t>(a), static_cast<unsigned>(b), 0});
      }
    }
    else if (k == "cbsend" || k == "clsend")
    {
      if (v == "-") continue;
      auto p = splitc(v, '.');
      unsigned long long a, b;
      if (p.size() != 2 || !vh::parseNat(p[0], a) || !vh::parseNat(p[1], b) || a == 0) return false;
      (k == "cbsend" ? c.cbSend : c.clSend) = PeerWrite{static_cast<std::size_t>(a), static_cast<unsigned>(b), 0};
    }
    else if (k == "wf") { if (!parseSched(v, g_wf)) return false; }
    else if (k == "rf") { if (!parseSched(v, g_rf)) return false; }
    else if (k == "hf") { if (!parseSched(v, g_hf)) return false; }
    else if (k == "wd")
    {
      g_waitDelays.clear();
      if (v == "-") continue;
      for (auto &it : splitc(v, ',')) { unsigned long long a; if (!vh::parseNat(it, a)) return false; g_waitDelays.push_back(static_cast<long>(a)); }
    }
    else return false;
  }
  for (auto &s : c.sends) if (s.thr < 0 || s.thr >= c.thr) return false;
  return true;
}

static void sleepUs(long us)
{
  if (us <= 0) return;
  struct timespec ts{us / 1000000, (us % 1000000) * 1000};
  nanosleep(&ts, nullptr);
}

// ====================================================================================== the peer
struct PeerResult
{
  std::vector<std::uint8_t> rx;
  int eof = 0;               // 0 still open when stopped, 1 clean EOF, 2 error / reset
  std::size_t written = 0;
  bool hsOk = true;
  std::string note;
};
static std::atomic<std::size_t> g_peerRx{0};
static std::atomic<std::size_t> g_peerWritten{0};
static std::atomic<bool> g_peerDone{false};
static std::atomic<int> g_peerFd{-1};
static std::atomic<bool> g_peerAbort{false};
static std::atomic<bool> g_peerWritesDone{false};

// runs on its own thread with `fd` connected to the engine's session
static void peerLoop(const Case &c, int fd, SSL_CTX *ctx, PeerResult &out)
{
  SSL *ssl = nullptr;
  g_peerFd.store(fd);
  if (c.peerRcvbuf > 0) setsockopt(fd, SOL_SOCKET, SO_RCVBUF, &c.peerRcvbuf, sizeof(int));
  int one = 1;
  setsockopt(fd, IPPROTO_TCP, TCP_NODELAY, &one, sizeof one);
  if (c.tls)
  {
    sleepUs(c.hsDelayUs);
    ssl = SSL_new(ctx);
    SSL_set_fd(ssl, fd);
    int rc = c.srv ? SSL_connect(ssl) : SSL_accept(ssl);
    if (rc != 1) { out.hsOk = false; out.eof = 2; out.note = "peer-handshake-failed"; SSL_free(ssl); ::close(fd); g_peerDone.store(true); return; }
  }
  sleepUs(c.peerStartUs);
  std::vector<std::uint8_t> buf(c.peerChunk);
  std::size_t wi = 0;
  auto nextWriteAt = Clock::now() + microseconds(c.pw.empty() ? 0 : c.pw[0].gapUs);
  if (c.pw.empty()) g_peerWritesDone.store(true);
  bool closedByUs = false;
  for (;;)
  {
    if (g_peerAbort.load()) break;
    // writes that are due
    if (wi < c.pw.size() && Clock::now() >= nextWriteAt)
    {
      auto pl = mkPayload(c.pw[wi].pat, c.pw[wi].len);
      std::size_t off = 0;
      bool werr = false;
      while (off < pl.size())
      {
        long n = ssl ? SSL_write(ssl, pl.data() + off, static_cast<int>(pl.size() - off))
                     : ::send(fd, pl.data() + off, pl.size() - off, MSG_NOSIGNAL);
        if (n <= 0) { werr = true; break; }
        off += static_cast<std::size_t>(n);
      }
      out.written += off;
      g_peerWritten.store(out.written);
      if (werr) { wi = c.pw.size(); g_peerWritesDone.store(true); }
      else
      {
        ++wi;
        if (wi < c.pw.size()) nextWriteAt = Clock::now() + microseconds(c.pw[wi].gapUs);
        else g_peerWritesDone.store(true);
      }
      continue;
    }
    bool pending = ssl && SSL_has_pending(ssl);
    if (!pending)
    {
      struct pollfd p{fd, POLLIN, 0};
      int pr = ::poll(&p, 1, 1);
      if (pr <= 0) continue;
    }
    long n = ssl ? SSL_read(ssl, buf.data(), static_cast<int>(buf.size())) : ::recv(fd, buf.data(), buf.size(), 0);
    if (n > 0)
    {
      out.rx.insert(out.rx.end(), buf.begin(), buf.begin() + n);
      g_peerRx.store(out.rx.size());
      if (c.peerCloseAfter >= 0 && static_cast<long long>(out.rx.size()) >= c.peerCloseAfter) { closedByUs = true; break; }
      sleepUs(c.peerDelayUs);
      continue;
    }
    if (n == 0) { out.eof = 1; break; }
    if (ssl)
    {
      int ge = SSL_get_error(ssl, static_cast<int>(n));
      if (ge == SSL_ERROR_ZERO_RETURN) { out.eof = 1; break; }
      if (ge == SSL_ERROR_WANT_READ || ge == SSL_ERROR_WANT_WRITE) continue;
      out.eof = 2; break;
    }
    if (errno == EINTR || errno == EAGAIN) continue;
    out.eof = 2;
    break;
  }
  if (closedByUs) out.note = "peer-closed";
  g_peerWritesDone.store(true);
  if (ssl) { if (out.eof != 2) SSL_shutdown(ssl); SSL_free(ssl); }
  g_peerFd.store(-1);
  ::close(fd);
  g_peerDone.store(true);
}

// ====================================================================================== one case
static std::string whyName(const TransportErrorInfo &r)
{
  if (r.message == "shutdown") return "shutdown";
  if (r.message == "closed by app") return "app";
  switch (r.code)
  {
  case TransportError::Socket: return "socket";
  case TransportError::TLSIO: return "tlsIo";
  case TransportError::PeerClosed: return "peerClosed";
  case TransportError::WriteBackpressure: return "backpressure";
  case TransportError::Connect: return "connect";
  case TransportError::TLSHandshake: return "tlsHandshake";
  case TransportError::Timeout: return "timeout";
  default: return "other" + std::to_string(static_cast<int>(r.code));
  }
}

static int listenLoopback(std::uint16_t &port)
{
  int ls = ::socket(AF_INET, SOCK_STREAM, 0);
  if (ls < 0) return -1;
  sockaddr_in a{};
  a.sin_family = AF_INET;
  a.sin_addr.s_addr = htonl(INADDR_LOOPBACK);
  a.sin_port = 0;
  if (::bind(ls, reinterpret_cast<sockaddr *>(&a), sizeof a) != 0 || ::listen(ls, 4) != 0) { ::close(ls); return -1; }
  socklen_t sl = sizeof a;
  ::getsockname(ls, reinterpret_cast<sockaddr *>(&a), &sl);
  port = ntohs(a.sin_port);
  return ls;
}

static std::mutex g_accMx;                     // the harness mutex around Transport::send / close / connect / stop: accepted order
static std::vector<std::string> g_acc;
static bool g_accSawClose = false;             // under g_accMx
static std::atomic<std::size_t> g_expTotal{0}; // bytes of the Send commands accepted before the first accepted Close
static void noteAcceptedSend(std::size_t len, unsigned pat)   // g_accMx held
{
  g_acc.push_back("S" + std::to_string(len) + "." + std::to_string(pat));
  if (!g_accSawClose) g_expTotal.fetch_add(len);
}

struct Machinery : std::runtime_error { using std::runtime_error::runtime_error; };

static void runCase(const Case &c, SSL_CTX *peerCli, SSL_CTX *peerSrv)
{
  g_segs.clear(); g_cur.clear(); g_acc.clear(); g_accSawClose = false; g_expTotal.store(0);
  g_ioThreadKnown = false; g_foreignThread.store(false);
  g_sessFd.store(-1); g_sessDead.store(false); g_lastMask = 0; g_registered = false;
  g_waitIdx = 0; g_sslPendK = 0; g_sslPendBuf = nullptr; g_movedRetries = 0;
  g_peerRx.store(0); g_peerWritten.store(0); g_peerDone.store(false); g_peerFd.store(-1); g_peerAbort.store(false); g_peerWritesDone.store(false);
  g_gpIdx = 0; g_soIdx = 0;
  g_midArmed.store(false); g_midHook = nullptr; g_midFired = false; g_lastBatch.store(0);

  auto caseStart = Clock::now();
  TransportConfig cfg;
  cfg.useEdgeTriggered = c.et;
  cfg.batching.enabled = c.batch;
  if (c.eme > 0) cfg.epollMaxEvents = c.eme;
  cfg.maxWriteQueue = c.mwq;
  cfg.closeOnBackpressure = c.cob;
  cfg.ioReadChunk = c.chunk;
  cfg.soSndBuf = c.sndbuf;
  cfg.soRcvBuf = c.rcvbuf;
  cfg.enableHighResolutionTimers = false;   // no TimerService thread: the I/O thread is the only engine thread
  cfg.gcInterval = std::chrono::seconds(3600);
  if (c.tls && c.srv)
  {
    cfg.serverTls.enabled = true; cfg.serverTls.defaultMode = TlsMode::Server;
    cfg.serverTls.certFile = g_certPath; cfg.serverTls.keyFile = g_keyPath;
  }
  if (c.tls && !c.srv)
  {
    cfg.clientTls.enabled = true; cfg.clientTls.defaultMode = TlsMode::Client; cfg.clientTls.verifyPeer = false;
  }
  auto t = Transport::tcp(cfg);
  auto *eng = dynamic_cast<TcpEngine *>(t->_impl->engine.get());
  if (!eng) throw Machinery("engine is not a TcpEngine");

  // session ids are handed out in order: the first session of this engine is the traced one, a second one (s2) is only monitored
  const SessionId tracedSid = eng->_nextSessionId.load();
  std::atomic<long long> sid{-1}, sid2{-1};
  std::atomic<int> connectedCb{0}, acceptedCb{0}, closedCb{0}, connected2{0}, closed2{0};
  std::string closeWhy = "-";
  std::vector<std::uint8_t> delivered;      // I/O thread only until stop()
  std::atomic<std::size_t> deliveredN{0};
  std::size_t echoIdx = 0;                  // I/O thread only
  Transport *tp = t.get();
  bool cbSent = false;                      // I/O thread only
  std::atomic<int> cbSends{0}, clSends{0};
  auto callbackSend = [&](SessionId s)
  {
    // a send issued from inside the accept / connect callback, i.e. on the I/O thread in the middle of an event
    if (cbSent || c.cbSend.len == 0 || c.nolock) return;
    cbSent = true;
    auto pl = mkPayload(c.cbSend.pat, c.cbSend.len);
    std::lock_guard<std::mutex> g(g_accMx);
    t_inCallbackSend = true;
    bool ok = tp->send(s, iora::core::BufferView{pl.data(), pl.size()});
    t_inCallbackSend = false;
    if (ok) { noteAcceptedSend(c.cbSend.len, c.cbSend.pat); cbSends++; }
  };
  t->onAccept([&](SessionId s, const TransportAddress &)
  {
    if (s == tracedSid) { tok("Ca"); acceptedCb++; sid.store(static_cast<long long>(s)); callbackSend(s); }
    else sid2.store(static_cast<long long>(s));
  });
  t->onConnect([&](SessionId s, const TransportAddress &) { if (s == tracedSid) { tok("Cc"); connectedCb++; callbackSend(s); } else connected2++; });
  t->onData([&](SessionId sidArg, iora::core::BufferView d, std::chrono::steady_clock::time_point)
  {
    if (sidArg != tracedSid) return;
    char b[64];
    std::snprintf(b, sizeof b, "Cd:%zu:%08x", d.size(), fnv(d.data(), d.size()));
    tok(b);
    delivered.insert(delivered.end(), d.data(), d.data() + d.size());
    if (echoIdx < c.echo.size())
    {
      // a send issued from inside the data callback, i.e. on the I/O thread itself
      auto pl = mkPayload(c.echo[echoIdx].pat, c.echo[echoIdx].len);
      std::lock_guard<std::mutex> g(g_accMx);
      t_inCallbackSend = true;
      bool ok = tp->send(sidArg, iora::core::BufferView{pl.data(), pl.size()});
      t_inCallbackSend = false;
      if (ok) noteAcceptedSend(c.echo[echoIdx].len, c.echo[echoIdx].pat);
      ++echoIdx;
    }
    deliveredN.store(delivered.size());   // after the echo was accepted: the main thread's "all delivered" implies "all echoes counted"
  });
  t->onClose([&](SessionId s, const TransportErrorInfo &r)
  {
    if (s == tracedSid)
    {
      closeWhy = whyName(r); tok("Cx:" + closeWhy); closedCb++;
      if (c.clSend.len > 0 && !c.nolock)
      {
        // a send issued from inside the close callback: enqueue() may accept it (token Z: not part of the expected stream), doSend finds no session
        auto pl = mkPayload(c.clSend.pat, c.clSend.len);
        std::lock_guard<std::mutex> g(g_accMx);
        t_inCallbackSend = true;
        bool ok = tp->send(s, iora::core::BufferView{pl.data(), pl.size()});
        t_inCallbackSend = false;
        if (ok) { g_acc.push_back("Z" + std::to_string(c.clSend.len) + "." + std::to_string(c.clSend.pat)); clSends++; }
      }
    }
    else closed2++;
  });

  g_engine = eng;
  auto sr = t->start();
  if (sr.isErr()) { g_engine = nullptr; throw Machinery("transport start failed: " + sr.error().message); }

  PeerResult pr;
  std::thread peer;
  int ls = -1;
  std::uint16_t port = 0;
  if (c.srv)
  {
    ListenResult lr = ListenResult::err(TransportErrorInfo{});
    {
      std::lock_guard<std::mutex> g(g_accMx);
      g_acc.push_back("L");
      lr = t->addListener("127.0.0.1", 0, c.tls ? TlsMode::Server : TlsMode::None);
    }
    if (lr.isErr()) { t->stop(); g_engine = nullptr; throw Machinery("cannot bind a loopback listener"); }
    port = t->getListenerAddress(lr.value()).port;
    peer = std::thread([&, port]
    {
      t_harness = true;
      int fd = ::socket(AF_INET, SOCK_STREAM, 0);
      sockaddr_in a{};
      a.sin_family = AF_INET; a.sin_addr.s_addr = htonl(INADDR_LOOPBACK); a.sin_port = htons(port);
      if (c.peerRcvbuf > 0) setsockopt(fd, SOL_SOCKET, SO_RCVBUF, &c.peerRcvbuf, sizeof(int));
      if (fd < 0 || ::connect(fd, reinterpret_cast<sockaddr *>(&a), sizeof a) != 0) { pr.eof = 2; pr.note = "peer-connect-failed"; pr.hsOk = false; g_peerDone.store(true); return; }
      peerLoop(c, fd, peerCli, pr);
    });
  }
  else
  {
    ls = listenLoopback(port);
    if (ls < 0) { t->stop(); g_engine = nullptr; throw Machinery("cannot bind a loopback port for the peer"); }
    if (c.peerRcvbuf > 0) setsockopt(ls, SOL_SOCKET, SO_RCVBUF, &c.peerRcvbuf, sizeof(int));
    peer = std::thread([&]
    {
      t_harness = true;
      struct pollfd p{ls, POLLIN, 0};
      int fd = -1;
      for (int i = 0; i < 5000 && !g_peerAbort.load(); ++i) { if (::poll(&p, 1, 2) > 0) { fd = ::accept(ls, nullptr, nullptr); break; } }
      if (fd < 0) { pr.eof = 2; pr.note = "peer-accept-failed"; pr.hsOk = false; g_peerDone.store(true); return; }
      peerLoop(c, fd, peerSrv, pr);
    });
    ConnectResult cr = ConnectResult::err(TransportErrorInfo{});
    {
      std::lock_guard<std::mutex> g(g_accMx);
      g_acc.push_back("K");
      cr = t->connect("127.0.0.1", port, c.tls ? TlsMode::Client : TlsMode::None);
    }
    if (cr.isOk()) sid.store(static_cast<long long>(cr.value()));
  }

  // watchdog: 30 s plus three times what the schedule itself asks for (peer read delays, start delays, sender gaps)
  long long askedUs = c.peerStartUs + c.hsDelayUs;
  {
    std::size_t tot = 0;
    for (auto &it : c.sends) { tot += it.len; askedUs += it.gapUs; }
    for (auto &w : c.pw) askedUs += w.gapUs;
    askedUs += static_cast<long long>(tot / c.peerChunk + 1) * c.peerDelayUs;
  }
  auto deadline = Clock::now() + milliseconds(30000 + 3 * askedUs / 1000);
  auto waitFor = [&](auto pred) { while (!pred()) { if (Clock::now() > deadline) return false; sleepUs(200); } return true; };
  bool stall = false;
  // senders start as soon as the id is known (early: inside the connect / handshake window) or after the connect callback
  bool haveSid = waitFor([&] { return sid.load() >= 0 || closedCb.load() > 0; });
  if (haveSid && !c.early) waitFor([&] { return connectedCb.load() > 0 || closedCb.load() > 0 || (c.srv && !c.tls && acceptedCb.load() > 0); });
  // ---- a second live session on the same engine
  PeerResult pr2;
  std::thread peer2;
  std::atomic<std::size_t> peer2Rx{0};
  std::atomic<bool> peer2Done{true};
  std::vector<std::uint8_t> expect2;
  bool haveS2 = false;
  auto peer2Loop = [&](int fd)
  {
    SSL *ssl = nullptr;
    if (c.tls)
    {
      ssl = SSL_new(c.srv ? peerCli : peerSrv);
      SSL_set_fd(ssl, fd);
      if ((c.srv ? SSL_connect(ssl) : SSL_accept(ssl)) != 1) { pr2.hsOk = false; pr2.eof = 2; SSL_free(ssl); ::close(fd); peer2Done.store(true); return; }
    }
    std::vector<std::uint8_t> buf(16384);
    for (;;)
    {
      if (g_peerAbort.load()) break;
      if (!(ssl && SSL_has_pending(ssl))) { struct pollfd p{fd, POLLIN, 0}; if (::poll(&p, 1, 1) <= 0) continue; }
      long n = ssl ? SSL_read(ssl, buf.data(), static_cast<int>(buf.size())) : ::recv(fd, buf.data(), buf.size(), 0);
      if (n > 0) { pr2.rx.insert(pr2.rx.end(), buf.begin(), buf.begin() + n); peer2Rx.store(pr2.rx.size()); continue; }
      if (n == 0) { pr2.eof = 1; break; }
      if (ssl)
      {
        int ge = SSL_get_error(ssl, static_cast<int>(n));
        if (ge == SSL_ERROR_ZERO_RETURN) { pr2.eof = 1; break; }
        if (ge == SSL_ERROR_WANT_READ || ge == SSL_ERROR_WANT_WRITE) continue;
        pr2.eof = 2; break;
      }
      if (errno == EINTR || errno == EAGAIN) continue;
      pr2.eof = 2; break;
    }
    if (ssl) { if (pr2.eof != 2) SSL_shutdown(ssl); SSL_free(ssl); }
    ::close(fd);
    peer2Done.store(true);
  };
  if (!c.s2.empty() && !c.nolock && sid.load() >= 0 && closedCb.load() == 0)
  {
    waitFor([&] { return g_peerFd.load() >= 0 || g_peerDone.load(); });   // peer 1 has its connection: the next one is session 2's
    peer2Done.store(false);
    if (c.srv)
    {
      peer2 = std::thread([&, port]
      {
        t_harness = true;
        int fd = ::socket(AF_INET, SOCK_STREAM, 0);
        sockaddr_in a{};
        a.sin_family = AF_INET; a.sin_addr.s_addr = htonl(INADDR_LOOPBACK); a.sin_port = htons(port);
        if (fd < 0 || ::connect(fd, reinterpret_cast<sockaddr *>(&a), sizeof a) != 0) { pr2.eof = 2; pr2.hsOk = false; peer2Done.store(true); return; }
        peer2Loop(fd);
      });
    }
    else
    {
      peer2 = std::thread([&]
      {
        t_harness = true;
        struct pollfd p{ls, POLLIN, 0};
        int fd = -1;
        for (int i = 0; i < 2500 && !g_peerAbort.load(); ++i) { if (::poll(&p, 1, 2) > 0) { fd = ::accept(ls, nullptr, nullptr); break; } }
        if (fd < 0) { pr2.eof = 2; pr2.hsOk = false; peer2Done.store(true); return; }
        peer2Loop(fd);
      });
      std::lock_guard<std::mutex> g(g_accMx);
      auto cr2 = t->connect("127.0.0.1", port, c.tls ? TlsMode::Client : TlsMode::None);
      if (cr2.isOk()) { g_acc.push_back("X"); sid2.store(static_cast<long long>(cr2.value())); }
    }
    auto d2 = Clock::now() + milliseconds(5000);
    while (sid2.load() < 0 && Clock::now() < d2 && !peer2Done.load()) sleepUs(200);
    haveS2 = sid2.load() >= 0;
  }

  std::vector<std::thread> senders;
  std::atomic<int> taggedAccepted{0};
  std::atomic<int> apiCalls[4];
  for (auto &a : apiCalls) a.store(0);
  std::atomic<int> originCloses[4];
  for (auto &a : originCloses) a.store(0);
  const auto gateBase = eng->_atomicStats.commands.load();
  {
    // only threads that really have something to send count as "others"
    std::set<int> others;
    for (auto &it : c.sends) if (it.thr != 0 && it.len > 0) others.insert(it.thr);
    g_gateOthers.store(static_cast<int>(others.size()));
    g_gateOthersDone.store(0); g_gateWaited.store(0);
    g_gateArmed.store(c.gate && c.nolock && c.thr >= 2);
  }
  if (haveS2)
  {
    senders.emplace_back([&]
    {
      t_harness = true;
      SessionId s2id = static_cast<SessionId>(sid2.load());
      for (auto &w : c.s2)
      {
        auto pl = mkPayload(w.pat, w.len);
        std::lock_guard<std::mutex> g(g_accMx);
        if (t->send(s2id, iora::core::BufferView{pl.data(), pl.size()})) { g_acc.push_back("X"); expect2.insert(expect2.end(), pl.begin(), pl.end()); }
      }
    });
  }
  std::atomic<int> midSends{0};
  if (sid.load() >= 0 && c.midSend.len > 0 && !c.nolock)
  {
    g_midBudget = c.eme > 0 ? c.eme : 256;
    SessionId ms = static_cast<SessionId>(sid.load());
    g_midHook = [&, ms]
    {
      std::thread h([&, ms]
      {
        t_harness = true;
        auto pl = mkPayload(c.midSend.pat, c.midSend.len);
        std::lock_guard<std::mutex> g(g_accMx);
        if (!g_midArmed.load()) return;
        if (t->send(ms, iora::core::BufferView{pl.data(), pl.size()})) { noteAcceptedSend(c.midSend.len, c.midSend.pat); midSends++; }
      });
      h.join();
    };
    g_midArmed.store(true);
  }
  if (sid.load() >= 0)
  {
    SessionId s = static_cast<SessionId>(sid.load());
    for (int k = 0; k < c.thr; ++k)
    {
      senders.emplace_back([&, k, s]
      {
        t_harness = true;
        unsigned seq = 0, idx = 0;
        bool firstCall = true;
        const bool gated = c.gate && c.nolock && c.thr >= 2;
        if (gated && k != 0)
        {
          // released when the engine has counted a command since the senders started (thread 0's first enqueue)
          for (int i = 0; i < 50000 && eng->_atomicStats.commands.load() <= gateBase; ++i) sleepUs(20);
        }
        auto doSendCall = [&](const std::vector<std::uint8_t> &pl) -> bool
        {
          // which Transport entry point this call uses: 0 send, 1 sendAsync (its completion callback runs synchronously and reports
          // the enqueue result), 2 sendSync, 3 sendSyncCancellable — all four must end in ONE engine command carrying the whole payload
          int api = 0;
          if (c.async == 1) api = (idx++ % 2) ? 1 : 0;
          else if (c.async == 2) api = (idx++ % 2) ? 2 : 0;
          else if (c.async == 3) api = static_cast<int>(idx++ % 4);
          apiCalls[api]++;
          iora::core::BufferView bv{pl.data(), pl.size()};
          if (api == 1)
          {
            bool ok = false;
            t->sendAsync(s, bv, [&ok](SessionId, const SendResult &r) { ok = r.isOk(); });
            return ok;
          }
          if (api == 2) return t->sendSync(s, bv, milliseconds(5000)).isOk();
          if (api == 3) { CancellationToken tokn; return t->sendSyncCancellable(s, bv, tokn, milliseconds(5000)).isOk(); }
          return t->send(s, bv);
        };
        for (auto &it : c.sends)
        {
          if (it.thr != k) continue;
          sleepUs(it.gapUs);
          if (c.nolock)
          {
            // NO harness mutex: the calls of different sender threads really overlap; the payload names its sender
            if (it.len == 0) continue;
            std::size_t ln = std::max<std::size_t>(it.len, 8);
            auto pl = mkTagged(static_cast<unsigned>(k), seq, ln);
            if (gated && k == 0 && firstCall) { t_gateLocks = 0; t_gateA = true; }
            bool ok = doSendCall(pl);
            if (gated && firstCall) { if (k == 0) t_gateA = false; else g_gateOthersDone++; }
            firstCall = false;
            if (ok) { ++seq; g_expTotal.fetch_add(ln); taggedAccepted++; }
          }
          else if (it.len == 0)
          {
            std::lock_guard<std::mutex> g(g_accMx);
            // pat 0: the application's close(); pat 1..3: a close command as the TimerService callbacks enqueue it (connect timeout /
            // TLS-handshake timeout / write stall): process() drops it when the condition it was armed for no longer holds
            unsigned o = it.pat % 4;
            originCloses[o]++;
            if (o == 0) { if (t->close(s)) { g_acc.push_back("C"); g_accSawClose = true; } }
            else
            {
              using E = TcpEngine;
              bool ok = o == 1 ? eng->enqueue(E::Command::close(s, TransportError::Timeout, "Connect timeout", E::CloseOrigin::ConnectTimeout))
                      : o == 2 ? eng->enqueue(E::Command::close(s, TransportError::TLSHandshake, "TLS handshake timeout", E::CloseOrigin::HandshakeTimeout))
                               : eng->enqueue(E::Command::close(s, TransportError::Timeout, "Write stall timeout", E::CloseOrigin::WriteStall));
              if (ok) g_acc.push_back("C" + std::to_string(o));
            }
          }
          else
          {
            auto pl = mkPayload(it.pat, it.len);
            std::lock_guard<std::mutex> g(g_accMx);
            if (doSendCall(pl)) noteAcceptedSend(it.len, it.pat);
          }
        }
      });
    }
  }
  for (auto &th : senders) th.join();
  g_gateArmed.store(false);

  std::size_t pwTotal = 0;
  for (auto &w : c.pw) pwTotal += w.len;

  // wait until everything has arrived (or the session ended); with the drop-oldest policy bytes may be dropped by design,
  // so there the wait ends when nothing has moved for a while
  // "nothing moved for a long time" ends the wait as well (a stall is then reported): 4 s is three orders of magnitude above
  // the time any single step of a case takes
  // Idle time is accumulated per poll and capped at 2 ms per poll, so a pause of the whole process / VM does not count as idleness.
  std::size_t lastRx = 0;
  auto lastPoll = Clock::now();
  long long idleUs = 0;
  bool idleOut = false;
  bool all = waitFor([&]
  {
    if (closedCb.load() > 0 || g_peerDone.load()) return true;
    if (g_peerRx.load() >= g_expTotal.load() && g_peerWritesDone.load() && deliveredN.load() >= g_peerWritten.load() &&
        (!haveS2 || peer2Done.load() || peer2Rx.load() >= expect2.size())) return true;
    std::size_t rx = g_peerRx.load() + deliveredN.load() + g_peerWritten.load() + peer2Rx.load();
    auto now = Clock::now();
    long long dt = std::chrono::duration_cast<microseconds>(now - lastPoll).count();
    lastPoll = now;
    if (rx != lastRx) { lastRx = rx; idleUs = 0; }
    else idleUs += std::min<long long>(dt, 2000);
    if (idleUs > (c.lossy ? 150000 : 4000000)) { idleOut = !c.lossy; return true; }
    return false;
  });
  if (idleOut) all = false;
  if (!all) stall = true;
  long stallOutq = -1, stallPeerInq = -1;
  long lostWake = 0;
  if (stall)
  {
    // a lost wake-up: commands enqueue() accepted are still in _cmds although nothing has moved for seconds — the I/O thread sleeps
    // in epoll_wait and nobody will wake it (read under _cmdMutex, twice 20 ms apart, so a command in flight is not counted)
    for (int k = 0; k < 2; ++k)
    {
      std::size_t nq = 0;
      { std::lock_guard<std::mutex> g(eng->_cmdMutex); nq = eng->_cmds.size(); }
      if (nq == 0) { lostWake = 0; break; }
      lostWake = static_cast<long>(nq);
      sleepUs(20000);
    }
    int v = 0;
    if (g_sessFd.load() >= 0 && !g_sessDead.load() && ::ioctl(g_sessFd.load(), SIOCOUTQ, &v) == 0) stallOutq = v;
    if (g_peerFd.load() >= 0 && ::ioctl(g_peerFd.load(), FIONREAD, &v) == 0) stallPeerInq = v;
  }
  // a peer-initiated close: give the engine a moment to notice it before stop() (either order is legal)
  if (g_peerDone.load() && closedCb.load() == 0)
  {
    auto d2 = Clock::now() + milliseconds(50);
    while (closedCb.load() == 0 && Clock::now() < d2) sleepUs(200);
  }
  {
    // the mutex is NOT held across stop(): a data callback that is about to send (echo) takes it on the I/O thread.
    // A command accepted between this record and stop()'s own enqueue is trace-equivalent (Shutdown issues no call).
    std::lock_guard<std::mutex> g(g_accMx);
    g_midArmed.store(false);
    g_acc.push_back("Q");
  }
  t->stop();
  g_midHook = nullptr;
  g_engine = nullptr;
  newSegment();
  // after stop() the session is closed: the peer sees EOF
  auto pdl = Clock::now() + milliseconds(5000);
  while (!g_peerDone.load() && Clock::now() < pdl) sleepUs(200);
  if (!g_peerDone.load()) { g_peerAbort.store(true); stall = true; }
  peer.join();
  if (peer2.joinable())
  {
    auto p2 = Clock::now() + milliseconds(5000);
    while (!peer2Done.load() && Clock::now() < p2) sleepUs(200);
    if (!peer2Done.load()) g_peerAbort.store(true);
    peer2.join();
  }
  if (ls >= 0) ::close(ls);

  // ---- unlocked senders: the accepted order is what the peer saw; every frame must be whole, per thread in sequence, intact
  long long tagErr = -1;
  int tagFrames = 0;
  std::string tagWhat = "-";
  if (c.nolock)
  {
    std::vector<unsigned> nextSeq(static_cast<std::size_t>(c.thr), 0);
    std::size_t pos = 0;
    std::vector<std::string> frames;
    while (pos < pr.rx.size())
    {
      if (pr.rx.size() - pos < 8) { tagErr = static_cast<long long>(pos); tagWhat = "truncated-header"; break; }
      const std::uint8_t *h = pr.rx.data() + pos;
      unsigned thr = h[1], seq = (static_cast<unsigned>(h[2]) << 8) | h[3];
      std::size_t ln = (static_cast<std::size_t>(h[4]) << 24) | (static_cast<std::size_t>(h[5]) << 16) | (static_cast<std::size_t>(h[6]) << 8) | h[7];
      if (h[0] != 'T' || thr >= static_cast<unsigned>(c.thr) || ln < 8) { tagErr = static_cast<long long>(pos); tagWhat = "not-a-frame-start(interleaved-or-corrupt)"; break; }
      if (seq != nextSeq[thr]) { tagErr = static_cast<long long>(pos); tagWhat = seq < nextSeq[thr] ? "duplicate-or-reordered-within-thread" : "lost-or-reordered-within-thread"; break; }
      if (pr.rx.size() - pos < ln) { tagErr = static_cast<long long>(pos); tagWhat = "truncated-frame"; break; }
      auto want = mkTagged(thr, seq, ln);
      if (std::memcmp(want.data(), h, ln) != 0)
      {
        std::size_t off = 0;
        while (off < ln && want[off] == h[off]) ++off;
        tagErr = static_cast<long long>(pos + off);
        // does another sender's frame start right there? then one accepted send was not contiguous on the wire
        bool foreignFrame = ln - off >= 8 && h[off] == 'T' && h[off + 1] < static_cast<unsigned>(c.thr) && h[off + 1] != thr;
        tagWhat = std::string(foreignFrame ? "foreign-frame-inside-a-payload(one-send-not-contiguous)" : "foreign-or-corrupt-bytes-inside-a-payload") +
                  "@thread" + std::to_string(thr) + ".seq" + std::to_string(seq) + ".offset" + std::to_string(off);
        break;
      }
      nextSeq[thr]++;
      frames.push_back("T" + std::to_string(ln) + "." + std::to_string(thr) + "." + std::to_string(seq));
      pos += ln;
      ++tagFrames;
    }
    // the accepted order, for the acceptor: the commands recorded so far (L / K / X ...), then the frames in wire order, then Q
    std::vector<std::string> acc2;
    for (auto &a : g_acc) if (a != "Q") acc2.push_back(a);
    for (auto &f : frames) acc2.push_back(f);
    acc2.push_back("Q");
    g_acc = acc2;
  }

  // expected stream = accepted Send payloads in accepted order (those before an accepted Close; later ones are dropped by design)
  std::vector<std::uint8_t> expect;
  {
    bool sawClose = false;
    for (auto &a : g_acc)
    {
      if (a == "C") sawClose = true;
      if (a[0] == 'S' && !sawClose)
      {
        auto p = splitc(a.substr(1), '.');
        auto pl = mkPayload(static_cast<unsigned>(std::stoul(p[1])), static_cast<std::size_t>(std::stoull(p[0])));
        expect.insert(expect.end(), pl.begin(), pl.end());
      }
    }
  }
  auto firstDiff = [](const std::vector<std::uint8_t> &got, const std::vector<std::uint8_t> &want) -> long long
  {
    std::size_t n = std::min(got.size(), want.size());
    for (std::size_t i = 0; i < n; ++i) if (got[i] != want[i]) return static_cast<long long>(i);
    return got.size() > want.size() ? static_cast<long long>(want.size()) : -1;
  };
  if (c.nolock) expect = pr.rx;      // order is checked by the frame monitor above
  std::vector<std::uint8_t> pwAll;
  for (auto &w : c.pw) { auto pl = mkPayload(w.pat, w.len); pwAll.insert(pwAll.end(), pl.begin(), pl.end()); }

  std::string accLine = "acc";
  for (auto &a : g_acc) accLine += " " + a;
  std::printf("begin %s\n%s\n", c.id.c_str(), accLine.c_str());
  for (auto &s : g_segs) std::printf("seg %s\n", s.c_str());
  std::printf("fin peer_rx=%zu exp_total=%zu peer_diff=%lld peer_eof=%d dlv=%zu pw_written=%zu pw_total=%zu dlv_diff=%lld closed_cb=%d close_why=%s "
              "connected_cb=%d accepted_cb=%d stall=%d foreign=%d peer_hs=%d moved=%d ms=%lld stall_outq=%ld stall_peer_inq=%ld "
              "tag_err=%lld tag_what=%s tag_frames=%d tag_accepted=%d gate_waited=%d s2=%d s2_rx=%zu s2_total=%zu s2_diff=%lld lostwake=%ld "
              "api=%d.%d.%d.%d oclose=%d.%d.%d.%d cbsend=%d clsend=%d mid=%d note=%s\n",
              pr.rx.size(), c.nolock ? g_expTotal.load() : expect.size(), firstDiff(pr.rx, expect), pr.eof, delivered.size(), pr.written, pwTotal,
              firstDiff(delivered, pwAll), closedCb.load(), closeWhy.c_str(), connectedCb.load(), acceptedCb.load(), stall ? 1 : 0,
              g_foreignThread.load() ? 1 : 0, pr.hsOk ? 1 : 0, g_movedRetries,
              static_cast<long long>(std::chrono::duration_cast<milliseconds>(Clock::now() - caseStart).count()), stallOutq, stallPeerInq,
              tagErr, tagWhat.c_str(), tagFrames, taggedAccepted.load(), g_gateWaited.load(), haveS2 ? 1 : 0, pr2.rx.size(), expect2.size(), firstDiff(pr2.rx, expect2), lostWake,
              apiCalls[0].load(), apiCalls[1].load(), apiCalls[2].load(), apiCalls[3].load(),
              originCloses[0].load(), originCloses[1].load(), originCloses[2].load(), originCloses[3].load(), cbSends.load(), clSends.load(), midSends.load(), pr.note.empty() ? "-" : pr.note.c_str());
  std::printf("end %s\n", c.id.c_str());
  std::fflush(stdout);
}

// ====================================================================================== main
static std::atomic<long long> g_caseStartMs{0};
static void watchdog()
{
  t_harness = true;
  // Time is accumulated per poll and capped at 500 ms per poll: a pause of the whole process / VM does not count as a hang.
  long long seen = 0, accMs = 0;
  auto last = Clock::now();
  for (;;)
  {
    sleepUs(100000);
    long long s = g_caseStartMs.load();
    auto nowT = Clock::now();
    long long dt = std::chrono::duration_cast<milliseconds>(nowT - last).count();
    last = nowT;
    if (s == 0) { seen = 0; accMs = 0; continue; }
    if (s != seen) { seen = s; accMs = 0; }
    accMs += std::min<long long>(dt, 500);
    if (accMs > 90000)
    {
      // is it a lost wake-up? (commands accepted by enqueue() still in the queue while nothing moves)
      long lost = -1;
      TcpEngine *e = g_engine;
      if (e && e->_cmdMutex.try_lock()) { lost = static_cast<long>(e->_cmds.size()); e->_cmdMutex.unlock(); }
      std::printf("hang lostwake=%ld\n", lost);
      std::fflush(stdout);
      _exit(97);
    }
  }
}

int main()
{
  t_harness = true;
  g_realMutexLock = reinterpret_cast<mutex_lock_t>(dlsym(RTLD_NEXT, "pthread_mutex_lock"));
  signal(SIGPIPE, SIG_IGN);
  iora::core::Logger::setLevel(iora::core::Logger::Level::Error);
  makeCert();
  SSL_CTX *peerCli = SSL_CTX_new(TLS_client_method());
  SSL_CTX_set_verify(peerCli, SSL_VERIFY_NONE, nullptr);
  SSL_CTX *peerSrv = SSL_CTX_new(TLS_server_method());
  if (SSL_CTX_use_certificate_file(peerSrv, g_certPath.c_str(), SSL_FILETYPE_PEM) != 1 ||
      SSL_CTX_use_PrivateKey_file(peerSrv, g_keyPath.c_str(), SSL_FILETYPE_PEM) != 1)
  {
    std::fprintf(stderr, "c01: cannot load the generated certificate\n");
    return 2;
  }
  std::thread(watchdog).detach();
  std::string line;
  int rc = 0;
  while (std::getline(std::cin, line))
  {
    auto toks = vh::split(line);
    if (toks.empty()) continue;
    if (toks[0] == "counters")
    {
      std::string s = "counters";
      for (auto &kv : g_cnt) s += " " + kv.first + "=" + std::to_string(kv.second);
      std::printf("%s\n", s.c_str());
      std::fflush(stdout);
      continue;
    }
    Case c;
    g_wf = Sched{}; g_rf = Sched{}; g_hf = Sched{}; g_waitDelays.clear(); g_gp.clear(); g_soInj = 0;
    if (!parseCase(toks, c)) { std::printf("bad-op\n"); std::fflush(stdout); continue; }
    g_caseStartMs.store(std::chrono::duration_cast<milliseconds>(Clock::now().time_since_epoch()).count());
    try
    {
      runCase(c, peerCli, peerSrv);
    }
    catch (const Machinery &m)
    {
      std::printf("machinery %s %s\n", c.id.c_str(), m.what());
      std::fflush(stdout);
      rc = 2;
    }
    catch (const std::exception &ex)
    {
      std::printf("begin %s\nthrow %s\nend %s\n", c.id.c_str(), typeid(ex).name(), c.id.c_str());
      std::fflush(stdout);
    }
    g_caseStartMs.store(0);
  }
  removeCert();
  return rc;
}
