// C02 harness (DESIGN §7 C02): session lifecycle of the REAL TcpEngine / UdpEngine and the Transport close fan-out.
//
//  (a1) STEPPED engines  (`tcp ...` / `udp ...` / `peer ...` ops): a real engine object on loopback whose I/O loop is
//       driven by the harness thread: one `poll` op = one iteration of loopUnbatched (epoll_wait, then drainEvt+process /
//       drainTim+runGc / handleFdEvent per event, shutdownDrain when `_running` is false) calling the engine's own private
//       handlers.  connect/socket/accept4/getsockopt(SO_ERROR)/getpeername/recv/send/recvfrom/sendto/getaddrinfo/bind/listen
//       and the TLS test hooks are interposed INSIDE this executable: every result that decides control flow is logged as
//       an abstract answer, and scripted faults are injected.  For every atomic action the harness prints
//            <model op + the environment's answers>  =>  <callbacks observed, in order>|<accepted,connected,closed,sessionsCurrent>
//       The plugin feeds the left sides to the Lean driver (component `life`) and compares the right sides: the model,
//       given the same answers, must produce the same callbacks (with the close-site's reason class) and the same gauges.
//  (a2) THREADED engines (`scn ...`): the engine's own thread and loop (batched or not), application threads calling
//       connect/close/send concurrently, stop at a random point.  Output: the totally ordered event log; the plugin's
//       implementation-only monitors check exactly-one-close, order, id uniqueness and the gauge.
//  (b)  FAN-OUT lockstep (`fan ...`): Transport over the scripted engine (common/fake_engine.hpp): observers and user data
//       registered / unregistered at arbitrary points, including from inside callbacks.
#include <algorithm>
#include <array>
#include <atomic>
#include <cassert>
#include <cerrno>
#include <chrono>
#include <condition_variable>
#include <csignal>
#include <cstdarg>
#include <cstddef>
#include <cstdio>
#include <cstdlib>
#include <cstring>
#include <ctime>
#include <deque>
#include <exception>
#include <fstream>
#include <functional>
#include <future>
#include <iomanip>
#include <iostream>
#include <limits>
#include <list>
#include <map>
#include <memory>
#include <mutex>
#include <numeric>
#include <optional>
#include <queue>
#include <random>
#include <set>
#include <shared_mutex>
#include <sstream>
#include <stdexcept>
#include <string>
#include <thread>
#include <tuple>
#include <unordered_map>
#include <unordered_set>
#include <utility>
#include <variant>
#include <vector>
#include <arpa/inet.h>
#include <dlfcn.h>
#include <fcntl.h>
#include <netdb.h>
#include <netinet/in.h>
#include <netinet/tcp.h>
#include <poll.h>
#include <pthread.h>
#include <sys/epoll.h>
#include <sys/eventfd.h>
#include <sys/socket.h>
#include <sys/timerfd.h>
#include <unistd.h>
#include <openssl/err.h>
#include <openssl/ssl.h>
#define private public
#define protected public
#include "iora/network/transport.hpp"
#include "iora/network/transport_impl.hpp"
#undef private
#undef protected
#include "common/lineproto.hpp"
#include "common/fake_engine.hpp"

using namespace iora::network;
using std::chrono::milliseconds;

// ============================================================================================ interposition
static thread_local bool t_in = false;       // the harness thread is inside an engine handler (stepped mode): log + inject
static thread_local bool t_harness = false;  // thread created by the harness (main, app threads, peers): never inject
static std::atomic<bool> g_gaiCtx{false};    // getaddrinfo runs on a std::async thread in TcpEngine::doConnect
static std::atomic<bool> g_threadInject{false}; // threaded mode: inject on non-harness threads (the engine's I/O thread)
static bool g_udpMode = false;
static std::vector<std::string> g_ans;       // answers of the current handler record
static std::mutex g_injMx;
struct InjItem { int skip; std::string code; };
static std::map<std::string, std::deque<InjItem>> g_inj;
static std::map<std::string, long> g_fire, g_injected;
static std::atomic<long long> g_clockOffsetNs{0};
static std::atomic<bool> g_dnsGaveUp{false};  // set by the close callback that reports the engine's DNS timeout (releases a SLOW lookup)
static thread_local int t_sslForceErr = 0;      // an injected SSL_read/SSL_write result: the next SSL_get_error says this

static void ans(const std::string &a) { if (t_in || g_gaiCtx.load()) g_ans.push_back(a); }

// returns true when the next call of `fn` must be faulted; `code` receives the scripted code
static bool takeInj(const char *fn, std::string &code)
{
  bool active = t_in || g_gaiCtx.load() || (g_threadInject.load() && !t_harness);
  if (!active) return false;
  std::lock_guard<std::mutex> g(g_injMx);
  g_fire[fn]++;
  auto it = g_inj.find(fn);
  if (it == g_inj.end() || it->second.empty()) return false;
  if (it->second.front().skip > 0) { it->second.front().skip--; return false; }
  code = it->second.front().code;
  it->second.pop_front();
  g_injected[fn]++;
  return true;
}
static int errnoOf(const std::string &c)
{
  if (c == "EAGAIN") return EAGAIN;
  if (c == "ECONNREFUSED") return ECONNREFUSED;
  if (c == "ENETUNREACH") return ENETUNREACH;
  if (c == "ECONNRESET") return ECONNRESET;
  if (c == "EPIPE") return EPIPE;
  if (c == "EMFILE") return EMFILE;
  if (c == "ENOTCONN") return ENOTCONN;
  if (c == "ETIMEDOUT") return ETIMEDOUT;
  if (c == "EBADF") return EBADF;
  if (c == "EINTR") return EINTR;
  if (c == "ENOMEM") return ENOMEM;
  return EIO;
}
template <typename F> static F realFn(const char *name)
{
  void *p = dlsym(RTLD_NEXT, name);
  if (!p) { std::fprintf(stderr, "c02: dlsym(%s) failed\n", name); std::abort(); }
  return reinterpret_cast<F>(p);
}
static bool refusedClass(int e) { return e == ECONNREFUSED || e == ENETUNREACH || e == EHOSTUNREACH; }

extern "C" int connect(int fd, const struct sockaddr *a, socklen_t l)
{
  static auto real = realFn<int (*)(int, const struct sockaddr *, socklen_t)>("connect");
  std::string c;
  if (takeInj("connect", c)) { errno = errnoOf(c); ans(refusedClass(errno) ? "refused" : "fail"); return -1; }
  int r = real(fd, a, l);
  int e = errno;
  if (t_in)
  {
    if (r == 0) ans("ok");
    else if (e == EINPROGRESS) ans("again");
    else if (!g_udpMode && refusedClass(e)) ans("refused");
    else ans("fail");
  }
  errno = e;
  return r;
}
extern "C" int socket(int d, int t, int p)
{
  static auto real = realFn<int (*)(int, int, int)>("socket");
  std::string c;
  if (takeInj("socket", c)) { errno = errnoOf(c); ans("fail"); return -1; }
  int r = real(d, t, p);
  if (r < 0 && t_in) { int e = errno; ans("fail"); errno = e; }
  return r;
}
extern "C" int accept4(int fd, struct sockaddr *a, socklen_t *l, int fl)
{
  static auto real = realFn<int (*)(int, struct sockaddr *, socklen_t *, int)>("accept4");
  std::string c;
  if (takeInj("accept4", c)) { errno = errnoOf(c); ans(errno == EAGAIN ? "again" : "fail"); return -1; }
  int r = real(fd, a, l, fl);
  int e = errno;
  if (t_in) ans(r >= 0 ? "ok" : (e == EAGAIN || e == EWOULDBLOCK) ? "again" : "fail");
  errno = e;
  return r;
}
extern "C" int getsockopt(int fd, int level, int name, void *val, socklen_t *len)
{
  static auto real = realFn<int (*)(int, int, int, void *, socklen_t *)>("getsockopt");
  if (level == SOL_SOCKET && name == SO_ERROR)
  {
    std::string c;
    if (takeInj("so_error", c))
    {
      if (c == "FAIL") { errno = EBADF; ans("fail"); return -1; }
      (void)real(fd, level, name, val, len); // clear the kernel's pending error as a real read would
      *static_cast<int *>(val) = errnoOf(c);
      ans("soerr");
      return 0;
    }
    int r = real(fd, level, name, val, len);
    int e = errno;
    if (t_in) ans(r < 0 ? "fail" : (*static_cast<int *>(val) != 0 ? "soerr" : "ok"));
    errno = e;
    return r;
  }
  return real(fd, level, name, val, len);
}
extern "C" int getpeername(int fd, struct sockaddr *a, socklen_t *l)
{
  static auto real = realFn<int (*)(int, struct sockaddr *, socklen_t *)>("getpeername");
  if (g_udpMode) return real(fd, a, l);
  std::string c;
  if (takeInj("getpeername", c))
  {
    int ie = errnoOf(c);
    bool transient = !(refusedClass(ie) || ie == ETIMEDOUT);
    // "not connected yet" is only injected while the kernel could say so: a socket that already has payload (or a FIN) to read IS
    // connected.  Such an injection is dropped - the harness never fabricates `payload on a socket whose connect is pending`
    // (the environment contract of T3c); whatever data-before-connect remains is the engine's own doing.
    static auto realRecv = realFn<ssize_t (*)(int, void *, size_t, int)>("recv");
    char pk;
    bool readable = transient && realRecv(fd, &pk, 1, MSG_PEEK | MSG_DONTWAIT) >= 0;
    if (!readable)
    {
      errno = ie;
      ans(transient ? "again" : "refused");
      return -1;
    }
  }
  int r = real(fd, a, l);
  int e = errno;
  if (t_in) ans(r == 0 ? "ok" : (refusedClass(e) || e == ETIMEDOUT) ? "refused" : "again");
  errno = e;
  return r;
}
extern "C" ssize_t recv(int fd, void *b, size_t n, int fl)
{
  static auto real = realFn<ssize_t (*)(int, void *, size_t, int)>("recv");
  std::string c;
  if (takeInj("recv", c)) { errno = errnoOf(c); ans(errno == EAGAIN ? "again" : "fail"); return -1; }
  ssize_t r = real(fd, b, n, fl);
  int e = errno;
  if (t_in) ans(r > 0 ? "data" : r == 0 ? "eof" : (e == EAGAIN || e == EWOULDBLOCK) ? "again" : "fail");
  errno = e;
  return r;
}
extern "C" ssize_t send(int fd, const void *b, size_t n, int fl)
{
  static auto real = realFn<ssize_t (*)(int, const void *, size_t, int)>("send");
  std::string c;
  if (takeInj("send", c))
  {
    if (c == "PART" && n > 1)
    {
      ssize_t r = real(fd, b, n / 2, fl);
      int e = errno;
      if (t_in) ans(r >= 0 ? "part" : (e == EAGAIN ? "again" : "fail"));
      errno = e;
      return r;
    }
    errno = errnoOf(c);
    ans(errno == EAGAIN ? "again" : "fail");
    return -1;
  }
  ssize_t r = real(fd, b, n, fl);
  int e = errno;
  if (t_in) ans(r < 0 ? ((e == EAGAIN || e == EWOULDBLOCK) ? "again" : "fail") : (static_cast<size_t>(r) == n ? "full" : "part"));
  errno = e;
  return r;
}
// UDP: peer addresses seen by recvfrom are numbered in order of first appearance (the model's peer keys)
static std::map<std::string, int> g_peerKeys;
static int keyOfAddr(const struct sockaddr *a)
{
  char buf[64] = {0};
  unsigned port = 0;
  if (a->sa_family == AF_INET)
  {
    auto *s4 = reinterpret_cast<const sockaddr_in *>(a);
    inet_ntop(AF_INET, &s4->sin_addr, buf, sizeof buf);
    port = ntohs(s4->sin_port);
  }
  std::string k = std::string(buf) + ":" + std::to_string(port);
  auto it = g_peerKeys.find(k);
  if (it != g_peerKeys.end()) return it->second;
  int id = static_cast<int>(g_peerKeys.size()) + 1;
  g_peerKeys[k] = id;
  return id;
}
extern "C" ssize_t recvfrom(int fd, void *b, size_t n, int fl, struct sockaddr *from, socklen_t *fl2)
{
  static auto real = realFn<ssize_t (*)(int, void *, size_t, int, struct sockaddr *, socklen_t *)>("recvfrom");
  std::string c;
  if (takeInj("recvfrom", c)) { errno = errnoOf(c); ans(errno == EAGAIN ? "again" : "fail"); return -1; }
  ssize_t r = real(fd, b, n, fl, from, fl2);
  int e = errno;
  if (t_in)
  {
    if (r > 0 && from) ans("dg" + std::to_string(keyOfAddr(from)));
    else if (r == 0) ans("eof");
    else ans((e == EAGAIN || e == EWOULDBLOCK) ? "again" : "fail");
  }
  errno = e;
  return r;
}
extern "C" ssize_t sendto(int fd, const void *b, size_t n, int fl, const struct sockaddr *to, socklen_t tl)
{
  static auto real = realFn<ssize_t (*)(int, const void *, size_t, int, const struct sockaddr *, socklen_t)>("sendto");
  std::string c;
  if (takeInj("sendto", c)) { errno = errnoOf(c); ans(errno == EAGAIN ? "again" : "fail"); return -1; }
  ssize_t r = real(fd, b, n, fl, to, tl);
  int e = errno;
  if (t_in) ans(r < 0 ? ((e == EAGAIN || e == EWOULDBLOCK) ? "again" : "fail") : "full");
  errno = e;
  return r;
}
extern "C" int getaddrinfo(const char *node, const char *svc, const struct addrinfo *hints, struct addrinfo **res)
{
  static auto real = realFn<int (*)(const char *, const char *, const struct addrinfo *, struct addrinfo **)>("getaddrinfo");
  std::string c;
  if (takeInj("getaddrinfo", c))
  {
    if (c == "SLOW")
    {
      ans("timeout");
      // held until the engine has reported its own DNS timeout (close callback `dnsTimeout`); 10 s cap = machinery failure
      g_dnsGaveUp.store(false);
      for (int i = 0; i < 10000 && !g_dnsGaveUp.load(); ++i) std::this_thread::sleep_for(milliseconds(1));
      if (!g_dnsGaveUp.load()) { std::fprintf(stderr, "c02: the engine never gave up on a held DNS lookup\n"); std::_Exit(2); }
      int r = real(node, svc, hints, res);
      return r; // the engine has already given up: answer `timeout` is logged by the harness
    }
    ans("fail");
    return EAI_NONAME;
  }
  int r = real(node, svc, hints, res);
  if (r == 0 && res && *res)
  {
    int n = 0;
    bool v4 = false;
    for (struct addrinfo *ai = *res; ai; ai = ai->ai_next) { ++n; v4 = v4 || ai->ai_family == AF_INET; }
    ans("ad" + std::to_string(n));
    if (g_udpMode && !v4) ans("nomatch"); // every listener of the harness is IPv4: connectViaListener finds no usable address
  }
  else ans("fail");
  return r;
}
// TcpEngine::doConnect resolves a NAME on a std::async(std::launch::async) thread; std::async throws std::system_error when the
// thread cannot be created (EAGAIN at the thread limit).  Only a creation requested from inside an engine handler of the stepped
// engine (t_in: the harness thread is inside process()) can be faulted; the answer `throw` replaces the getaddrinfo answer (FC02b).
extern "C" int pthread_create(pthread_t *th, const pthread_attr_t *at, void *(*fn)(void *), void *arg)
{
  static auto real = realFn<int (*)(pthread_t *, const pthread_attr_t *, void *(*)(void *), void *)>("pthread_create");
  std::string c;
  if (t_in && !g_udpMode && takeInj("pthread_create", c)) { ans("throw"); return EAGAIN; }
  return real(th, at, fn, arg);
}
extern "C" int getsockname(int fd, struct sockaddr *a, socklen_t *l)
{
  static auto real = realFn<int (*)(int, struct sockaddr *, socklen_t *)>("getsockname");
  std::string c;
  if (g_udpMode && t_in && takeInj("getsockname", c)) { errno = EBADF; ans("affail"); return -1; }
  return real(fd, a, l);
}
// UdpEngine::key() formats a peer address with getnameinfo(NI_NUMERICHOST|NI_NUMERICSERV); a failure (any EAI_* error) makes key()
// return "" - since FC06a both users refuse it: readFromListener drops the datagram (error event, no session), viaDo closes the
// id with Config / "peer address cannot be formatted".  Logged only on failure, like `affail`.
extern "C" int getnameinfo(const struct sockaddr *sa, socklen_t salen, char *host, socklen_t hostlen, char *serv, socklen_t servlen, int flags)
{
  static auto real = realFn<int (*)(const struct sockaddr *, socklen_t, char *, socklen_t, char *, socklen_t, int)>("getnameinfo");
  std::string c;
  if (g_udpMode && t_in && takeInj("getnameinfo", c))
  {
    // readFromListener: key(from) directly follows the recvfrom that logged `dg<k>` - the pair is ONE environment answer, a datagram
    // whose source cannot be formatted (`dgnokey`); viaDo: key(to) follows the resolution answers (`keyfail`)
    if (!g_ans.empty() && g_ans.back().rfind("dg", 0) == 0) g_ans.back() = "dgnokey";
    else ans("keyfail");
    return EAI_FAIL;
  }
  return real(sa, salen, host, hostlen, serv, servlen, flags);
}
extern "C" int bind(int fd, const struct sockaddr *a, socklen_t l)
{
  static auto real = realFn<int (*)(int, const struct sockaddr *, socklen_t)>("bind");
  std::string c;
  if (takeInj("bind", c)) { errno = errnoOf(c); ans("fail"); return -1; }
  int r = real(fd, a, l);
  int e = errno;
  if (t_in) { if (r < 0) ans("fail"); else if (g_udpMode) ans("ok"); }
  errno = e;
  return r;
}
extern "C" int listen(int fd, int bl)
{
  static auto real = realFn<int (*)(int, int)>("listen");
  int r = real(fd, bl);
  int e = errno;
  if (t_in) ans(r < 0 ? "fail" : "ok");
  errno = e;
  return r;
}
extern "C" SSL *SSL_new(SSL_CTX *ctx)
{
  static auto real = realFn<SSL *(*)(SSL_CTX *)>("SSL_new");
  std::string c;
  if (takeInj("SSL_new", c)) { ans("fail"); return nullptr; }
  SSL *s = real(ctx);
  if (t_in) ans(s ? "ok" : "fail");
  return s;
}
extern "C" int SSL_set1_host(SSL *ssl, const char *name)
{
  static auto real = realFn<int (*)(SSL *, const char *)>("SSL_set1_host");
  std::string c;
  if (takeInj("SSL_set1_host", c)) { ans("fail"); return 0; }
  int r = real(ssl, name);
  if (t_in) ans(r == 1 ? "ok" : "fail");
  return r;
}
extern "C" int SSL_get_error(const SSL *ssl, int ret)
{
  static auto real = realFn<int (*)(const SSL *, int)>("SSL_get_error");
  if (t_sslForceErr) { int e = t_sslForceErr; t_sslForceErr = 0; return e; }
  return real(ssl, ret);
}
extern "C" int SSL_do_handshake(SSL *ssl)
{
  static auto real = realFn<int (*)(SSL *)>("SSL_do_handshake");
  static auto realErr = realFn<int (*)(const SSL *, int)>("SSL_get_error");
  int r = real(ssl);
  if (t_in)
  {
    if (r == 1) ans("ok");
    else
    {
      int e = realErr(ssl, r);
      ans((e == SSL_ERROR_WANT_READ || e == SSL_ERROR_WANT_WRITE) ? "again" : "fail");
    }
  }
  return r;
}
extern "C" int SSL_read(SSL *ssl, void *b, int n)
{
  static auto real = realFn<int (*)(SSL *, void *, int)>("SSL_read");
  static auto realErr = realFn<int (*)(const SSL *, int)>("SSL_get_error");
  std::string c;
  if (takeInj("SSL_read", c)) { ans("fail"); t_sslForceErr = SSL_ERROR_SSL; return -1; }
  int r = real(ssl, b, n);
  if (t_in)
  {
    if (r > 0) ans("data");
    else
    {
      int e = realErr(ssl, r);
      ans((e == SSL_ERROR_WANT_READ || e == SSL_ERROR_WANT_WRITE) ? "again" : e == SSL_ERROR_ZERO_RETURN ? "eof" : "fail");
    }
  }
  return r;
}
extern "C" int SSL_write(SSL *ssl, const void *b, int n)
{
  static auto real = realFn<int (*)(SSL *, const void *, int)>("SSL_write");
  static auto realErr = realFn<int (*)(const SSL *, int)>("SSL_get_error");
  std::string c;
  if (takeInj("SSL_write", c))
  {
    if (c == "EAGAIN") { ans("again"); t_sslForceErr = SSL_ERROR_WANT_WRITE; return -1; } // nothing was handed to OpenSSL: a later retry is a fresh write
    ans("fail"); t_sslForceErr = SSL_ERROR_SSL; return -1;
  }
  int r = real(ssl, b, n);
  if (t_in)
  {
    if (r > 0) ans(r == n ? "full" : "part");
    else
    {
      int e = realErr(ssl, r);
      ans((e == SSL_ERROR_WANT_READ || e == SSL_ERROR_WANT_WRITE) ? "again" : "fail");
    }
  }
  return r;
}
// virtual monotonic clock: steady_clock::now() = real + offset (GC decisions, inline handshake timeout)
extern "C" int clock_gettime(clockid_t c, struct timespec *ts)
{
  static auto real = realFn<int (*)(clockid_t, struct timespec *)>("clock_gettime");
  int r = real(c, ts);
  if (r == 0 && c == CLOCK_MONOTONIC)
  {
    long long off = g_clockOffsetNs.load(std::memory_order_relaxed);
    if (off)
    {
      long long ns = ts->tv_sec * 1000000000LL + ts->tv_nsec + off;
      ts->tv_sec = ns / 1000000000LL;
      ts->tv_nsec = ns % 1000000000LL;
    }
  }
  return r;
}

// ============================================================================================ engines under test
// TLS test hooks of TcpEngine (protected virtuals): results are answers like any other call
struct HTcp : TcpEngine
{
  using TcpEngine::TcpEngine;
  std::deque<std::string> hookFail; // names of hooks that must return false next
  bool hook(const char *name)
  {
    bool ok = true;
    if (!hookFail.empty() && hookFail.front() == name) { hookFail.pop_front(); ok = false; }
    ans(ok ? "ok" : "fail");
    return ok;
  }
  bool inlineHs = false; // `!_timerService && handshakeTimeout > 0`: reaching this hook means the comparison said "not expired"
  bool beforeSslHandshake(SessionId, const std::string &) override { if (inlineHs) ans("no"); return hook("hsBefore"); }
  bool afterSslHandshake(SessionId, bool ok, int) override
  {
    // `hsAfterOk`: fail the hook of the handshake call that SUCCEEDED (close site hsHookAfterOk), whichever poll that is
    if (ok && !hookFail.empty() && hookFail.front() == "hsAfterOk") { hookFail.pop_front(); ans("fail"); return false; }
    return hook("hsAfter");
  }
  bool beforeSslRead(SessionId) override { return hook("read"); }
  bool beforeSslWrite(SessionId, std::size_t) override { return hook("write"); }
};

static const char *codeName(TransportError e)
{
  switch (e)
  {
  case TransportError::None: return "None";
  case TransportError::Socket: return "Socket";
  case TransportError::Resolve: return "Resolve";
  case TransportError::Bind: return "Bind";
  case TransportError::Listen: return "Listen";
  case TransportError::Accept: return "Accept";
  case TransportError::Connect: return "Connect";
  case TransportError::TLSHandshake: return "TLSHandshake";
  case TransportError::TLSIO: return "TLSIO";
  case TransportError::PeerClosed: return "PeerClosed";
  case TransportError::WriteBackpressure: return "WriteBackpressure";
  case TransportError::Config: return "Config";
  case TransportError::GCClosed: return "GCClosed";
  case TransportError::Cancelled: return "Cancelled";
  case TransportError::Timeout: return "Timeout";
  case TransportError::BufferOverflow: return "BufferOverflow";
  case TransportError::ShuttingDown: return "ShuttingDown";
  case TransportError::Unknown: return "Unknown";
  }
  return "?";
}
// fixed message texts identify the close site class; anything else (errno / OpenSSL text) is `*`
static std::string msgClass(const std::string &m)
{
  static const std::pair<const char *, const char *> fixed[] = {
    {"getaddrinfo: cannot start resolver thread", "gaiThread"}, {"shutdown", "shutdown"}, {"closed by app", "app"}, {"Connect timeout", "connectTimeout"},
    {"TLS handshake timeout", "hsTimeout"}, {"Write stall timeout", "writeStall"}, {"GC safety-net timeout", "gc"},
    {"peer closed", "fin"}, {"Connection closed by peer (EPOLLHUP/EPOLLERR)", "hup"}, {"TLS peer closed", "tlsClosed"},
    {"write queue overflow", "overflow"}, {"Connection refused to", "refused"}, {"getaddrinfo:", "gai"},
    {"DNS_TIMEOUT_FIX_TRIGGERED", "dnsTimeout"}, {"SSL_new(client) failed", "sslNew"}, {"getsockopt failed", "gso"},
    {"TLS requested but", "tlsRefused"}, {"SSL_set1_host failed", "sni"}, {"Injected TLS fault", "hook"},
    {"client write queue overflow", "overflow"}, {"listener write queue overflow", "lstOverflow"}, {"listener gone", "lstGone"},
    {"listener not found", "noListener"}, {"listener AF unknown", "afUnknown"}, {"AF mismatch", "afMismatch"},
    {"session cap reached", "cap"}, {"peer address cannot be formatted", "keyFail"}};
  for (auto &f : fixed)
    if (m.rfind(f.first, 0) == 0) return f.second;
  return "*";
}

struct Stepped
{
  bool udp = false;
  std::unique_ptr<HTcp> tcp;
  std::unique_ptr<UdpEngine> udpE;
  detail::EngineBase *eng() { return udp ? static_cast<detail::EngineBase *>(udpE.get()) : tcp.get(); }
  std::vector<ListenerId> lids;
  std::vector<std::uint16_t> lports;
  std::vector<bool> ltls;
  std::vector<SessionId> known;        // ids the application has seen, in order (connect() ok / accept)
  std::set<SessionId> announced;       // ids with an accept/connect callback
  std::vector<std::string> cbs;        // callbacks of the current record
  std::vector<std::string> out;        // finished output lines
  std::vector<std::string> deferred;   // nested API lines to print after the current record
  // current record
  std::string recKind;                 // "", proc, acc, sess, lst, gc, drain*
  std::string recHead;
  // nested actions: on the next callback of kind K/D/A/N run an API call
  struct Nested { char on; std::string action; std::string arg; };
  std::deque<Nested> nested;
  bool alive = false;
  bool drained = false;
};
static Stepped S;

static std::string join(const std::vector<std::string> &v, const char *sep)
{
  std::string s;
  for (std::size_t i = 0; i < v.size(); ++i) { if (i) s += sep; s += v[i]; }
  return s.empty() ? "-" : s;
}
static std::string statsStr()
{
  auto st = S.eng()->getStats();
  return std::to_string(st.accepted) + "," + std::to_string(st.connected) + "," + std::to_string(st.closed) + "," +
         std::to_string(static_cast<long long>(st.sessionsCurrent));
}
static void emitLine(const std::string &op, bool withStats = true)
{
  S.out.push_back(op + " => " + join(S.cbs, ",") + "|" + (withStats ? statsStr() : std::string("-")));
  S.cbs.clear();
}
// ---- records
static void beginRec(const std::string &kind, const std::string &head)
{
  S.recKind = kind;
  S.recHead = head;
  g_ans.clear();
  S.cbs.clear();
}
static std::string gcPicks()
{
  std::string p;
  for (auto &c : S.cbs)
    if (c[0] == 'K' && c.find(":GCClosed/") != std::string::npos) p += " " + c.substr(1, c.find(':') - 1);
  return p;
}
// final=false: a nested API call splits an accept-type record (the id allocations before and after it must stay ordered)
static void flushRec(bool final)
{
  if (S.recKind.empty()) return;
  if (S.recKind == "gc") emitLine("gc" + gcPicks());
  else
  {
    // the inline handshake-timeout comparison is the one decision no interposed call reveals: it is visible by its close
    if (S.recKind == "sess")
      for (auto &c : S.cbs)
        if (c[0] == 'K' && c.find(":TLSHandshake/hsTimeout") != std::string::npos) g_ans.push_back("timeout");
    std::string a;
    for (auto &x : g_ans) a += " " + x;
    emitLine(S.recHead + a, final);
  }
  g_ans.clear();
  if (final)
  {
    S.recKind.clear();
    for (auto &d : S.deferred) S.out.push_back(d);
    S.deferred.clear();
  }
}
static void endRec() { flushRec(true); }

// ---- API actions (also used nested, from inside callbacks)
static SessionId pickKnown(const std::string &ref)
{
  // "~k": k-th known id modulo the number known; "#n": literal id
  if (ref.size() > 1 && ref[0] == '#') return std::strtoull(ref.c_str() + 1, nullptr, 10);
  unsigned long long k = std::strtoull(ref.c_str() + (ref[0] == '~' ? 1 : 0), nullptr, 10);
  if (S.known.empty()) return 9999;
  return S.known[k % S.known.size()];
}
struct PeerL { int fd; std::uint16_t port; };
struct PeerC { int fd; };
static std::vector<PeerL> g_peerL;
static std::vector<PeerC> g_peerC;
static std::vector<PeerL> g_peerU; // udp peer sockets
static std::uint16_t g_closedPort = 0;

static void apiLine(const std::string &line, const std::string &obs = "-")
{
  bool inRec = !S.recKind.empty();
  if (!inRec) { S.out.push_back(line + " => " + obs + "|" + statsStr()); return; }
  if (S.recKind == "acc" || S.recKind == "lst")
  {
    flushRec(false);
    S.out.push_back(line + " => " + obs + "|-");
  }
  else if (S.recKind == "drain") S.cbs.push_back("@" + line + " => " + obs + "|-"); // position kept; placed by steppedDrain
  else S.deferred.push_back(line + " => " + obs + "|-");
}
static void doApi(const std::string &action, const std::string &arg)
{
  bool saved = t_in;
  t_in = false; // API calls are application code, not handler code
  if (action == "connect")
  {
    // arg: P<k>[t] | E<k>[t] (the engine's own listener k) | closed | name | nameP<k> ; trailing 't' = TLS
    bool tls = !arg.empty() && arg.back() == 't';
    bool tlsSrv = !arg.empty() && arg.back() == 's' && !S.udp; // TlsMode::Server on connect(): refused by doConnect
    std::string a = (tls || tlsSrv) ? arg.substr(0, arg.size() - 1) : arg;
    std::string host = "127.0.0.1";
    std::uint16_t port = g_closedPort;
    bool named = false;
    if (a.rfind("name", 0) == 0) { host = "localhost"; named = true; a = a.substr(4); }
    if (!a.empty() && a[0] == 'E' && !S.lports.empty())
      port = S.lports[std::strtoul(a.c_str() + 1, nullptr, 10) % S.lports.size()]; // one of the engine's own listeners
    if (!a.empty() && a[0] == 'P')
    {
      std::size_t k = std::strtoul(a.c_str() + 1, nullptr, 10);
      auto &v = S.udp ? g_peerU : g_peerL;
      if (!v.empty()) port = v[k % v.size()].port;
    }
    if (S.udp) tls = false; // UdpEngine::connect rejects TLS before any id is allocated: not scripted
    auto r = S.eng()->connect(host, port, tlsSrv ? TlsMode::Server : tls ? TlsMode::Client : TlsMode::None);
    // a failed connect() does not reveal the burnt id: the model reports `R?:0`
    if (r.isOk()) S.known.push_back(r.value());
    apiLine(std::string("apiconnect ") + (tlsSrv ? "2 " : tls ? "1 " : "0 ") + (named ? "1" : "0"), r.isOk() ? "R" + std::to_string(r.value()) + ":1" : std::string("R?:0"));
  }
  else if (action == "via")
  {
    // arg: <listenerIndex>:P<k> | <listenerIndex>:bad (unknown listener id)
    std::size_t colon = arg.find(':');
    std::size_t li = std::strtoul(arg.c_str(), nullptr, 10);
    std::string pa = arg.substr(colon + 1);
    ListenerId lid = pa == "bad" ? 777 : (S.lids.empty() ? 777 : S.lids[li % S.lids.size()]);
    std::uint16_t port = g_closedPort;
    if (pa[0] == 'P' && !g_peerU.empty()) port = g_peerU[std::strtoul(pa.c_str() + 1, nullptr, 10) % g_peerU.size()].port;
    sockaddr_in sa{};
    sa.sin_family = AF_INET;
    sa.sin_port = htons(port);
    sa.sin_addr.s_addr = htonl(INADDR_LOOPBACK);
    int key = keyOfAddr(reinterpret_cast<sockaddr *>(&sa));
    bool v6 = pa == "v6"; // an IPv6-only remote through an IPv4 listener: address family mismatch
    auto r = S.eng()->connectViaListener(lid, v6 ? "::1" : "127.0.0.1", port);
    if (r.isOk()) S.known.push_back(r.value());
    apiLine("apivia " + std::to_string(lid) + " " + std::to_string(key), r.isOk() ? "R" + std::to_string(r.value()) + ":1" : std::string("R?:0"));
  }
  else if (action == "close")
  {
    SessionId sid = pickKnown(arg);
    S.eng()->close(sid);
    apiLine("apiclose " + std::to_string(sid));
  }
  else if (action == "send")
  {
    // arg: <ref>:<nbytes>
    std::size_t colon = arg.find(':');
    SessionId sid = pickKnown(arg.substr(0, colon));
    std::size_t n = colon == std::string::npos ? 8 : std::strtoul(arg.c_str() + colon + 1, nullptr, 10);
    std::string payload(n ? n : 1, 'x');
    S.eng()->send(sid, payload.data(), payload.size());
    apiLine("apisend " + std::to_string(sid));
  }
  else if (action == "stop")
  {
    S.eng()->stop(); // no thread to join in stepped mode: CAS + enqueue(Shutdown)
    apiLine("apistop");
  }
  else if (action == "timer" && !S.udp)
  {
    // arg: <ref>:<connect|handshake|stall> - what the TimerService thread does when a timer fires
    std::size_t colon = arg.find(':');
    SessionId sid = pickKnown(arg.substr(0, colon));
    std::string o = arg.substr(colon + 1);
    if (o == "connect") S.tcp->handleConnectTimeout(sid);
    else if (o == "handshake") S.tcp->handleHandshakeTimeout(sid);
    else S.tcp->handleWriteStallTimeout(sid);
    apiLine("timer " + std::to_string(sid) + " " + (o == "connect" ? "connectTimeout" : o == "handshake" ? "handshakeTimeout" : "writeStall"));
  }
  t_in = saved;
}
static void onCallback(char kind, SessionId sid, const std::string &extra)
{
  S.cbs.push_back(std::string(1, kind) + std::to_string(sid) + extra);
  if (kind == 'A') S.known.push_back(sid);
  if (kind == 'A' || kind == 'N') S.announced.insert(sid);
  // nested application actions (run inside the callback, i.e. on the "I/O thread", re-entering the public API)
  for (std::size_t i = 0; i < S.nested.size(); ++i)
  {
    if ((S.nested[i].on == kind || S.nested[i].on == '*') && !(S.udp && kind == 'A'))
    {
      auto n = S.nested[i];
      S.nested.erase(S.nested.begin() + i);
      std::string arg = n.arg;
      if (arg == "self") arg = "#" + std::to_string(sid);
      else if (arg.rfind("self:", 0) == 0) arg = "#" + std::to_string(sid) + arg.substr(4);
      doApi(n.action, arg);
      break;
    }
  }
}
static detail::EngineBase::Callbacks steppedCallbacks()
{
  detail::EngineBase::Callbacks c;
  c.onAccept = [](SessionId s, const TransportAddress &) { onCallback('A', s, ""); };
  c.onConnect = [](SessionId s, const TransportAddress &) { onCallback('N', s, ""); };
  c.onData = [](SessionId s, iora::core::BufferView, std::chrono::steady_clock::time_point) { onCallback('D', s, ""); };
  c.onClose = [](SessionId s, const TransportErrorInfo &e) {
    std::string cls = msgClass(e.message);
    if (cls == "dnsTimeout") g_dnsGaveUp.store(true); // releases the held lookup (getaddrinfo SLOW)
    onCallback('K', s, std::string(":") + codeName(e.code) + "/" + cls);
  };
  c.onError = [](TransportError, const std::string &) {};
  return c;
}

// ---- the stepped I/O loop (mirrors loopUnbatched; its shape is pinned by Gen/CloseSites tcpLoopUnbatched/udpLoopUnbatched)
template <typename E> static void steppedDrain(E &e)
{
  // shutdownDrain = process(); session loop; queue close + residual loop.  It is ONE engine function, so the record is cut
  // afterwards by what it reported: a close with reason Unknown/shutdown comes from the session loop (one `drainclose` model
  // op each, in the observed order), ShuttingDown/shutdown from the residual loop (produced by `drainfinish`); everything
  // before the first of them belongs to the process() call (`drainproc`).  Nested API calls keep their position ('@' items).
  S.out.push_back("drainbegin => -|" + statsStr());
  beginRec("drain", "drain");
  t_in = true; g_gaiCtx.store(!S.udp);
  e.shutdownDrain();
  t_in = false; g_gaiCtx.store(false);
  std::vector<std::string> cbs = S.cbs;
  S.cbs.clear();
  S.recKind.clear();
  auto isSess = [](const std::string &c) { return c[0] == 'K' && c.find(":Unknown/shutdown") != std::string::npos; };
  auto isRes = [](const std::string &c) { return c[0] == 'K' && c.find(":ShuttingDown/shutdown") != std::string::npos; };
  std::size_t i = 0;
  std::vector<std::string> apis;
  for (; i < cbs.size() && !isSess(cbs[i]) && !isRes(cbs[i]); ++i)
  {
    if (cbs[i][0] == '@') apis.push_back(cbs[i].substr(1)); else S.cbs.push_back(cbs[i]);
  }
  {
    std::string a;
    for (auto &x : g_ans) a += " " + x;
    emitLine("drainproc" + a, false);
  }
  for (auto &p : apis) S.out.push_back(p);
  apis.clear();
  bool residual = false;
  for (; i < cbs.size(); ++i)
  {
    const std::string &c = cbs[i];
    if (c[0] == '@') { if (residual) apis.push_back(c.substr(1)); else S.out.push_back(c.substr(1)); }
    else if (isSess(c) && !residual) { S.cbs.push_back(c); emitLine("drainclose " + c.substr(1, c.find(':') - 1), false); }
    else { residual = true; S.cbs.push_back(c); }
  }
  emitLine("drainfinish");
  // calls made from inside a residual close callback find the queue closed; the model applies them after drainfinish
  for (auto &p : apis) S.out.push_back(p);
  S.drained = true;
}
template <typename E> static void steppedPoll(E &e, int timeoutMs)
{
  static auto realWait = realFn<int (*)(int, struct epoll_event *, int, int)>("epoll_wait");
  if (S.drained) return;
  if (!e._running.load()) { steppedDrain(e); return; }
  std::vector<epoll_event> evs(64);
  int n = realWait(e._epollFd, evs.data(), static_cast<int>(evs.size()), timeoutMs);
  for (int i = 0; i < n; ++i)
  {
    int fd = evs[static_cast<std::size_t>(i)].data.fd;
    std::uint32_t events = evs[static_cast<std::size_t>(i)].events;
    if (fd == e._eventFd)
    {
      beginRec("proc", "proc");
      t_in = true; g_gaiCtx.store(!S.udp); e.drainEvt(); e.process(); t_in = false; g_gaiCtx.store(false);
      endRec();
      continue;
    }
    if (fd == e._timerFd)
    {
      beginRec("gc", "gc");
      t_in = true; e.drainTim(); e.runGc(); t_in = false;
      endRec();
      continue;
    }
    // handleFdEvent: describe the target the way the engine will resolve it
    std::string head = "none";
    std::string kind = "sess";
    if constexpr (std::is_same<E, HTcp>::value)
    {
      auto it = e._fdTags.find(fd);
      if (it != e._fdTags.end())
      {
        if (it->second->isListener) { kind = "acc"; head = std::string("acc ") + (it->second->lst->tls == TlsMode::Server ? "1" : "0"); }
        else head = "sess " + std::to_string(it->second->sess->id);
      }
    }
    else
    {
      auto it = e._tags.find(fd);
      if (it != e._tags.end())
      {
        if (it->second->isListener) { kind = "lst"; head = "lst " + std::to_string(it->second->lst->id); }
        else head = "sess " + std::to_string(it->second->sess->id);
      }
    }
    if (head == "none") { t_in = true; e.handleFdEvent(fd, events); t_in = false; continue; }
    std::string m = std::string((events & EPOLLIN) ? "1" : "0") + " " + ((events & EPOLLOUT) ? "1" : "0");
    if (kind == "sess") m += std::string(" ") + ((events & (EPOLLHUP | EPOLLERR)) ? "1" : "0");
    if (kind == "acc") m.clear();
    beginRec(kind, head + (m.empty() ? "" : " " + m));
    t_in = true; e.handleFdEvent(fd, events); t_in = false;
    endRec();
  }
}
template <typename E> static void steppedEvent(E &e, SessionId sid, std::uint32_t events)
{
  if (S.drained) return;
  int fd = -1;
  auto it = e._sessions.find(sid);
  if (it == e._sessions.end()) return;
  fd = it->second->fd;
  if constexpr (!std::is_same<E, HTcp>::value)
  {
    if (it->second->role != Role::ClientConnected) return; // server-peer sessions share the listener fd
  }
  if constexpr (std::is_same<E, HTcp>::value)
  {
    // A synthetic event never fabricates what a kernel cannot report: readable-without-writable on a socket whose connect
    // callback has not been delivered (the engine registers EPOLLIN|EPOLLOUT for it).  Only real epoll_wait results (`poll`)
    // can carry such an event - and then it is the engine's interest mask that let it through (monitor: data before connect).
    if ((events & EPOLLIN) && !(events & (EPOLLOUT | EPOLLHUP | EPOLLERR)) && !S.announced.count(sid) &&
        it->second->tlsMode == TlsMode::None) return;
  }
  std::string m = std::string((events & EPOLLIN) ? "1" : "0") + " " + ((events & EPOLLOUT) ? "1" : "0") + " " + ((events & (EPOLLHUP | EPOLLERR)) ? "1" : "0");
  beginRec("sess", "sess " + std::to_string(sid) + " " + m);
  t_in = true; e.handleFdEvent(fd, events); t_in = false;
  endRec();
}
template <typename E> static void manualStart(E &e)
{
  // what start() does, minus the thread
  e._running.store(true);
  if constexpr (std::is_same<E, HTcp>::value)
  {
    if (!e.initTls()) { std::fprintf(stderr, "c02: initTls failed: %s\n", e.lastError().message.c_str()); std::exit(2); }
  }
  else
  {
    std::lock_guard<std::mutex> g(e._qmx); e._qClosed = false;
  }
  e._epollFd = ::epoll_create1(EPOLL_CLOEXEC);
  if constexpr (std::is_same<E, HTcp>::value)
  {
    // since FC05c: the fresh eventfd is published and the queue re-opened in ONE _cmdMutex section (skeleton tcpStart)
    const int efd = ::eventfd(0, EFD_NONBLOCK | EFD_CLOEXEC);
    std::lock_guard<std::mutex> g(e._cmdMutex);
    e._eventFd = efd;
    e._cmdsClosed = false;
  }
  else e._eventFd = ::eventfd(0, EFD_NONBLOCK | EFD_CLOEXEC);
  e._timerFd = ::timerfd_create(CLOCK_MONOTONIC, TFD_NONBLOCK | TFD_CLOEXEC);
  if (e._epollFd < 0 || e._eventFd < 0 || e._timerFd < 0) { std::fprintf(stderr, "c02: cannot create epoll/eventfd/timerfd\n"); std::exit(2); }
  e.addEpoll(e._eventFd, EPOLLIN);
  e.addEpoll(e._timerFd, EPOLLIN);
  // the GC timer is NOT armed: `gc` ops call runGc() explicitly under the virtual clock
  std::uint64_t one = 1;
  (void)!::write(e._eventFd, &one, sizeof one); // commands queued before start
}

static void closePeers()
{
  for (auto &p : g_peerL) ::close(p.fd);
  for (auto &p : g_peerC) if (p.fd >= 0) ::close(p.fd);
  for (auto &p : g_peerU) ::close(p.fd);
  g_peerL.clear(); g_peerC.clear(); g_peerU.clear();
}
static std::uint16_t findClosedPort(bool udp)
{
  static auto realBind = realFn<int (*)(int, const struct sockaddr *, socklen_t)>("bind");
  int s = ::socket(AF_INET, udp ? SOCK_DGRAM : SOCK_STREAM, 0);
  sockaddr_in a{};
  a.sin_family = AF_INET;
  a.sin_addr.s_addr = htonl(INADDR_LOOPBACK);
  if (s < 0 || realBind(s, reinterpret_cast<sockaddr *>(&a), sizeof a) != 0) { std::fprintf(stderr, "c02: cannot bind loopback\n"); std::exit(2); }
  socklen_t sl = sizeof a;
  getsockname(s, reinterpret_cast<sockaddr *>(&a), &sl);
  ::close(s);
  return ntohs(a.sin_port);
}
static void steppedTeardown()
{
  if (!S.alive) return;
  // destroy quietly (not part of the case)
  S.nested.clear();
  if (!S.drained)
  {
    S.eng()->stop();
    if (S.udp) steppedDrain(*S.udpE); else steppedDrain(*S.tcp);
    S.out.clear();
  }
  S.tcp.reset();
  S.udpE.reset();
  closePeers();
  S = Stepped{};
  g_peerKeys.clear();
  { std::lock_guard<std::mutex> g(g_injMx); g_inj.clear(); }
  g_clockOffsetNs.store(0);
}
// Review F6(b), on the REAL engine: the fd-tag map is what turns a kernel event into a session.  Invariant checked after every
// stepped op (between handlers): a session tag points at a session that IS in `_sessions` (pointer identity - never dereferenced
// before that is known), is not closed, and owns exactly this fd; and every open TCP / client-role UDP session has its tag.
// A violation (F35: tags of sessions freed by the drain survive a restart) is printed as a `tagbad ...` part: plugin => T3/T0.
static long g_tagChecks = 0;
template <typename E, typename TagMap> static std::string tagCheckOf(E &e, TagMap &tags)
{
  std::map<const void *, SessionId> live;
  for (auto &kv2 : e._sessions) live[kv2.second.get()] = kv2.first;
  std::string bad;
  std::set<int> tagged;
  for (auto &kv2 : tags)
  {
    ++g_tagChecks;
    if (!kv2.second || kv2.second->isListener) continue;
    const void *sp = kv2.second->sess;
    auto it = live.find(sp);
    if (it == live.end()) { bad += " fd" + std::to_string(kv2.first) + ":dangling"; continue; }
    auto *sess = kv2.second->sess;
    if (sess->closed) bad += " fd" + std::to_string(kv2.first) + ":closed-session-" + std::to_string(it->second);
    if (sess->fd != kv2.first) bad += " fd" + std::to_string(kv2.first) + ":session-" + std::to_string(it->second) + "-owns-fd" + std::to_string(sess->fd);
    tagged.insert(kv2.first);
  }
  for (auto &kv2 : e._sessions)
  {
    auto *sess = kv2.second.get();
    bool needsTag = !sess->closed;
    if constexpr (!std::is_same<E, HTcp>::value) needsTag = needsTag && sess->role == Role::ClientConnected;
    if (needsTag && !tagged.count(sess->fd)) bad += " session-" + std::to_string(kv2.first) + ":untagged";
  }
  return bad;
}
static void tagCheck()
{
  if (!S.alive) return;
  std::string bad = S.udp ? tagCheckOf(*S.udpE, S.udpE->_tags) : tagCheckOf(*S.tcp, S.tcp->_fdTags);
  if (!bad.empty()) S.out.push_back("tagbad" + bad);
}
static std::string kv(const std::vector<std::string> &t, const std::string &k, const std::string &dflt)
{
  for (auto &x : t)
    if (x.rfind(k + "=", 0) == 0) return x.substr(k.size() + 1);
  return dflt;
}
static std::string g_certDir;

static std::string steppedOp(const std::vector<std::string> &t)
{
  // t[0] = tcp|udp, t[1] = verb
  const std::string &v = t[1];
  S.out.clear();
  if (v == "reset")
  {
    steppedTeardown();
    S.udp = t[0] == "udp";
    g_udpMode = S.udp;
    S.alive = true;
    TransportConfig cfg;
    cfg.protocol = S.udp ? Protocol::UDP : Protocol::TCP;
    cfg.maxWriteQueue = std::strtoul(kv(t, "mwq", "1024").c_str(), nullptr, 10);
    cfg.closeOnBackpressure = kv(t, "cob", "1") == "1";
    cfg.idleTimeout = std::chrono::seconds(std::strtol(kv(t, "idle", "0").c_str(), nullptr, 10));
    cfg.maxConnAge = std::chrono::seconds(std::strtol(kv(t, "age", "0").c_str(), nullptr, 10));
    cfg.connectTimeout = milliseconds(std::strtol(kv(t, "cto", "0").c_str(), nullptr, 10));
    cfg.handshakeTimeout = milliseconds(std::strtol(kv(t, "hto", "0").c_str(), nullptr, 10));
    cfg.writeStallTimeout = milliseconds(std::strtol(kv(t, "wst", "0").c_str(), nullptr, 10));
    cfg.useEdgeTriggered = kv(t, "et", "1") == "1";
    cfg.maxSessions = std::strtoul(kv(t, "maxs", "0").c_str(), nullptr, 10);
    cfg.enableHighResolutionTimers = false; // timer-thread actions are scripted (`timer` ops)
    cfg.soSndBuf = static_cast<int>(std::strtol(kv(t, "sndbuf", "0").c_str(), nullptr, 10));
    bool tls = kv(t, "tls", "0") == "1";
    if (tls && !S.udp)
    {
      cfg.serverTls.enabled = true;
      cfg.serverTls.defaultMode = TlsMode::Server;
      cfg.serverTls.certFile = g_certDir + "/test_tls_cert.pem";
      cfg.serverTls.keyFile = g_certDir + "/test_tls_key.pem";
      cfg.clientTls.enabled = true;
      cfg.clientTls.defaultMode = TlsMode::Client;
      cfg.clientTls.verifyPeer = kv(t, "vp", "0") == "1"; // with vp=1 a connect BY NAME binds the name (SSL_set1_host)
      if (cfg.clientTls.verifyPeer) cfg.clientTls.caFile = g_certDir + "/test_tls_cert.pem";
    }
    bool vp = tls && !S.udp && kv(t, "vp", "0") == "1";
    std::size_t nl = std::strtoul(kv(t, "nl", "1").c_str(), nullptr, 10);
    std::size_t ntl = std::strtoul(kv(t, "ntl", "0").c_str(), nullptr, 10);
    g_closedPort = findClosedPort(S.udp);
    std::string line = std::string("reset ") + t[0] + " " + (tls && !S.udp ? "1 1 " : "0 0 ") +
                       ((!S.udp && cfg.handshakeTimeout.count() > 0) ? "1 " : "0 ") + std::to_string(cfg.maxWriteQueue) + " " +
                       (cfg.closeOnBackpressure ? "1 " : "0 ") + std::to_string(cfg.maxSessions) + (vp ? " 1" : " 0");
    if (S.udp) { S.udpE = std::make_unique<UdpEngine>(cfg); S.udpE->setCallbacks(steppedCallbacks()); }
    else { S.tcp = std::make_unique<HTcp>(cfg); S.tcp->inlineHs = cfg.handshakeTimeout.count() > 0; S.tcp->setCallbacks(steppedCallbacks()); }
    S.out.push_back(line + " => -|0,0,0,0");
    for (std::size_t i = 0; i < nl + ntl; ++i)
    {
      bool lt = i >= nl;
      auto r = S.eng()->addListener("127.0.0.1", 0, lt ? TlsMode::Server : TlsMode::None); // not running yet: enqueue only
      if (r.isErr()) { std::fprintf(stderr, "c02: addListener failed\n"); std::exit(2); }
      S.lids.push_back(r.value());
      S.ltls.push_back(lt);
      emitLine("addl " + std::to_string(r.value()) + (lt ? " 1" : " 0"));
    }
    if (S.udp) manualStart(*S.udpE); else manualStart(*S.tcp);
    if (S.udp) steppedPoll(*S.udpE, 0); else steppedPoll(*S.tcp, 0);
    for (auto lid : S.lids)
    {
      auto a = S.eng()->getListenerAddress(lid);
      if (a.port == 0) { std::fprintf(stderr, "c02: engine listener did not bind\n"); std::exit(2); }
      S.lports.push_back(a.port);
    }
  }
  else if (!S.alive) return "bad-op";
  else if (v == "connect" || v == "close" || v == "send" || v == "stop" || v == "timer" || v == "via") doApi(v, t.size() > 2 ? t[2] : "");
  else if (v == "poll") { int to = t.size() > 2 ? std::atoi(t[2].c_str()) : 0; if (S.udp) steppedPoll(*S.udpE, to); else steppedPoll(*S.tcp, to); }
  else if (v == "ev" && t.size() > 3)
  {
    std::uint32_t m = 0;
    for (char c : t[3]) m |= c == 'i' ? EPOLLIN : c == 'o' ? EPOLLOUT : c == 'h' ? EPOLLHUP : c == 'e' ? EPOLLERR : 0;
    if (S.udp) steppedEvent(*S.udpE, pickKnown(t[2]), m); else steppedEvent(*S.tcp, pickKnown(t[2]), m);
  }
  else if (v == "gc")
  {
    if (!S.drained)
    {
      beginRec("gc", "gc");
      t_in = true;
      if (S.udp) S.udpE->runGc(); else S.tcp->runGc();
      t_in = false;
      endRec();
    }
  }
  else if (v == "clock" && t.size() > 2) g_clockOffsetNs.fetch_add(std::strtoll(t[2].c_str(), nullptr, 10) * 1000000LL);
  else if (v == "inject" && t.size() > 3)
  {
    std::lock_guard<std::mutex> g(g_injMx);
    g_inj[t[2]].push_back({t.size() > 4 ? std::atoi(t[4].c_str()) : 0, t[3]});
  }
  else if (v == "hookfail" && t.size() > 2 && !S.udp) S.tcp->hookFail.push_back(t[2]);
  else if (v == "oncb" && t.size() > 3) S.nested.push_back({t[2][0], t[3], t.size() > 4 ? t[4] : ""});
  else if (v == "restart")
  {
    // start() again on a drained engine (the real start() minus the thread); a running engine refuses ("already running")
    if (S.drained && !S.eng()->isRunning())
    {
      if (S.udp) manualStart(*S.udpE); else manualStart(*S.tcp);
      S.drained = false;
      emitLine("apistart");
    }
  }
  else if (v == "end")
  {
    // orderly stop: stop() + loop iterations until the drain has run
    if (!S.drained)
    {
      if (S.eng()->isRunning()) doApi("stop", "");
      for (int i = 0; i < 4 && !S.drained; ++i) { if (S.udp) steppedPoll(*S.udpE, 0); else steppedPoll(*S.tcp, 0); }
    }
    std::string k;
    for (auto s : S.known) k += (k.empty() ? "" : ",") + std::to_string(s);
    S.out.push_back("end known=" + (k.empty() ? std::string("-") : k) + " stats=" + statsStr());
    S.out.push_back("tagchecks " + std::to_string(g_tagChecks));
    g_tagChecks = 0;
  }
  else return "bad-op";
  tagCheck();
  std::string res;
  for (auto &l : S.out) { if (!res.empty()) res += " ;; "; res += l; }
  return res.empty() ? "-" : res;
}

// ============================================================================================ peers (environment)
static void setNonBlock(int fd) { int f = fcntl(fd, F_GETFL, 0); fcntl(fd, F_SETFL, f | O_NONBLOCK); }
static std::string peerOp(const std::vector<std::string> &t)
{
  static auto realBind = realFn<int (*)(int, const struct sockaddr *, socklen_t)>("bind");
  static auto realListen = realFn<int (*)(int, int)>("listen");
  static auto realConnect = realFn<int (*)(int, const struct sockaddr *, socklen_t)>("connect");
  static auto realSend = realFn<ssize_t (*)(int, const void *, size_t, int)>("send");
  static auto realRecv = realFn<ssize_t (*)(int, void *, size_t, int)>("recv");
  static auto realSendto = realFn<ssize_t (*)(int, const void *, size_t, int, const struct sockaddr *, socklen_t)>("sendto");
  const std::string &v = t[1];
  if (v == "listen")
  {
    int s = ::socket(AF_INET, SOCK_STREAM, 0);
    sockaddr_in a{};
    a.sin_family = AF_INET;
    a.sin_addr.s_addr = htonl(INADDR_LOOPBACK);
    int bl = t.size() > 2 ? std::atoi(t[2].c_str()) : 16;
    if (s < 0 || realBind(s, reinterpret_cast<sockaddr *>(&a), sizeof a) != 0 || realListen(s, bl) != 0) { std::fprintf(stderr, "c02: peer cannot listen\n"); std::exit(2); }
    socklen_t sl = sizeof a;
    getsockname(s, reinterpret_cast<sockaddr *>(&a), &sl);
    setNonBlock(s);
    g_peerL.push_back({s, ntohs(a.sin_port)});
  }
  else if (v == "accept" && !g_peerL.empty())
  {
    auto &l = g_peerL[(t.size() > 2 ? std::strtoul(t[2].c_str(), nullptr, 10) : 0) % g_peerL.size()];
    int c = ::accept(l.fd, nullptr, nullptr);
    if (c >= 0) { setNonBlock(c); g_peerC.push_back({c}); }
  }
  else if (v == "connect" && !S.lports.empty())
  {
    std::size_t li = (t.size() > 2 ? std::strtoul(t[2].c_str(), nullptr, 10) : 0) % S.lports.size();
    int s = ::socket(AF_INET, SOCK_STREAM, 0);
    sockaddr_in a{};
    a.sin_family = AF_INET;
    a.sin_port = htons(S.lports[li]);
    a.sin_addr.s_addr = htonl(INADDR_LOOPBACK);
    if (s >= 0 && realConnect(s, reinterpret_cast<sockaddr *>(&a), sizeof a) == 0) { setNonBlock(s); g_peerC.push_back({s}); }
    else if (s >= 0) ::close(s);
  }
  else if ((v == "send" || v == "fin" || v == "rst" || v == "drain" || v == "shut") && !g_peerC.empty())
  {
    auto &c = g_peerC[(t.size() > 2 ? std::strtoul(t[2].c_str(), nullptr, 10) : 0) % g_peerC.size()];
    if (c.fd < 0) return "-";
    if (v == "send") { std::string p(t.size() > 3 ? std::strtoul(t[3].c_str(), nullptr, 10) : 8, 'p'); (void)realSend(c.fd, p.data(), p.size(), MSG_NOSIGNAL); }
    else if (v == "shut") ::shutdown(c.fd, SHUT_WR);
    else if (v == "fin") { ::close(c.fd); c.fd = -1; }
    else if (v == "rst") { linger lg{1, 0}; setsockopt(c.fd, SOL_SOCKET, SO_LINGER, &lg, sizeof lg); ::close(c.fd); c.fd = -1; }
    else { char buf[65536]; while (realRecv(c.fd, buf, sizeof buf, 0) > 0) {} }
  }
  else if (v == "udp")
  {
    int s = ::socket(AF_INET, SOCK_DGRAM, 0);
    sockaddr_in a{};
    a.sin_family = AF_INET;
    a.sin_addr.s_addr = htonl(INADDR_LOOPBACK);
    if (s < 0 || realBind(s, reinterpret_cast<sockaddr *>(&a), sizeof a) != 0) { std::fprintf(stderr, "c02: udp peer cannot bind\n"); std::exit(2); }
    socklen_t sl = sizeof a;
    getsockname(s, reinterpret_cast<sockaddr *>(&a), &sl);
    setNonBlock(s);
    g_peerU.push_back({s, ntohs(a.sin_port)});
  }
  else if (v == "usend" && !g_peerU.empty() && !S.lports.empty())
  {
    // peer usend <peer> <listenerIndex> <n> : datagram to an engine listener
    auto &p = g_peerU[(t.size() > 2 ? std::strtoul(t[2].c_str(), nullptr, 10) : 0) % g_peerU.size()];
    std::size_t li = (t.size() > 3 ? std::strtoul(t[3].c_str(), nullptr, 10) : 0) % S.lports.size();
    sockaddr_in a{};
    a.sin_family = AF_INET;
    a.sin_port = htons(S.lports[li]);
    a.sin_addr.s_addr = htonl(INADDR_LOOPBACK);
    std::string d(t.size() > 4 ? std::strtoul(t[4].c_str(), nullptr, 10) : 4, 'u');
    (void)realSendto(p.fd, d.data(), d.size(), 0, reinterpret_cast<sockaddr *>(&a), sizeof a);
  }
  else if (v == "ureply" && !g_peerU.empty())
  {
    // peer ureply <peer> : answer whoever sent the last datagram to this peer socket (reaches a connected client session)
    auto &p = g_peerU[(t.size() > 2 ? std::strtoul(t[2].c_str(), nullptr, 10) : 0) % g_peerU.size()];
    char buf[2048];
    sockaddr_in from{};
    socklen_t fl = sizeof from;
    static auto realRecvfrom = realFn<ssize_t (*)(int, void *, size_t, int, struct sockaddr *, socklen_t *)>("recvfrom");
    ssize_t n = realRecvfrom(p.fd, buf, sizeof buf, 0, reinterpret_cast<sockaddr *>(&from), &fl);
    if (n >= 0) (void)realSendto(p.fd, "r", t.size() > 3 && t[3] == "0" ? 0 : 1, 0, reinterpret_cast<sockaddr *>(&from), fl);
  }
  else if (v == "uclose" && !g_peerU.empty())
  {
    // a closed peer port makes the kernel answer ICMP port unreachable: the connected client's next recv fails
    std::size_t k = (t.size() > 2 ? std::strtoul(t[2].c_str(), nullptr, 10) : 0) % g_peerU.size();
    ::close(g_peerU[k].fd);
    g_peerU[k].fd = ::socket(AF_INET, SOCK_DGRAM, 0); // keep the slot (unbound socket, other port)
    setNonBlock(g_peerU[k].fd);
  }
  return "-";
}

// ============================================================================================ threaded scenarios
struct Ev { char k; SessionId sid; std::string extra; long long cur; };
struct Scn
{
  std::mutex mx;
  std::vector<Ev> log;
  void add(char k, SessionId sid, const std::string &x, long long cur) { std::lock_guard<std::mutex> g(mx); log.push_back({k, sid, x, cur}); }
};
static std::uint64_t splitmix(std::uint64_t &s)
{
  s += 0x9E3779B97F4A7C15ULL;
  std::uint64_t z = s;
  z = (z ^ (z >> 30)) * 0xBF58476D1CE4E5B9ULL;
  z = (z ^ (z >> 27)) * 0x94D049BB133111EBULL;
  return z ^ (z >> 31);
}
// scn <tcp|udp> seed=<n> n=<sessions> batch=<0|1> et=<0|1> stopms=<ms> racers=<k> idle=<s> cto=<ms> mwq=<n> inj=<send EAGAIN count> nested=<0|1>
static std::string scenario(const std::vector<std::string> &t)
{
  steppedTeardown();
  t_harness = true;
  bool udp = t[1] == "udp";
  g_udpMode = udp;
  std::uint64_t seed = std::strtoull(kv(t, "seed", "1").c_str(), nullptr, 10);
  int nSess = std::atoi(kv(t, "n", "6").c_str());
  int stopMs = std::atoi(kv(t, "stopms", "60").c_str());
  int racers = std::atoi(kv(t, "racers", "2").c_str());
  bool nestedConnect = kv(t, "nested", "0") == "1";
  TransportConfig cfg;
  cfg.protocol = udp ? Protocol::UDP : Protocol::TCP;
  cfg.batching.enabled = kv(t, "batch", "0") == "1";
  cfg.useEdgeTriggered = kv(t, "et", "1") == "1";
  cfg.idleTimeout = std::chrono::seconds(std::atoi(kv(t, "idle", "0").c_str()));
  cfg.gcInterval = std::chrono::seconds(1);
  cfg.connectTimeout = milliseconds(std::atoi(kv(t, "cto", "1000").c_str()));
  cfg.maxWriteQueue = std::strtoul(kv(t, "mwq", "1024").c_str(), nullptr, 10);
  int injSend = std::atoi(kv(t, "inj", "0").c_str());
  std::unique_ptr<detail::EngineBase> eng;
  if (udp) eng = std::make_unique<UdpEngine>(cfg); else eng = std::make_unique<TcpEngine>(cfg);
  detail::EngineBase *E = eng.get();
  Scn sc;
  std::atomic<bool> stopping{false};
  std::atomic<int> nestedLeft{nestedConnect ? 3 : 0};
  closePeers();
  peerOp({"peer", "listen", "64"});
  peerOp({"peer", "listen", "0"}); // never accepted (tiny backlog)
  if (udp) { peerOp({"peer", "udp"}); peerOp({"peer", "udp"}); }
  std::uint16_t okPort = udp ? g_peerU[0].port : g_peerL[0].port;
  std::uint16_t closedPort = findClosedPort(udp);
  auto cur = [E]() { return static_cast<long long>(E->getStats().sessionsCurrent); };
  detail::EngineBase::Callbacks c;
  c.onAccept = [&](SessionId s, const TransportAddress &) { sc.add('A', s, "", cur()); };
  c.onConnect = [&](SessionId s, const TransportAddress &) { sc.add('N', s, "", cur()); };
  c.onData = [&](SessionId s, iora::core::BufferView, std::chrono::steady_clock::time_point) { sc.add('D', s, "", cur()); };
  c.onClose = [&](SessionId s, const TransportErrorInfo &e)
  {
    sc.add('K', s, std::string(codeName(e.code)) + "/" + msgClass(e.message), cur());
    if (stopping.load() && nestedLeft.fetch_sub(1) > 0)
    {
      auto r = E->connect("127.0.0.1", okPort, TlsMode::None);
      sc.add('R', r.isOk() ? r.value() : 0, r.isOk() ? "1n" : "0n", -1);
    }
  };
  c.onError = [](TransportError, const std::string &) {};
  E->setCallbacks(c);
  if (E->start().isErr()) { std::fprintf(stderr, "c02: engine start failed\n"); std::exit(2); }
  auto lr = E->addListener("127.0.0.1", 0, TlsMode::None);
  if (lr.isErr()) { std::fprintf(stderr, "c02: addListener failed\n"); std::exit(2); }
  std::uint16_t lport = E->getListenerAddress(lr.value()).port;
  S.lports = {lport};
  if (injSend > 0)
  {
    std::lock_guard<std::mutex> g(g_injMx);
    for (int i = 0; i < injSend; ++i) g_inj[udp ? "send" : "send"].push_back({0, "EAGAIN"});
    g_threadInject.store(true);
  }
  // application threads
  std::vector<std::thread> ths;
  std::mutex knownMx;
  std::vector<SessionId> known;
  auto worker = [&](int id)
  {
    t_harness = true;
    std::uint64_t s = seed * 7919 + static_cast<std::uint64_t>(id) * 104729;
    for (int i = 0; i < nSess; ++i)
    {
      std::uint64_t r = splitmix(s);
      int kind = static_cast<int>(r % 10);
      if (kind < 5)
      {
        std::uint16_t port = (kind == 0) ? closedPort : (kind == 1 && !udp) ? g_peerL[1].port : okPort;
        auto cr = E->connect("127.0.0.1", port, TlsMode::None);
        sc.add('R', cr.isOk() ? cr.value() : 0, cr.isOk() ? "1" : "0", -1);
        if (cr.isOk()) { std::lock_guard<std::mutex> g(knownMx); known.push_back(cr.value()); }
      }
      else if (kind < 7)
      {
        SessionId sid = 0;
        { std::lock_guard<std::mutex> g(knownMx); if (!known.empty()) sid = known[(r >> 8) % known.size()]; }
        if (sid) { E->close(sid); sc.add('X', sid, "", -1); }
      }
      else if (kind < 9)
      {
        SessionId sid = 0;
        { std::lock_guard<std::mutex> g(knownMx); if (!known.empty()) sid = known[(r >> 8) % known.size()]; }
        if (sid) { std::string p(64, 'x'); for (int k = 0; k < 4; ++k) E->send(sid, p.data(), p.size()); }
      }
      else
      {
        // a peer connects to the engine's listener / sends a datagram
        if (udp) peerOp({"peer", "usend", std::to_string(r % 2), "0", "8"});
        else peerOp({"peer", "connect", "0"});
      }
      if ((r >> 20) % 3 == 0) std::this_thread::sleep_for(std::chrono::microseconds((r >> 24) % 3000));
      // peers: accept / talk / hang up
      if (!udp)
      {
        peerOp({"peer", "accept", "0"});
        std::uint64_t q = splitmix(s);
        if (!g_peerC.empty())
        {
          if (q % 4 == 0) peerOp({"peer", "send", std::to_string(q >> 8), "16"});
          else if (q % 4 == 1) peerOp({"peer", "fin", std::to_string(q >> 8)});
          else if (q % 4 == 2) peerOp({"peer", "rst", std::to_string(q >> 8)});
        }
      }
      else if (kind == 3) peerOp({"peer", "ureply", "0"});
    }
  };
  // peers are shared state: only ONE worker drives peers; racers only call connect() in a tight loop around stop()
  ths.emplace_back(worker, 0);
  std::atomic<bool> raceGo{true};
  for (int k = 0; k < racers; ++k)
    ths.emplace_back([&, k]
    {
      t_harness = true;
      std::this_thread::sleep_for(milliseconds(stopMs > 2 ? stopMs - 2 : 0));
      for (int it = 0; it < 300 && raceGo.load(); ++it)
      {
        auto cr = E->connect("127.0.0.1", (k % 2) ? closedPort : okPort, TlsMode::None);
        sc.add('R', cr.isOk() ? cr.value() : 0, cr.isOk() ? "1r" : "0r", -1);
        if (cr.isErr()) break;
      }
    });
  std::this_thread::sleep_for(milliseconds(stopMs));
  stopping.store(true);
  sc.add('S', 0, "begin", -1);
  E->stop();
  sc.add('S', 0, "end", cur());
  raceGo.store(false);
  for (auto &th : ths) th.join();
  g_threadInject.store(false);
  { std::lock_guard<std::mutex> g(g_injMx); g_inj.clear(); }
  // restart=<k>: the REAL start() on the stopped engine (the stepped harness only replays what start() does), k more runs of
  // connect / accept traffic, each ended by an orderly stop: ids must keep counting across the restart (T4), every id of every run
  // gets its one close (T1/T2), the gauge is 0 after each stop (T6)
  int restarts = std::atoi(kv(t, "restart", "0").c_str());
  for (int run = 0; run < restarts; ++run)
  {
    sc.add('S', 0, "restart", -1);
    stopping.store(false);
    if (E->start().isErr()) { sc.add('S', 0, "restartFailed", -1); break; }
    auto lr2 = E->addListener("127.0.0.1", 0, TlsMode::None);
    std::uint16_t lport2 = lr2.isOk() ? E->getListenerAddress(lr2.value()).port : 0;
    S.lports = {lport2};
    std::uint64_t s2 = seed * 31 + static_cast<std::uint64_t>(run);
    for (int i = 0; i < 3 + static_cast<int>(splitmix(s2) % 4); ++i)
    {
      std::uint64_t r = splitmix(s2);
      if (r % 4 == 3 && lport2) { if (udp) peerOp({"peer", "usend", std::to_string(r % 2), "0", "8"}); else peerOp({"peer", "connect", "0"}); }
      else
      {
        auto cr = E->connect("127.0.0.1", (r % 4 == 0) ? closedPort : okPort, TlsMode::None);
        sc.add('R', cr.isOk() ? cr.value() : 0, cr.isOk() ? "1" : "0", -1);
      }
      if (!udp) peerOp({"peer", "accept", "0"});
    }
    std::this_thread::sleep_for(milliseconds(5 + static_cast<int>(splitmix(s2) % 25)));
    stopping.store(true);
    sc.add('S', 0, "begin", -1);
    E->stop();
    sc.add('S', 0, "end", cur());
  }
  auto st = E->getStats();
  std::string res = "scn";
  for (auto &e : sc.log)
    res += " " + std::string(1, e.k) + std::to_string(e.sid) + (e.extra.empty() ? "" : ":" + e.extra) + (e.cur >= 0 ? "@" + std::to_string(e.cur) : "");
  res += " | final=" + std::to_string(st.accepted) + "," + std::to_string(st.connected) + "," + std::to_string(st.closed) + "," +
         std::to_string(static_cast<long long>(st.sessionsCurrent));
  eng.reset();
  closePeers();
  S.lports.clear();
  return res;
}

// ============================================================================================ fan-out lockstep (Transport over the scripted engine)
// The scripted engine, with an I/O-thread identity: while the harness plays the engine (it is inside fe->cbs.onClose / onData)
// the calling thread IS the I/O thread, as in production where every engine callback runs there.  Transport::setReadMode and
// receiveSync refuse to run on it (std::logic_error): a `mode` action scripted inside a close callback must be refused too.
struct FanEngine : vh::FakeEngine
{
  std::thread::id io{};
  std::thread::id getIoThreadId() const override { return io; }
};
struct IoScope
{
  FanEngine *e; std::thread::id saved;
  explicit IoScope(FanEngine *x) : e(x), saved(x->io) { e->io = std::this_thread::get_id(); }
  ~IoScope() { e->io = saved; }
};
static std::string hexOf(const std::uint8_t *p, std::size_t n)
{
  static const char *d = "0123456789abcdef";
  std::string r;
  for (std::size_t i = 0; i < n; ++i) { r += d[p[i] >> 4]; r += d[p[i] & 15]; }
  return r;
}
static std::vector<std::uint8_t> unhex(const std::string &h)
{
  std::vector<std::uint8_t> r;
  for (std::size_t i = 0; i + 1 < h.size(); i += 2) r.push_back(static_cast<std::uint8_t>(std::strtoul(h.substr(i, 2).c_str(), nullptr, 16)));
  return r;
}
struct Fan
{
  std::shared_ptr<Transport> tr;
  FanEngine *fe = nullptr;
  std::vector<std::string> ev;
  std::map<unsigned long long, ObserverId> obs;  // script observer number -> real ObserverId
  // actions to run from inside callbacks: key = where ("G" global close cb, "O<n>" observer n, "C<tag>" cleanup), one-shot
  std::multimap<std::string, std::vector<std::string>> inside;
  std::list<int> tags;                               // storage for user-data pointers (payload = tag number)
};
static Fan F;
static void fanAct(const std::vector<std::string> &a, std::size_t from);
static void fanInside(const std::string &where)
{
  auto range = F.inside.equal_range(where);
  std::vector<std::vector<std::string>> acts;
  for (auto it = range.first; it != range.second; ++it) acts.push_back(it->second);
  F.inside.erase(range.first, range.second);
  // the callback's own fan-out actions first, then the setReadMode / receiveSync calls scripted for it (the two groups touch
  // disjoint state; the model driver runs them in the same order)
  auto isWin = [](const std::vector<std::string> &a) { return !a.empty() && (a[0] == "tmode" || a[0] == "trecv" || a[0] == "mode" || a[0] == "recv"); };
  for (auto &a : acts) if (!isWin(a)) fanAct(a, 0);
  for (auto &a : acts) if (isWin(a)) fanAct(a, 0);
}
static unsigned long long g_fanCounter = 0;
static void fanObserve(SessionId sid)
{
  unsigned long long n = ++g_fanCounter;
  ObserverId id = F.tr->observe(sid, [n](SessionId s, const TransportErrorInfo &)
  {
    F.ev.push_back("O" + std::to_string(s) + "." + std::to_string(n));
    fanInside("O" + std::to_string(n));
  });
  F.obs[n] = id;
}
static void fanAct(const std::vector<std::string> &a, std::size_t i)
{
  // observe <sid> (observers are numbered 1,2,.. in call order) | unobserve <n> | setdata <sid> <tag> (tag 0 = null data) | setdatanc <sid> <tag> (no cleanup fn) | close <sid> | getdata <sid>
  const std::string &v = a[i];
  if (v == "observe" && a.size() > i + 1) fanObserve(std::strtoull(a[i + 1].c_str(), nullptr, 10));
  else if (v == "unobserve" && a.size() > i + 1)
  {
    unsigned long long n = std::strtoull(a[i + 1].c_str(), nullptr, 10);
    auto it = F.obs.find(n);
    bool r = it != F.obs.end() ? F.tr->unobserve(it->second) : F.tr->unobserve(999999);
    F.ev.push_back(std::string("U") + std::to_string(n) + (r ? "+" : "-"));
  }
  else if ((v == "setdata" || v == "setdatanc") && a.size() > i + 2)
  {
    SessionId sid = std::strtoull(a[i + 1].c_str(), nullptr, 10);
    int tag = std::atoi(a[i + 2].c_str());
    void *p = nullptr;
    if (tag != 0) { F.tags.push_back(tag); p = &F.tags.back(); }
    if (v == "setdata")
      F.tr->setSessionData(sid, p, [sid](void *d)
      {
        int tg = *static_cast<int *>(d);
        F.ev.push_back("C" + std::to_string(sid) + "." + std::to_string(tg));
        fanInside("C" + std::to_string(tg));
      });
    else F.tr->setSessionData(sid, p, nullptr);
  }
  else if (v == "getdata" && a.size() > i + 1)
  {
    void *p = F.tr->getSessionData(std::strtoull(a[i + 1].c_str(), nullptr, 10));
    F.ev.push_back("D" + (p ? std::to_string(*static_cast<int *>(p)) : std::string("0")));
  }
  else if (v == "close" && a.size() > i + 1)
  {
    SessionId sid = std::strtoull(a[i + 1].c_str(), nullptr, 10);
    TransportErrorInfo info{TransportError::PeerClosed, "x"};
    IoScope io(F.fe);
    F.fe->cbs.onClose(sid, info);
  }
  else if (v == "tclose" && a.size() > i + 1)
  {
    // tclose <sid> : the APPLICATION calls the public Transport::close(sid).  X<sid> = the request reached the engine (nothing else
    // may happen locally: no callback, no observer removal, no tombstone); then the scripted engine honours it - one close handler
    // run on the I/O thread, exactly as `close <sid>`.
    SessionId sid = std::strtoull(a[i + 1].c_str(), nullptr, 10);
    F.fe->onCloseCall = [](SessionId s) { F.ev.push_back("X" + std::to_string(s)); };
    bool ok = F.tr->close(sid);
    F.fe->onCloseCall = nullptr;
    if (!ok) F.ev.push_back("X" + std::to_string(sid) + "-");
    TransportErrorInfo info{TransportError::Unknown, "x"};
    IoScope io(F.fe);
    F.fe->cbs.onClose(sid, info);
  }
  else if (v == "csync" && a.size() > i + 1)
  {
    // csync <sid> : the APPLICATION calls Transport::connectSync; the scripted engine hands out <sid> and reports the connect from its
    // I/O thread while the call waits (review F7, mutant C).  S<sid>+ = connectSync returned ok(<sid>): from now on the application HOLDS
    // the id, so its close must reach the global callback / observers like any other (the pendingConnects entry must be gone).
    SessionId sid = std::strtoull(a[i + 1].c_str(), nullptr, 10);
    F.fe->next = sid;
    std::thread io;
    F.fe->onConnectCall = [&io](SessionId s)
    {
      io = std::thread([s]
      {
        TransportAddress addr{"127.0.0.1", 9};
        F.fe->cbs.onConnect(s, addr); // blocks on syncMutex until connectSync waits
      });
    };
    auto r = F.tr->connectSync("127.0.0.1", 9, TlsMode::None, milliseconds(3000));
    F.fe->onConnectCall = nullptr;
    if (io.joinable()) io.join();
    F.ev.push_back("S" + std::to_string(sid) + (r.isOk() && r.value() == sid ? "+" : "-"));
  }
  else if ((v == "tmode" || v == "trecv") && a.size() > i + 2)
  {
    // tmode <sid> s|a|d | trecv <sid> <n> : the same calls as `mode` / `recv`, made on a HELPER thread that is joined before
    // this returns.  Scripted inside a close callback (`fan inside G tmode 1 a`) it is a COMPLETE application call of another
    // thread while the I/O thread is inside that callback of the close handler (on the I/O thread itself the call is refused).
    // F.ev is pushed from the helper while this thread waits in join(): no race.
    std::vector<std::string> b(a.begin() + static_cast<std::ptrdiff_t>(i), a.end());
    b[0] = v == "tmode" ? "mode" : "recv";
    std::string err;
    std::thread th([&b, &err]
    {
      try { fanAct(b, 0); }
      catch (const std::exception &ex) { err = std::string("throw:") + typeid(ex).name(); }
      catch (...) { err = "throw:?"; }
    });
    th.join();
    if (!err.empty()) F.ev.push_back(err);
  }
  else if (v == "mode" && a.size() > i + 2)
  {
    // mode <sid> s|a|d : Transport::setReadMode; M<sid>+ / M<sid>- = return value, M<sid>! = std::logic_error (I/O thread)
    SessionId sid = std::strtoull(a[i + 1].c_str(), nullptr, 10);
    ReadMode m = a[i + 2] == "s" ? ReadMode::Sync : a[i + 2] == "d" ? ReadMode::Disabled : ReadMode::Async;
    std::string r;
    try { r = F.tr->setReadMode(sid, m) ? "+" : "-"; }
    catch (const std::logic_error &) { r = "!"; }
    F.ev.push_back("M" + std::to_string(sid) + r);
  }
  else if (v == "data" && a.size() > i + 2)
  {
    // data <sid> <hex> : the engine reports payload for sid (on the I/O thread)
    SessionId sid = std::strtoull(a[i + 1].c_str(), nullptr, 10);
    std::vector<std::uint8_t> b = unhex(a[i + 2]);
    IoScope io(F.fe);
    F.fe->cbs.onData(sid, iora::core::BufferView{b.data(), b.size()}, std::chrono::steady_clock::now());
  }
  else if ((v == "connect" || v == "accept") && a.size() > i + 1)
  {
    // connect <sid> | accept <sid> : the engine announces sid (on the I/O thread)
    SessionId sid = std::strtoull(a[i + 1].c_str(), nullptr, 10);
    TransportAddress addr{"127.0.0.1", 9};
    IoScope io(F.fe);
    if (v == "connect") F.fe->cbs.onConnect(sid, addr);
    else F.fe->cbs.onAccept(sid, addr);
  }
  else if (v == "recv" && a.size() > i + 2)
  {
    // recv <sid> <n> : receiveSync with a zero timeout; R<sid>:<hex> | R<sid>:T (timeout) | R<sid>:P (PeerClosed) | R<sid>:! | R<sid>:E
    SessionId sid = std::strtoull(a[i + 1].c_str(), nullptr, 10);
    std::size_t n = std::strtoul(a[i + 2].c_str(), nullptr, 10);
    std::vector<std::uint8_t> b(n ? n : 1);
    std::size_t len = n;
    std::string r;
    try
    {
      auto res = F.tr->receiveSync(sid, b.data(), len, milliseconds(0));
      if (res.isOk()) r = hexOf(b.data(), len);
      else r = res.error().code == TransportError::Timeout ? "T" : res.error().code == TransportError::PeerClosed ? "P"
             : res.error().code == TransportError::BufferOverflow ? "V" : "E";
    }
    catch (const std::logic_error &) { r = "!"; }
    F.ev.push_back("R" + std::to_string(sid) + ":" + r);
  }
}
static std::string fanOp(const std::vector<std::string> &t)
{
  const std::string &v = t[1];
  F.ev.clear();
  if (v == "reset")
  {
    F = Fan{};
    g_fanCounter = 0;
    auto fe = std::make_unique<FanEngine>();
    F.fe = fe.get();
    TransportConfig cfg;
    // fan reset <globalClose> [<dataCb> [<maxSyncReceiveBuffer> <syncBufferGcThreshold> [<allowReadModeSwitch>]]] : the global
    // data / connect / accept callbacks log what Transport delivers
    if (t.size() > 5)
    {
      cfg.maxSyncReceiveBuffer = std::strtoul(t[4].c_str(), nullptr, 10);
      cfg.syncBufferGcThreshold = std::strtoul(t[5].c_str(), nullptr, 10);
    }
    if (t.size() > 6) cfg.allowReadModeSwitch = t[6] == "1";
    F.tr = iora::network::test::TransportEngineInjector::withEngine(std::move(fe), cfg);
    bool global = t.size() > 2 && t[2] == "1";
    bool dataCb = !(t.size() > 3 && t[3] == "0");
    if (dataCb)
      F.tr->onData([](SessionId s, iora::core::BufferView v, std::chrono::steady_clock::time_point)
      { F.ev.push_back("D" + std::to_string(s) + ":" + hexOf(v.data(), v.size())); });
    F.tr->onConnect([](SessionId s, const TransportAddress &) { F.ev.push_back("N" + std::to_string(s)); });
    F.tr->onAccept([](SessionId s, const TransportAddress &) { F.ev.push_back("A" + std::to_string(s)); });
    if (global)
      F.tr->onClose([](SessionId s, const TransportErrorInfo &)
      {
        F.ev.push_back("G" + std::to_string(s));
        fanInside("G");
      });
    return "-";
  }
  if (!F.tr) return "bad-op";
  if (v == "inside" && t.size() > 3)
  {
    // fan inside <where> <action...> : run the action from inside that callback (one-shot)
    F.inside.emplace(t[2], std::vector<std::string>(t.begin() + 3, t.end()));
    return "-";
  }
  std::vector<std::string> a(t.begin() + 1, t.end());
  fanAct(a, 0);
  std::string r;
  for (auto &e : F.ev) { if (!r.empty()) r += ","; r += e; }
  return r.empty() ? "-" : r;
}

int main(int argc, char **argv)
{
  t_harness = true;
  signal(SIGPIPE, SIG_IGN);
  iora::core::Logger::setLevel(iora::core::Logger::Level::Fatal);
  g_certDir = argc > 1 ? argv[1] : "";
  if (const char *e = std::getenv("C02_CERT_DIR")) g_certDir = e;
  int rc = vh::runLines([&](const std::vector<std::string> &t) -> std::string
  {
    try
    {
      if (t.empty()) return "bad-op";
      if ((t[0] == "tcp" || t[0] == "udp") && t.size() > 1) return steppedOp(t);
      if (t[0] == "peer" && t.size() > 1) return peerOp(t);
      if (t[0] == "scn" && t.size() > 1) return scenario(t);
      if (t[0] == "fan" && t.size() > 1) return fanOp(t);
      if (t[0] == "counters")
      {
        std::string r = "counters";
        std::lock_guard<std::mutex> g(g_injMx);
        for (auto &kv2 : g_fire) r += " " + kv2.first + "=" + std::to_string(kv2.second) + "/" + std::to_string(g_injected[kv2.first]);
        return r;
      }
      return "bad-op";
    }
    catch (const std::exception &ex) { return std::string("throw ") + typeid(ex).name(); }
  });
  steppedTeardown();
  F = Fan{};
  return rc;
}
