// C09 harness: the REAL iora::core::ThreadPool under DetSched (harness/detsched), scripted tasks, canonical trace.
//
// Input (stdin), one case = a group of lines:
//   reset <initialSize> <maxSize> <maxQueue> <mode 0 IMMEDIATE|1 GRACEFUL|2 DETACHED> <hook 0|1>
//   body <0 returns|1 throws|2 throws and the error handler throws once> <acts>
//   ctl <op> ...                        script of an additional controller thread (index = order): a= d= stop sd
//   (body) <acts>            acts = "-" or comma separated "<mode>:<bodyIndex>", mode e = enqueue,
//                                       t = tryEnqueue, r = enqueueWithResult        (one line per body, index = order)
//   main <op> ...                       a=<act>  s=<acts> (create a submitter thread)  j (join submitters)
//                                       d=<timeoutMs> (drain)  stop  sd (shutdown)  x (destroy the pool)
//                                       c=<ix> (create controller thread ix)  rs (reset() + start())
//   run <seed> <idleTimeoutMs> <timeoutOneIn> <spuriousOneIn> [<choice>,<choice>,...]
// Output for `run` (the other lines answer nothing):
//   ev <tid> <kind> <obj> <detail> <alt> [<tag> <n>] | <expected answer of the Lean acceptor>     (one per DetSched event)
//   end | <expected `end` line of the acceptor>
//   mon <monitor facts>                 (implementation-only observations, see props/c09.py)
//   done <ok|deadlock|steplimit|diverged|exception> steps=<n> choices=<c,c,...>
#include <algorithm>
#include <atomic>
#include <chrono>
#include <condition_variable>
#include <cstdio>
#include <cstdlib>
#include <cstring>
#include <exception>
#include <functional>
#include <future>
#include <iostream>
#include <list>
#include <map>
#include <memory>
#include <mutex>
#include <optional>
#include <queue>
#include <sstream>
#include <stdexcept>
#include <string>
#include <thread>
#include <unordered_map>
#include <unordered_set>
#include <vector>

#include <iora/core/logger.hpp>
#include <iora/common/i_lifecycle_managed.hpp>
#define private public
#define protected public
#include <iora/core/thread_pool.hpp>
#undef private
#undef protected

#include "common/lineproto.hpp"
#include "detsched/detsched.hpp"

using iora::core::ThreadPool;

namespace {

struct Act { char mode; int body; };
struct Body { bool throws; bool hthrow; std::vector<Act> acts; };
struct MOp { std::string kind; Act act{'e', 0}; std::vector<Act> script; unsigned long long n = 0; };

struct Case
{
  std::size_t initialSize = 1, maxSize = 2, maxQueue = 8;
  int mode = 0;   // 0 IMMEDIATE, 1 GRACEFUL, 2 DETACHED
  bool hook = false;
  std::vector<Body> bodies;
  std::vector<MOp> main;
  std::vector<std::vector<MOp>> ctls;
};

struct TaskError : std::runtime_error
{
  int id;
  explicit TaskError(int i) : std::runtime_error("task"), id(i) {}
};
struct HandlerError : std::runtime_error
{
  int id;
  explicit HandlerError(int i) : std::runtime_error("handler"), id(i) {}
};

struct Sub { int id; char mode; char res; char why; int tid; long seq; int body; };   // res: a accepted, d/s/f refused; why: reason seen in the pool state
struct Run
{
  const Case* c = nullptr;
  ThreadPool* pool = nullptr;
  bool destroyed = false;
  long seq = 0;    // number of harness yields so far
  long tick = 0;   // total order of the recorded facts (everything is serialised under DetSched)
  int nextId = 0;
  long nAcc = 0, nD = 0, nS = 0, nF = 0, nStart = 0, nDone = 0;
  std::vector<Sub> subs;
  std::vector<int> startCnt, doneCnt, handled, taskBody;
  std::vector<char> outcome;          // n none, v value, x exception
  std::vector<long> startSeq, doneSeq;
  std::vector<int> startTid;
  std::map<int, std::future<int>> futures;
  std::vector<std::string> snaps;     // one per harness yield, in global order
  std::vector<int> mlog;
  std::vector<long> mlogSeq;
  std::vector<long> mlogCall;   // tick taken when the call began (a shutdown() caller may return after a restart)
  std::vector<long> rsBegin;     // tick at which a successful restart (reset() + start()) began: the epoch boundary of the monitors
  std::vector<std::thread*> subThreads;
  std::vector<int> subTids;
  std::string problems;               // monitor facts found while running
  std::size_t maxThreadsSeen = 0;   // at the harness' own yields
  std::size_t maxThreadsSeenAll = 0; // at EVERY scheduling decision (ds::set_step_hook)
  long samples = 0;
  std::size_t effMax = 0;             // the pool's _maxSize (after the constructor's clamp)
  const void* hMutex = nullptr; const void* hCfg = nullptr; const void* hCond = nullptr;
  long futureEarly = 0;
};

Run* R = nullptr;

void grow(int id)
{
  std::size_t n = static_cast<std::size_t>(id) + 1;
  if (R->startCnt.size() < n)
  {
    R->startCnt.resize(n, 0); R->doneCnt.resize(n, 0); R->handled.resize(n, 0); R->taskBody.resize(n, -1); R->outcome.resize(n, 'n');
    R->startSeq.resize(n, -1); R->doneSeq.resize(n, -1); R->startTid.resize(n, -1);
  }
}

std::string snapshot()
{
  if (R->destroyed || !R->pool) return "*";
  ThreadPool& p = *R->pool;
  std::size_t w = p._threads.size();
  if (w > R->maxThreadsSeen) R->maxThreadsSeen = w;
  // a future must not be ready before its task's body has finished
  for (auto& kv : R->futures)
    if (kv.second.valid() && kv.second.wait_for(std::chrono::seconds(0)) == std::future_status::ready &&
        R->doneCnt[static_cast<std::size_t>(kv.first)] == 0)
      R->futureEarly++;
  char b[400];
  std::snprintf(b, sizeof b, "snap q=%zu w=%zu sd=%d acc=%d life=%d act=%zu busy=%zu cr=%d ex=%d wt=%d id=%d st=%ld dn=%ld",
                p._tasks.size(), w, p._shutdown.load() ? 1 : 0, p._accepting.load() ? 1 : 0, static_cast<int>(p._lifecycleState.load()),
                p._activeThreads.load(), p._busyThreads.load(), p._threadsCreated.load(), p._threadsExited.load(), p._waitingThreads.load(),
                R->nextId, R->nStart, R->nDone);
  return b;
}

struct YieldRec { std::string tag; int n; };
std::vector<YieldRec>* g_yields = nullptr;

// harness yield: an explicit DetSched scheduling point.  When this thread is scheduled again it first takes a snapshot of
// the real object (= the state before this step's own code), then runs `pre` (id allocation), which returns the number
// reported with the event.
template <typename F> void vp(const char* tag, F&& pre)
{
  ds::yield_point(tag);
  R->snaps.push_back(snapshot());
  int n = pre();
  g_yields->push_back(YieldRec{tag, n});
  R->seq++;
}
void vp(const char* tag, int n) { vp(tag, [n] { return n; }); }

// IORA_VERIF_POINT(tag) inside the pool (fixes/HOOK-thread-pool.patch): an extra scheduling point + snapshot
void hookPoint(const char* tag)
{
  if (!ds::active() || ds::self() < 0 || !R || !R->c->hook) return;
  vp(tag, 0);
}

// called before every scheduling decision: the pool must never have more registered workers than its maximum
void stepHook(void*)
{
  if (!R || R->destroyed || !R->pool) return;
  std::size_t w = R->pool->_threads.size();
  if (w > R->maxThreadsSeenAll) R->maxThreadsSeenAll = w;
  R->samples++;
}

void runBody(int id, int bodyIx);

void doCall(const Act& a)
{
  int id = -1;
  bool acceptingAtCall = true;
  vp("call", [&] {
    id = R->nextId++;
    grow(id);
    R->taskBody[static_cast<std::size_t>(id)] = a.body;
    acceptingAtCall = R->pool->_accepting.load();
    return id;
  });
  ThreadPool& p = *R->pool;
  int bodyIx = a.body;
  char res = 'a';
  try
  {
    if (a.mode == 'e') p.enqueue([id, bodyIx] { runBody(id, bodyIx); });
    else if (a.mode == 't') { if (!p.tryEnqueue([id, bodyIx] { runBody(id, bodyIx); })) res = '?'; }
    else { R->futures[id] = p.enqueueWithResult([id, bodyIx]() -> int { runBody(id, bodyIx); return id * 7 + 1; }); }
  }
  catch (const std::runtime_error& e)
  {
    std::string m = e.what();
    if (m.find("draining") != std::string::npos) res = 'd';
    else if (m.find("shutting down") != std::string::npos) res = 's';
    else if (m.find("full") != std::string::npos) res = 'f';
    else res = '!';
    if (a.mode == 'r') R->futures.erase(id);
  }
  // the reason as visible in the pool's state in the step in which the call returned (the refusing critical section
  // has just ended in this very step, so _shutdown/_tasks are what the call saw)
  char why = '-';
  if (res != 'a')
  {
    if (!acceptingAtCall) why = 'd';
    else if (p._shutdown.load()) why = 's';
    else if (p._tasks.size() >= p._maxQueueSize) why = 'f';
    else why = '0';
    if (res == '?') res = (why == '0') ? '!' : why;
  }
  if (res == 'a') R->nAcc++; else if (res == 'd') R->nD++; else if (res == 's') R->nS++; else if (res == 'f') R->nF++;
  R->subs.push_back(Sub{id, a.mode, res, why, ds::self(), R->tick++, a.body});
}

void runBody(int id, int bodyIx)
{
  grow(id);
  R->startCnt[static_cast<std::size_t>(id)]++;
  R->startSeq[static_cast<std::size_t>(id)] = R->tick++;
  R->startTid[static_cast<std::size_t>(id)] = ds::self();
  R->nStart++;
  if (R->destroyed) R->problems += " start-after-destroy:" + std::to_string(id);
  const Body& b = R->c->bodies[static_cast<std::size_t>(bodyIx)];
  vp("b", id);
  for (const Act& a : b.acts) doCall(a);
  R->doneCnt[static_cast<std::size_t>(id)]++;
  R->doneSeq[static_cast<std::size_t>(id)] = R->tick++;
  R->nDone++;
  R->outcome[static_cast<std::size_t>(id)] = b.throws ? 'x' : 'v';
  if (b.throws) throw TaskError(id);
}

void subMain(std::vector<Act> script)
{
  R->subTids.push_back(ds::self());
  for (const Act& a : script) doCall(a);
}

void mlog(int code, long call = -1) { R->mlog.push_back(code); long q = R->tick++; R->mlogSeq.push_back(q); R->mlogCall.push_back(call < 0 ? q : call); }

void ctlMain(std::vector<MOp> ops);

// one controller operation (thread 0 or an additional controller thread); `owner` = thread 0
void execOp(const MOp& op, bool owner)
{
  ThreadPool& p = *R->pool;
  if (op.kind == "a") doCall(op.act);
  else if (op.kind == "s")
  {
    auto script = op.script;
    R->subThreads.push_back(new std::thread([script] { subMain(script); }));
  }
  else if (op.kind == "c")
  {
    auto ops = R->c->ctls[static_cast<std::size_t>(op.n)];
    R->subThreads.push_back(new std::thread([ops] { ctlMain(ops); }));
  }
  else if (op.kind == "j")
  {
    for (auto* t : R->subThreads) { t->join(); delete t; }
    R->subThreads.clear();
  }
  else if (op.kind == "d")
  {
    auto r = p.drain(static_cast<std::uint32_t>(op.n));
    mlog(r.success ? 1 : (r.message.rfind("Can only", 0) == 0 ? 3 : 2));
  }
  else if (op.kind == "stop")
  {
    long c0 = R->tick++;
    auto r = p.stop();
    if (r.success) { mlog(7, c0); mlog(4, c0); }
    else if (r.message.rfind("Drain failed", 0) == 0) mlog(5);
    else mlog(6);
  }
  else if (op.kind == "sd") { long c0 = R->tick++; p.shutdown(); mlog(7, c0); }
  else if (op.kind == "rs" && owner)
  {
    long t0 = R->tick++;
    auto r = p.reset();
    if (!r.success) mlog(11);
    else { R->rsBegin.push_back(t0); p.start(); mlog(10); }
  }
  else if (op.kind == "x" && owner)
  {
    delete R->pool;
    R->destroyed = true;
    mlog(8);
  }
}

void ctlMain(std::vector<MOp> ops)
{
  R->subTids.push_back(ds::self());
  for (const MOp& op : ops)
  {
    vp("m", 0);
    execOp(op, false);
  }
  vp("m", 0);
}

void mainProgram(long idleMs)
{
  const Case& c = *R->c;
  R->pool = new ThreadPool(c.initialSize, c.maxSize, std::chrono::milliseconds(idleMs), c.maxQueue,
                           [](std::exception_ptr ep) {
                             try { std::rethrow_exception(ep); }
                             catch (const TaskError& e)
                             {
                               grow(e.id);
                               R->handled[static_cast<std::size_t>(e.id)]++;
                               int b = R->taskBody[static_cast<std::size_t>(e.id)];
                               if (b >= 0 && R->c->bodies[static_cast<std::size_t>(b)].hthrow) throw HandlerError(e.id);
                             }
                             catch (const HandlerError& e) { grow(e.id); R->handled[static_cast<std::size_t>(e.id)]++; }
                             catch (...) { R->problems += " foreign-exception-in-handler"; }
                           },
                           c.mode == 2 ? ThreadPool::ShutdownMode::DETACHED
                                       : (c.mode == 1 ? ThreadPool::ShutdownMode::GRACEFUL : ThreadPool::ShutdownMode::IMMEDIATE));
  R->effMax = R->pool->_maxSize;
  R->hMutex = R->pool->_mutex.native_handle();
  R->hCfg = R->pool->_configMutex.native_handle();
  R->hCond = R->pool->_condition.native_handle();
  for (const MOp& op : c.main)
  {
    vp("m", 0);
    execOp(op, true);
  }
  vp("m", 0);
}

bool parseActs(const std::string& s, std::vector<Act>& out)
{
  out.clear();
  if (s == "-") return true;
  std::stringstream ss(s);
  std::string item;
  while (std::getline(ss, item, ','))
  {
    if (item.size() < 3 || item[1] != ':' || (item[0] != 'e' && item[0] != 't' && item[0] != 'r')) return false;
    out.push_back(Act{item[0], std::atoi(item.c_str() + 2)});
  }
  return true;
}

char objClass(const ds::Event& e, int iM, int iC, int iV)
{
  if (e.obj < 0) return '-';
  if (e.obj == iM) return 'm';
  if (e.obj == iC) return 'c';
  if (e.obj == iV) return 'v';
  return '?';
}

void runCase(const Case& c, const std::vector<std::string>& t)
{
  unsigned long long seed = 1, idleMs = 100, toIn = 8, spIn = 0;
  vh::parseNat(t[1], seed); vh::parseNat(t[2], idleMs); vh::parseNat(t[3], toIn); vh::parseNat(t[4], spIn);
  ds::Options o;
  o.timeoutOneIn = static_cast<unsigned>(toIn);
  o.spuriousOneIn = static_cast<unsigned>(spIn);
  o.maxSteps = 120000;   // ordinary runs need < 6000 steps; only a drain(0) (one hour of polling) or a starved tail gets here
  ds::options(o);
  if (t.size() > 5 && t[5] != "-")
  {
    std::vector<std::uint32_t> ch;
    std::stringstream ss(t[5]);
    std::string item;
    while (std::getline(ss, item, ',')) ch.push_back(static_cast<std::uint32_t>(std::strtoul(item.c_str(), nullptr, 10)));
    ds::init(ch);
  }
  else ds::init(seed);
  ds::set_step_hook(&stepHook, nullptr);
  R = new Run();          // leaked on purpose when the run dead-locks (abandoned threads still point into it)
  R->c = &c;
  g_yields = new std::vector<YieldRec>();
  bool ok = false;
  std::string status = "ok";
  try { ok = ds::run([&] { mainProgram(static_cast<long>(idleMs)); }); }
  catch (const std::exception& e) { status = std::string("exception:") + e.what(); ok = true; }
  if (!ok) status = ds::deadlocked() ? "deadlock" : (ds::stepLimit() ? "steplimit" : "diverged");

  // ---- trace, annotated for the acceptor
  const auto& tr = ds::trace();
  int iM = ds::object_index(R->hMutex), iC = ds::object_index(R->hCfg), iV = ds::object_index(R->hCond);
  std::vector<char> oc(tr.size());
  for (std::size_t i = 0; i < tr.size(); ++i) oc[i] = objClass(tr[i], iM, iC, iV);
  std::size_t yi = 0;
  std::string out;
  for (std::size_t i = 0; i < tr.size(); ++i)
  {
    const ds::Event& e = tr[i];
    long alt = 0;
    // next events of the same thread
    auto nextOf = [&](std::size_t from, int k) -> const ds::Event* {
      int seen = 0;
      for (std::size_t j = from + 1; j < tr.size(); ++j)
        if (tr[j].tid == e.tid && tr[j].kind != ds::TIMEOUT && tr[j].kind != ds::SPURIOUS) { if (seen == k) return &tr[j]; seen++; }
      return nullptr;
    };
    if (e.kind == ds::SIGNAL) alt = e.detail >= 0 ? e.detail : 0;
    else if (e.kind == ds::REACQ)
    {
      const ds::Event* n1 = nextOf(i, 0);
      // late = the wait reported a time-out (DetSched: woken by TIMEOUT, or the virtual clock passed the deadline); the
      // look-ahead (not waiting again although the predicate may be false) covers a libstdc++ that decides differently
      alt = (e.detail == 1 || (n1 && n1->kind != ds::WAIT)) ? 1 : 0;
    }
    else if (e.kind == ds::LOCK && oc[i] == 'm')
    {
      const ds::Event* n1 = nextOf(i, 0);
      const ds::Event* n2 = nextOf(i, 1);
      if (n1 && n2 && n1->kind == ds::UNLOCK && (n2->kind == ds::JOIN || n2->kind == ds::DETACH)) alt = n2->detail;
    }
    char line[600];
    if (e.kind == ds::YIELD)
    {
      std::string expect = "?";
      int n = 0;
      std::string tag = e.tag ? e.tag : "";
      if (yi < g_yields->size()) { expect = R->snaps[yi]; n = (*g_yields)[yi].n; if ((*g_yields)[yi].tag != tag) expect = "yield-order-mismatch"; }
      yi++;
      std::snprintf(line, sizeof line, "ev %d %c %c %ld %ld %s %d | %s\n", e.tid, e.kind, oc[i], e.detail, alt, tag.c_str(), n, expect.c_str());
    }
    else
      std::snprintf(line, sizeof line, "ev %d %c %c %ld %ld | ok\n", e.tid, e.kind, oc[i], e.detail, alt);
    out += line;
  }
  // ---- expected `end` line of the acceptor
  {
    std::string s = "end quiesced=";
    // a join loop completed iff shutdown()/stop()/the destructor's phase 4 ran to the end: code 7 or (8 without an earlier 7)
    bool q = false;
    for (int m : R->mlog) { if (m == 7 || m == 8) q = true; if (m == 10) q = false; }
    s += q ? "1" : "0";
    s += " mlog=";
    // several controller threads: the log is compared as a multiset (sorted)
    std::vector<int> sorted(R->mlog);
    std::sort(sorted.begin(), sorted.end());
    for (std::size_t i = 0; i < sorted.size(); ++i) { if (i) s += ","; s += std::to_string(sorted[i]); }
    s += " ";
    std::map<int, const Sub*> byId;
    for (const Sub& sb : R->subs) byId[sb.id] = &sb;
    if (R->nextId == 0) s += "-";
    for (int id = 0; id < R->nextId; ++id)
    {
      grow(id);
      auto it = byId.find(id);
      char r = it == byId.end() ? 'p' : it->second->res;
      char b[100];
      std::snprintf(b, sizeof b, "%s%d:%c:%d:%d:%c:%d", id ? " " : "", id, r, R->startCnt[static_cast<std::size_t>(id)], R->doneCnt[static_cast<std::size_t>(id)],
                    R->outcome[static_cast<std::size_t>(id)], R->handled[static_cast<std::size_t>(id)]);
      s += b;
    }
    out += "end | " + s + "\n";
  }
  // ---- monitor facts (implementation only)
  {
    std::string s = "mon max=" + std::to_string(R->effMax) + " maxThreadsSeen=" + std::to_string(std::max(R->maxThreadsSeen, R->maxThreadsSeenAll)) + " samples=" + std::to_string(R->samples) +
                    " futureEarly=" + std::to_string(R->futureEarly) + " subs=";
    for (std::size_t i = 0; i < R->subs.size(); ++i)
    {
      const Sub& sb = R->subs[i];
      char b[100];
      std::snprintf(b, sizeof b, "%s%d:%c:%c:%c:%d:%ld:%d", i ? "," : "", sb.id, sb.mode, sb.res, sb.why, sb.tid, sb.seq, sb.body);
      s += b;
    }
    if (R->subs.empty()) s += "-";
    s += " tasks=";
    for (int id = 0; id < R->nextId; ++id)
    {
      char b[120];
      std::size_t k = static_cast<std::size_t>(id);
      std::snprintf(b, sizeof b, "%s%d:%d:%d:%ld:%ld:%d", id ? "," : "", id, R->startCnt[k], R->doneCnt[k], R->startSeq[k], R->doneSeq[k], R->handled[k]);
      s += b;
    }
    if (R->nextId == 0) s += "-";
    s += " futures=";
    bool first = true;
    if (status == "ok" || status.rfind("exception", 0) == 0)
      for (auto& kv : R->futures)
      {
        std::string v = "invalid";
        if (kv.second.valid())
        {
          if (kv.second.wait_for(std::chrono::seconds(0)) != std::future_status::ready) v = "notready";
          else
          {
            try { int x = kv.second.get(); v = (x == kv.first * 7 + 1) ? "value" : "wrongvalue"; }
            catch (const TaskError& e) { v = (e.id == kv.first) ? "exc" : "wrongexc"; }
            catch (const std::future_error&) { v = "broken"; }
            catch (...) { v = "otherexc"; }
          }
        }
        s += (first ? "" : ",") + std::to_string(kv.first) + ":" + v;
        first = false;
      }
    if (first) s += "-";
    s += " mlog=";
    for (std::size_t i = 0; i < R->mlog.size(); ++i) { char b[60]; std::snprintf(b, sizeof b, "%s%d@%ld@%ld", i ? "," : "", R->mlog[i], R->mlogSeq[i], R->mlogCall[i]); s += b; }
    if (R->mlog.empty()) s += "-";
    s += " rsbegin=";
    for (std::size_t i = 0; i < R->rsBegin.size(); ++i) s += (i ? "," : "") + std::to_string(R->rsBegin[i]);
    if (R->rsBegin.empty()) s += "-";
    s += " subtids=";
    for (std::size_t i = 0; i < R->subTids.size(); ++i) s += (i ? "," : "") + std::to_string(R->subTids[i]);
    if (R->subTids.empty()) s += "-";
    s += " problems=" + (R->problems.empty() ? std::string("-") : R->problems);
    out += s + "\n";
  }
  if (status == "deadlock" || status == "steplimit" || status == "diverged")
  {
    std::string rep = ds::report();
    for (char& ch : rep) if (ch == '\n') ch = ';';
    out += "report " + rep + "\n";
  }
  out += "done " + status + " steps=" + std::to_string(ds::steps()) + " choices=" + ds::choicesString() + "\n";
  std::fwrite(out.data(), 1, out.size(), stdout);
  std::fflush(stdout);
}

} // namespace

int main()
{
  iora::core::Logger::setLevel(iora::core::Logger::Level::Fatal);
#ifdef IORA_VERIF_POINT
  iora::verif::pointHook() = &hookPoint;
  std::puts("hook present");
#else
  std::puts("hook absent");
#endif
  Case* cur = new Case();
  std::string line;
  while (std::getline(std::cin, line))
  {
    auto t = vh::split(line);
    if (t.empty()) continue;
    if (t[0] == "reset" && t.size() == 6)
    {
      cur = new Case();   // previous cases may still be referenced by abandoned threads
      unsigned long long a = 0, b = 0, q = 0;
      vh::parseNat(t[1], a); vh::parseNat(t[2], b); vh::parseNat(t[3], q);
      cur->initialSize = a; cur->maxSize = b; cur->maxQueue = q;
      cur->mode = std::atoi(t[4].c_str()); cur->hook = t[5] == "1";
    }
    else if (t[0] == "body" && t.size() == 3)
    {
      Body b; b.throws = t[1] != "0"; b.hthrow = t[1] == "2";
      if (!parseActs(t[2], b.acts)) { std::puts("bad-op"); continue; }
      cur->bodies.push_back(b);
    }
    else if (t[0] == "main" || t[0] == "ctl")
    {
      std::vector<MOp> ops;
      for (std::size_t i = 1; i < t.size(); ++i)
      {
        MOp op;
        auto eq = t[i].find('=');
        op.kind = t[i].substr(0, eq);
        std::string arg = eq == std::string::npos ? "" : t[i].substr(eq + 1);
        if (op.kind == "a") { std::vector<Act> v; parseActs(arg, v); if (v.size() == 1) op.act = v[0]; }
        else if (op.kind == "s") parseActs(arg, op.script);
        else if (op.kind == "d" || op.kind == "c") vh::parseNat(arg, op.n);
        ops.push_back(op);
      }
      if (t[0] == "main") cur->main = ops; else cur->ctls.push_back(ops);
    }
    else if (t[0] == "run" && t.size() >= 5) runCase(*cur, t);
    else std::puts("bad-op");
  }
  std::fflush(stdout);
  return 0;
}
