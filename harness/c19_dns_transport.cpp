// Correspondence harness for C19 / N6: the real DnsTransport receive side (private), reached without starting the transport.
//  * `resp …`: pending queries are injected into `pendingQueries_`, the response bytes are handed to processResponse, and what
//    completes (result / error / nothing) is observed through the query callbacks.
//  * `t …` (stateful, a case starts with `t reset`): the REAL data callbacks handleTcpData / handleUdpData / handleClose on a
//    transport with three configured server:port pairs, `sessionToServer_` and `pendingQueries_` injected, `tcpTransport_`
//    a Transport over a scripted engine that records every close(); every read is an exact-size heap copy (AddressSanitizer
//    sees any read past the end of a segment), and the message handed to processResponse is the code's own exact-size vector.
#include <algorithm>
#include <arpa/inet.h>
#include <atomic>
#include <chrono>
#include <condition_variable>
#include <cstdint>
#include <cstdio>
#include <cstring>
#include <deque>
#include <exception>
#include <fstream>
#include <functional>
#include <future>
#include <iomanip>
#include <iostream>
#include <limits>
#include <list>
#include <map>
#include <memory>
#include <mutex>
#include <optional>
#include <queue>
#include <random>
#include <set>
#include <sstream>
#include <stdexcept>
#include <string>
#include <thread>
#include <typeinfo>
#include <unordered_map>
#include <unordered_set>
#include <vector>
#include <cxxabi.h>
#include <openssl/ssl.h>
#include <openssl/err.h>
#define private public
#define protected public
#include "iora/network/dns/dns_transport.hpp"
#undef private
#undef protected
#include "common/lineproto.hpp"
#include "common/fake_engine.hpp"

using namespace iora::network::dns;
using namespace iora::network;
using vh::Bytes;

static std::string demangle(const char* n)
{
  int st = 0;
  char* d = abi::__cxa_demangle(n, nullptr, nullptr, &st);
  std::string s = (st == 0 && d) ? d : n;
  std::free(d);
  for (auto& c : s) if (c == ' ') c = '_';
  return s;
}

static std::unique_ptr<DnsTransport> g_t;
static const char* kServer = "127.0.0.1";
static const std::uint16_t kPort = 53;

static DnsTransport& transport()
{
  if (!g_t)
  {
    DnsConfig cfg(std::vector<std::string>{kServer}, kPort);
    cfg.transportMode = DnsTransportMode::UDP;   // a truncated UDP answer is then completed as it is (no TCP fallback to a live socket)
    g_t = std::make_unique<DnsTransport>(cfg);
  }
  return *g_t;
}


// ---------------------------------------------------------------- stateful receive side: t reset / sess / pend / tcp / udp / close
struct Srv { const char* host; std::uint16_t port; };
static const Srv kServers[3] = {{"10.0.0.1", 53}, {"10.0.0.2", 53}, {"10.0.0.1", 5353}};   // host AND port distinguish a QueryKey
static std::shared_ptr<DnsTransport> g_tt;
static vh::FakeEngine* g_eng = nullptr;
static std::vector<std::string> g_events;
static unsigned long long g_cnt[8] = {0};   // tcp reads, udp reads, completions (R+E), closes, TCP re-sends (fallback), R, E, reads with >= 2 completions

static int srvIndex(const std::string& h, std::uint16_t p)
{
  for (int i = 0; i < 3; ++i) if (h == kServers[i].host && p == kServers[i].port) return i;
  return -1;
}

static std::string tState(unsigned long long sid, bool withBuf)
{
  DnsTransport& tr = *g_tt;
  std::string out;
  for (auto& e : g_events) { if (!out.empty()) out += ";"; out += e; }
  if (out.empty()) out = "-";
  g_events.clear();
  if (withBuf)
  {
    std::lock_guard<std::mutex> lock(tr.tcpBuffersMutex_);
    auto it = tr.tcpBuffers_.find(static_cast<SessionId>(sid));
    out += " | buf=" + std::to_string(it == tr.tcpBuffers_.end() ? 0 : it->second.size());
  }
  std::vector<std::pair<unsigned, int>> left;
  {
    std::lock_guard<std::mutex> lock(tr.queriesMutex_);
    for (auto& kv : tr.pendingQueries_) left.emplace_back(kv.first.queryId, srvIndex(kv.first.server, kv.first.port));
  }
  std::sort(left.begin(), left.end());
  out += " | pending=";
  if (left.empty()) out += "-";
  for (std::size_t i = 0; i < left.size(); ++i) { if (i) out += ","; out += std::to_string(left[i].first) + "@" + std::to_string(left[i].second); }
  return out;
}

static std::string tstep(const std::vector<std::string>& t)
{
  if (t.size() == 4 && t[1] == "reset")
  {
    unsigned long long cap;
    if (!vh::parseNat(t[2], cap)) return "bad-op";
    std::vector<DnsServer> servers;
    DnsConfig cfg(std::vector<std::string>{kServers[0].host}, kServers[0].port);
    cfg.servers.clear();
    for (auto& s : kServers) { DnsServer d; d.address = s.host; d.port = s.port; cfg.servers.push_back(d); }
    if (t[3] != "udp" && t[3] != "tcp" && t[3] != "both") return "bad-op";
    // both: a truncated UDP answer makes processResponse re-send the query over TCP (sendTcpQuery on the scripted engine)
    cfg.transportMode = t[3] == "tcp" ? DnsTransportMode::TCP : t[3] == "both" ? DnsTransportMode::Both : DnsTransportMode::UDP;
    cfg.maxTcpBufferSize = static_cast<std::size_t>(cap);
    if (g_tt) g_tt->stop();          // drops the timeout timers armed by sendTcpQuery (their callbacks hold the transport)
    g_tt.reset();
    g_tt = std::make_shared<DnsTransport>(cfg);
    auto fe = std::make_unique<vh::FakeEngine>();
    g_eng = fe.get();
    g_eng->onCloseCall = [](SessionId sid) { g_events.push_back("C:" + std::to_string(sid)); ++g_cnt[3]; };
    g_eng->onSend = [](SessionId sid, const std::string& b) {
      ++g_cnt[4];
      g_events.push_back("F:" + std::to_string(sid) + ":" + vh::toHex(reinterpret_cast<const std::uint8_t*>(b.data()), b.size()));
    };
    TransportConfig tc;
    tc.protocol = Protocol::TCP;
    g_tt->tcpTransport_ = iora::network::test::TransportEngineInjector::withEngine(std::move(fe), tc);
    g_events.clear();
    return "ok";
  }
  if (!g_tt) return "bad-op";
  DnsTransport& tr = *g_tt;
  if (t.size() == 4 && t[1] == "sess")
  {
    unsigned long long sid, si;
    if (!vh::parseNat(t[2], sid) || !vh::parseNat(t[3], si) || si > 2) return "bad-op";
    std::lock_guard<std::mutex> lock(tr.sessionsMutex_);
    tr.sessionToServer_[static_cast<SessionId>(sid)] = {kServers[si].host, kServers[si].port};
    return "ok";
  }
  if (t.size() == 3 && t[1] == "pend")
  {
    std::size_t i = 0;
    const std::string& a = t[2];
    while (a != "-" && i <= a.size())
    {
      std::size_t j = a.find(',', i);
      if (j == std::string::npos) j = a.size();
      std::string item = a.substr(i, j - i);
      std::size_t at = item.find('@');
      unsigned long long id, si;
      if (at == std::string::npos || !vh::parseNat(item.substr(0, at), id) || !vh::parseNat(item.substr(at + 1), si) || id > 65535 || si > 2) return "bad-op";
      // query data = the two id bytes (what a TCP fallback re-sends, length-prefixed); the timeout is far away: no timer fires during a case
      auto q = std::make_shared<DnsTransport::PendingQuery>(static_cast<std::uint16_t>(id), std::chrono::milliseconds(3600000), kServers[si].host, kServers[si].port,
                                                               std::vector<std::uint8_t>{static_cast<std::uint8_t>(id >> 8), static_cast<std::uint8_t>(id & 255)});
      q->callback = [id, si](const DnsResult& r, const std::exception_ptr& e) {
        ++g_cnt[2];
        if (e)
        {
          std::string kind = "other";
          try { std::rethrow_exception(e); }
          catch (const DnsParseException&) { kind = "parse"; }
          catch (const std::exception&) { kind = "std"; }
          catch (...) { kind = "unknown"; }
          ++g_cnt[6];
          g_events.push_back("E:" + std::to_string(id) + "@" + std::to_string(si) + ":" + kind);
        }
        else
        {
          ++g_cnt[5];
          g_events.push_back("R:" + std::to_string(id) + "@" + std::to_string(si) + ":" + std::to_string(r.header.id) + ":" + std::to_string(r.answers.size()));
        }
      };
      {
        std::lock_guard<std::mutex> lock(tr.queriesMutex_);
        tr.pendingQueries_.emplace(DnsTransport::QueryKey(static_cast<std::uint16_t>(id), kServers[si].host, kServers[si].port), q);
      }
      i = j + 1;
    }
    return tState(0, false);
  }
  if (t.size() == 4 && (t[1] == "tcp" || t[1] == "udp"))
  {
    unsigned long long sid;
    Bytes m;
    if (!vh::parseNat(t[2], sid) || !vh::ofHex(t[3], m)) return "bad-op";
    std::uint8_t* p = new std::uint8_t[m.size() ? m.size() : 1];
    if (!m.empty()) std::memcpy(p, m.data(), m.size());
    std::string thrown;
    std::size_t before = g_events.size();
    try
    {
      iora::core::BufferView view(p, m.size());
      if (t[1] == "tcp") { ++g_cnt[0]; tr.handleTcpData(static_cast<SessionId>(sid), view, std::chrono::steady_clock::now()); }
      else { ++g_cnt[1]; tr.handleUdpData(static_cast<SessionId>(sid), view, std::chrono::steady_clock::now()); }
    }
    catch (const std::exception& e) { thrown = "throw " + demangle(typeid(e).name()); }
    catch (...) { thrown = "throw unknown"; }
    delete[] p;
    if (!thrown.empty()) return thrown;
    std::size_t done = 0;
    for (std::size_t i = before; i < g_events.size(); ++i) if (g_events[i][0] == 'R' || g_events[i][0] == 'E') ++done;
    if (done >= 2) ++g_cnt[7];
    return tState(sid, t[1] == "tcp");
  }
  if (t.size() == 3 && t[1] == "close")
  {
    unsigned long long sid;
    if (!vh::parseNat(t[2], sid)) return "bad-op";
    tr.handleClose(static_cast<SessionId>(sid), TransportErrorInfo{});
    return tState(sid, true);
  }
  if (t.size() == 2 && t[1] == "counters")
  {
    std::string out = "counters";
    for (auto v : g_cnt) out += " " + std::to_string(v);
    return out;
  }
  return "bad-op";
}

// resp <udp|tcp> <pending ids, comma separated or -> <hex>
static std::string step(const std::vector<std::string>& t)
{
  if (t.size() >= 2 && t[0] == "t") return tstep(t);
  if (t.size() == 4 && t[0] == "resp" && (t[1] == "udp" || t[1] == "tcp"))
  {
    Bytes m;
    if (!vh::ofHex(t[3], m)) return "bad-op";
    std::vector<unsigned> ids;
    if (t[2] != "-")
    {
      std::size_t i = 0;
      while (i <= t[2].size())
      {
        std::size_t j = t[2].find(',', i);
        if (j == std::string::npos) j = t[2].size();
        unsigned long long v;
        if (!vh::parseNat(t[2].substr(i, j - i), v) || v > 65535) return "bad-op";
        ids.push_back(static_cast<unsigned>(v));
        i = j + 1;
      }
    }
    DnsTransport& tr = transport();
    std::vector<std::string> events;
    {
      std::lock_guard<std::mutex> lock(tr.queriesMutex_);
      tr.pendingQueries_.clear();
      for (unsigned id : ids)
      {
        auto q = std::make_shared<DnsTransport::PendingQuery>(static_cast<std::uint16_t>(id), std::chrono::milliseconds(1000), kServer, kPort,
                                                                 std::vector<std::uint8_t>{});
        q->callback = [id, &events](const DnsResult& r, const std::exception_ptr& e) {
          if (e)
          {
            std::string kind = "other";
            try { std::rethrow_exception(e); }
            catch (const DnsParseException&) { kind = "parse"; }
            catch (const std::exception&) { kind = "std"; }
            catch (...) { kind = "unknown"; }
            events.push_back("E:" + std::to_string(id) + ":" + kind);
          }
          else
            events.push_back("R:" + std::to_string(id) + ":" + std::to_string(r.header.id) + ":" + std::to_string(r.answers.size()));
        };
        tr.pendingQueries_.emplace(DnsTransport::QueryKey(static_cast<std::uint16_t>(id), kServer, kPort), q);
      }
    }
    // exact-size heap copy (AddressSanitizer sees any read past the end)
    std::uint8_t* p = new std::uint8_t[m.size()];
    if (!m.empty()) std::memcpy(p, m.data(), m.size());
    std::string thrown;
    try
    {
      tr.processResponse(p, m.size(), t[1] == "udp" ? DnsTransportMode::UDP : DnsTransportMode::TCP, kServer, kPort);
    }
    catch (const std::exception& e) { thrown = "throw " + demangle(typeid(e).name()); }
    catch (...) { thrown = "throw unknown"; }
    delete[] p;
    if (!thrown.empty()) return thrown;
    std::vector<unsigned> left;
    {
      std::lock_guard<std::mutex> lock(tr.queriesMutex_);
      for (auto& kv : tr.pendingQueries_) left.push_back(kv.first.queryId);
      tr.pendingQueries_.clear();
    }
    std::sort(left.begin(), left.end());
    std::string out;
    for (auto& e : events) { if (!out.empty()) out += ";"; out += e; }
    if (out.empty()) out = "-";
    out += " | pending=";
    if (left.empty()) out += "-";
    for (std::size_t i = 0; i < left.size(); ++i) { if (i) out += ","; out += std::to_string(left[i]); }
    return out;
  }
  return "bad-op";
}

int main()
{
  static char outbuf[1 << 16];
  std::setvbuf(stdout, outbuf, _IOLBF, sizeof outbuf);
  iora::core::Logger::setLevel(iora::core::Logger::Level::Fatal);
  int rc = vh::runLines([&](const std::vector<std::string>& t) -> std::string {
    try { return step(t); }
    catch (const std::exception& e) { return "throw " + demangle(typeid(e).name()); }
    catch (...) { return "throw unknown"; }
  });
  g_t.reset();
  if (g_tt) g_tt->stop();
  g_tt.reset();
  return rc;
}
