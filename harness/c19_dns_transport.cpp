// Correspondence harness for C19 / N6: the real DnsTransport::processResponse (private), reached without starting the
// transport: pending queries are injected into `pendingQueries_`, the response bytes are handed to processResponse exactly as
// handleUdpData / handleTcpData do, and what completes (result / error / nothing) is observed through the query callbacks.
#include <algorithm>
#include <arpa/inet.h>
#include <atomic>
#include <chrono>
#include <condition_variable>
#include <cstdint>
#include <cstdio>
#include <cstring>
#include <deque>
#include <exception>
#include <fstream>
#include <functional>
#include <future>
#include <iomanip>
#include <iostream>
#include <limits>
#include <list>
#include <map>
#include <memory>
#include <mutex>
#include <optional>
#include <queue>
#include <random>
#include <set>
#include <sstream>
#include <stdexcept>
#include <string>
#include <thread>
#include <typeinfo>
#include <unordered_map>
#include <unordered_set>
#include <vector>
#include <cxxabi.h>
#include <openssl/ssl.h>
#include <openssl/err.h>
#define private public
#define protected public
#include "iora/network/dns/dns_transport.hpp"
#undef private
#undef protected
#include "common/lineproto.hpp"

using namespace iora::network::dns;
using vh::Bytes;

static std::string demangle(const char* n)
{
  int st = 0;
  char* d = abi::__cxa_demangle(n, nullptr, nullptr, &st);
  std::string s = (st == 0 && d) ? d : n;
  std::free(d);
  for (auto& c : s) if (c == ' ') c = '_';
  return s;
}

static std::unique_ptr<DnsTransport> g_t;
static const char* kServer = "127.0.0.1";
static const std::uint16_t kPort = 53;

static DnsTransport& transport()
{
  if (!g_t)
  {
    DnsConfig cfg(std::vector<std::string>{kServer}, kPort);
    cfg.transportMode = DnsTransportMode::UDP;   // a truncated UDP answer is then completed as it is (no TCP fallback to a live socket)
    g_t = std::make_unique<DnsTransport>(cfg);
  }
  return *g_t;
}

// resp <udp|tcp> <pending ids, comma separated or -> <hex>
static std::string step(const std::vector<std::string>& t)
{
  if (t.size() == 4 && t[0] == "resp" && (t[1] == "udp" || t[1] == "tcp"))
  {
    Bytes m;
    if (!vh::ofHex(t[3], m)) return "bad-op";
    std::vector<unsigned> ids;
    if (t[2] != "-")
    {
      std::size_t i = 0;
      while (i <= t[2].size())
      {
        std::size_t j = t[2].find(',', i);
        if (j == std::string::npos) j = t[2].size();
        unsigned long long v;
        if (!vh::parseNat(t[2].substr(i, j - i), v) || v > 65535) return "bad-op";
        ids.push_back(static_cast<unsigned>(v));
        i = j + 1;
      }
    }
    DnsTransport& tr = transport();
    std::vector<std::string> events;
    {
      std::lock_guard<std::mutex> lock(tr.queriesMutex_);
      tr.pendingQueries_.clear();
      for (unsigned id : ids)
      {
        auto q = std::make_shared<DnsTransport::PendingQuery>(static_cast<std::uint16_t>(id), std::chrono::milliseconds(1000), kServer, kPort,
                                                                 std::vector<std::uint8_t>{});
        q->callback = [id, &events](const DnsResult& r, const std::exception_ptr& e) {
          if (e)
          {
            std::string kind = "other";
            try { std::rethrow_exception(e); }
            catch (const DnsParseException&) { kind = "parse"; }
            catch (const std::exception&) { kind = "std"; }
            catch (...) { kind = "unknown"; }
            events.push_back("E:" + std::to_string(id) + ":" + kind);
          }
          else
            events.push_back("R:" + std::to_string(id) + ":" + std::to_string(r.header.id) + ":" + std::to_string(r.answers.size()));
        };
        tr.pendingQueries_.emplace(DnsTransport::QueryKey(static_cast<std::uint16_t>(id), kServer, kPort), q);
      }
    }
    // exact-size heap copy (AddressSanitizer sees any read past the end)
    std::uint8_t* p = new std::uint8_t[m.size()];
    if (!m.empty()) std::memcpy(p, m.data(), m.size());
    std::string thrown;
    try
    {
      tr.processResponse(p, m.size(), t[1] == "udp" ? DnsTransportMode::UDP : DnsTransportMode::TCP, kServer, kPort);
    }
    catch (const std::exception& e) { thrown = "throw " + demangle(typeid(e).name()); }
    catch (...) { thrown = "throw unknown"; }
    delete[] p;
    if (!thrown.empty()) return thrown;
    std::vector<unsigned> left;
    {
      std::lock_guard<std::mutex> lock(tr.queriesMutex_);
      for (auto& kv : tr.pendingQueries_) left.push_back(kv.first.queryId);
      tr.pendingQueries_.clear();
    }
    std::sort(left.begin(), left.end());
    std::string out;
    for (auto& e : events) { if (!out.empty()) out += ";"; out += e; }
    if (out.empty()) out = "-";
    out += " | pending=";
    if (left.empty()) out += "-";
    for (std::size_t i = 0; i < left.size(); ++i) { if (i) out += ","; out += std::to_string(left[i]); }
    return out;
  }
  return "bad-op";
}

int main()
{
  static char outbuf[1 << 16];
  std::setvbuf(stdout, outbuf, _IOLBF, sizeof outbuf);
  iora::core::Logger::setLevel(iora::core::Logger::Level::Fatal);
  int rc = vh::runLines([&](const std::vector<std::string>& t) -> std::string {
    try { return step(t); }
    catch (const std::exception& e) { return "throw " + demangle(typeid(e).name()); }
    catch (...) { return "throw unknown"; }
  });
  g_t.reset();
  return rc;
}
