// DetSched — deterministic cooperative scheduler behind pthread interposers (DESIGN §3.4).
//
// WHAT IT IS
//   Link `harness/detsched/detsched.cpp` into a harness executable (pass it in ctx.build_harness(flags=[...]) or
//   `#include "detsched/detsched.cpp"` from the harness source).  It defines, *inside the executable*, the symbols
//     pthread_create / pthread_join / pthread_detach,
//     pthread_mutex_lock / trylock / timedlock / clocklock / unlock,
//     pthread_rwlock_rdlock / wrlock / tryrdlock / trywrlock / unlock,
//     pthread_cond_wait / timedwait / clockwait / signal / broadcast,
//     sched_yield, nanosleep, clock_nanosleep, usleep, clock_gettime
//   so that every call made by header-only code compiled into the harness AND by libstdc++.so on its behalf
//   (std::thread, std::mutex, std::condition_variable::wait, steady_clock::now, sleep_for) lands here.
//   Outside `ds::run` (or on threads DetSched did not create) every symbol forwards to glibc unchanged.
//
//   Inside `ds::run(fn)`: `fn` runs as managed thread 0; every thread it creates is managed.  Exactly ONE managed
//   thread runs at a time (token passing on per-thread semaphores).  Each interposed call is a *scheduling point*
//   placed BEFORE the call's effect: the caller publishes its pending operation, the scheduler picks the next
//   action, and when the caller is picked again (its operation being enabled) it performs the effect atomically and
//   runs on to its next interposed call.  In particular there is a scheduling point at the entry of
//   pthread_cond_wait (the thread still holds the mutex and has already evaluated its predicate) and before every
//   notify — the windows in which lost wake-ups live.  A condition wait is three steps: WAIT (release the mutex and
//   sleep, atomically), a wake-up (by signal/broadcast of another thread, or the scheduler actions TIMEOUT/SPURIOUS),
//   REACQ (re-acquire the mutex, return).
//
//   Choices (all recorded, all replayable): which enabled thread runs next; which sleeper a signal wakes; whether a
//   timed sleeper times out now; spurious wake-ups (off by default).  They come from a splitmix64 PRNG
//   (`ds::init(seed)`) or from a recorded list (`ds::init(choices)`); `ds::choices()` returns what was taken.
//   Encoding of one choice: `tid*4 + kind`, kind 0 = run thread tid, 1 = timed wait of tid times out,
//   2 = spurious wake-up of tid, 3 = signal wakes tid.
//   Time is virtual: clock_gettime(CLOCK_MONOTONIC/REALTIME/…) returns base + virtual ns; sleeping adds the requested
//   duration; a timeout moves the clock to the sleeper's deadline (never backwards).
//
//   Deadlock = no managed thread is enabled, no timed sleeper exists, and some thread has not finished (a thread
//   asleep on a condition variable that nobody will signal — a lost wake-up — ends here).  `ds::run` then returns
//   false, `ds::deadlocked()` is true and `ds::report()` names every thread's pending operation; the blocked OS
//   threads are abandoned (parked for ever), so the objects they reference must be leaked by the caller, not
//   destroyed.  Spurious wake-ups are never used to "rescue" a deadlock.
//
// USAGE
//     ds::init(seed);                         // or ds::init(std::vector<uint32_t>{...}) to replay
//     bool ok = ds::run([&]{ ... std::thread a(...), b(...); a.join(); b.join(); ... });
//     if (!ok) { puts(ds::report().c_str()); /* leak the objects under test */ }
//     auto sched = ds::choices();             // replay key
//     for (auto& e : ds::trace()) ...         // step-by-step trace (thread, operation, object index, detail)
//   `ds::yield_point("tag")` is an explicit scheduling point (use it for the IORA_VERIF_POINT hook, DESIGN §3.6).
//
// LIMITS
//   * Atomics are invisible: code between two interposed calls is one atomic step.
//   * std::future::get / std::promise / C++20 semaphores block on a raw futex — NOT interposable: poll with
//     `fut.wait_for(std::chrono::seconds(0))` + `ds::yield_point` instead of `get()`.
//   * Threads blocked in epoll_wait/read/accept cannot be hosted (they would hold the token): engines with real I/O
//     threads are driven differently (DESIGN §3.4).
//   * ThreadSanitizer and DetSched cannot be combined (TSan needs to see the real synchronisation); ASan/UBSan are fine.
//   * pthread_once / function-local static initialisers that contain a scheduling point can dead-lock for real if a
//     second managed thread enters them meanwhile: warm such code up before `ds::run`.
//   * Objects locked by an unmanaged thread must not be touched by managed ones (ownership is tracked only for
//     managed threads; the real pthread objects are never locked while DetSched is active).
#pragma once
#include <cstdint>
#include <functional>
#include <string>
#include <vector>

namespace ds {

struct Options
{
  unsigned timeoutOneIn = 8;   // while other threads are enabled, a timed sleeper times out with probability 1/N (0 = only when nothing else can run)
  unsigned spuriousOneIn = 0;  // spurious wake-up probability 1/N per scheduling decision (0 = never)
  long maxSteps = 200000;      // a run longer than this is stopped and reported like a deadlock (`stepLimit()`)
  bool continueCurrent = false; // how a replay list that ends early is completed: false = lowest enabled thread first (default);
                               // true = NON-PREEMPTIVELY: keep running the thread that ran last while it is enabled, else the lowest
                               // enabled one. With this completion, "prefix + one other alternative" enumerates schedules by number of
                               // preemptions (CHESS-style preemption bounding, see harness/c10_queues.cpp `bq explore … K`).
};

// kinds of trace events (what the scheduled thread did in this step)
enum Kind : char
{
  START = 'S', LOCK = 'L', TRYLOCK = 'T', UNLOCK = 'U', WAIT = 'W', REACQ = 'R', SIGNAL = 'N', BCAST = 'B',
  YIELD = 'Y', SLEEP = 'Z', JOIN = 'J', CREATE = 'C', EXIT = 'X', TIMEOUT = 'O', SPURIOUS = 'P',
  RDLOCK = 'r', WRLOCK = 'w', RWUNLOCK = 'u', DETACH = 'D'
};
struct Event
{
  int tid;        // managed thread (creation order, 0 = the function given to run)
  char kind;      // Kind
  int obj;        // index of the mutex / condvar / rwlock in order of first use (-1 = none)
  long detail;    // TRYLOCK: 1 acquired / 0 busy; REACQ: 1 = timed out; SIGNAL: woken tid or -1; BCAST: number woken;
                  // CREATE: child tid; JOIN: target tid; WAIT: 1 = timed; TIMEOUT: 1 = FORCED (no thread was enabled when it fired;
                  // obj = the condition variable): a forced time-out of a sleeper whose wait predicate already holds is a lost wake-up
                  // that a timed wait merely papers over
  const char* tag; // YIELD: the tag given to yield_point
};

void init(std::uint64_t seed);
void init(const std::vector<std::uint32_t>& replayChoices);
void options(const Options& o);                 // call before run
bool run(const std::function<void()>& mainFn);  // false: deadlock, step limit or replay divergence
void yield_point(const char* tag);              // explicit scheduling point (no-op outside run)
const std::vector<std::uint32_t>& choices();    // choices taken by the last run
const std::vector<std::vector<std::uint32_t>>& alternatives(); // per entry of choices(): every choice that was enabled at that
                                                // decision (time-outs included, spurious wake-ups only if enabled in Options) -
                                                // replaying choices()[0..i) + [another alternative of i] explores the sibling schedule;
                                                // a replay list that ends early is completed with "lowest enabled thread first"
const std::vector<Event>& trace();              // events of the last run
bool deadlocked();
bool stepLimit();
bool diverged();                                // a replayed choice was not enabled
std::string report();                           // human-readable state of every thread at the end of the last run
std::string choicesString();                    // "0,4,3,…"
long steps();
int self();                                     // managed thread id, -1 if unmanaged
bool active();
int object_index(const void* p);                // trace index of a mutex/condvar/rwlock (native handle address), -1 if not seen in the last run
void set_step_hook(void (*fn)(void*), void* arg); // called (by whichever thread holds the token) before every scheduling decision: a
                                                // consistent moment to sample the state of the objects under test; cleared by init()
long long now_ns();                             // virtual nanoseconds since run() began
void advance_ns(long long d);                   // move the virtual clock forward

} // namespace ds
