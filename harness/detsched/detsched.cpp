// DetSched implementation — see detsched.hpp for the description, usage and limits.
#include "detsched.hpp"

#include <dlfcn.h>
#include <errno.h>
#include <pthread.h>
#include <sched.h>
#include <semaphore.h>
#include <time.h>
#include <unistd.h>

#include <algorithm>
#include <atomic>
#include <cstdio>
#include <cstdlib>
#include <cstring>
#include <exception>
#include <map>
#include <string>
#include <vector>

namespace ds {
namespace {

// ---------------------------------------------------------------------------------------------- real functions
#define DS_REAL(name, type)                                              \
  static type r_##name()                                                 \
  {                                                                      \
    static type f = nullptr;                                             \
    if (!f) f = reinterpret_cast<type>(dlsym(RTLD_NEXT, #name));         \
    return f;                                                            \
  }
using create_t = int (*)(pthread_t*, const pthread_attr_t*, void* (*)(void*), void*);
using join_t = int (*)(pthread_t, void**);
using detach_t = int (*)(pthread_t);
using mtx_t = int (*)(pthread_mutex_t*);
using mtxtimed_t = int (*)(pthread_mutex_t*, const struct timespec*);
using mtxclock_t = int (*)(pthread_mutex_t*, clockid_t, const struct timespec*);
using rw_t = int (*)(pthread_rwlock_t*);
using cwait_t = int (*)(pthread_cond_t*, pthread_mutex_t*);
using ctimed_t = int (*)(pthread_cond_t*, pthread_mutex_t*, const struct timespec*);
using cclock_t = int (*)(pthread_cond_t*, pthread_mutex_t*, clockid_t, const struct timespec*);
using cond_t = int (*)(pthread_cond_t*);
using yield_t = int (*)(void);
using nsleep_t = int (*)(const struct timespec*, struct timespec*);
using cnsleep_t = int (*)(clockid_t, int, const struct timespec*, struct timespec*);
using usleep_t = int (*)(useconds_t);
using cgt_t = int (*)(clockid_t, struct timespec*);
DS_REAL(pthread_create, create_t)
DS_REAL(pthread_join, join_t)
DS_REAL(pthread_detach, detach_t)
DS_REAL(pthread_mutex_lock, mtx_t)
DS_REAL(pthread_mutex_trylock, mtx_t)
DS_REAL(pthread_mutex_unlock, mtx_t)
DS_REAL(pthread_mutex_timedlock, mtxtimed_t)
DS_REAL(pthread_mutex_clocklock, mtxclock_t)
DS_REAL(pthread_rwlock_rdlock, rw_t)
DS_REAL(pthread_rwlock_wrlock, rw_t)
DS_REAL(pthread_rwlock_tryrdlock, rw_t)
DS_REAL(pthread_rwlock_trywrlock, rw_t)
DS_REAL(pthread_rwlock_unlock, rw_t)
DS_REAL(pthread_cond_wait, cwait_t)
DS_REAL(pthread_cond_timedwait, ctimed_t)
DS_REAL(pthread_cond_clockwait, cclock_t)
DS_REAL(pthread_cond_signal, cond_t)
DS_REAL(pthread_cond_broadcast, cond_t)
DS_REAL(sched_yield, yield_t)
DS_REAL(nanosleep, nsleep_t)
DS_REAL(clock_nanosleep, cnsleep_t)
DS_REAL(usleep, usleep_t)
DS_REAL(clock_gettime, cgt_t)

// ---------------------------------------------------------------------------------------------- state
constexpr long long BASE_MONO = 1000000000000LL;            // virtual CLOCK_MONOTONIC at run start (ns)
constexpr long long BASE_REAL = 1700000000000000000LL;      // virtual CLOCK_REALTIME at run start (ns)

enum Pend
{
  P_NONE, P_START, P_LOCK, P_TRYLOCK, P_TIMEDLOCK, P_UNLOCK, P_WAIT_ENTER, P_SLEEPING, P_REACQ, P_SIGNAL, P_BCAST,
  P_YIELD, P_SLEEP, P_JOIN, P_CREATE, P_DETACH, P_RDLOCK, P_WRLOCK, P_TRYRD, P_TRYWR, P_RWUNLOCK
};
const char* pendName(int p)
{
  static const char* n[] = {"running", "start", "lock", "trylock", "timedlock", "unlock", "wait-enter", "ASLEEP-on-condvar",
                            "reacquire-after-wake", "signal", "broadcast", "yield", "sleep", "join", "create", "detach",
                            "rdlock", "wrlock", "tryrdlock", "trywrlock", "rwunlock"};
  return n[p];
}

struct Thr
{
  int id = 0;
  sem_t sem;
  bool finished = false;
  Pend pend = P_START;
  void* obj = nullptr;   // mutex / condvar / rwlock of the pending operation
  void* mtx = nullptr;   // mutex to re-acquire after a condition wait
  bool timed = false;
  long long deadline = 0;  // virtual ns
  bool timedOut = false;
  int joinTarget = -1;
  void* (*fn)(void*) = nullptr;
  void* arg = nullptr;
  const char* tag = nullptr;
};
struct MutexSt { int owner = -1; int count = 0; };
struct RwSt { int writer = -1; std::map<int, int> readers; };

struct World
{
  std::vector<Thr*> thr;
  std::map<void*, MutexSt> mtx;
  std::map<void*, RwSt> rw;
  std::map<void*, int> objIndex;
  std::map<pthread_t, int> ids;
  std::vector<std::uint32_t> choices;
  std::vector<std::vector<std::uint32_t>> alts;
  std::vector<Event> trace;
  std::vector<std::uint32_t> replay;
  std::size_t replayPos = 0;
  bool useReplay = false;
  std::uint64_t rng = 1;
  long steps = 0;
  int lastRun = 0;            // thread of the most recent `run` choice
  long long vtime = 0;
  bool dead = false, limit = false, diverge = false, done = false;
  std::string report;
  sem_t host;
  const std::function<void()>* mainFn = nullptr;
  std::exception_ptr mainExc;
};

World* W = nullptr;                       // current run (never freed while threads may still reference it)
std::atomic<bool> g_on{false};
pthread_mutex_t g_mx = PTHREAD_MUTEX_INITIALIZER;   // real mutex protecting the scheduler state
Options g_opt;
std::uint64_t g_seed = 1;
std::vector<std::uint32_t> g_replay;
bool g_useReplay = false;
void (*g_hook)(void*) = nullptr;
void* g_hookArg = nullptr;
__thread Thr* t_me = nullptr;
__thread World* t_world = nullptr;

inline void rlock() { r_pthread_mutex_lock()(&g_mx); }
inline void runlock() { r_pthread_mutex_unlock()(&g_mx); }
inline bool managed() { return g_on.load(std::memory_order_acquire) && t_me != nullptr && t_world == W; }

std::uint64_t rnd()
{
  std::uint64_t z = (W->rng += 0x9E3779B97F4A7C15ULL);
  z = (z ^ (z >> 30)) * 0xBF58476D1CE4E5B9ULL;
  z = (z ^ (z >> 27)) * 0x94D049BB133111EBULL;
  return z ^ (z >> 31);
}

int objIdx(void* p)
{
  if (!p) return -1;
  auto it = W->objIndex.find(p);
  if (it != W->objIndex.end()) return it->second;
  int k = static_cast<int>(W->objIndex.size());
  W->objIndex[p] = k;
  return k;
}
void ev(int tid, char kind, void* obj, long detail, const char* tag = nullptr)
{
  W->trace.push_back(Event{tid, kind, objIdx(obj), detail, tag});
}

bool isRecursive(void* m)
{
  return (static_cast<pthread_mutex_t*>(m)->__data.__kind & 127) == PTHREAD_MUTEX_RECURSIVE_NP;
}
bool mutexFreeFor(Thr* t, void* m)
{
  auto it = W->mtx.find(m);
  if (it == W->mtx.end() || it->second.owner < 0) return true;
  return it->second.owner == t->id && isRecursive(m);
}
void acquire(Thr* t, void* m)
{
  MutexSt& s = W->mtx[m];
  s.owner = t->id;
  s.count++;
}
void release(Thr* t, void* m, bool all)
{
  auto it = W->mtx.find(m);
  if (it == W->mtx.end()) return;
  if (all || --it->second.count <= 0) W->mtx.erase(it);
  (void)t;
}

bool enabled(Thr* t)
{
  if (t->finished) return false;
  switch (t->pend)
  {
    case P_LOCK: case P_REACQ: case P_TIMEDLOCK: return mutexFreeFor(t, t->obj);
    case P_SLEEPING: return false;
    case P_JOIN: return W->thr[t->joinTarget]->finished;
    case P_RDLOCK: { auto it = W->rw.find(t->obj); return it == W->rw.end() || it->second.writer < 0; }
    case P_WRLOCK: { auto it = W->rw.find(t->obj); return it == W->rw.end() || (it->second.writer < 0 && it->second.readers.empty()); }
    default: return true;
  }
}
bool timedBlocked(Thr* t)
{
  if (t->finished) return false;
  if (t->pend == P_SLEEPING) return t->timed;
  if (t->pend == P_TIMEDLOCK) return !mutexFreeFor(t, t->obj);
  return false;
}

std::string describe()
{
  std::string s;
  char b[200];
  for (Thr* t : W->thr)
  {
    std::snprintf(b, sizeof b, "  T%d %s%s obj=#%d%s\n", t->id, t->finished ? "finished " : "", t->finished ? "" : pendName(t->pend),
                  t->finished ? -1 : objIdx(t->obj), (t->pend == P_SLEEPING && t->timed) ? " (timed)" : "");
    s += b;
  }
  return s;
}

[[noreturn]] void parkForever(Thr* me)
{
  for (;;) { sem_wait(&me->sem); }
}

// ends the run abnormally: host is released, the calling thread never runs user code again. g_mx held on entry.
void abandon(Thr* me, const char* why)
{
  W->report = std::string("DETSCHED: ") + why + " after " + std::to_string(W->steps) + " steps\n" + describe();
  W->done = true;
  sem_post(&W->host);
  runlock();
  if (me && !me->finished) parkForever(me);
}

void park(Thr* me)
{
  while (sem_wait(&me->sem) != 0) {}
}

// Decide what happens next and hand the token over. g_mx held on entry, released on return; when it returns the
// calling thread owns the token again (or is finished, or the run is over).
void reschedule(Thr* me)
{
  for (;;)
  {
    if (g_hook) g_hook(g_hookArg);
    if (W->steps >= g_opt.maxSteps) { W->limit = true; abandon(me, "STEP LIMIT"); return; }
    std::vector<int> R, T, S;
    bool allDone = true;
    for (Thr* t : W->thr)
    {
      if (!t->finished) allDone = false;
      if (enabled(t)) R.push_back(t->id);
      if (timedBlocked(t)) T.push_back(t->id);
      if (!t->finished && t->pend == P_SLEEPING) S.push_back(t->id);
    }
    if (allDone)
    {
      W->done = true;
      sem_post(&W->host);
      runlock();
      return;
    }
    int kind = 0, tid = -1;
    auto has = [](const std::vector<int>& v, int x) { return std::find(v.begin(), v.end(), x) != v.end(); };
    if (W->useReplay && W->replayPos < W->replay.size())
    {
      std::uint32_t c = W->replay[W->replayPos++];
      kind = static_cast<int>(c & 3);
      tid = static_cast<int>(c >> 2);
      bool ok = (kind == 0 && has(R, tid)) || (kind == 1 && has(T, tid)) || (kind == 2 && has(S, tid));
      if (!ok) { W->diverge = true; abandon(me, "REPLAY DIVERGED (choice not enabled)"); return; }
    }
    else if (W->useReplay)
    {
      // list exhausted: deterministic completion, lowest enabled thread first, time-outs only when nothing else can run
      if (!R.empty()) { kind = 0; tid = (g_opt.continueCurrent && has(R, W->lastRun)) ? W->lastRun : R[0]; }
      else if (!T.empty()) { kind = 1; tid = T[0]; }
      else { W->dead = true; abandon(me, "DEADLOCK"); return; }
    }
    else
    {
      if (!S.empty() && g_opt.spuriousOneIn && rnd() % g_opt.spuriousOneIn == 0) { kind = 2; tid = S[rnd() % S.size()]; }
      else if (!R.empty())
      {
        if (!T.empty() && g_opt.timeoutOneIn && rnd() % g_opt.timeoutOneIn == 0) { kind = 1; tid = T[rnd() % T.size()]; }
        else { kind = 0; tid = R[rnd() % R.size()]; }
      }
      else if (!T.empty()) { kind = 1; tid = T[rnd() % T.size()]; }
      else { W->dead = true; abandon(me, "DEADLOCK"); return; }
    }
    W->choices.push_back(static_cast<std::uint32_t>(tid) * 4 + static_cast<std::uint32_t>(kind));
    {
      std::vector<std::uint32_t> a;
      for (int x : R) a.push_back(static_cast<std::uint32_t>(x) * 4);
      for (int x : T) a.push_back(static_cast<std::uint32_t>(x) * 4 + 1);
      if (g_opt.spuriousOneIn) for (int x : S) a.push_back(static_cast<std::uint32_t>(x) * 4 + 2);
      W->alts.push_back(a);
    }
    W->steps++;
    Thr* n = W->thr[tid];
    if (kind == 1)
    {
      // detail 1 = FORCED: no thread was enabled, the time-out is the only way on. obj = the condition variable (mutex for a timed lock).
      void* waited = n->obj;
      n->timedOut = true;
      if (n->deadline > W->vtime) W->vtime = n->deadline;
      if (n->pend == P_SLEEPING) { n->pend = P_REACQ; n->obj = n->mtx; }
      else { n->pend = P_NONE; }   // timed lock gives up
      ev(tid, TIMEOUT, waited, R.empty() ? 1 : 0);
      continue;
    }
    if (kind == 2)
    {
      n->timedOut = false;
      n->pend = P_REACQ;
      n->obj = n->mtx;
      ev(tid, SPURIOUS, nullptr, 0);
      continue;
    }
    W->lastRun = tid;
    if (n == me) { runlock(); return; }
    sem_post(&n->sem);
    runlock();
    if (me && !me->finished) park(me);
    return;
  }
}

// scheduling point: publish the pending operation, yield, return when scheduled again (g_mx released)
void point(Thr* me, Pend p, void* obj)
{
  rlock();
  me->pend = p;
  me->obj = obj;
  reschedule(me);
}

void* tramp(void* p)
{
  Thr* t = static_cast<Thr*>(p);
  t_me = t;
  t_world = W;
  park(t);
  rlock();
  ev(t->id, START, nullptr, 0);
  t->pend = P_NONE;
  runlock();
  void* r = t->fn(t->arg);
  rlock();
  t->finished = true;
  ev(t->id, EXIT, nullptr, 0);
  reschedule(t);
  return r;
}

void* mainTramp(void*)
{
  try { (*W->mainFn)(); }
  catch (...) { W->mainExc = std::current_exception(); }
  return nullptr;
}

long long toNs(const struct timespec* ts) { return ts->tv_sec * 1000000000LL + ts->tv_nsec; }
long long clockBase(clockid_t id) { return (id == CLOCK_REALTIME || id == CLOCK_REALTIME_COARSE) ? BASE_REAL : BASE_MONO; }

int condWait(pthread_cond_t* c, pthread_mutex_t* m, bool timed, long long deadline)
{
  Thr* me = t_me;
  point(me, P_WAIT_ENTER, c);            // pre-effect point: still holding m, predicate already evaluated
  rlock();
  release(me, m, true);
  ev(me->id, WAIT, c, timed ? 1 : 0);
  me->pend = P_SLEEPING;
  me->obj = c;
  me->mtx = m;
  me->timed = timed;
  me->deadline = deadline;
  me->timedOut = false;
  reschedule(me);                        // returns once woken, chosen and m is free
  rlock();
  acquire(me, m);
  // A timed wait also counts as timed out when the virtual clock has reached its deadline meanwhile: libstdc++ decides
  // "timeout" by comparing steady_clock::now() (one more clock read = +1 us) with the deadline, not by ETIMEDOUT.
  bool to = me->timedOut || (timed && W->vtime + 1000 >= deadline);
  if (to && timed && W->vtime < deadline) W->vtime = deadline;
  me->timed = false;
  me->pend = P_NONE;
  ev(me->id, REACQ, m, to ? 1 : 0);
  runlock();
  return to ? ETIMEDOUT : 0;
}

int wake(pthread_cond_t* c, bool all)
{
  Thr* me = t_me;
  point(me, all ? P_BCAST : P_SIGNAL, c);
  rlock();
  std::vector<Thr*> sl;
  for (Thr* t : W->thr)
    if (!t->finished && t->pend == P_SLEEPING && t->obj == c) sl.push_back(t);
  if (all)
  {
    for (Thr* t : sl) { t->pend = P_REACQ; t->obj = t->mtx; t->timedOut = false; }
    ev(me->id, BCAST, c, static_cast<long>(sl.size()));
  }
  else if (sl.empty()) { ev(me->id, SIGNAL, c, -1); }
  else
  {
    Thr* pick = nullptr;
    if (W->useReplay && W->replayPos < W->replay.size())
    {
      std::uint32_t ch = W->replay[W->replayPos++];
      for (Thr* t : sl) if ((ch & 3) == 3 && static_cast<int>(ch >> 2) == t->id) pick = t;
      if (!pick) { W->diverge = true; me->pend = P_NONE; abandon(me, "REPLAY DIVERGED (signal target)"); return 0; }
    }
    else if (W->useReplay) pick = sl[0];
    else pick = sl[rnd() % sl.size()];
    W->choices.push_back(static_cast<std::uint32_t>(pick->id) * 4 + 3);
    {
      std::vector<std::uint32_t> a;
      for (Thr* t : sl) a.push_back(static_cast<std::uint32_t>(t->id) * 4 + 3);
      W->alts.push_back(a);
    }
    pick->pend = P_REACQ;
    pick->obj = pick->mtx;
    pick->timedOut = false;
    ev(me->id, SIGNAL, c, pick->id);
  }
  me->pend = P_NONE;
  runlock();
  return 0;
}

void resetWorld()
{
  W = new World();   // the previous world is leaked on purpose: abandoned threads may still point into it
  sem_init(&W->host, 0, 0);
  W->rng = g_seed;
  W->replay = g_replay;
  W->useReplay = g_useReplay;
}

} // namespace

// ---------------------------------------------------------------------------------------------- public API
void init(std::uint64_t seed) { g_seed = seed; g_useReplay = false; g_replay.clear(); g_hook = nullptr; }
void init(const std::vector<std::uint32_t>& r) { g_replay = r; g_useReplay = true; g_hook = nullptr; }
void set_step_hook(void (*fn)(void*), void* arg) { g_hook = fn; g_hookArg = arg; }
int object_index(const void* p)
{
  if (!W) return -1;
  auto it = W->objIndex.find(const_cast<void*>(p));
  return it == W->objIndex.end() ? -1 : it->second;
}
void options(const Options& o) { g_opt = o; }

bool run(const std::function<void()>& mainFn)
{
  if (g_on.load()) { std::fprintf(stderr, "ds::run is not re-entrant\n"); std::abort(); }
  resetWorld();
  World* w = W;
  w->mainFn = &mainFn;
  if (w->useReplay && !w->replay.empty()) w->replayPos = 1;   // element 0 is the start of thread 0
  Thr* t = new Thr;
  t->id = 0;
  sem_init(&t->sem, 0, 0);
  t->fn = mainTramp;
  w->thr.push_back(t);
  pthread_t th;
  g_on.store(true, std::memory_order_release);
  if (r_pthread_create()(&th, nullptr, tramp, t) != 0) { std::perror("pthread_create"); std::abort(); }
  // first scheduling decision: thread 0 is the only thread
  rlock();
  w->choices.push_back(0);
  w->alts.push_back(std::vector<std::uint32_t>{0});
  w->steps++;
  sem_post(&t->sem);
  runlock();
  while (sem_wait(&w->host) != 0) {}
  g_on.store(false, std::memory_order_release);
  bool ok = !(w->dead || w->limit || w->diverge);
  if (ok) r_pthread_join()(th, nullptr); else r_pthread_detach()(th);
  if (ok && w->mainExc) std::rethrow_exception(w->mainExc);
  return ok;
}

void yield_point(const char* tag)
{
  if (!managed()) return;
  Thr* me = t_me;
  me->tag = tag;
  point(me, P_YIELD, nullptr);
  rlock();
  ev(me->id, YIELD, nullptr, 0, tag);
  me->pend = P_NONE;
  runlock();
}
const std::vector<std::uint32_t>& choices() { static std::vector<std::uint32_t> e; return W ? W->choices : e; }
const std::vector<std::vector<std::uint32_t>>& alternatives() { static std::vector<std::vector<std::uint32_t>> e; return W ? W->alts : e; }
const std::vector<Event>& trace() { static std::vector<Event> e; return W ? W->trace : e; }
bool deadlocked() { return W && W->dead; }
bool stepLimit() { return W && W->limit; }
bool diverged() { return W && W->diverge; }
std::string report() { return W ? W->report : std::string(); }
std::string choicesString()
{
  std::string s;
  if (!W) return s;
  for (std::size_t i = 0; i < W->choices.size(); ++i) { if (i) s += ','; s += std::to_string(W->choices[i]); }
  return s;
}
long steps() { return W ? W->steps : 0; }
int self() { return managed() ? t_me->id : -1; }
bool active() { return g_on.load(); }
long long now_ns() { return W ? W->vtime : 0; }
void advance_ns(long long d) { if (W && d > 0) W->vtime += d; }

} // namespace ds

// ------------------------------------------------------------------------------------------------ interposers
using namespace ds;

extern "C" {

int pthread_create(pthread_t* th, const pthread_attr_t* a, void* (*fn)(void*), void* arg)
{
  if (!managed()) return r_pthread_create()(th, a, fn, arg);
  Thr* me = t_me;
  point(me, P_CREATE, nullptr);
  rlock();
  Thr* t = new Thr;
  t->id = static_cast<int>(W->thr.size());
  sem_init(&t->sem, 0, 0);
  t->fn = fn;
  t->arg = arg;
  W->thr.push_back(t);
  runlock();
  int rc = r_pthread_create()(th, a, tramp, t);
  rlock();
  if (rc != 0) t->finished = true; else W->ids[*th] = t->id;
  ev(me->id, CREATE, nullptr, t->id);
  me->pend = P_NONE;
  runlock();
  return rc;
}

int pthread_join(pthread_t th, void** ret)
{
  if (!managed()) return r_pthread_join()(th, ret);
  Thr* me = t_me;
  rlock();
  auto it = W->ids.find(th);
  if (it == W->ids.end()) { runlock(); return r_pthread_join()(th, ret); }
  int target = it->second;
  me->joinTarget = target;
  me->pend = P_JOIN;
  me->obj = nullptr;
  reschedule(me);
  rlock();
  W->ids.erase(th);
  ev(me->id, JOIN, nullptr, target);
  me->pend = P_NONE;
  runlock();
  return r_pthread_join()(th, ret);
}

int pthread_detach(pthread_t th)
{
  if (!managed()) return r_pthread_detach()(th);
  Thr* me = t_me;
  point(me, P_DETACH, nullptr);
  rlock();
  auto it = W->ids.find(th);
  ev(me->id, DETACH, nullptr, it == W->ids.end() ? -1 : it->second);
  if (it != W->ids.end()) W->ids.erase(it);
  me->pend = P_NONE;
  runlock();
  return r_pthread_detach()(th);
}

int pthread_mutex_lock(pthread_mutex_t* m)
{
  if (!managed()) return r_pthread_mutex_lock()(m);
  Thr* me = t_me;
  point(me, P_LOCK, m);
  rlock();
  acquire(me, m);
  ev(me->id, LOCK, m, 0);
  me->pend = P_NONE;
  runlock();
  return 0;
}

int pthread_mutex_trylock(pthread_mutex_t* m)
{
  if (!managed()) return r_pthread_mutex_trylock()(m);
  Thr* me = t_me;
  point(me, P_TRYLOCK, m);
  rlock();
  bool ok = mutexFreeFor(me, m);
  if (ok) acquire(me, m);
  ev(me->id, TRYLOCK, m, ok ? 1 : 0);
  me->pend = P_NONE;
  runlock();
  return ok ? 0 : EBUSY;
}

static int timedLock(pthread_mutex_t* m, long long deadline)
{
  Thr* me = t_me;
  rlock();
  me->pend = P_TIMEDLOCK;
  me->obj = m;
  me->deadline = deadline;
  me->timedOut = false;
  reschedule(me);
  rlock();
  bool to = me->timedOut;
  if (!to) acquire(me, m);
  ev(me->id, LOCK, m, to ? 1 : 0);
  me->pend = P_NONE;
  runlock();
  return to ? ETIMEDOUT : 0;
}
int pthread_mutex_timedlock(pthread_mutex_t* m, const struct timespec* ts)
{
  if (!managed()) return r_pthread_mutex_timedlock()(m, ts);
  return timedLock(m, toNs(ts) - BASE_REAL);
}
int pthread_mutex_clocklock(pthread_mutex_t* m, clockid_t id, const struct timespec* ts)
{
  if (!managed()) return r_pthread_mutex_clocklock()(m, id, ts);
  return timedLock(m, toNs(ts) - clockBase(id));
}

int pthread_mutex_unlock(pthread_mutex_t* m)
{
  if (!managed()) return r_pthread_mutex_unlock()(m);
  Thr* me = t_me;
  point(me, P_UNLOCK, m);
  rlock();
  release(me, m, false);
  ev(me->id, UNLOCK, m, 0);
  me->pend = P_NONE;
  runlock();
  return 0;
}

int pthread_rwlock_rdlock(pthread_rwlock_t* l)
{
  if (!managed()) return r_pthread_rwlock_rdlock()(l);
  Thr* me = t_me;
  point(me, P_RDLOCK, l);
  rlock();
  W->rw[l].readers[me->id]++;
  ev(me->id, RDLOCK, l, 1);
  me->pend = P_NONE;
  runlock();
  return 0;
}
int pthread_rwlock_wrlock(pthread_rwlock_t* l)
{
  if (!managed()) return r_pthread_rwlock_wrlock()(l);
  Thr* me = t_me;
  point(me, P_WRLOCK, l);
  rlock();
  W->rw[l].writer = me->id;
  ev(me->id, WRLOCK, l, 1);
  me->pend = P_NONE;
  runlock();
  return 0;
}
int pthread_rwlock_tryrdlock(pthread_rwlock_t* l)
{
  if (!managed()) return r_pthread_rwlock_tryrdlock()(l);
  Thr* me = t_me;
  point(me, P_TRYRD, l);
  rlock();
  RwSt& s = W->rw[l];
  bool ok = s.writer < 0;
  if (ok) s.readers[me->id]++;
  ev(me->id, RDLOCK, l, ok ? 1 : 0);
  me->pend = P_NONE;
  runlock();
  return ok ? 0 : EBUSY;
}
int pthread_rwlock_trywrlock(pthread_rwlock_t* l)
{
  if (!managed()) return r_pthread_rwlock_trywrlock()(l);
  Thr* me = t_me;
  point(me, P_TRYWR, l);
  rlock();
  RwSt& s = W->rw[l];
  bool ok = s.writer < 0 && s.readers.empty();
  if (ok) s.writer = me->id;
  ev(me->id, WRLOCK, l, ok ? 1 : 0);
  me->pend = P_NONE;
  runlock();
  return ok ? 0 : EBUSY;
}
int pthread_rwlock_unlock(pthread_rwlock_t* l)
{
  if (!managed()) return r_pthread_rwlock_unlock()(l);
  Thr* me = t_me;
  point(me, P_RWUNLOCK, l);
  rlock();
  auto it = W->rw.find(l);
  if (it != W->rw.end())
  {
    if (it->second.writer == me->id) it->second.writer = -1;
    else
    {
      auto r = it->second.readers.find(me->id);
      if (r != it->second.readers.end() && --r->second <= 0) it->second.readers.erase(r);
    }
    if (it->second.writer < 0 && it->second.readers.empty()) W->rw.erase(it);
  }
  ev(me->id, RWUNLOCK, l, 0);
  me->pend = P_NONE;
  runlock();
  return 0;
}

int pthread_cond_wait(pthread_cond_t* c, pthread_mutex_t* m)
{
  if (!managed()) return r_pthread_cond_wait()(c, m);
  return condWait(c, m, false, 0);
}
int pthread_cond_timedwait(pthread_cond_t* c, pthread_mutex_t* m, const struct timespec* ts)
{
  if (!managed()) return r_pthread_cond_timedwait()(c, m, ts);
  return condWait(c, m, true, toNs(ts) - BASE_REAL);
}
int pthread_cond_clockwait(pthread_cond_t* c, pthread_mutex_t* m, clockid_t id, const struct timespec* ts)
{
  if (!managed()) return r_pthread_cond_clockwait()(c, m, id, ts);
  return condWait(c, m, true, toNs(ts) - clockBase(id));
}
int pthread_cond_signal(pthread_cond_t* c)
{
  if (!managed()) return r_pthread_cond_signal()(c);
  return wake(c, false);
}
int pthread_cond_broadcast(pthread_cond_t* c)
{
  if (!managed()) return r_pthread_cond_broadcast()(c);
  return wake(c, true);
}

static int sleepPoint(long long ns)
{
  Thr* me = t_me;
  point(me, P_SLEEP, nullptr);
  rlock();
  if (ns > 0) W->vtime += ns;
  ev(me->id, SLEEP, nullptr, 0);
  me->pend = P_NONE;
  runlock();
  return 0;
}
int sched_yield(void)
{
  if (!managed()) return r_sched_yield()();
  Thr* me = t_me;
  point(me, P_YIELD, nullptr);
  rlock();
  ev(me->id, YIELD, nullptr, 0, "sched_yield");
  me->pend = P_NONE;
  runlock();
  return 0;
}
int nanosleep(const struct timespec* rq, struct timespec* rm)
{
  if (!managed()) return r_nanosleep()(rq, rm);
  if (rm) { rm->tv_sec = 0; rm->tv_nsec = 0; }
  return sleepPoint(toNs(rq));
}
int clock_nanosleep(clockid_t id, int flags, const struct timespec* rq, struct timespec* rm)
{
  if (!managed()) return r_clock_nanosleep()(id, flags, rq, rm);
  if (rm) { rm->tv_sec = 0; rm->tv_nsec = 0; }
  long long ns = toNs(rq);
  if (flags & TIMER_ABSTIME) ns = ns - clockBase(id) - W->vtime;
  return sleepPoint(ns);
}
int usleep(useconds_t us)
{
  if (!managed()) return r_usleep()(us);
  return sleepPoint(static_cast<long long>(us) * 1000LL);
}

int clock_gettime(clockid_t id, struct timespec* ts)
{
  if (!managed()) return r_clock_gettime()(id, ts);
  long long base;
  switch (id)
  {
    case CLOCK_REALTIME: case CLOCK_REALTIME_COARSE: base = BASE_REAL; break;
    case CLOCK_MONOTONIC: case CLOCK_MONOTONIC_RAW: case CLOCK_MONOTONIC_COARSE: case CLOCK_BOOTTIME: base = BASE_MONO; break;
    default: return r_clock_gettime()(id, ts);
  }
  rlock();
  W->vtime += 1000;   // every look at the clock costs 1 us, so polling loops terminate
  long long t = base + W->vtime;
  runlock();
  ts->tv_sec = t / 1000000000LL;
  ts->tv_nsec = t % 1000000000LL;
  return 0;
}

} // extern "C"
