// C09 thorough tier: the REAL iora::core::ThreadPool under ThreadSanitizer (no DetSched) — the search for data races.
// Rounds of: several submitter threads submitting through all three entry points (some tasks throw, some submit further tasks),
// short idle time-out so that idle exits race submissions, then drain/stop/shutdown/destruction. Checks exactly-once by counters.
// Also: two threads calling shutdown() concurrently (FC09a: when EITHER call has returned every accepted task has run), and a
// restart (stop, reset() + start()) while a submitter keeps submitting (FC09c: never more than maxSize workers).
#include <atomic>
#include <chrono>
#include <cstdio>
#include <cstdlib>
#include <future>
#include <thread>
#include <vector>
#include <iora/core/logger.hpp>
#include <iora/core/thread_pool.hpp>
using iora::core::ThreadPool;

static std::uint64_t rngState = 1;
static std::uint64_t rnd()
{
  std::uint64_t z = (rngState += 0x9E3779B97F4A7C15ULL);
  z = (z ^ (z >> 30)) * 0xBF58476D1CE4E5B9ULL;
  z = (z ^ (z >> 27)) * 0x94D049BB133111EBULL;
  return z ^ (z >> 31);
}

int main(int argc, char** argv)
{
  rngState = argc > 1 ? std::strtoull(argv[1], nullptr, 10) : 1;
  iora::core::Logger::setLevel(iora::core::Logger::Level::Fatal);
  long bad = 0;
  const int rounds = 300;
  for (int r = 0; r < rounds; ++r)
  {
    std::size_t mn = rnd() % 3, mx = std::max<std::size_t>(1, mn) + rnd() % 3;
    std::atomic<long> accepted{0}, executed{0}, handled{0};
    int how = static_cast<int>(rnd() % 6);
    std::atomic<long> earlyReturn{0}, overMax{0};
    // review F1: PLAIN (non-atomic) memory written by every task and read by both shutdown() callers after their return. For the
    // caller that does not own the shutdown the release store / acquire load of _shutdownCompleteEpoch is the only happens-before
    // edge to these writes: with relaxed orders ThreadSanitizer reports the race.
    std::vector<int> plain(how == 4 ? 5 * 8 : 0, 0);
    {
      ThreadPool pool(mn, mx, std::chrono::milliseconds(1 + rnd() % 3), 16 + rnd() % 64,
                      [&](std::exception_ptr) { handled++; });
      std::vector<std::thread> subs;
      int nsub = 2 + static_cast<int>(rnd() % 3);
      for (int s = 0; s < nsub; ++s)
        subs.emplace_back([&, s] {
          for (int i = 0; i < 150; ++i)
          {
            auto body = [&, i, s] {
              if (!plain.empty() && i % 19 == 0) plain[static_cast<std::size_t>(s) * 8 + static_cast<std::size_t>(i / 19)] = i + 1;   // one slot per task: written once
              executed++;

              if (i % 17 == 0) { if (pool.tryEnqueue([&] { executed++; })) accepted++; }
              if (i % 13 == 0) throw std::runtime_error("task");
            };
            try
            {
              int k = (i + s) % 3;
              if (k == 0) { pool.enqueue(body); accepted++; }
              else if (k == 1) { if (pool.tryEnqueue(body)) accepted++; }
              else { auto f = pool.enqueueWithResult([&]() -> int { executed++; return 1; }); accepted++; (void)f; }
            }
            catch (const std::runtime_error&) {}
            if (i % 40 == 39) std::this_thread::sleep_for(std::chrono::milliseconds(3));   // lets workers idle out
          }
        });
      if (how == 1) pool.drain(200);
      for (auto& t : subs) t.join();
      if (how == 0) pool.stop();
      else if (how == 2) pool.shutdown();
      else if (how == 4)
      {
        // two concurrent shutdown() callers: whoever returns, returns only when everything accepted has been executed
        auto caller = [&] { pool.shutdown(); long sum = 0; for (int v : plain) sum += v;   // plain reads FIRST: no other synchronisation in between
                            if (sum < 0) earlyReturn++; if (accepted.load() != executed.load()) earlyReturn++; };
        std::thread a(caller), b(caller);
        a.join();
        b.join();
      }
      else if (how == 5)
      {
        pool.stop();
        std::atomic<bool> go{true};
        std::thread sub([&] {
          while (go.load())
          {
            if (pool.tryEnqueue([&] { executed++; })) accepted++;
            if (pool.getTotalThreadCount() > mx) overMax++;
          }
        });
        if (pool.reset().success) pool.start();
        for (int i = 0; i < 50; ++i)
        {
          if (pool.getTotalThreadCount() > mx) overMax++;
          std::this_thread::yield();
        }
        go = false;
        sub.join();
        pool.stop();
      }
      // how == 3: plain destruction
    }
    if (earlyReturn.load() || overMax.load())
    {
      std::printf("round %d: shutdown() returned early %ld times, more than maxSize workers seen %ld times\n", r, earlyReturn.load(), overMax.load());
      bad++;
    }
    if (accepted.load() != executed.load())
    {
      std::printf("round %d: accepted %ld executed %ld\n", r, accepted.load(), executed.load());
      bad++;
    }
  }
  std::printf("tsan-stress rounds=%d mismatches=%ld\n", rounds, bad);
  return bad ? 3 : 0;
}
