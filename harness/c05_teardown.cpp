// Correspondence / exploration harness for C05: the REAL Transport teardown handshake (transport_impl.hpp: ParkGuard/FlushGuard,
// setTeardownFence, teardownWaitOut, performTeardown, ~Transport incl. the I/O-thread self-destruct branch, Transport::stop) with
// application threads parked in the REAL receiveSync / connectSync / setReadMode flush, over a scripted engine whose stop()
// behaves like TcpEngine::stop (CAS, shutdown drain with onClose per live session on the I/O thread, join).
//   `sched …`  a 3-8 thread program under DetSched; the answer is the sequence of model steps (Model/Teardown.lean) the run
//              performed with what the implementation was observed to do in each.  Built with ASan: touching a destroyed Impl aborts.
//   `storm …`  (no DetSched) real TcpEngine on loopback: start/stop/destroy storms with concurrent addListener/connect/send/close and
//              parked sync calls; only schedule-independent safety facts are checked (every call returns, definite results, no callback
//              after stop() returned); ASan/TSan builds are the failing-input search (DESIGN §7 C05), not the decision.
#include "tsync_common.hpp"
#ifdef TSYNC_NO_DETSCHED
// ThreadSanitizer build: DetSched is not linked (it and TSan both intercept pthread_*); only the `storm` op is available
namespace ds {
bool active() { return false; }
int self() { return -1; }
const std::vector<Event>& trace() { static std::vector<Event> t; return t; }
void yield_point(const char*) { std::this_thread::yield(); }
}
#endif

using namespace ts;

namespace {

struct TdEngine;
struct World
{
  std::shared_ptr<Transport> t;
  TdEngine* e = nullptr;
  Transport::Impl* impl = nullptr;   // raw: polled by the harness while the object is known to be alive
  bool sched = false;
  std::atomic<bool> destroyed{false};
  SessionId selfDestructOn = 0;      // the close callback of this session drops the last reference (on the I/O thread)
  int cbYields = 0;
};
World* g = nullptr;

struct TdEngine : vh::FakeEngine
{
  std::mutex em;
  std::condition_variable ecv;
  std::atomic<bool> run{false};
  bool ioExited = false;
  std::thread::id ioId{};
  std::vector<SessionId> live;                // sessions the engine has open (closed in this order by the shutdown drain)
  std::function<void()> deleter;
  std::map<int, SessionId> sidOfThread;       // connectSync: session created by app thread i (keyed by DetSched tid)
  StartResult start() override { run = true; return StartResult::ok(); }
  bool isRunning() const override { return run.load(); }
  std::thread::id getIoThreadId() const override { return ioId; }
  void stop() override
  {
    bool exp = true;
    if (!run.compare_exchange_strong(exp, false)) return;          // like TcpEngine::stop: a CAS no-op when already stopped
    if (g && g->sched) mark('K', "engine.stop");
    std::unique_lock<std::mutex> lk(em);
    ecv.notify_all();                                               // "enqueue(Shutdown)"
    ecv.wait(lk, [this] { return ioExited; });                      // "_loop.join()"
  }
  void detachForTermination() override { run = false; std::lock_guard<std::mutex> lk(em); ecv.notify_all(); }
  void scheduleSelfDestruct(std::function<void()> d) override { deleter = std::move(d); }
  ConnectResult connect(const std::string&, std::uint16_t, TlsMode) override
  {
    SessionId s = next++;
    sidOfThread[ds::self()] = s;
    if (g && g->sched) mark('K', "created:" + std::to_string(s));
    return ConnectResult::ok(s);
  }
  bool close(SessionId sid) override
  {
    if (g && g->sched) mark('K', "engineClose:" + std::to_string(sid));
    return true;
  }
};

std::string resName(TransportError c)
{
  if (c == TransportError::Timeout) return "timeout";
  if (c == TransportError::ShuttingDown) return "shuttingDown";
  if (c == TransportError::PeerClosed) return "peerClosed";
  return std::string("other-") + errName(c);
}

struct Prog
{
  std::vector<std::vector<std::string>> threads;   // thread 0 = I/O thread script
  std::vector<SessionId> live;
  std::vector<SessionId> flushSids;
};

std::atomic<int> g_returned{0};
int g_napps = 0;

// wait until every application thread is either parked/counted inside the transport or has returned (the contract under which
// destruction may begin: nobody is about to BEGIN a call)
void waitAllInside()
{
  for (int k = 0; k < 4000; ++k)
  {
    std::size_t n;
    {
      std::lock_guard<std::mutex> lk(g->impl->syncMutex);
      n = g->impl->activeReceives + g->impl->activeConnects + g->impl->activeFlushes;
    }
    if (static_cast<int>(n) + g_returned.load() >= g_napps) return;
    ds::yield_point("wait-inside");
  }
}

void fireClose(SessionId sid)
{
  auto& lv = g->e->live;
  lv.erase(std::remove(lv.begin(), lv.end(), sid), lv.end());
  g->e->cbs.onClose(sid, TransportErrorInfo{TransportError::PeerClosed, "closed"});
}

void ioThread(const std::vector<std::string>& ops)
{
  TdEngine* e = g->e;       // the engine outlives the Transport wrapper on every path until the very end of this function
  World* w = g;
  for (auto& op : ops)
  {
    if (!e->run.load()) break;
    u64 a = 0;
    if (op[0] == 'c' && vh::parseNat(op.substr(2), a))
    {
      if (std::find(e->live.begin(), e->live.end(), a) == e->live.end()) continue;
      mark('B', "ioclose " + std::to_string(a));
      fireClose(a);
      mark('E', "-");
    }
    else if (op[0] == 'o' && vh::parseNat(op.substr(2), a))
    {
      // complete the connectSync of application thread index a (if it has created its session)
      SessionId sid = 0;
      for (auto& kv : e->sidOfThread) if (kv.first == static_cast<int>(a) + 2) sid = kv.second;   // tid = index + 2 (0 main, 1 I/O)
      if (!sid) { ds::yield_point("no-sid-yet"); continue; }
      mark('B', "ioconn " + std::to_string(a));
      e->cbs.onConnect(sid, TransportAddress{});
      mark('E', "-");
    }
    else if (op[0] == 'x' && vh::parseNat(op.substr(2), a))
    {
      // the sole owner releases the transport inside the close callback of session a (on this, the I/O thread)
      if (std::find(e->live.begin(), e->live.end(), a) == e->live.end()) continue;
      waitAllInside();
      w->selfDestructOn = a;
      mark('B', "ioclose " + std::to_string(a));
      fireClose(a);
      mark('E', "-");
    }
    else if (op == "y") ds::yield_point("y");
    else if (op == "w")
    {
      // idle until a shutdown is requested (or for a while)
      std::unique_lock<std::mutex> lk(e->em);
      e->ecv.wait_for(lk, std::chrono::milliseconds(5), [e] { return !e->run.load(); });
    }
  }
  // wait for the shutdown request
  {
    std::unique_lock<std::mutex> lk(e->em);
    e->ecv.wait(lk, [e] { return !e->run.load(); });
  }
  // shutdown drain: onClose for every session still open, then terminate; the self-destruct deleter runs last
  while (!e->live.empty())
  {
    SessionId sid = e->live.front();
    mark('B', "iodrain " + std::to_string(sid));
    fireClose(sid);
    mark('E', "-");
  }
  mark('B', "ioexit");
  std::function<void()> del;
  del.swap(e->deleter);
  {
    std::lock_guard<std::mutex> lk(e->em);
    e->ioExited = true;
    e->ecv.notify_all();
  }
  if (del)
  {
    del();                       // deletes Impl, which owns the engine: nothing of `e` may be touched afterwards
    w->destroyed = true;
    mark('C', "destroyed");
  }
  mark('E', "-");
}

void appThread(const std::vector<std::string>& ops, int idx)
{
  for (auto& op : ops)
  {
    std::vector<std::string> p;
    { std::string cur; for (char c : op) { if (c == ':') { p.push_back(cur); cur.clear(); } else cur += c; } p.push_back(cur); }
    u64 a = 0, b = 0;
    if (p[0] == "r" && p.size() == 3 && vh::parseNat(p[1], a) && vh::parseNat(p[2], b))
    {
      mark('B', "recv " + std::to_string(idx));
      std::uint8_t buf[16];
      std::size_t n = sizeof buf;
      auto r = g->t.get()->receiveSync(a, buf, n, std::chrono::milliseconds(b));
      g_returned++;
      mark('E', "ret:" + std::to_string(idx) + ":" + (r.isOk() ? std::string("data") : resName(r.error().code)));
    }
    else if (p[0] == "k" && p.size() == 2 && vh::parseNat(p[1], a))
    {
      mark('B', "conn " + std::to_string(idx));
      auto r = g->t.get()->connectSync("127.0.0.1", 9, TlsMode::None, std::chrono::milliseconds(a));
      g_returned++;
      mark('E', "ret:" + std::to_string(idx) + ":" + (r.isOk() ? std::string("completed") : resName(r.error().code)));
    }
    else if (p[0] == "m" && p.size() == 2 && vh::parseNat(p[1], a))
    {
      mark('B', "flush " + std::to_string(idx));
      bool ok = g->t.get()->setReadMode(a, ReadMode::Async);
      g_returned++;
      mark('E', "ret:" + std::to_string(idx) + ":flushed:" + (ok ? "1" : "0"));
    }
    else if (p[0] == "D")
    {
      // drop the last reference from this (non-I/O) thread once nobody is about to begin a call
      waitAllInside();
      mark('B', "destroy");
      std::shared_ptr<Transport> last = std::move(g->t);
      last.reset();
      g->destroyed = true;
      mark('E', "destroyed");
    }
    else if (p[0] == "S")
    {
      mark('B', "stop");
      g->t.get()->stop();
      mark('E', "stopReturned");
    }
    else if (p[0] == "F")
    {
      mark('B', "fenceonly");
      g->impl->setTeardownFence();
      mark('E', "-");
    }
    else if (p[0] == "y") ds::yield_point("y");
    else if (p[0] == "W") waitAllInside();
    else if (p[0] == "Z")
    {
      // a late caller: wait until teardown has set the fence
      for (int k = 0; k < 2000; ++k)
      {
        bool sh;
        { std::lock_guard<std::mutex> lk(g->impl->syncMutex); sh = g->impl->shuttingDown; }
        if (sh) break;
        ds::yield_point("wait-fence");
      }
    }
  }
}

std::string runSched(const std::vector<std::string>& t)
{
#ifdef TSYNC_NO_DETSCHED
  return "no-detsched";
#else
  // sched <seed|c:…> <timeoutOneIn> <spuriousOneIn> live <s1,s2|-> flush <s|-> cby <n> t <io ops…> t <app ops…> …
  if (t.size() < 11 || t[4] != "live" || t[6] != "flush" || t[8] != "cby") return "bad-op";
  u64 toIn = 0, spIn = 0, cby = 0;
  if (!vh::parseNat(t[2], toIn) || !vh::parseNat(t[3], spIn) || !vh::parseNat(t[9], cby)) return "bad-op";
  Prog prog;
  auto parseList = [](const std::string& s, std::vector<SessionId>& out) {
    if (s == "-") return;
    std::string cur;
    for (char c : s + ",") { if (c == ',') { if (!cur.empty()) out.push_back(std::stoull(cur)); cur.clear(); } else cur += c; }
  };
  parseList(t[5], prog.live);
  parseList(t[7], prog.flushSids);
  for (std::size_t i = 10; i < t.size(); ++i)
  {
    if (t[i] == "t") prog.threads.push_back({});
    else if (prog.threads.empty()) return "bad-op";
    else prog.threads.back().push_back(t[i]);
  }
  if (prog.threads.empty()) return "bad-op";
  // world
  g = new World();     // a previous world is leaked on purpose (its threads may be parked for ever after a dead-lock)
  World* w = g;
  TransportConfig cfg;
  cfg.protocol = Protocol::TCP;
  auto fe = std::make_unique<TdEngine>();
  w->e = fe.get();
  w->e->next = 100;                  // ids handed out by connect() must not collide with the scripted live sessions
  w->e->live = prog.live;
  w->t = iora::network::test::TransportEngineInjector::withEngine(std::move(fe), cfg);
  w->impl = w->t->_impl.get();
  w->t->start();
  w->cbYields = static_cast<int>(cby);
  w->t->onData([w](SessionId, iora::core::BufferView, std::chrono::steady_clock::time_point) {
    mark('C', "cbdata");
    for (int k = 0; k < w->cbYields; ++k) ds::yield_point("in-data-callback");
  });
  w->t->onClose([w](SessionId sid, const TransportErrorInfo&) {
    mark('C', "gclose:" + std::to_string(sid));
    if (w->selfDestructOn == sid && w->t)
    {
      mark('B', "selfdestruct");
      std::shared_ptr<Transport> last = std::move(w->t);
      last.reset();                 // ~Transport on the I/O thread: deferred self-destruction
      mark('E', "-");
    }
  });
  // sessions that will be flushed: Sync mode with two buffered chunks
  for (auto sid : prog.flushSids)
  {
    w->t->setReadMode(sid, ReadMode::Sync);
    std::uint8_t d[3] = {1, 2, 3};
    w->e->cbs.onData(sid, iora::core::BufferView{d, 3}, std::chrono::steady_clock::now());
  }
  g_returned = 0;
  g_napps = 0;
  for (std::size_t i = 1; i < prog.threads.size(); ++i)
    for (auto& op : prog.threads[i]) if (op[0] == 'r' || op[0] == 'k' || op[0] == 'm') g_napps++;
  marks().clear();
  w->sched = true;
  ds::Options opt;
  opt.timeoutOneIn = static_cast<unsigned>(toIn);
  opt.spuriousOneIn = static_cast<unsigned>(spIn);
  opt.maxSteps = 60000;
  ds::options(opt);
  if (t[1].rfind("c:", 0) == 0)
  {
    std::vector<std::uint32_t> ch;
    std::string cur;
    for (char c : t[1].substr(2) + ",") { if (c == ',') { if (!cur.empty()) ch.push_back(static_cast<std::uint32_t>(std::stoul(cur))); cur.clear(); } else cur += c; }
    ds::init(ch);
  }
  else
  {
    u64 seed = 0;
    if (!vh::parseNat(t[1], seed)) return "bad-op";
    ds::init(static_cast<std::uint64_t>(seed));
  }
  int iSyncIdxHolder = -1;
  void* syncHandle = w->impl->syncMutex.native_handle();
  void* tdCvHandle = w->impl->teardownCv.native_handle();
  bool ok = ds::run([&] {
    std::thread io([&] { w->e->ioId = std::this_thread::get_id(); ioThread(prog.threads[0]); });
    std::vector<std::thread> th;
    for (std::size_t i = 1; i < prog.threads.size(); ++i)
      th.emplace_back([&, i] { appThread(prog.threads[i], static_cast<int>(i) - 1); });
    for (auto& x : th) x.join();
    // whatever is left is torn down by the main thread (non-I/O) so that the I/O thread terminates
    if (w->t)
    {
      mark('B', "destroy");
      std::shared_ptr<Transport> last = std::move(w->t);
      last.reset();
      w->destroyed = true;
      mark('E', "destroyed");
    }
    io.join();
  });
  (void)iSyncIdxHolder;
  w->sched = false;
  std::string status = ok ? "ok" : ds::deadlocked() ? "deadlock" : ds::stepLimit() ? "steplimit" : "diverged";
  int iSync = ds::object_index(syncHandle);
  int iTdCv = ds::object_index(tdCvHandle);
  // ---- merge marks and DetSched events into model steps
  struct Cur { std::string kind; std::vector<std::string> args; bool active = false; long last = -1; int nlock = 0; std::string pendingObs; bool sd = false; };
  std::map<int, std::vector<Cur>> stack;     // per thread: ops can nest (self-destruct inside a close handler)
  std::vector<StepLine> steps;
  const auto& tr = ds::trace();
  const auto& ms = marks();
  std::size_t mi = 0;
  auto push = [&](int tid, const std::string& st, const std::string& obs) {
    steps.push_back(StepLine{tid, st, obs});
    return static_cast<long>(steps.size()) - 1;
  };
  auto addObs = [&](long idx, const std::string& o) {
    if (idx < 0 || o == "-" || o.empty()) return;
    if (steps[idx].observed == "-") steps[idx].observed = o; else steps[idx].observed += ";" + o;
  };
  auto handleMark = [&](const Mark& m) {
    auto& st = stack[m.tid];
    if (m.kind == 'B')
    {
      Cur c;
      c.active = true;
      c.args = vh::split(m.text);
      c.kind = c.args[0];
      if (c.kind == "stop") c.last = push(m.tid, "stopCall", "-");
      if (c.kind == "selfdestruct" && !st.empty()) st.back().sd = true;
      st.push_back(c);
      return;
    }
    if (st.empty()) return;
    Cur& c = st.back();
    if (m.kind == 'E')
    {
      if (c.kind == "stop") { c.last = push(m.tid, "stopJoin", "-"); addObs(c.last, m.text); }
      else if (c.kind == "destroy") { c.last = push(m.tid, "tdDestroy", "-"); addObs(c.last, m.text); }
      else if (c.kind == "ioexit") { c.last = push(m.tid, "ioDrain", c.pendingObs.empty() ? "-" : c.pendingObs); }
      else addObs(c.last, m.text);
      st.pop_back();
    }
    else if (m.kind == 'K')
    {
      if (m.text.rfind("engineClose:", 0) == 0 && c.kind == "conn") c.last = push(m.tid, "connClose " + c.args[1], "-");
      else if (m.text == "engine.stop" && c.kind == "destroy") c.last = push(m.tid, "tdStop", "-");
    }
    else if (m.kind == 'C')
    {
      if (m.text == "cbdata" && c.kind == "flush")
      {
        if (c.last >= 0) steps[c.last].step = "flushStep " + c.args[1] + " 1";
        c.last = push(m.tid, "flushStep " + c.args[1] + " 0", "cb:" + c.args[1]);
      }
      else c.pendingObs = c.pendingObs.empty() ? m.text : c.pendingObs + ";" + m.text;   // gclose / destroyed: attached to the next step of this op
    }
  };
  for (std::size_t i = 0; i <= tr.size(); ++i)
  {
    while (mi < ms.size() && ms[mi].at <= i) handleMark(ms[mi++]);
    if (i == tr.size()) break;
    const ds::Event& e = tr[i];
    auto& st = stack[e.tid];
    if (st.empty()) continue;
    Cur& c = st.back();
    bool lockSync = e.kind == ds::LOCK && e.obj == iSync;
    bool reacqSync = e.kind == ds::REACQ && e.obj == iSync;
    if (!lockSync && !reacqSync) continue;
    std::string s;
    if (c.kind == "recv")
    {
      if (lockSync) s = c.nlock == 0 ? "enter " + c.args[1] : "unexpected-lock";
      else s = "wake " + c.args[1] + " " + (e.detail ? "1" : "0");
    }
    else if (c.kind == "conn")
    {
      if (lockSync) s = c.nlock == 0 ? "enter " + c.args[1] : c.nlock == 1 ? "connRelock " + c.args[1] : "unexpected-lock";
      else s = "wake " + c.args[1] + " " + (e.detail ? "1" : "0");
    }
    else if (c.kind == "flush")
    {
      if (lockSync) s = c.nlock == 0 ? "" : c.nlock == 1 ? "enter " + c.args[1] : "flushStep " + c.args[1] + " 0";   // 1st section = step 1 of setReadMode
    }
    else if (c.kind == "ioclose") { if (lockSync) s = c.nlock == 1 ? (c.sd ? "ioDrain " : "ioCloseSess ") + c.args[1] : ""; }
    else if (c.kind == "iodrain") { if (lockSync) s = c.nlock == 1 ? "ioDrain " + c.args[1] : ""; }
    else if (c.kind == "ioconn") { if (lockSync) s = c.nlock == 0 ? "ioConnDone " + c.args[1] : ""; }
    else if (c.kind == "destroy")
    {
      if (lockSync) s = c.nlock == 0 ? "tdBegin" : c.nlock == 1 ? "tdJoined" : "unexpected-lock";
      else s = "tdWake";
    }
    else if (c.kind == "selfdestruct")
    {
      if (lockSync) s = c.nlock == 0 ? "ioSelfDestruct" : "unexpected-lock";
      else s = "tdWake";
    }
    else if (c.kind == "fenceonly") { if (lockSync) s = c.nlock == 0 ? "tdBegin" : "unexpected-lock"; }
    if (lockSync) c.nlock++;
    if (s.empty()) continue;
    c.last = push(e.tid, s, c.pendingObs.empty() ? "-" : c.pendingObs);
    c.pendingObs.clear();
  }
  (void)iTdCv;
  std::string out = status + " |";
  for (auto& s : steps)
  {
    std::string x = s.step;
    for (char& ch : x) if (ch == ' ') ch = ',';
    out += " " + std::to_string(s.tid) + "," + x + "=>" + s.observed;
  }
  out += " | " + ds::choicesString() + " | destroyed=" + (w->destroyed.load() ? "1" : "0");
  if (!ok)
  {
    std::string rep = ds::report();
    for (char& ch : rep) if (ch == '\n') ch = '/';
    out += " | " + rep;
    if (w->t) new std::shared_ptr<Transport>(w->t);
  }
  return out;
#endif
}

// ------------------------------------------------------------------------------------------------------------------
// storm <seed> <rounds> <threads>: real TcpEngine on loopback. Each round: start, a listener, worker threads hammer
// addListener/connect/connectSync/send/close/receiveSync while another thread stops (and in half of the rounds destroys) the
// transport. Facts checked: every call returns (watchdog), addListener returns ok or a definite error, no global callback is
// invoked after stop() returned to its (non-callback) caller.
std::string runStorm(const std::vector<std::string>& t)
{
  u64 seed = 0, rounds = 0, nthr = 0;
  if (t.size() != 4 || !vh::parseNat(t[1], seed) || !vh::parseNat(t[2], rounds) || !vh::parseNat(t[3], nthr)) return "bad-op";
  std::mt19937_64 rng(seed);
  int badResults = 0, lateCallbacks = 0, stuck = 0;
  long calls = 0, stranded = 0;
  for (u64 r = 0; r < rounds; ++r)
  {
    TransportConfig cfg;
    cfg.protocol = Protocol::TCP;
    auto tr = Transport::tcp(cfg);
    std::atomic<bool> stopped{false};
    std::atomic<int> late{0};
    std::mutex idm;
    std::set<SessionId> closedIds;                 // ids that got the global onClose
    std::vector<SessionId> okIds;                  // ids connect()/connectSync returned ok for
    auto cb = [&] { if (stopped.load()) late++; };
    tr->onAccept([&](SessionId, const TransportAddress&) { cb(); });
    tr->onConnect([&](SessionId, const TransportAddress&) { cb(); });
    tr->onData([&](SessionId, iora::core::BufferView, std::chrono::steady_clock::time_point) { cb(); });
    tr->onClose([&](SessionId sid, const TransportErrorInfo&) { cb(); std::lock_guard<std::mutex> lk(idm); closedIds.insert(sid); });
    if (!tr->start().isOk()) { badResults++; continue; }
    auto l0 = tr->addListener("127.0.0.1", 0, TlsMode::None);
    std::uint16_t port = 0;
    if (l0.isOk()) port = tr->getListenerAddress(l0.value()).port;
    std::atomic<bool> go{true};
    std::atomic<long> ncalls{0};
    std::atomic<int> bad{0};
    std::vector<std::thread> th;
    Transport* raw = tr.get();
    bool destroy = (rng() & 1) != 0;
    for (u64 k = 0; k < nthr; ++k)
    {
      std::uint64_t s2 = rng();
      th.emplace_back([&, s2, raw] {
        std::mt19937_64 r2(s2);
        // worker threads keep their own reference unless this round destroys the transport under parked calls
        std::shared_ptr<Transport> keep = tr;
        SessionId last = 0;
        while (go.load())
        {
          switch (r2() % 6)
          {
            case 0: { auto x = raw->addListener("127.0.0.1", 0, TlsMode::None);
                      if (x.isErr() && x.error().code != TransportError::ShuttingDown && x.error().code != TransportError::Bind) bad++; break; }
            case 1: { auto x = raw->connect("127.0.0.1", port, TlsMode::None);
                      if (x.isOk()) { last = x.value(); std::lock_guard<std::mutex> lk(idm); okIds.push_back(last); } break; }
            case 2: { auto x = raw->connectSync("127.0.0.1", port, TlsMode::None, std::chrono::milliseconds(20));
                      if (x.isOk()) { last = x.value(); std::lock_guard<std::mutex> lk(idm); okIds.push_back(last); } break; }
            case 3: { std::uint8_t b[4] = {1, 2, 3, 4}; if (last) raw->send(last, iora::core::BufferView{b, 4}); break; }
            case 4: { if (last) raw->close(last); break; }
            case 5: { std::uint8_t b[8]; std::size_t n = 8; if (last) { raw->setReadMode(last, ReadMode::Sync);
                      raw->receiveSync(last, b, n, std::chrono::milliseconds(5)); } break; }
          }
          ncalls++;
        }
      });
    }
    std::this_thread::sleep_for(std::chrono::milliseconds(2 + rng() % 6));
    tr->stop();
    stopped = true;
    go = false;
    auto t0 = std::chrono::steady_clock::now();
    for (auto& x : th) x.join();
    if (std::chrono::steady_clock::now() - t0 > std::chrono::seconds(20)) stuck++;
    (void)destroy;
    {
      // every id handed to the application must have been closed by the time stop() has returned (and the callers are back)
      std::lock_guard<std::mutex> lk(idm);
      for (auto id : okIds) if (!closedIds.count(id)) stranded++;
    }
    tr.reset();
    calls += ncalls.load();
    badResults += bad.load();
    lateCallbacks += late.load();
  }
  return "storm rounds=" + std::to_string(rounds) + " calls>0=" + (calls > 0 ? "1" : "0") + " bad=" + std::to_string(badResults) + " late=" +
         std::to_string(lateCallbacks) + " stuck=" + std::to_string(stuck) + " stranded=" + std::to_string(stranded);
}

// cstorm <seed> <rounds> <threads>: real TcpEngine, worker threads call connect() in a tight loop (to a port nobody listens on)
// while the main thread calls stop() a few hundred microseconds later. Every id for which connect() returned ok must have got
// its onClose by the time stop() has returned and the workers are back: an enqueue that lands after the shutdown drain took the
// residual commands must be refused, not accepted into a queue nobody reads again.
std::string runConnectStorm(const std::vector<std::string>& t)
{
  u64 seed = 0, rounds = 0, nthr = 0;
  if (t.size() != 4 || !vh::parseNat(t[1], seed) || !vh::parseNat(t[2], rounds) || !vh::parseNat(t[3], nthr)) return "bad-op";
  std::mt19937_64 rng(seed);
  long stranded = 0, total = 0, late = 0;
  int roundsHit = 0;
  for (u64 r = 0; r < rounds; ++r)
  {
    TransportConfig cfg;
    cfg.protocol = Protocol::TCP;
    auto tr = Transport::tcp(cfg);
    std::mutex idm;
    std::set<SessionId> reported;
    std::atomic<bool> stopped{false};
    std::atomic<long> lateCb{0};
    tr->onConnect([&](SessionId sid, const TransportAddress&) { if (stopped.load()) lateCb++; std::lock_guard<std::mutex> lk(idm); reported.insert(sid); });
    tr->onClose([&](SessionId sid, const TransportErrorInfo&) { if (stopped.load()) lateCb++; std::lock_guard<std::mutex> lk(idm); reported.insert(sid); });
    if (!tr->start().isOk()) return "storm-start-failed";
    std::atomic<bool> go{false};
    std::vector<std::vector<SessionId>> oks(nthr);
    std::vector<std::thread> th;
    Transport* raw = tr.get();
    for (u64 w = 0; w < nthr; ++w)
      th.emplace_back([&, w, raw] {
        while (!go.load()) std::this_thread::yield();
        for (int i = 0; i < 200000; ++i)
        {
          auto x = raw->connect("127.0.0.1", 1, TlsMode::None);
          if (!x.isOk()) break;            // the queue is closed: the engine has been stopped
          oks[w].push_back(x.value());
        }
      });
    go = true;
    std::this_thread::sleep_for(std::chrono::microseconds(100 + rng() % 600));
    tr->stop();
    stopped = true;
    for (auto& x : th) x.join();
    long miss = 0;
    {
      std::lock_guard<std::mutex> lk(idm);
      for (auto& v : oks) for (auto id : v) { total++; if (!reported.count(id)) miss++; }
    }
    if (miss) roundsHit++;
    stranded += miss;
    late += lateCb.load();
    tr.reset();
  }
  return "cstorm rounds=" + std::to_string(rounds) + " ids>0=" + (total > 0 ? "1" : "0") + " stranded=" + std::to_string(stranded) +
         " roundsWithStranded=" + std::to_string(roundsHit) + " late=" + std::to_string(late);
}

// latch: deterministic variant. One loopback session is established; its shutdown-drain onClose callback issues a connect(),
// which becomes a RESIDUAL command of the drain; when that residual connect's onClose(ShuttingDown) callback runs, the I/O
// thread is held inside it while a second thread calls connect() and send(). The queue must already be closed: connect() must
// return an error (or, if it returns ok, the id must still get its onClose), send() must return false.
std::string runLatch()
{
  TransportConfig cfg;
  cfg.protocol = Protocol::TCP;
  auto tr = Transport::tcp(cfg);
  std::mutex m;
  std::condition_variable cv;
  bool windowOpen = false, t2Done = false;
  std::set<SessionId> closed;
  std::atomic<int> accepted{0}, connected{0};
  std::atomic<bool> armed{false}, issued{false};
  std::atomic<SessionId> idA{0};
  Transport* raw = tr.get();
  tr->onAccept([&](SessionId, const TransportAddress&) { accepted++; });
  tr->onConnect([&](SessionId, const TransportAddress&) { connected++; });
  tr->onClose([&](SessionId sid, const TransportErrorInfo& e) {
    { std::lock_guard<std::mutex> lk(m); closed.insert(sid); }
    if (!armed.load()) return;
    if (e.code == TransportError::ShuttingDown && sid == idA.load() && idA.load() != 0)
    {
      // residual connect being reported: hold the I/O thread here while the second thread runs
      std::unique_lock<std::mutex> lk(m);
      windowOpen = true;
      cv.notify_all();
      cv.wait_for(lk, std::chrono::seconds(5), [&] { return t2Done; });
      return;
    }
    bool exp = false;
    if (issued.compare_exchange_strong(exp, true))
    {
      auto r = raw->connect("127.0.0.1", 1, TlsMode::None);   // issued from a close callback of the drain
      if (r.isOk()) idA = r.value();
    }
  });
  if (!tr->start().isOk()) return "latch-start-failed";
  auto l0 = tr->addListener("127.0.0.1", 0, TlsMode::None);
  if (!l0.isOk()) return "latch-listen-failed";
  std::uint16_t port = tr->getListenerAddress(l0.value()).port;
  auto c0 = tr->connect("127.0.0.1", port, TlsMode::None);
  for (int k = 0; k < 1500 && !(accepted.load() >= 1 && connected.load() >= 1); ++k) std::this_thread::sleep_for(std::chrono::milliseconds(2));
  if (!c0.isOk() || accepted.load() < 1 || connected.load() < 1) return "latch-setup-failed";
  armed = true;
  bool connOk = false, sendOk = false, ran = false;
  SessionId idB = 0;
  std::thread t2([&] {
    {
      std::unique_lock<std::mutex> lk(m);
      if (!cv.wait_for(lk, std::chrono::seconds(5), [&] { return windowOpen; })) { t2Done = true; cv.notify_all(); return; }
    }
    ran = true;
    auto r = raw->connect("127.0.0.1", 1, TlsMode::None);
    if (r.isOk()) { connOk = true; idB = r.value(); }
    std::uint8_t b[2] = {1, 2};
    sendOk = raw->send(c0.value(), iora::core::BufferView{b, 2});
    std::lock_guard<std::mutex> lk(m);
    t2Done = true;
    cv.notify_all();
  });
  tr->stop();
  t2.join();
  bool strandedB;
  {
    std::lock_guard<std::mutex> lk(m);
    strandedB = connOk && !closed.count(idB);
  }
  tr.reset();
  return std::string("latch window=") + (ran ? "1" : "0") + " connectAccepted=" + (connOk ? "1" : "0") + " stranded=" + (strandedB ? "1" : "0") +
         " sendAccepted=" + (sendOk ? "1" : "0");
}

std::string stepOp(const std::vector<std::string>& t)
{
  if (t.empty()) return "bad-op";
  if (t[0] == "sched") return runSched(t);
  if (t[0] == "storm") return runStorm(t);
  if (t[0] == "cstorm") return runConnectStorm(t);
  if (t[0] == "latch") return runLatch();
  return "bad-op";
}
} // namespace

int main()
{
  return vh::runLines([](const std::vector<std::string>& t) -> std::string {
    try { return stepOp(t); }
    catch (const std::exception& ex)
    {
      int st = 0;
      char* n = abi::__cxa_demangle(typeid(ex).name(), nullptr, nullptr, &st);
      std::string s = std::string("throw ") + (n ? n : typeid(ex).name());
      std::free(n);
      return s;
    }
  });
}
