// Correspondence / exploration harness for C05: the REAL Transport teardown handshake (transport_impl.hpp: ParkGuard/FlushGuard,
// FlushFrame, setTeardownFence, teardownWaitOut, performTeardown, all three branches of ~Transport — ordinary thread, I/O thread
// inside a callback, flusher inside its data callback —, Transport::stop, the I/O-thread guards of the synchronous operations)
// with application threads parked in the REAL receiveSync / connectSync / setReadMode flush, over a scripted engine whose stop()
// behaves like TcpEngine::stop (CAS, shutdown drain with onClose per live session on the I/O thread, join).
//   `sched …`  a 3-8 thread program under DetSched; the answer is the sequence of model steps (Model/Teardown.lean) the run
//              performed with what the implementation was observed to do in each.  Built with ASan: touching a destroyed Impl aborts.
//   `storm …`  (no DetSched) real TcpEngine / UdpEngine on loopback: rounds of stop, destruction under parked calls, stop/start
//              cycles and sole-owner self-destruction inside a close callback on the real I/O thread, with concurrent
//              addListener/connect/send/close and parked sync calls; only schedule-independent safety facts are checked (every call
//              returns, definite results, no callback after stop() returned, a receiver parked before an I/O-thread self-destruct
//              is notified, Impl is deleted by the thread epilogue); ASan/TSan builds are the failing-input search (DESIGN §7 C05).
//   `cstorm …` connect() storms against stop(); `latch tcp|udp` deterministic windows inside the shutdown drain.
//   `startwindow tcp` deterministic window inside start() of a restart (interposed eventfd()): a stale TimerService handler's enqueue (FC05c).
//   `timerstop tcp <variant>:<timeoutMs>:<after>:<observeMs> …` stop() while safety-net timers (connect / TLS handshake / write
//              stall) of a session are still pending on the engine's TimerService thread; every callback is recorded with the
//              thread role it ran on (api / io / timer), callbacks that start after stop() returned are `late`.
#include <arpa/inet.h>
#include <netinet/in.h>
#include <pthread.h>
#include <sys/socket.h>
#include <unistd.h>
#include "tsync_common.hpp"
#ifdef TSYNC_NO_DETSCHED
// ThreadSanitizer build: DetSched is not linked (it and TSan both intercept pthread_*); only the storm ops are available
namespace ds {
bool active() { return false; }
int self() { return -1; }
const std::vector<Event>& trace() { static std::vector<Event> t; return t; }
void yield_point(const char*) { std::this_thread::yield(); }
}
#endif

using namespace ts;

// ---- interposed eventfd() (op `startwindow`): armed for exactly one call; the hook runs on the calling thread BEFORE the real call ----
#include <dlfcn.h>
#include <sys/eventfd.h>
namespace swin {
std::atomic<bool> armed{false};
std::function<void()> hook;
}
extern "C" int eventfd(unsigned int initval, int flags)
{
  using Fn = int (*)(unsigned int, int);
  static Fn real = reinterpret_cast<Fn>(dlsym(RTLD_NEXT, "eventfd"));
  bool exp = true;
  if (swin::armed.compare_exchange_strong(exp, false) && swin::hook) swin::hook();
  return real(initval, flags);
}

namespace {

struct TdEngine;
struct World
{
  std::shared_ptr<Transport> t;
  TdEngine* e = nullptr;
  Transport::Impl* impl = nullptr;   // raw: polled by the harness while the object is known to be alive
  bool sched = false;
  std::atomic<bool> destroyed{false};
  SessionId selfDestructOn = 0;      // the close callback of this session drops the last reference (on the I/O thread)
  SessionId flushSelfDestructOn = 0; // the data callback of the flush of this session drops the last reference (on the flusher)
  SessionId probeOn = 0;             // the close callback of this session calls every synchronous operation (I/O-thread guards)
  bool orphaned = false;             // ~Transport ran inside a flush callback: Impl is deleted when that flush unwinds
  std::atomic<bool> stopDone{false}; // a stop() issued by the program has returned
  std::map<SessionId, int> flushIdx; // flusher thread index per flushed session
  int cbYields = 0;
};
World* g = nullptr;

// what stop() and the I/O thread synchronise on lives OUTSIDE the engine object, as the kernel thread that `_loop.join()` waits
// for does: in the out-of-contract program `drainsd` the engine is deleted by the I/O thread's epilogue while a stopper is still
// inside stop()
struct EngSync
{
  std::mutex em;
  std::condition_variable ecv;
  bool ioExited = false;
};

struct TdEngine : vh::FakeEngine
{
  std::shared_ptr<EngSync> sy = std::make_shared<EngSync>();
  std::atomic<bool> run{false};
  std::thread::id ioId{};
  std::vector<SessionId> live;                // sessions the engine has open (closed in this order by the shutdown drain)
  std::function<void()> deleter;
  std::map<int, SessionId> sidOfThread;       // connectSync: session created by app thread i (keyed by DetSched tid)
  StartResult start() override { run = true; return StartResult::ok(); }
  bool isRunning() const override { return run.load(); }
  std::thread::id getIoThreadId() const override { return ioId; }
  void stop() override
  {
    bool exp = true;
    if (!run.compare_exchange_strong(exp, false)) return;          // like TcpEngine::stop: a CAS no-op when already stopped
    if (g && g->sched) mark('K', "engine.stop");
    std::shared_ptr<EngSync> s = sy;
    std::unique_lock<std::mutex> lk(s->em);
    s->ecv.notify_all();                                            // "enqueue(Shutdown)"
    s->ecv.wait(lk, [&s] { return s->ioExited; });                  // "_loop.join()"
  }
  void detachForTermination() override { run = false; std::lock_guard<std::mutex> lk(sy->em); sy->ecv.notify_all(); }
  void scheduleSelfDestruct(std::function<void()> d) override { deleter = std::move(d); }
  ConnectResult connect(const std::string&, std::uint16_t, TlsMode) override
  {
    SessionId s = next++;
    sidOfThread[ds::self()] = s;
    if (g && g->sched) mark('K', "created:" + std::to_string(s));
    return ConnectResult::ok(s);
  }
  bool close(SessionId sid) override
  {
    if (g && g->sched) mark('K', "engineClose:" + std::to_string(sid));
    return true;
  }
};

std::string resName(TransportError c)
{
  if (c == TransportError::Timeout) return "timeout";
  if (c == TransportError::ShuttingDown) return "shuttingDown";
  if (c == TransportError::PeerClosed) return "peerClosed";
  return std::string("other-") + errName(c);
}

struct Prog
{
  std::vector<std::vector<std::string>> threads;   // thread 0 = I/O thread script
  std::vector<SessionId> live;
  std::vector<SessionId> flushSids;
};

std::atomic<int> g_returned{0};
int g_napps = 0;

// wait until every application thread is either parked/counted inside the transport or has returned (the contract under which
// destruction may begin: nobody is about to BEGIN a call)
void waitAllInside()
{
  for (int k = 0; k < 4000; ++k)
  {
    std::size_t n;
    {
      std::lock_guard<std::mutex> lk(g->impl->syncMutex);
      n = g->impl->activeReceives + g->impl->activeConnects + g->impl->activeFlushes;
    }
    if (static_cast<int>(n) + g_returned.load() >= g_napps) return;
    ds::yield_point("wait-inside");
  }
}

// every synchronous operation called from a callback on the I/O thread must be refused by a throw, whatever `_running` is
void probeGuards(World* w, SessionId sid)
{
  Transport* t = w->t.get();
  if (!t) return;
  const char* names[4] = {"connectSync", "receiveSync", "sendSync", "setReadMode"};
  for (int k = 0; k < 4; ++k)
  {
    bool threw = false;
    mark('B', "probe");
    try
    {
      std::uint8_t b[4] = {1, 2, 3, 4};
      std::size_t n = 4;
      if (k == 0) (void)t->connectSync("127.0.0.1", 9, TlsMode::None, std::chrono::milliseconds(20));
      else if (k == 1) (void)t->receiveSync(sid + 700, b, n, std::chrono::milliseconds(20));
      else if (k == 2) (void)t->sendSync(sid, iora::core::BufferView{b, 4}, std::chrono::milliseconds(20));
      else (void)t->setReadMode(sid + 700, ReadMode::Async);
    }
    catch (const std::logic_error&) { threw = true; }
    mark('E', "-");
    mark('K', std::string("probe:") + names[k] + (threw ? ":refused" : ":entered"));
  }
}

void fireClose(SessionId sid)
{
  auto& lv = g->e->live;
  lv.erase(std::remove(lv.begin(), lv.end(), sid), lv.end());
  g->e->cbs.onClose(sid, TransportErrorInfo{TransportError::PeerClosed, "closed"});
}

void ioThread(const std::vector<std::string>& ops)
{
  TdEngine* e = g->e;       // the engine outlives the Transport wrapper on every path until the very end of this function
  World* w = g;
  std::shared_ptr<EngSync> sy = e->sy;
  for (auto& op : ops)
  {
    if (!e->run.load()) break;
    u64 a = 0;
    if ((op[0] == 'c' || op[0] == 'g') && vh::parseNat(op.substr(2), a))
    {
      if (std::find(e->live.begin(), e->live.end(), a) == e->live.end()) continue;
      if (op[0] == 'g') w->probeOn = a;
      mark('B', "ioclose " + std::to_string(a));
      fireClose(a);
      mark('E', "-");
    }
    else if (op[0] == 'o' && vh::parseNat(op.substr(2), a))
    {
      // complete the connectSync of application thread index a (if it has created its session)
      SessionId sid = 0;
      for (auto& kv : e->sidOfThread) if (kv.first == static_cast<int>(a) + 2) sid = kv.second;   // tid = index + 2 (0 main, 1 I/O)
      if (!sid) { ds::yield_point("no-sid-yet"); continue; }
      mark('B', "ioconn " + std::to_string(a));
      e->cbs.onConnect(sid, TransportAddress{});
      mark('E', "-");
    }
    else if (op[0] == 'x' && vh::parseNat(op.substr(2), a))
    {
      // the sole owner releases the transport inside the close callback of session a (on this, the I/O thread)
      if (std::find(e->live.begin(), e->live.end(), a) == e->live.end()) continue;
      waitAllInside();
      w->selfDestructOn = a;
      mark('B', "ioclose " + std::to_string(a));
      fireClose(a);
      mark('E', "-");
    }
    else if (op == "y") ds::yield_point("y");
    else if (op == "w")
    {
      // idle until a shutdown is requested (or for a while)
      std::unique_lock<std::mutex> lk(sy->em);
      sy->ecv.wait_for(lk, std::chrono::milliseconds(5), [e] { return !e->run.load(); });
    }
    // `X:<sid>` / `G:<sid>` take effect in the drain loop below
  }
  // wait for the shutdown request
  {
    std::unique_lock<std::mutex> lk(sy->em);
    sy->ecv.wait(lk, [e] { return !e->run.load(); });
  }
  // shutdown drain: onClose for every session still open, then terminate; the self-destruct deleter runs last
  while (!e->live.empty())
  {
    SessionId sid = e->live.front();
    if (w->selfDestructOn == sid && w->t) waitAllInside();
    mark('B', "iodrain " + std::to_string(sid));
    fireClose(sid);
    mark('E', "-");
  }
  mark('B', "ioexit");
  std::function<void()> del;
  del.swap(e->deleter);
  {
    std::lock_guard<std::mutex> lk(sy->em);
    sy->ioExited = true;
    sy->ecv.notify_all();
  }
  if (del)
  {
    del();                       // deletes Impl, which owns the engine: nothing of `e` may be touched afterwards
    w->destroyed = true;
    mark('C', "destroyed");
  }
  mark('E', "-");
}

void appThread(const std::vector<std::string>& ops, int idx)
{
  for (auto& op : ops)
  {
    std::vector<std::string> p;
    { std::string cur; for (char c : op) { if (c == ':') { p.push_back(cur); cur.clear(); } else cur += c; } p.push_back(cur); }
    u64 a = 0, b = 0;
    if (p[0] == "r" && p.size() == 3 && vh::parseNat(p[1], a) && vh::parseNat(p[2], b))
    {
      mark('B', "recv " + std::to_string(idx));
      std::uint8_t buf[16];
      std::size_t n = sizeof buf;
      auto r = g->t.get()->receiveSync(a, buf, n, std::chrono::milliseconds(b));
      g_returned++;
      mark('E', "ret:" + std::to_string(idx) + ":" + (r.isOk() ? std::string("data") : resName(r.error().code)));
    }
    else if (p[0] == "k" && p.size() == 2 && vh::parseNat(p[1], a))
    {
      mark('B', "conn " + std::to_string(idx));
      auto r = g->t.get()->connectSync("127.0.0.1", 9, TlsMode::None, std::chrono::milliseconds(a));
      g_returned++;
      mark('E', "ret:" + std::to_string(idx) + ":" + (r.isOk() ? std::string("completed") : resName(r.error().code)));
    }
    else if ((p[0] == "m" || p[0] == "M") && p.size() == 2 && vh::parseNat(p[1], a))
    {
      // `M`: the data callback of this flush releases the sole owner (FC05a)
      World* w = g;
      w->flushIdx[a] = idx;
      if (p[0] == "M") w->flushSelfDestructOn = a;
      mark('B', "flush " + std::to_string(idx));
      bool ok = w->t.get()->setReadMode(a, ReadMode::Async);
      g_returned++;
      std::string tail;
      if (w->orphaned && !w->destroyed.load()) { w->destroyed = true; tail = ";destroyed"; }   // the flush frame deleted Impl while unwinding
      mark('E', "ret:" + std::to_string(idx) + ":flushed:" + (ok ? "1" : "0") + tail);
    }
    else if (p[0] == "D")
    {
      // drop the last reference from this (non-I/O) thread once nobody is about to begin a call
      if (!g->t) continue;
      waitAllInside();
      if (!g->t) continue;
      mark('B', "destroy");
      std::shared_ptr<Transport> last = std::move(g->t);
      last.reset();
      g->destroyed = true;
      mark('E', "destroyed");
    }
    else if (p[0] == "S")
    {
      Transport* raw = g->t.get();
      if (!raw) continue;
      mark('B', "stop");
      raw->stop();
      g->stopDone = true;
      mark('E', "stopReturned");
    }
    else if (p[0] == "F")
    {
      mark('B', "fenceonly");
      g->impl->setTeardownFence();
      mark('E', "-");
    }
    else if (p[0] == "y") ds::yield_point("y");
    else if (p[0] == "W") waitAllInside();
    else if (p[0] == "P") { for (int k = 0; k < 4000 && !g->stopDone.load(); ++k) ds::yield_point("wait-stop"); }   // after the program's stop() has returned
    else if (p[0] == "Z")
    {
      // a late caller: wait until teardown has set the fence
      for (int k = 0; k < 2000; ++k)
      {
        bool sh;
        { std::lock_guard<std::mutex> lk(g->impl->syncMutex); sh = g->impl->shuttingDown; }
        if (sh) break;
        ds::yield_point("wait-fence");
      }
    }
  }
}

std::string runSched(const std::vector<std::string>& t)
{
#ifdef TSYNC_NO_DETSCHED
  return "no-detsched";
#else
  // sched <seed|c:…> <timeoutOneIn> <spuriousOneIn> live <s1,s2|-> flush <s|-> cby <n> t <io ops…> t <app ops…> …
  if (t.size() < 11 || t[4] != "live" || t[6] != "flush" || t[8] != "cby") return "bad-op";
  u64 toIn = 0, spIn = 0, cby = 0;
  if (!vh::parseNat(t[2], toIn) || !vh::parseNat(t[3], spIn) || !vh::parseNat(t[9], cby)) return "bad-op";
  Prog prog;
  auto parseList = [](const std::string& s, std::vector<SessionId>& out) {
    if (s == "-") return;
    std::string cur;
    for (char c : s + ",") { if (c == ',') { if (!cur.empty()) out.push_back(std::stoull(cur)); cur.clear(); } else cur += c; }
  };
  parseList(t[5], prog.live);
  parseList(t[7], prog.flushSids);
  for (std::size_t i = 10; i < t.size(); ++i)
  {
    if (t[i] == "t") prog.threads.push_back({});
    else if (prog.threads.empty()) return "bad-op";
    else prog.threads.back().push_back(t[i]);
  }
  if (prog.threads.empty()) return "bad-op";
  // world
  g = new World();     // a previous world is leaked on purpose (its threads may be parked for ever after a dead-lock)
  World* w = g;
  TransportConfig cfg;
  cfg.protocol = Protocol::TCP;
  auto fe = std::make_unique<TdEngine>();
  w->e = fe.get();
  w->e->next = 100;                  // ids handed out by connect() must not collide with the scripted live sessions
  w->e->live = prog.live;
  w->t = iora::network::test::TransportEngineInjector::withEngine(std::move(fe), cfg);
  w->impl = w->t->_impl.get();
  w->t->start();
  w->cbYields = static_cast<int>(cby);
  for (auto& op : prog.threads[0])
  {
    u64 a = 0;
    if (op.size() > 2 && op[1] == ':' && vh::parseNat(op.substr(2), a))
    {
      if (op[0] == 'X') w->selfDestructOn = a;    // released inside the close callback the shutdown drain fires for this session
      if (op[0] == 'G') w->probeOn = a;           // the guards are probed inside that close callback
    }
  }
  w->t->onData([w](SessionId sid, iora::core::BufferView, std::chrono::steady_clock::time_point) {
    mark('C', "cbdata");
    for (int k = 0; k < w->cbYields; ++k) ds::yield_point("in-data-callback");
    if (w->flushSelfDestructOn == sid && w->t)
    {
      // the sole owner releases the transport inside the data callback of its own flush (on the flushing thread)
      mark('B', "poll");            // the harness's own polling of the counters is not a step of the flush
      waitAllInside();
      mark('E', "-");
      mark('B', "flushdestroy " + std::to_string(w->flushIdx[sid]));
      std::shared_ptr<Transport> last = std::move(w->t);
      last.reset();
      w->orphaned = true;
      mark('E', "-");
      return;                       // no callback-return step: the thread goes on as the owner of Impl
    }
    mark('C', "cbend");
  });
  w->t->onClose([w](SessionId sid, const TransportErrorInfo&) {
    mark('C', "gclose:" + std::to_string(sid));
    if (w->probeOn == sid) probeGuards(w, sid);
    if (w->selfDestructOn == sid && w->t)
    {
      mark('B', "selfdestruct");
      std::shared_ptr<Transport> last = std::move(w->t);
      last.reset();                 // ~Transport on the I/O thread: deferred self-destruction
      mark('E', "-");
    }
  });
  // sessions that will be flushed: Sync mode with two buffered chunks
  for (auto sid : prog.flushSids)
  {
    w->t->setReadMode(sid, ReadMode::Sync);
    std::uint8_t d[3] = {1, 2, 3};
    w->e->cbs.onData(sid, iora::core::BufferView{d, 3}, std::chrono::steady_clock::now());
  }
  g_returned = 0;
  g_napps = 0;
  for (std::size_t i = 1; i < prog.threads.size(); ++i)
    for (auto& op : prog.threads[i]) if (op[0] == 'r' || op[0] == 'k' || op[0] == 'm' || op[0] == 'M') g_napps++;
  marks().clear();
  w->sched = true;
  ds::Options opt;
  opt.timeoutOneIn = static_cast<unsigned>(toIn);
  opt.spuriousOneIn = static_cast<unsigned>(spIn);
  opt.maxSteps = 60000;
  ds::options(opt);
  if (t[1].rfind("c:", 0) == 0)
  {
    std::vector<std::uint32_t> ch;
    std::string cur;
    for (char c : t[1].substr(2) + ",") { if (c == ',') { if (!cur.empty()) ch.push_back(static_cast<std::uint32_t>(std::stoul(cur))); cur.clear(); } else cur += c; }
    ds::init(ch);
  }
  else
  {
    u64 seed = 0;
    if (!vh::parseNat(t[1], seed)) return "bad-op";
    ds::init(static_cast<std::uint64_t>(seed));
  }
  void* syncHandle = w->impl->syncMutex.native_handle();
  bool ok = ds::run([&] {
    std::thread io([&] { w->e->ioId = std::this_thread::get_id(); ioThread(prog.threads[0]); });
    std::vector<std::thread> th;
    for (std::size_t i = 1; i < prog.threads.size(); ++i)
      th.emplace_back([&, i] { appThread(prog.threads[i], static_cast<int>(i) - 1); });
    for (auto& x : th) x.join();
    // whatever is left is torn down by the main thread (non-I/O) so that the I/O thread terminates
    if (w->t)
    {
      mark('B', "destroy");
      std::shared_ptr<Transport> last = std::move(w->t);
      last.reset();
      w->destroyed = true;
      mark('E', "destroyed");
    }
    io.join();
  });
  w->sched = false;
  std::string status = ok ? "ok" : ds::deadlocked() ? "deadlock" : ds::stepLimit() ? "steplimit" : "diverged";
  int iSync = ds::object_index(syncHandle);
  // ---- merge marks and DetSched events into model steps
  struct Cur { std::string kind; std::vector<std::string> args; bool active = false; long last = -1; int nlock = 0; std::string pendingObs; bool sd = false; };
  std::map<int, std::vector<Cur>> stack;     // per thread: ops can nest (self-destruct inside a close handler / a data callback)
  std::vector<StepLine> steps;
  std::vector<char> byTimeoutChoice;          // per step: a `wake` whose wake-up was the scheduler's TIMEOUT action for that sleeper
  std::map<int, bool> timeoutWoke;            // per thread: the scheduler took TIMEOUT for it since its last WAIT
  bool curByTimeout = false;
  const auto& tr = ds::trace();
  const auto& ms = marks();
  std::size_t mi = 0;
  auto push = [&](int tid, const std::string& st, const std::string& obs) {
    steps.push_back(StepLine{tid, st, obs});
    byTimeoutChoice.push_back(curByTimeout ? 1 : 0);
    curByTimeout = false;
    return static_cast<long>(steps.size()) - 1;
  };
  auto addObs = [&](long idx, const std::string& o) {
    if (idx < 0 || o == "-" || o.empty()) return;
    if (steps[idx].observed == "-") steps[idx].observed = o; else steps[idx].observed += ";" + o;
  };
  auto handleMark = [&](const Mark& m) {
    auto& st = stack[m.tid];
    if (m.kind == 'B')
    {
      Cur c;
      c.active = true;
      c.args = vh::split(m.text);
      c.kind = c.args[0];
      if (c.kind == "stop") c.last = push(m.tid, "stopCall", "-");
      if (c.kind == "selfdestruct" && !st.empty()) st.back().sd = true;
      st.push_back(c);
      return;
    }
    if (st.empty()) return;
    Cur& c = st.back();
    if (m.kind == 'E')
    {
      if (c.kind == "stop") { c.last = push(m.tid, "stopJoin", "-"); addObs(c.last, m.text); }
      else if (c.kind == "destroy") { c.last = push(m.tid, "tdDestroy", "-"); addObs(c.last, m.text); }
      else if (c.kind == "flushdestroy") { c.last = push(m.tid, "tdOrphan", "-"); }
      else if (c.kind == "ioexit") { c.last = push(m.tid, "ioDrain", c.pendingObs.empty() ? "-" : c.pendingObs); }
      else
      {
        addObs(c.last, m.text);
        if ((c.kind == "ioclose" || c.kind == "iodrain") && !c.pendingObs.empty() && c.last >= 0)
        {
          // the close handler marks the session closed (its syncMutex section = the model step) BEFORE it invokes the global close
          // callback (repair FC03c): the callback's observation arrives after the step and belongs to it. Had a stop() returned or
          // Impl been destroyed in between, it is reported as `lategclose` on the latest step instead (the T5 monitors see it there).
          bool late = false;
          for (std::size_t k = static_cast<std::size_t>(c.last) + 1; k < steps.size(); ++k)
            if (steps[k].step == "stopJoin" || steps[k].step == "tdDestroy" || steps[k].step == "tdOrphan") late = true;
          if (late) addObs(static_cast<long>(steps.size()) - 1, "late" + c.pendingObs);
          else addObs(c.last, c.pendingObs);
          c.pendingObs.clear();
        }
      }
      st.pop_back();
    }
    else if (m.kind == 'K')
    {
      if (m.text.rfind("engineClose:", 0) == 0 && c.kind == "conn") c.last = push(m.tid, "connClose " + c.args[1], "-");
      else if (m.text == "engine.stop" && (c.kind == "destroy" || c.kind == "flushdestroy")) c.last = push(m.tid, "tdStop", "-");
      else if (m.text.rfind("probe:", 0) == 0)
      {
        auto f = m.text.substr(6);
        auto k = f.find(':');
        push(m.tid, "ioSyncCall " + f.substr(0, k), f.substr(k + 1) + ":" + f.substr(0, k));
      }
    }
    else if (m.kind == 'C')
    {
      if (m.text == "cbdata" && c.kind == "flush")
      {
        // the loop section that found the buffer non-empty invokes the callback
        if (c.last >= 0) { steps[c.last].step = "flushStep " + c.args[1] + " 1"; addObs(c.last, "cb:" + c.args[1]); }
      }
      else if (m.text == "cbend" && c.kind == "flush") c.last = push(m.tid, "flushStep " + c.args[1] + " 0", "-");   // the callback returns
      else c.pendingObs = c.pendingObs.empty() ? m.text : c.pendingObs + ";" + m.text;   // gclose / destroyed: attached to the next step of this op
    }
  };
  for (std::size_t i = 0; i <= tr.size(); ++i)
  {
    while (mi < ms.size() && ms[mi].at <= i) handleMark(ms[mi++]);
    if (i == tr.size()) break;
    const ds::Event& e = tr[i];
    if (e.kind == ds::TIMEOUT) timeoutWoke[e.tid] = true;
    else if (e.kind == ds::WAIT) timeoutWoke[e.tid] = false;
    auto& st = stack[e.tid];
    if (st.empty()) continue;
    Cur& c = st.back();
    bool lockSync = e.kind == ds::LOCK && e.obj == iSync;
    bool reacqSync = e.kind == ds::REACQ && e.obj == iSync;
    if (!lockSync && !reacqSync) continue;
    std::string s;
    if (c.kind == "recv")
    {
      if (lockSync) s = c.nlock == 0 ? "enter " + c.args[1] : "unexpected-lock";
      else s = "wake " + c.args[1] + " " + (e.detail ? "1" : "0");
    }
    else if (c.kind == "conn")
    {
      if (lockSync) s = c.nlock == 0 ? "enter " + c.args[1] : c.nlock == 1 ? "connRelock " + c.args[1] : "unexpected-lock";
      else s = "wake " + c.args[1] + " " + (e.detail ? "1" : "0");
    }
    else if (c.kind == "flush")
    {
      if (lockSync) s = c.nlock == 0 ? "" : c.nlock == 1 ? "enter " + c.args[1] : "flushStep " + c.args[1] + " 0";   // 1st section = step 1 of setReadMode
    }
    else if (c.kind == "ioclose") { if (lockSync) s = c.nlock == 1 ? (c.sd ? "ioDrain " : "ioCloseSess ") + c.args[1] : ""; }
    else if (c.kind == "iodrain") { if (lockSync) s = c.nlock == 1 ? "ioDrain " + c.args[1] : ""; }
    else if (c.kind == "ioconn") { if (lockSync) s = c.nlock == 0 ? "ioConnDone " + c.args[1] : ""; }
    else if (c.kind == "destroy")
    {
      if (lockSync) s = c.nlock == 0 ? "tdBegin" : c.nlock == 1 ? "tdJoined" : "unexpected-lock";
      else s = "tdWake";
    }
    else if (c.kind == "flushdestroy")
    {
      // releaseOwnFlushes (the FlushGuard destructor's section), then performTeardown as on any other non-I/O thread
      if (lockSync) s = c.nlock == 0 ? "flushSelfDestruct " + c.args[1] : c.nlock == 1 ? "tdBegin" : c.nlock == 2 ? "tdJoined" : "unexpected-lock";
      else s = "tdWake";
    }
    else if (c.kind == "selfdestruct")
    {
      if (lockSync) s = c.nlock == 0 ? "ioSelfDestruct" : "unexpected-lock";
      else s = "tdWake";
    }
    else if (c.kind == "fenceonly") { if (lockSync) s = c.nlock == 0 ? "tdBegin" : "unexpected-lock"; }
    if (lockSync) c.nlock++;
    if (s.empty()) continue;
    curByTimeout = reacqSync && s.rfind("wake ", 0) == 0 && timeoutWoke[e.tid];
    c.last = push(e.tid, s, c.pendingObs.empty() ? "-" : c.pendingObs);
    c.pendingObs.clear();
  }
  std::string out = status + " |";
  for (std::size_t k = 0; k < steps.size(); ++k)
  {
    auto& s = steps[k];
    std::string x = s.step;
    for (char& ch : x) if (ch == ' ') ch = ',';
    out += " " + std::to_string(s.tid) + (byTimeoutChoice[k] ? "!" : "") + "," + x + "=>" + s.observed;   // `!`: woken by the scheduler's TIMEOUT action
  }
  out += " | " + ds::choicesString() + " | destroyed=" + (w->destroyed.load() ? "1" : "0");
  if (!ok)
  {
    std::string rep = ds::report();
    for (char& ch : rep) if (ch == '\n') ch = '/';
    out += " | " + rep;
    if (w->t) new std::shared_ptr<Transport>(w->t);
  }
  return out;
#endif
}

// ------------------------------------------------------------------------------------------------------------------
// nest <seed> n <transports> p <ops…>: ONE application thread, SEVERAL real Transports (each over its own scripted engine), nested
// setReadMode(Async) flushes: the per-thread FlushFrame stack across Impl instances (Model/FlushFrames.lean).
//   f<k>  put a fresh session of transport k into Sync mode with one buffered chunk and flush it (setReadMode(Async)); the data
//         callback of that flush executes the ops that follow, up to the matching `e`
//   e     the callback returns
//   r<k>  drop the LAST reference of transport k (inside whatever callbacks are running)
// Runs under DetSched with a single managed thread: a destructor that waits for its own flush is a DEADLOCK, reported with the
// steps executed so far. A sentinel captured by each transport's close callback dies with its Impl (`del:k`).
struct NestWorld
{
  std::vector<std::shared_ptr<Transport>> T;
  std::vector<vh::FakeEngine*> eng;
  std::vector<std::shared_ptr<std::atomic<bool>>> gone;
  std::vector<char> reported;
  std::vector<std::string> ops;
  std::size_t idx = 0;
  SessionId nextSid = 1000;
  std::vector<std::string> steps;
  std::vector<int> cbRan;      // per active flush (innermost last): did its data callback run?
};

std::string nestDels(NestWorld* w)
{
  std::string o;
  for (std::size_t k = 0; k < w->gone.size(); ++k)
    if (!w->reported[k] && w->gone[k]->load()) { w->reported[k] = 1; o += (o.empty() ? "" : ";") + std::string("del:") + std::to_string(k); }
  return o;
}

void nestRun(NestWorld* w)
{
  while (w->idx < w->ops.size())
  {
    std::string op = w->ops[w->idx++];
    if (op == "e") return;
    u64 k = 0;
    if (op.size() < 2 || !vh::parseNat(op.substr(1), k) || k >= w->T.size()) { w->steps.push_back("bad-op=>-"); continue; }
    if (op[0] == 'f')
    {
      Transport* raw = w->T[k].get();
      if (!raw) { w->steps.push_back("push," + std::to_string(k) + "=>no-transport"); continue; }
      SessionId sid = w->nextSid++;
      raw->setReadMode(sid, ReadMode::Sync);
      std::uint8_t d[3] = {1, 2, 3};
      w->eng[k]->cbs.onData(sid, iora::core::BufferView{d, 3}, std::chrono::steady_clock::now());
      w->cbRan.push_back(0);
      bool ok = raw->setReadMode(sid, ReadMode::Async);       // `raw` may be a dead object by the time this returns: nothing of it is used here
      bool ran = w->cbRan.back() != 0;
      w->cbRan.pop_back();
      std::string dels = nestDels(w);
      w->steps.push_back(std::string(ran ? "pop" : "pop-without-callback") + "=>ret:" + std::to_string(k) + ":" + (ok ? "1" : "0") + (dels.empty() ? "" : ";" + dels));
    }
    else if (op[0] == 'r')
    {
      if (!w->T[k]) { w->steps.push_back("release," + std::to_string(k) + "=>no-transport"); continue; }
      std::shared_ptr<Transport> last = std::move(w->T[k]);
      last.reset();                                            // ~Transport(k) here
      std::string dels = nestDels(w);
      w->steps.push_back("release," + std::to_string(k) + "=>" + (dels.empty() ? "" : dels + ";") + "dtor:" + std::to_string(k));
    }
    else w->steps.push_back("bad-op=>-");
  }
}

std::string runNest(const std::vector<std::string>& t)
{
#ifdef TSYNC_NO_DETSCHED
  return "no-detsched";
#else
  u64 seed = 0, n = 0;
  if (t.size() < 6 || t[2] != "n" || t[4] != "p" || !vh::parseNat(t[1], seed) || !vh::parseNat(t[3], n) || n < 1 || n > 4) return "bad-op";
  auto* w = new NestWorld();         // leaked on purpose (a dead-locked run abandons its thread inside these objects)
  for (std::size_t i = 5; i < t.size(); ++i) w->ops.push_back(t[i]);
  for (u64 k = 0; k < n; ++k)
  {
    TransportConfig cfg;
    cfg.protocol = Protocol::TCP;
    auto fe = std::make_unique<vh::FakeEngine>();
    w->eng.push_back(fe.get());
    w->T.push_back(iora::network::test::TransportEngineInjector::withEngine(std::move(fe), cfg));
    w->T.back()->start();
    auto flag = std::make_shared<std::atomic<bool>>(false);
    w->gone.push_back(flag);
    w->reported.push_back(0);
    auto sentinel = std::shared_ptr<void>(nullptr, [flag](void*) { *flag = true; });
    w->T.back()->onClose([sentinel](SessionId, const TransportErrorInfo&) {});
    w->T.back()->onData([w, k](SessionId, iora::core::BufferView, std::chrono::steady_clock::time_point) {
      if (!w->cbRan.empty()) w->cbRan.back() = 1;
      w->steps.push_back("push," + std::to_string(k) + "=>-");
      nestRun(w);
    });
  }
  ds::Options opt;
  opt.timeoutOneIn = 0;
  opt.spuriousOneIn = 0;
  opt.maxSteps = 60000;
  ds::options(opt);
  ds::init(static_cast<std::uint64_t>(seed));
  bool leftover = false;
  bool ok = ds::run([&] {
    nestRun(w);
    // what the program did not release is destroyed the ordinary way
    for (auto& x : w->T) if (x) { x.reset(); leftover = true; }
  });
  std::string status = ok ? "ok" : ds::deadlocked() ? "deadlock" : ds::stepLimit() ? "steplimit" : "diverged";
  std::string out = status + " |";
  for (auto& s : w->steps) out += " " + s;
  bool all = true;
  for (auto& f : w->gone) all = all && f->load();
  out += std::string(" | allDeleted=") + (all ? "1" : "0");
  if (!ok)
  {
    std::string rep = ds::report();
    for (char& ch : rep) if (ch == '\n') ch = '/';
    out += " | " + rep;
  }
  (void)leftover;
  return out;
#endif
}

// ------------------------------------------------------------------------------------------------------------------
// real engines on loopback
std::shared_ptr<Transport> makeReal(bool udp)
{
  TransportConfig cfg;
  cfg.protocol = udp ? Protocol::UDP : Protocol::TCP;
  return udp ? Transport::udp(cfg) : Transport::tcp(cfg);
}

bool definite(TransportError c)
{
  return c == TransportError::ShuttingDown || c == TransportError::Timeout || c == TransportError::PeerClosed || c == TransportError::Cancelled ||
         c == TransportError::Connect || c == TransportError::Socket || c == TransportError::Resolve || c == TransportError::Unknown;
}

// storm <seed> <rounds> <threads> [tcp|udp]: real engine on loopback. Round kinds (seeded):
//   stop      workers (each holding its own reference) hammer addListener/connect/connectSync/send/close/receiveSync while the main
//             thread calls stop(); every id handed out must have got its onClose by the time stop() has returned, no callback after it
//   destroy   workers hold NO reference; they make counted synchronous calls only (receiveSync / connectSync / a flush with a data
//             callback) through a raw pointer; once no new call can begin and every in-flight call is counted the main thread drops
//             the last reference UNDER the parked calls: every call must return a definite result, ASan must stay quiet
//   restart   stop(); start(); a second generation of workers; stop(): the queue must be reopened and closed again
//   selfio    the sole owner is released inside a close callback on the REAL I/O thread while receivers are parked on other
//             sessions: they must be NOTIFIED (return ShuttingDown, not their own Timeout), and Impl must be deleted by the thread
//             epilogue (a sentinel captured by the callbacks dies with Impl)
std::string runStorm(const std::vector<std::string>& t)
{
  u64 seed = 0, rounds = 0, nthr = 0;
  if ((t.size() != 4 && t.size() != 5) || !vh::parseNat(t[1], seed) || !vh::parseNat(t[2], rounds) || !vh::parseNat(t[3], nthr)) return "bad-op";
  bool udp = t.size() == 5 && t[4] == "udp";
  std::mt19937_64 rng(seed);
  int badResults = 0, lateCallbacks = 0, stuck = 0, lostNotify = 0, leaked = 0, setupMiss = 0;
  std::atomic<int> threw{0};
  long calls = 0, stranded = 0;
  int kinds[4] = {0, 0, 0, 0};
  for (u64 r = 0; r < rounds; ++r)
  {
    int kind = static_cast<int>(r % 4);      // every kind in every run of >= 4 rounds
    kinds[kind]++;
    auto tr = makeReal(udp);
    std::atomic<bool> stopped{false};
    std::atomic<int> late{0};
    std::mutex idm;
    std::set<SessionId> closedIds;                 // ids that got the global onClose
    std::vector<SessionId> okIds;                  // ids connect()/connectSync returned ok for
    std::atomic<bool> implGone{false};
    auto sentinel = std::shared_ptr<void>(nullptr, [&implGone](void*) { implGone = true; });
    std::shared_ptr<Transport>* holder = nullptr;  // selfio: the sole owner
    std::atomic<SessionId> trigger{0};
    std::atomic<bool> fired{false};
    auto cb = [&] { if (stopped.load()) late++; };
    tr->onAccept([&](SessionId, const TransportAddress&) { cb(); });
    tr->onConnect([&](SessionId, const TransportAddress&) { cb(); });
    tr->onData([&](SessionId, iora::core::BufferView, std::chrono::steady_clock::time_point) { cb(); });
    tr->onClose([&, sentinel](SessionId sid, const TransportErrorInfo&) {
      cb();
      { std::lock_guard<std::mutex> lk(idm); closedIds.insert(sid); }
      if (holder && trigger.load() == sid && *holder) { fired = true; holder->reset(); }     // last reference, on the I/O thread
    });
    sentinel.reset();
    if (!tr->start().isOk()) { badResults++; continue; }
    auto l0 = tr->addListener("127.0.0.1", 0, TlsMode::None);
    std::uint16_t port = 0;
    if (l0.isOk()) port = tr->getListenerAddress(l0.value()).port;
    Transport* raw = tr.get();
    std::atomic<long> ncalls{0};
    std::atomic<int> bad{0};
    auto mixedWorker = [&](std::uint64_t s2, std::atomic<bool>& go, std::shared_ptr<Transport> keep) {
      std::mt19937_64 r2(s2);
      SessionId last = 0;
      while (go.load())
      {
        try
        {
          switch (r2() % 6)
          {
            case 0: { auto x = raw->addListener("127.0.0.1", 0, TlsMode::None);
                      if (x.isErr() && x.error().code != TransportError::ShuttingDown && x.error().code != TransportError::Bind) bad++; break; }
            case 1: { auto x = raw->connect("127.0.0.1", port, TlsMode::None);
                      if (x.isOk()) { last = x.value(); std::lock_guard<std::mutex> lk(idm); okIds.push_back(last); } break; }
            case 2: { auto x = raw->connectSync("127.0.0.1", port, TlsMode::None, std::chrono::milliseconds(20));
                      if (x.isOk()) { last = x.value(); std::lock_guard<std::mutex> lk(idm); okIds.push_back(last); } break; }
            case 3: { std::uint8_t b[4] = {1, 2, 3, 4}; if (last) raw->send(last, iora::core::BufferView{b, 4}); break; }
            case 4: { if (last) raw->close(last); break; }
            case 5: { std::uint8_t b[8]; std::size_t n = 8; if (last) { raw->setReadMode(last, ReadMode::Sync);
                      raw->receiveSync(last, b, n, std::chrono::milliseconds(5)); } break; }
          }
        }
        catch (const std::exception&) { threw++; }     // e.g. future_error: a listener promise destroyed unfulfilled
        ncalls++;
      }
      (void)keep;
    };
    auto t0 = std::chrono::steady_clock::now();
    if (kind == 0 || kind == 2)
    {
      for (int gen = 0; gen < (kind == 2 ? 2 : 1); ++gen)
      {
        std::atomic<bool> go{true};
        std::vector<std::thread> th;
        for (u64 k = 0; k < nthr; ++k) { std::uint64_t s2 = rng(); th.emplace_back([&, s2] { mixedWorker(s2, go, tr); }); }
        std::this_thread::sleep_for(std::chrono::milliseconds(2 + rng() % 6));
        tr->stop();
        stopped = true;
        go = false;
        for (auto& x : th) x.join();
        {
          // every id handed to the application must have been closed by the time stop() has returned (and the callers are back)
          std::lock_guard<std::mutex> lk(idm);
          for (auto id : okIds) if (!closedIds.count(id)) stranded++;
          okIds.clear();
        }
        lateCallbacks += late.load();
        late = 0;
        if (kind == 2 && gen == 0)
        {
          // restart: the queue is reopened (start() is not concurrent with any other call: the workers are back)
          stopped = false;
          if (!tr->start().isOk()) { badResults++; break; }
          auto l1 = tr->addListener("127.0.0.1", 0, TlsMode::None);
          if (!l1.isOk()) { badResults++; break; }
          port = tr->getListenerAddress(l1.value()).port;
        }
      }
      tr.reset();
    }
    else if (kind == 1)
    {
      // destruction under parked calls
      std::mutex gm;
      bool closing = false;
      int inflight = 0;
      tr->onData([&](SessionId, iora::core::BufferView, std::chrono::steady_clock::time_point) { std::this_thread::sleep_for(std::chrono::microseconds(200)); });
      std::vector<std::thread> th;
      for (u64 k = 0; k < nthr; ++k)
      {
        std::uint64_t s2 = rng();
        th.emplace_back([&, s2, k] {
          std::mt19937_64 r2(s2);
          for (int it = 0; it < 200; ++it)
          {
            { std::lock_guard<std::mutex> lk(gm); if (closing) break; inflight++; }
            SessionId sid = 5000 + k * 1000 + static_cast<SessionId>(it);
            switch (r2() % 3)
            {
              case 0: { std::uint8_t b[8]; std::size_t n = 8;
                        auto x = raw->receiveSync(sid, b, n, std::chrono::milliseconds(it % 4 == 0 ? 3 : 4000));
                        if (x.isErr() && !definite(x.error().code)) bad++; break; }
              case 1: { auto x = raw->connectSync("127.0.0.1", port, TlsMode::None, std::chrono::milliseconds(it % 3 == 0 ? 3 : 4000));
                        if (x.isErr() && !definite(x.error().code)) bad++; break; }
              case 2: { raw->setReadMode(sid, ReadMode::Sync);
                        std::uint8_t d[3] = {1, 2, 3};
                        { // buffer two chunks as the engine's data handler would (the session is unknown to the engine: nothing else touches it)
                          std::lock_guard<std::mutex> lk(raw->_impl->syncMutex);
                          auto it2 = raw->_impl->receiveBuffers.find(sid);
                          if (it2 != raw->_impl->receiveBuffers.end()) { it2->second->data.assign(d, d + 3); it2->second->hasData = true; }
                        }
                        raw->setReadMode(sid, ReadMode::Async); break; }
            }
            ncalls++;
            { std::lock_guard<std::mutex> lk(gm); inflight--; }
          }
        });
      }
      std::this_thread::sleep_for(std::chrono::milliseconds(2 + rng() % 6));
      { std::lock_guard<std::mutex> lk(gm); closing = true; }
      // wait until every call still in flight is counted by the gate (nobody is in an uncounted prefix)
      for (int k = 0; k < 20000; ++k)
      {
        int inf;
        { std::lock_guard<std::mutex> lk(gm); inf = inflight; }
        std::size_t counted;
        {
          std::lock_guard<std::mutex> lk(raw->_impl->syncMutex);
          counted = raw->_impl->activeReceives + raw->_impl->activeConnects + raw->_impl->activeFlushes;
        }
        if (static_cast<int>(counted) >= inf) break;
        std::this_thread::sleep_for(std::chrono::microseconds(100));
      }
      tr.reset();                         // the last reference, under the parked calls
      stopped = true;
      for (auto& x : th) x.join();
      lateCallbacks += late.load();
    }
    else
    {
      // sole owner released inside a close callback on the real I/O thread
      holder = new std::shared_ptr<Transport>(std::move(tr));
      SessionId victim = 0;
      {
        auto c = raw->connect("127.0.0.1", port, TlsMode::None);
        if (c.isOk()) victim = c.value();
      }
      // A receiver that is NOT notified leaves by its own 6 s time-out (and then still reports ShuttingDown, because the fence is
      // part of its wait predicate), a notified one within milliseconds: "slow" = returned more than 3 s after the trigger.
      std::atomic<int> notified{0}, timedOut{0}, other{0};
      std::atomic<long long> trigNs{0};
      auto nowNs = [] { return std::chrono::duration_cast<std::chrono::nanoseconds>(std::chrono::steady_clock::now().time_since_epoch()).count(); };
      std::vector<std::thread> th;
      int nrecv = static_cast<int>(nthr);
      for (int k = 0; k < nrecv; ++k)
        th.emplace_back([&, k] {
          std::uint8_t b[8]; std::size_t n = 8;
          auto x = raw->receiveSync(9000 + static_cast<SessionId>(k), b, n, std::chrono::milliseconds(6000));
          long long t1 = nowNs(), tg = trigNs.load();
          bool slow = tg != 0 && t1 - tg > 3000000000LL;
          if (x.isErr() && x.error().code == TransportError::ShuttingDown && !slow) notified++;
          else if (x.isErr() && (x.error().code == TransportError::Timeout || x.error().code == TransportError::ShuttingDown)) timedOut++;
          else other++;
          ncalls++;
        });
      for (int k = 0; k < 4000; ++k)
      {
        std::size_t c;
        { std::lock_guard<std::mutex> lk(raw->_impl->syncMutex); c = raw->_impl->activeReceives; }
        if (static_cast<int>(c) >= nrecv) break;
        std::this_thread::sleep_for(std::chrono::milliseconds(1));
      }
      std::this_thread::sleep_for(std::chrono::milliseconds(20));   // let the connect settle (either outcome closes `victim` below)
      trigger = victim;
      trigNs = nowNs();
      if (victim) raw->close(victim);       // -> onClose on the I/O thread -> holder->reset() -> ~Transport there
      for (auto& x : th) x.join();
      if (fired.load())
      {
        lostNotify += timedOut.load();
        badResults += other.load();
        for (int k = 0; k < 5000 && !implGone.load(); ++k) std::this_thread::sleep_for(std::chrono::milliseconds(1));
        if (!implGone.load()) leaked++;
      }
      else setupMiss++;
      if (*holder) { holder->reset(); }     // the trigger never fired (setup): ordinary destruction
      delete holder;
      holder = nullptr;
    }
    if (std::chrono::steady_clock::now() - t0 > std::chrono::seconds(20)) stuck++;
    calls += ncalls.load();
    badResults += bad.load();
  }
  return std::string("storm proto=") + (udp ? "udp" : "tcp") + " rounds=" + std::to_string(rounds) + " kinds=" + std::to_string(kinds[0]) + "/" +
         std::to_string(kinds[1]) + "/" + std::to_string(kinds[2]) + "/" + std::to_string(kinds[3]) + " calls>0=" + (calls > 0 ? "1" : "0") +
         " bad=" + std::to_string(badResults) + " late=" + std::to_string(lateCallbacks) + " stuck=" + std::to_string(stuck) +
         " stranded=" + std::to_string(stranded) + " lostNotify=" + std::to_string(lostNotify) + " leaked=" + std::to_string(leaked) +
         " threw=" + std::to_string(threw.load()) + " setupMiss=" + std::to_string(setupMiss);
}

// cstorm <seed> <rounds> <threads> [tcp|udp]: real engine, worker threads call connect() in a tight loop (to a port nobody listens
// on) while the main thread calls stop() a few hundred microseconds later. Every id for which connect() returned ok must have got
// its onClose by the time stop() has returned and the workers are back: an enqueue that lands after the shutdown drain took the
// residual commands must be refused, not accepted into a queue nobody reads again.
std::string runConnectStorm(const std::vector<std::string>& t)
{
  u64 seed = 0, rounds = 0, nthr = 0;
  if ((t.size() != 4 && t.size() != 5) || !vh::parseNat(t[1], seed) || !vh::parseNat(t[2], rounds) || !vh::parseNat(t[3], nthr)) return "bad-op";
  bool udp = t.size() == 5 && t[4] == "udp";
  std::mt19937_64 rng(seed);
  long stranded = 0, total = 0, late = 0;
  int roundsHit = 0;
  for (u64 r = 0; r < rounds; ++r)
  {
    auto tr = makeReal(udp);
    std::mutex idm;
    std::set<SessionId> reported;
    std::atomic<bool> stopped{false};
    std::atomic<long> lateCb{0};
    tr->onConnect([&](SessionId, const TransportAddress&) { if (stopped.load()) lateCb++; });
    tr->onClose([&](SessionId sid, const TransportErrorInfo&) { if (stopped.load()) lateCb++; std::lock_guard<std::mutex> lk(idm); reported.insert(sid); });
    if (!tr->start().isOk()) return "storm-start-failed";
    ListenerId viaLid = 0;
    if (udp)
    {
      auto lv = tr->addListener("127.0.0.1", 0, TlsMode::None);     // opened before the storm: connectViaListener() goes through it
      if (lv.isOk()) viaLid = lv.value();
    }
    std::atomic<bool> go{false};
    std::vector<std::vector<SessionId>> oks(nthr);
    std::vector<std::thread> th;
    Transport* raw = tr.get();
    for (u64 w = 0; w < nthr; ++w)
      th.emplace_back([&, w, raw] {
        while (!go.load()) std::this_thread::yield();
        for (int i = 0; i < (udp ? 3000 : 200000); ++i)
        {
          auto x = (udp && viaLid != 0 && (i & 1)) ? raw->connectViaListener(viaLid, "127.0.0.1", static_cast<std::uint16_t>(1 + (static_cast<u64>(i) * nthr + w) % 60000))   // the UDP-only Via command
                                                    : raw->connect("127.0.0.1", 1, TlsMode::None);
          if (!x.isOk()) break;            // the queue is closed: the engine has been stopped
          oks[w].push_back(x.value());
        }
      });
    go = true;
    std::this_thread::sleep_for(std::chrono::microseconds(100 + rng() % 600));
    tr->stop();
    stopped = true;
    for (auto& x : th) x.join();
    long miss = 0;
    {
      std::lock_guard<std::mutex> lk(idm);
      for (auto& v : oks) for (auto id : v) { total++; if (!reported.count(id)) miss++; }
    }
    if (miss) roundsHit++;
    stranded += miss;
    late += lateCb.load();
    tr.reset();
  }
  return std::string("cstorm proto=") + (udp ? "udp" : "tcp") + " rounds=" + std::to_string(rounds) + " ids>0=" + (total > 0 ? "1" : "0") +
         " stranded=" + std::to_string(stranded) + " roundsWithStranded=" + std::to_string(roundsHit) + " late=" + std::to_string(late);
}

// latch tcp|udp: deterministic windows inside shutdownDrain of the real engine. One session is open. stop() is called.
//   window A  the drain reports the open session (onClose, reason "shutdown"): the final process() is over, the queue is still
//             OPEN. The I/O thread is held in that callback while a second thread (1) pushes a promise-bearing AddListener command
//             through the engine's own enqueue() — it must be accepted and, because nobody will dispatch it, its promise must be
//             FULFILLED (false) by the residual drain: exactly once, never left broken —, and the callback itself issues a connect()
//             which becomes a residual command too.
//   window B  the drain reports that residual connect (onClose ShuttingDown): the queue is CLOSED. The I/O thread is held again
//             while the second thread calls connect() and send(): connect() must return an error (or, if ok, the id must still
//             get its onClose), send() must return false, and a second promise-bearing command must be REFUSED.
template <class Eng, class CmdT, class Lc>
int pushPromise(detail::EngineBase* base, std::shared_future<bool>& fut)
{
  auto* e = dynamic_cast<Eng*>(base);
  if (!e) return -1;
  auto ready = std::make_shared<std::promise<bool>>();
  fut = ready->get_future().share();
  Lc lc;
  lc.id = 4242;
  lc.addr = "127.0.0.1";
  lc.port = 0;
  return e->enqueue(CmdT::addListener(lc, ready)) ? 1 : 0;
}

std::string runLatch(const std::vector<std::string>& t)
{
  bool udp = t.size() == 2 && t[1] == "udp";
  auto tr = makeReal(udp);
  std::mutex m;
  std::condition_variable cv;
  bool windowA = false, aDone = false, windowB = false, bDone = false;
  std::set<SessionId> closed;
  std::atomic<int> accepted{0}, connected{0};
  std::atomic<bool> armed{false}, issued{false};
  std::atomic<SessionId> idA{0}, idV1{0}, idV2{0};
  std::atomic<ListenerId> lidV{0};
  Transport* raw = tr.get();
  tr->onAccept([&](SessionId, const TransportAddress&) { accepted++; });
  tr->onConnect([&](SessionId, const TransportAddress&) { connected++; });
  tr->onClose([&](SessionId sid, const TransportErrorInfo& e) {
    { std::lock_guard<std::mutex> lk(m); closed.insert(sid); }
    if (!armed.load()) return;
    if (e.code == TransportError::ShuttingDown && sid == idA.load() && idA.load() != 0)
    {
      // window B: residual connect being reported; the queue is closed
      std::unique_lock<std::mutex> lk(m);
      windowB = true;
      cv.notify_all();
      cv.wait_for(lk, std::chrono::seconds(5), [&] { return bDone; });
      return;
    }
    bool exp = false;
    if (issued.compare_exchange_strong(exp, true))
    {
      auto r = raw->connect("127.0.0.1", 1, TlsMode::None);   // issued from a close callback of the drain: a residual command
      if (r.isOk()) idA = r.value();
      if (udp)
      {
        // the UDP-only Via command (connectViaListener) issued in the same window: a residual command too; its id was handed out
        auto rv = raw->connectViaListener(lidV.load(), "127.0.0.1", 1);
        if (rv.isOk()) idV1 = rv.value();
      }
      // window A: the queue is still open
      std::unique_lock<std::mutex> lk(m);
      windowA = true;
      cv.notify_all();
      cv.wait_for(lk, std::chrono::seconds(5), [&] { return aDone; });
    }
  });
  if (!tr->start().isOk()) return "latch-start-failed";
  auto l0 = tr->addListener("127.0.0.1", 0, TlsMode::None);
  if (!l0.isOk()) return "latch-listen-failed";
  std::uint16_t port = tr->getListenerAddress(l0.value()).port;
  lidV = l0.value();
  auto c0 = tr->connect("127.0.0.1", port, TlsMode::None);
  for (int k = 0; k < 1500 && !(connected.load() >= 1 && (udp || accepted.load() >= 1)); ++k) std::this_thread::sleep_for(std::chrono::milliseconds(2));
  if (!c0.isOk() || connected.load() < 1) return "latch-setup-failed";
  armed = true;
  bool connOk = false, sendOk = false, ranA = false, ranB = false;
  int pushA = -2, pushB = -2;
  std::shared_future<bool> futA, futB;
  SessionId idB = 0;
  detail::EngineBase* base = raw->_impl->engine.get();
  std::thread t2([&] {
    {
      std::unique_lock<std::mutex> lk(m);
      if (!cv.wait_for(lk, std::chrono::seconds(5), [&] { return windowA; })) { aDone = bDone = true; cv.notify_all(); return; }
    }
    ranA = true;
    pushA = udp ? pushPromise<UdpEngine, UdpEngine::Cmd, UdpEngine::ListenerCfg>(base, futA)
                : pushPromise<TcpEngine, TcpEngine::Command, TcpEngine::ListenerCfg>(base, futA);
    if (udp)
    {
      // a second thread's connectViaListener() while the I/O thread is held in window A (queue open, final process() over)
      auto rv = raw->connectViaListener(lidV.load(), "127.0.0.1", 1);
      if (rv.isOk()) idV2 = rv.value();
    }
    {
      std::unique_lock<std::mutex> lk(m);
      aDone = true;
      cv.notify_all();
      if (!cv.wait_for(lk, std::chrono::seconds(5), [&] { return windowB; })) { bDone = true; cv.notify_all(); return; }
    }
    ranB = true;
    auto r = raw->connect("127.0.0.1", 1, TlsMode::None);
    if (r.isOk()) { connOk = true; idB = r.value(); }
    std::uint8_t b[2] = {1, 2};
    sendOk = raw->send(c0.value(), iora::core::BufferView{b, 2});
    pushB = udp ? pushPromise<UdpEngine, UdpEngine::Cmd, UdpEngine::ListenerCfg>(base, futB)
                : pushPromise<TcpEngine, TcpEngine::Command, TcpEngine::ListenerCfg>(base, futB);
    std::lock_guard<std::mutex> lk(m);
    bDone = true;
    cv.notify_all();
  });
  tr->stop();
  t2.join();
  bool strandedB;
  int viaAccepted = 0, strandedVia = 0;
  {
    std::lock_guard<std::mutex> lk(m);
    strandedB = connOk && !closed.count(idB);
    for (SessionId v : {idV1.load(), idV2.load()})
      if (v != 0) { viaAccepted++; if (!closed.count(v)) strandedVia++; }      // every id handed out gets its onClose, Via ids included
  }
  // the promise accepted in window A: fulfilled exactly once with `false` (a broken promise = destroyed unfulfilled)
  std::string pa = "none";
  if (pushA == 1)
  {
    if (futA.wait_for(std::chrono::seconds(2)) != std::future_status::ready) pa = "pending";
    else { try { pa = futA.get() ? "true" : "false"; } catch (const std::future_error&) { pa = "broken"; } }
  }
  tr.reset();
  return std::string("latch proto=") + (udp ? "udp" : "tcp") + " windowA=" + (ranA ? "1" : "0") + " window=" + (ranB ? "1" : "0") +
         " promiseAccepted=" + std::to_string(pushA) + " promise=" + pa + " promiseAfterClose=" + std::to_string(pushB) +
         " connectAccepted=" + (connOk ? "1" : "0") + " stranded=" + (strandedB ? "1" : "0") + " sendAccepted=" + (sendOk ? "1" : "0") +
         (udp ? " viaAccepted=" + std::to_string(viaAccepted) + " strandedVia=" + std::to_string(strandedVia) : std::string());
}

// ownerstop tcp|udp: OBSERVATION FC05b, outside the library's shared-ownership contract (a caller inside stop() holds a reference).
// stop() is called through a NON-OWNING reference (here: the sole owner's own handle, `t->stop()` without a copy) and the close
// callback the shutdown drain of that very stop fires releases the sole owner. ~Transport then runs on the I/O thread with
// _running == false: it detaches the std::thread the stopper is joining, the thread epilogue deletes Impl (the engine, `_loop`)
// and the Transport, and only then does the stopper's `_loop.join()` return - into freed objects (libstdc++ writes `_loop`'s id
// after pthread_join; it is not instrumented, so ASan stays silent). Deterministic: the I/O thread deletes before it exits, the
// join returns after it exited. A sentinel captured by the callback dies with Impl.
std::string runOwnerStop(const std::vector<std::string>& t)
{
  bool udp = t.size() == 2 && t[1] == "udp";
  auto* holder = new std::shared_ptr<Transport>(makeReal(udp));
  Transport* raw = holder->get();
  std::atomic<bool> implGone{false};
  std::atomic<int> connected{0}, fired{0};
  auto sentinel = std::shared_ptr<void>(nullptr, [&implGone](void*) { implGone = true; });
  raw->onConnect([&](SessionId, const TransportAddress&) { connected++; });
  raw->onClose([&, sentinel](SessionId, const TransportErrorInfo&) {
    if (*holder) { fired++; holder->reset(); }     // the sole owner, released inside a close callback of the shutdown drain
  });
  sentinel.reset();
  if (!raw->start().isOk()) return "ownerstop-start-failed";
  auto l0 = raw->addListener("127.0.0.1", 0, TlsMode::None);
  if (!l0.isOk()) return "ownerstop-listen-failed";
  auto c0 = raw->connect("127.0.0.1", raw->getListenerAddress(l0.value()).port, TlsMode::None);
  for (int k = 0; k < 1500 && connected.load() < 1; ++k) std::this_thread::sleep_for(std::chrono::milliseconds(2));
  if (!c0.isOk() || connected.load() < 1) return "ownerstop-setup-failed";
  raw->stop();                                      // through the non-owning reference
  bool goneAtReturn = implGone.load();
  for (int k = 0; k < 2000 && !implGone.load(); ++k) std::this_thread::sleep_for(std::chrono::milliseconds(1));
  std::string out = std::string("ownerstop proto=") + (udp ? "udp" : "tcp") + " fired=" + std::to_string(fired.load()) +
                    " implDeletedBeforeStopReturned=" + (goneAtReturn ? "1" : "0") + " implDeleted=" + (implGone.load() ? "1" : "0");
  if (*holder) holder->reset();
  delete holder;
  return out;
}

// ------------------------------------------------------------------------------------------------------------------
// timerstop tcp <spec> <spec> ...   spec = <variant>:<timeoutMs>:<after>:<observeMs>; all scenarios of one line run concurrently.
//   variant  hs  TLS client handshake pending against a mute peer (connectTimeout = T, handshakeTimeout = T + 40 ms)
//            ct  the same with handshakeTimeout = 30 s (only the connect-timeout timer expires inside the window)
//            ws  plain connection, tiny buffers, 512 KiB sent to a peer that never reads (writeStallTimeout = T)
//   after    keep | destroy<N> | restart<N>: what happens to the stopped transport (N ms after stop() returned);
//            expire: stop() is called only AFTER the timers expired on the running engine (the time-out close must run on the I/O thread)
// stop() is called about T/3 after the connect was issued, i.e. while the timers are certainly armed; they expire after stop()
// has returned, on the TimerService thread ("TcpEngineTimer"). Answer: one group per scenario,
//   g=<k>;v=<variant>;setup=<ok|fail:why>;armed=<0|1>;cbs=<close callbacks before stopret>;late=<n>;lateEv=<a/b|->;ev=<a/b/...>
struct TsMutePeer   // completes the TCP handshake (kernel backlog) and stays mute: never accepts, reads or writes
{
  int fd = -1;
  std::uint16_t port = 0;
  explicit TsMutePeer(int rcvBuf)
  {
    fd = ::socket(AF_INET, SOCK_STREAM | SOCK_CLOEXEC, 0);
    if (fd < 0) return;
    if (rcvBuf > 0) ::setsockopt(fd, SOL_SOCKET, SO_RCVBUF, &rcvBuf, sizeof(rcvBuf));   // inherited by the never-accepted connections
    sockaddr_in sa{};
    sa.sin_family = AF_INET;
    sa.sin_addr.s_addr = htonl(INADDR_LOOPBACK);
    socklen_t sl = sizeof(sa);
    if (::bind(fd, reinterpret_cast<sockaddr*>(&sa), sizeof(sa)) != 0 || ::listen(fd, 8) != 0 ||
        ::getsockname(fd, reinterpret_cast<sockaddr*>(&sa), &sl) != 0) { ::close(fd); fd = -1; return; }
    port = ntohs(sa.sin_port);
  }
  ~TsMutePeer() { if (fd >= 0) ::close(fd); }
  TsMutePeer(const TsMutePeer&) = delete;
};

struct TsWatch
{
  std::thread::id api = std::this_thread::get_id();   // the scenario thread: the one that makes the API calls
  std::atomic<bool> stopReturned{false};              // cleared right before a restart's start()
  std::atomic<bool> firstStopRet{false};              // never cleared: cbs counts close callbacks before the FIRST stopret
  std::mutex mx;
  int late = 0, cbs = 0;
  std::vector<std::string> ev, lateEv;
  void note(const std::string& e) { std::lock_guard<std::mutex> g(mx); ev.push_back(e); }
  void cb(const char* kind)
  {
    const bool isLate = stopReturned.load(), first = !firstStopRet.load();   // sampled when the callback STARTS
    char nm[32] = {0};
    const char* role = "io";
    if (std::this_thread::get_id() == api) role = "api";
    else if (pthread_getname_np(pthread_self(), nm, sizeof(nm)) == 0 && std::strncmp(nm, "TcpEngineTimer", 14) == 0) role = "timer";
    std::string e = std::string("cb:") + role + ":" + kind;
    std::lock_guard<std::mutex> g(mx);
    ev.push_back(e);
    if (isLate) { late++; lateEv.push_back(e); }
    if (first && std::strcmp(kind, "close") == 0) cbs++;
  }
  void install(Transport& t)
  {
    t.onAccept([this](SessionId, const TransportAddress&) { cb("accept"); });
    t.onConnect([this](SessionId, const TransportAddress&) { cb("connect"); });
    t.onData([this](SessionId, iora::core::BufferView, std::chrono::steady_clock::time_point) { cb("data"); });
    t.onClose([this](SessionId, const TransportErrorInfo&) { cb("close"); });
    t.onError([this](TransportError, const std::string&) { cb("error"); });
  }
};

struct TsSpec { std::string v; u64 timeoutMs = 0, observeMs = 0, n = 0; char after = 'k'; };   // after: k keep, d destroy<N>, r restart<N>

bool tsParse(const std::string& s, TsSpec& sp)
{
  std::vector<std::string> p(1);
  for (char c : s) { if (c == ':') p.emplace_back(); else p.back() += c; }
  if (p.size() != 4 || (p[0] != "hs" && p[0] != "ct" && p[0] != "ws") || !vh::parseNat(p[1], sp.timeoutMs) || !vh::parseNat(p[3], sp.observeMs)) return false;
  sp.v = p[0];
  if (p[2] == "keep") sp.after = 'k';
  else if (p[2] == "expire") sp.after = 'e';     // the timers expire while the engine RUNS (stop() only afterwards): which thread runs the callbacks?
  else if (p[2].rfind("destroy", 0) == 0 && vh::parseNat(p[2].substr(7), sp.n)) sp.after = 'd';
  else if (p[2].rfind("restart", 0) == 0 && vh::parseNat(p[2].substr(7), sp.n)) sp.after = 'r';
  else return false;
  return sp.timeoutMs >= 30 && sp.timeoutMs <= 10000 && sp.observeMs <= 10000 && sp.n <= sp.observeMs;
}

std::string tsScenario(std::size_t k, const TsSpec& sp)
{
  using ms = std::chrono::milliseconds;
  using clk = std::chrono::steady_clock;
  auto waitFor = [](const std::function<bool()>& p, ms limit) {
    const auto end = clk::now() + limit;
    while (clk::now() < end) { if (p()) return true; std::this_thread::sleep_for(ms(2)); }
    return p();
  };
  const bool ws = sp.v == "ws";
  TsWatch w;                                   // declared before the transport: outlives it on every path
  TsMutePeer peer(ws ? 4096 : 0);
  TransportConfig cfg;
  cfg.protocol = Protocol::TCP;
  if (ws) { cfg.writeStallTimeout = ms(sp.timeoutMs); cfg.soSndBuf = 4096; }
  else
  {
    cfg.clientTls.enabled = true; cfg.clientTls.defaultMode = TlsMode::Client; cfg.clientTls.verifyPeer = false;
    cfg.connectTimeout = ms(sp.timeoutMs);     // stays armed: connectPending lasts until the handshake is done
    cfg.handshakeTimeout = sp.v == "hs" ? ms(sp.timeoutMs + 40) : ms(30000);
  }
  auto tr = Transport::tcp(cfg);
  w.install(*tr);
  bool armed = false;
  clk::time_point t0 = clk::now();
  auto setUp = [&]() -> std::string {
    if (peer.fd < 0) return "fail:peer";
    w.note("start");
    if (!tr->start().isOk()) return "fail:start";
    w.note("connect");
    t0 = clk::now();
    if (!ws)
    {
      if (!tr->connect("127.0.0.1", peer.port, TlsMode::Client).isOk()) return "fail:connect";
      // the session exists (and its timers are scheduled) once the I/O thread has run the Connect command
      if (!waitFor([&] { return tr->getStats().sessionsCurrent == 1; }, ms(2000))) return "fail:nosession";
      w.note("sess");
    }
    else
    {
      auto r = tr->connectSync("127.0.0.1", peer.port, TlsMode::None, ms(2000));
      if (!r.isOk()) return "fail:connectSync";
      // 512 x 1 KiB: far beyond the small buffers, below maxWriteQueue; the first refused chunk finds the write queue empty, the
      // case in which doSend() arms the write-stall timer
      const std::size_t chunk = 1024, chunks = 512;
      std::vector<std::uint8_t> buf(chunk, 0x5a);
      for (std::size_t i = 0; i < chunks; ++i) if (!tr->send(r.value(), buf.data(), buf.size())) return "fail:send";
      std::uint64_t last = 0;
      int still = 0;
      // The socket took something and bytesOut stands still below the total: the rest sits in the write queue. The demo waits for
      // 50 ms of stillness; here 20 ms, because the peer's delayed ACK (~40 ms) opens the window once more and a 50 ms criterion
      // then ends ~100 ms after the connect, too late for T = 200. The stall timer is armed when the queue gets its FIRST entry
      // and is not re-armed on progress, so it is pending from the send loop on either way.
      bool stalled = waitFor([&] {
        auto s = tr->getStats();
        still = (s.bytesOut == last && s.bytesOut > 0 && s.commands >= chunks + 1) ? still + 1 : 0;
        last = s.bytesOut;
        return still >= 10; }, ms(3000));
      if (!stalled || last >= chunk * chunks) return "fail:nostall";
      w.note("stalled");
    }
    armed = true;
    auto used = std::chrono::duration_cast<ms>(clk::now() - t0);
    if (std::getenv("TS_TIMERSTOP_DEBUG")) std::fprintf(stderr, "timerstop g=%zu v=%s set-up took %lld ms\n", k, sp.v.c_str(), static_cast<long long>(used.count()));
    if (used > ms(sp.timeoutMs / 2)) return "fail:slow";
    if (sp.after == 'e')
    {
      // let the safety-net timers expire on the running engine: the session must be closed by its time-out, ON THE I/O THREAD
      waitFor([&] { return tr->getStats().sessionsCurrent == 0; }, ms(sp.timeoutMs + 1500));
      w.note("expired");
      std::this_thread::sleep_for(ms(80));       // the handshake timer (T + 40) of `hs`
      return "ok";
    }
    if (used < ms(sp.timeoutMs / 3)) std::this_thread::sleep_for(ms(sp.timeoutMs / 3) - used);   // stop() at about t0 + T/3
    return "ok";
  };
  std::string setup = setUp();
  auto stopIt = [&] { w.note("stop"); tr->stop(); w.stopReturned = true; w.firstStopRet = true; w.note("stopret"); };
  stopIt();
  const auto tStop = clk::now();
  if (sp.after == 'd' || sp.after == 'r') std::this_thread::sleep_for(ms(sp.n));
  if (sp.after == 'r')
  {
    w.stopReturned = false;                    // callbacks from here on belong to the second run
    w.note("restart");
    bool ok = tr->start().isOk();
    w.note(ok ? "restartret" : "restartret:fail");
    if (!ok && setup == "ok") setup = "fail:restart";
  }
  if (sp.after == 'd') { w.note("destroy"); tr.reset(); }     // the last reference, while the timers are about to expire
  std::this_thread::sleep_until(tStop + ms(sp.observeMs));
  if (sp.after == 'r') stopIt();
  if (tr) { w.note("destroy"); tr.reset(); }
  w.note("end");
  std::lock_guard<std::mutex> g(w.mx);
  return "g=" + std::to_string(k) + ";v=" + sp.v + ";setup=" + setup + ";armed=" + (armed ? "1" : "0") + ";cbs=" + std::to_string(w.cbs) +
         ";late=" + std::to_string(w.late) + ";lateEv=" + ts::join(w.lateEv, "/") + ";ev=" + ts::join(w.ev, "/");
}

std::string runTimerStop(const std::vector<std::string>& t)
{
  if (t.size() < 3 || t[1] != "tcp") return "bad-op";
  std::vector<TsSpec> specs(t.size() - 2);
  for (std::size_t k = 0; k < specs.size(); ++k) if (!tsParse(t[k + 2], specs[k])) return "bad-op";
  std::vector<std::string> res(specs.size());
  std::vector<std::thread> th;
  for (std::size_t k = 0; k < specs.size(); ++k)
    th.emplace_back([&, k] {
      try { res[k] = tsScenario(k, specs[k]); }
      catch (const std::exception&) { res[k] = "g=" + std::to_string(k) + ";v=" + specs[k].v + ";setup=fail:throw;armed=0;cbs=0;late=0;lateEv=-;ev=-"; }
    });
  for (auto& x : th) x.join();
  std::string out = "timerstop n=" + std::to_string(specs.size());
  for (auto& r : res) out += " " + r;
  return out;
}

// startwindow tcp: deterministic window inside TcpEngine::start() of a RESTART (FC05c). shutdownDrain() does not cancel the safety-net
// timers of the sessions it closes, so a TimerService handler may call enqueue() at any later time - also while the application starts
// the stopped engine again. The op holds start() inside its (interposed) eventfd() call and lets a second thread do what the lambda of a
// stale connect-timeout timer does: handleConnectTimeout(sid) -> enqueue(Command::close(...)). At that point the queue must still be
// CLOSED (the command refused): an enqueue accepted there found the queue reopened while _eventFd is still -1 and read _eventFd under
// _cmdMutex while start() writes it outside the mutex.
std::string runStartWindow(const std::vector<std::string>& t)
{
  if (t.size() != 2 || t[1] != "tcp") return "bad-op";
  auto tr = makeReal(false);
  std::atomic<int> cbs{0};
  tr->onError([&](TransportError, const std::string&) { cbs++; });
  tr->onClose([&](SessionId, const TransportErrorInfo&) { cbs++; });
  if (!tr->start().isOk()) return "startwindow-start-failed";
  tr->stop();
  auto* eng = dynamic_cast<TcpEngine*>(tr->_impl->engine.get());
  if (!eng) return "startwindow-no-engine";
  int accepted = -1, efdSeen = -2, openSeen = -1;
  swin::hook = [&] {
    std::thread other([&] {
      std::size_t before = 0;
      { std::lock_guard<std::mutex> g(eng->_cmdMutex); before = eng->_cmds.size(); openSeen = eng->_cmdsClosed ? 0 : 1; efdSeen = eng->_eventFd; }
      eng->handleConnectTimeout(987654);
      std::lock_guard<std::mutex> g(eng->_cmdMutex);
      accepted = eng->_cmds.size() > before ? 1 : 0;
    });
    other.join();
  };
  swin::armed = true;
  bool restarted = tr->start().isOk();
  bool reached = !swin::armed.exchange(false);
  swin::hook = nullptr;
  tr->stop();
  int after = cbs.load();
  tr.reset();
  return std::string("startwindow proto=tcp restarted=") + (restarted ? "1" : "0") + " window=" + (reached ? "1" : "0") +
         " queueOpenInWindow=" + std::to_string(openSeen) + " eventFdInWindow=" + std::to_string(efdSeen) +
         " acceptedInWindow=" + std::to_string(accepted) + " callbacks=" + std::to_string(after);
}

std::string stepOp(const std::vector<std::string>& t)
{
  if (t.empty()) return "bad-op";
  if (t[0] == "timerstop") return runTimerStop(t);
  if (t[0] == "startwindow") return runStartWindow(t);
  if (t[0] == "sched") return runSched(t);
  if (t[0] == "nest") return runNest(t);
  if (t[0] == "storm") return runStorm(t);
  if (t[0] == "cstorm") return runConnectStorm(t);
  if (t[0] == "latch") return runLatch(t);
  if (t[0] == "ownerstop") return runOwnerStop(t);
  return "bad-op";
}
} // namespace

int main()
{
  return vh::runLines([](const std::vector<std::string>& t) -> std::string {
    try { return stepOp(t); }
    catch (const std::exception& ex)
    {
      int st = 0;
      char* n = abi::__cxa_demangle(typeid(ex).name(), nullptr, nullptr, &st);
      std::string s = std::string("throw ") + (n ? n : typeid(ex).name());
      std::free(n);
      return s;
    }
  });
}
