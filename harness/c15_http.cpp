// Correspondence harness for C15: the REAL response-framing functions of HttpClient (private, reached with
// `#define private public`), driven through a replica of the 8-line receive loop of executeRequest, and the REAL
// HttpServer::handleIncomingData / findChunkedRequestEnd / processHttpRequest / HttpRequest::fromWireFormat with a scripted
// engine behind the server's Transport and a default handler that logs the Request it sees.
// Line protocol: see props/c15.py.  Built against ${VERIF_REPO}/include on every check run.
#include <algorithm>
#include <atomic>
#include <chrono>
#include <cstring>
#include <functional>
#include <map>
#include <memory>
#include <mutex>
#include <set>
#include <sstream>
#include <stdexcept>
#include <string>
#include <thread>
#include <typeinfo>
#include <unordered_map>
#include <unordered_set>
#include <vector>
#include <future>
#include <condition_variable>
#include <deque>
#include <queue>
#include <list>
#include <optional>
#include <variant>
#include <fstream>
#include <iostream>
#include <regex>
#include <random>
#include <filesystem>
#include <shared_mutex>
#include <array>
#include <bitset>
#include <iomanip>
#include <numeric>
#include <tuple>
#include <type_traits>
#include <utility>
#include <limits>
#include <cassert>
#include <cctype>
#include <cerrno>
#include <cmath>
#include <csignal>
#include <cstdarg>
#include <cstddef>
#include <cstdio>
#include <cstdlib>
#include <ctime>
#include <any>
#include <charconv>
#include <string_view>
#include <system_error>
#include <exception>
#include <iterator>
#include <initializer_list>
#include <ostream>
#include <istream>
#include <streambuf>
#include <locale>
#include <codecvt>
#include <cxxabi.h>
#include <unistd.h>
#include <sys/time.h>
#include <openssl/ssl.h>
#include <openssl/err.h>
#include <openssl/evp.h>
#include <openssl/x509.h>
#include <openssl/x509v3.h>
#include <openssl/sha.h>
#include <openssl/rand.h>
#include <openssl/hmac.h>
#include <openssl/bio.h>
#include <openssl/pem.h>
#define private public
#define protected public
#include "iora/network/http_client.hpp"
#include "iora/network/http_server.hpp"
#undef private
#undef protected
#include "common/fake_engine.hpp"
#include "common/lineproto.hpp"

using namespace iora::network;
using vh::Bytes;

// ---------------------------------------------------------------------------------------------- canonical output
static std::string str(const Bytes& b) { return std::string(b.begin(), b.end()); }

static std::string digest(const std::string& s)
{
  std::uint64_t h = 0xcbf29ce484222325ULL;
  for (unsigned char c : s) { h ^= c; h *= 0x100000001b3ULL; }
  char buf[64];
  std::snprintf(buf, sizeof buf, "%zu:%016llx", s.size(), static_cast<unsigned long long>(h));
  return buf;
}

static std::string lowerAscii(std::string s)
{
  for (auto& c : s) if (c >= 'A' && c <= 'Z') c = static_cast<char>(c + 32);
  return s;
}

template <typename M> static std::string showHeaders(const M& m)
{
  std::vector<std::pair<std::string, std::string>> v;     // key: lower-cased name, compared as unsigned bytes
  for (const auto& kv : m) v.emplace_back(kv.first, kv.second);
  if (v.empty()) return "-";
  std::sort(v.begin(), v.end(), [](const auto& a, const auto& b) {
    std::string x = lowerAscii(a.first), y = lowerAscii(b.first);
    return std::lexicographical_compare(x.begin(), x.end(), y.begin(), y.end(),
                                        [](char p, char q) { return static_cast<unsigned char>(p) < static_cast<unsigned char>(q); });
  });
  std::string o;
  for (std::size_t i = 0; i < v.size(); ++i)
  {
    if (i) o += ";";
    o += vh::toHex(v[i].first) + ":" + vh::toHex(v[i].second);
  }
  return o;
}

// req.params: sorted by key bytes (unsigned), `k=v` in hex joined by `&`, `-` when there are none
template <typename M> static std::string showParams(const M& m)
{
  std::vector<std::pair<std::string, std::string>> v(m.begin(), m.end());
  if (v.empty()) return "-";
  std::sort(v.begin(), v.end(), [](const auto& a, const auto& b) {
    return std::lexicographical_compare(a.first.begin(), a.first.end(), b.first.begin(), b.first.end(),
                                        [](char p, char q) { return static_cast<unsigned char>(p) < static_cast<unsigned char>(q); });
  });
  std::string o;
  for (std::size_t i = 0; i < v.size(); ++i)
  {
    if (i) o += "&";
    o += vh::toHex(v[i].first) + "=" + vh::toHex(v[i].second);
  }
  return o;
}

static std::string kindOf(const std::string& what)
{
  static const std::pair<const char*, const char*> table[] = {
    {"invalid HTTP status line", "statusLine"}, {"unsupported HTTP version", "version"},
    {"invalid status code", "statusCode"}, {"obs-fold", "obsFold"}, {"malformed header line (no colon)", "noColon"},
    {"conflicting duplicate Content-Length", "dupCL"}, {"CONNECT tunnel", "connect"},
    {"response has both Content-Length and Transfer-Encoding", "clAndTe"}, {"invalid Content-Length", "badCL"},
    {"conflicting Content-Length list", "clList"}, {"empty Content-Length", "emptyCL"},
    {"Content-Length exceeds the response cap", "clTooBig"}, {"malformed chunked response body", "chunk"},
    {"HTTP response exceeded the configured response cap", "cap"},
    {"HTTP response exceeded the sync receive buffer", "overflow"}};
  for (const auto& e : table)
    if (what.compare(0, std::strlen(e.first), e.first) == 0) return e.second;
  return "unknown-message";
}

static std::string demangled(const std::exception& e)
{
  int st = 0;
  char* n = abi::__cxa_demangle(typeid(e).name(), nullptr, nullptr, &st);
  std::string name = n ? n : typeid(e).name();
  std::free(n);
  return name;
}

// ---------------------------------------------------------------------------------------------- watchdog
// A framing call that burns more than 5 s of CPU time (ITIMER_PROF: a stalled or overloaded machine does not count) or
// does not return within 60 s of wall clock is the answer `hang` (the process then exits; the runner restarts the harness at
// the next case and the plugin re-runs the case alone before it reports anything).
static void onAlarm(int)
{
  const char m[] = "hang\n";
  (void)!write(1, m, sizeof(m) - 1);
  _exit(97);
}
struct Watchdog
{
  Watchdog()
  {
    std::fflush(stdout);
    itimerval c{};
    c.it_value.tv_sec = 5;
    setitimer(ITIMER_PROF, &c, nullptr);
    itimerval w{};
    w.it_value.tv_sec = 60;
    setitimer(ITIMER_REAL, &w, nullptr);
  }
  ~Watchdog()
  {
    itimerval t{};
    setitimer(ITIMER_PROF, &t, nullptr);
    setitimer(ITIMER_REAL, &t, nullptr);
  }
};

// ---------------------------------------------------------------------------------------------- client side
static const char* modeName(HttpClient::BodyMode m)
{
  switch (m)
  {
  case HttpClient::BodyMode::NoBody: return "noBody";
  case HttpClient::BodyMode::ContentLength: return "contentLength";
  case HttpClient::BodyMode::Chunked: return "chunked";
  case HttpClient::BodyMode::CloseDelimited: return "closeDelimited";
  }
  return "?";
}

static std::string showResp(const HttpClient::Response& r)
{
  return std::to_string(r.statusCode) + " " + vh::toHex(r.httpVersion) + " " + vh::toHex(r.statusText) + " " +
         showHeaders(r.headers) + " " + digest(r.body);
}

struct Cl
{
  HttpClient client;
  std::string method;
  std::size_t cap = 0;
  // the local variables of executeRequest's receive loop
  std::string responseData;
  bool headersDone = false;
  std::size_t headerScanPos = 0;
  std::size_t bodyStart = 0;
  HttpClient::Response resp;
  HttpClient::Framing framing;
  HttpClient::ChunkState chunkState;
  bool forceEvict = false;
  bool done = false;
  std::size_t peak = 0;

  void reset(const std::string& m, std::size_t c)
  {
    method = m; cap = c; responseData.clear(); headersDone = false; headerScanPos = 0; bodyStart = 0;
    resp = HttpClient::Response{}; framing = HttpClient::Framing{}; chunkState = HttpClient::ChunkState{};
    forceEvict = false; done = false; peak = 0;
  }

  std::string state() const
  {
    if (headersDone)
      return std::string("hd=1 bs=") + std::to_string(bodyStart) + " mode=" + modeName(framing.mode) +
             " cl=" + std::to_string(framing.contentLength) + " cpos=" + std::to_string(chunkState.pos) +
             " dec=" + digest(chunkState.decoded) + " data=" + std::to_string(responseData.size());
    return "hd=0 scan=" + std::to_string(headerScanPos) + " data=" + std::to_string(responseData.size());
  }

  // one turn of `while (!complete)` for `recvResult.isOk() && len > 0`
  std::string feed(const Bytes& seg)
  {
    if (done) return "done";
    if (seg.empty()) return "more " + state();
    try
    {
      Watchdog w;
      bool complete = false;
      responseData.append(reinterpret_cast<const char*>(seg.data()), seg.size());
      peak = std::max(peak, responseData.size());
      if (responseData.size() > cap)
      {
        throw HttpFramingError("HTTP response exceeded the configured response cap");
      }
      complete = client.frameResponse(method, responseData, headersDone, headerScanPos, bodyStart, resp, framing,
                                      chunkState, forceEvict, cap);
      if (!complete) return "more " + state();
      done = true;
      return "response " + showResp(resp) + " evict=" + (forceEvict ? "1" : "0");
    }
    catch (const HttpFramingError& e)
    {
      done = true;
      return "error " + kindOf(e.what());
    }
  }

  // the `TransportError::PeerClosed` arm
  std::string peerClosed()
  {
    if (done) return "done";
    done = true;
    if (headersDone && framing.mode == HttpClient::BodyMode::CloseDelimited)
    {
      resp.body = responseData.substr(bodyStart);
      forceEvict = true;
      return "response " + showResp(resp) + " evict=1";
    }
    return "closedEarly";
  }
};

// ---------------------------------------------------------------------------------------------- the real executeRequest
// `xr`: HttpClient::executeRequest itself (private, reached with `#define private public`) runs on a worker thread against a
// Transport whose engine is scripted; this thread plays the engine's I/O thread and delivers the next scripted receiveSync
// result (data / peer close / timeout / overflow / shutting down / other error) only when the client is parked in
// receiveSync with an empty buffer, so every scripted read is seen exactly as scripted (in pieces of sizeof(buffer) bytes
// when it is longer).  Everything of executeRequest is real: effectiveCap, the loop arms, the frameResponse arguments, the
// reuse decision after the loop and the catch-all eviction.
struct XrEngine : vh::FakeEngine
{
  std::atomic<SessionId> pending{0};
  std::atomic<int> closes{0};
  ConnectResult connect(const std::string&, std::uint16_t, TlsMode) override
  {
    SessionId s = next++;
    pending.store(s);
    return ConnectResult::ok(s);
  }
  bool close(SessionId) override { ++closes; return true; }
};

static std::string failOf(const std::string& what)
{
  if (what.compare(0, 21, "HTTP response timeout") == 0) return "timeout";
  if (what.compare(0, 28, "HTTP transport shutting down") == 0) return "shuttingDown";
  if (what.compare(0, 33, "Connection closed before receivin") == 0) return "closedEarly";
  return "other-message";
}

static std::string xr(const std::string& method, std::size_t maxResp, std::size_t jsonMax, bool reuse,
                      const std::vector<std::string>& script)
{
  bool hasTimeout = std::find(script.begin(), script.end(), "t") != script.end();
  HttpClient::Config cfg;
  cfg.maxResponseBytes = maxResp;
  cfg.jsonConfig.maxPayloadSize = jsonMax;
  cfg.reuseConnections = reuse;
  cfg.requestTimeout = std::chrono::milliseconds(hasTimeout ? 300 : 1500);
  cfg.connectTimeout = std::chrono::milliseconds(20000);
  auto engOwner = std::make_unique<XrEngine>();
  XrEngine* eng = engOwner.get();
  TransportConfig tc;
  tc.protocol = Protocol::TCP;
  tc.maxSyncReceiveBuffer = 65536;
  std::string result;
  std::atomic<bool> done{false};
  {
    HttpClient client(cfg);
    client._transport = iora::network::test::TransportEngineInjector::withEngine(std::move(engOwner), tc);
    auto* impl = client._transport->_impl.get();
    std::thread worker([&]() {
      try
      {
        auto r = client.executeRequest(method, "http://127.0.0.1:8080/x", "", {});
        result = "response " + showResp(r);
      }
      catch (const HttpFramingError& e) { result = "error " + kindOf(e.what()); }
      catch (const HttpRequestNotSentError&) { result = "fail notSent"; }
      catch (const std::runtime_error& e) { result = "fail " + failOf(e.what()); }
      catch (const std::exception& e) { result = "throw " + demangled(e); }
      catch (...) { result = "throw unknown"; }
      done = true;
    });
    auto t0 = std::chrono::steady_clock::now();
    auto late = [&]() { return std::chrono::steady_clock::now() - t0 > std::chrono::seconds(60); };
    auto nap = []() { std::this_thread::sleep_for(std::chrono::microseconds(20)); };
    while (!done && eng->pending.load() == 0 && !late()) nap();
    SessionId sid = eng->pending.load();
    if (!done && sid != 0) eng->cbs.onConnect(sid, TransportAddress{"127.0.0.1", 8080});
    auto parked = [&]() {
      std::lock_guard<std::mutex> lk(impl->syncMutex);
      auto it = impl->receiveBuffers.find(sid);
      return it != impl->receiveBuffers.end() && it->second->waiters == 1 && it->second->data.empty();
    };
    for (std::size_t i = 0; i < script.size() && !done; ++i)
    {
      while (!done && !parked() && !late()) nap();
      if (done || late()) break;
      const std::string& e = script[i];
      if (e.size() >= 2 && e[0] == 'd' && e[1] == ':')
      {
        Bytes d;
        vh::ofHex(e.substr(2), d);
        if (i + 1 < script.size() && script[i + 1] == "e")
        {
          // the next receiveSync call fails with an error code that has no arm of its own (Cancelled)
          std::lock_guard<std::mutex> lk(impl->syncMutex);
          auto it = impl->receiveBuffers.find(sid);
          if (it != impl->receiveBuffers.end()) it->second->flushing = true;
        }
        if (!d.empty()) eng->cbs.onData(sid, iora::core::BufferView(d.data(), d.size()), std::chrono::steady_clock::now());
      }
      else if (e == "c")
        eng->cbs.onClose(sid, TransportErrorInfo{TransportError::PeerClosed, "peer closed"});
      else if (e == "o")
      {
        Bytes big(tc.maxSyncReceiveBuffer + 1, 0x2e);
        eng->cbs.onData(sid, iora::core::BufferView(big.data(), big.size()), std::chrono::steady_clock::now());
      }
      else if (e == "s")
      {
        std::lock_guard<std::mutex> lk(impl->syncMutex);
        impl->shuttingDown = true;
        auto it = impl->receiveBuffers.find(sid);
        if (it != impl->receiveBuffers.end()) it->second->cv.notify_all();
      }
      // every non-data result ends the loop (F3d): nothing more is delivered until executeRequest has returned - the
      // client still LOOKS parked until it has woken up, and bytes slipped in now would be drained before the error
      if (!(e.size() >= 2 && e[0] == 'd' && e[1] == ':'))
        while (!done && !late()) nap();
    }
    while (!done && !late()) nap();
    if (!done)
    {
      const char m[] = "hang\n";
      (void)!write(1, m, sizeof(m) - 1);
      _exit(97);
    }
    worker.join();
    {
      // leave the transport in a state its destructor accepts
      std::lock_guard<std::mutex> lk(impl->syncMutex);
      impl->shuttingDown = false;
      for (auto& kv : impl->receiveBuffers) kv.second->flushing = false;
    }
    result += std::string(" closed=") + (eng->closes.load() > 0 ? "1" : "0");
  }
  return result;
}

// ---------------------------------------------------------------------------------------------- server side
// The scripted engine of the server side.  TcpEngine::sendAsync (detail/tcp_engine.hpp) runs the completion callback
// SYNCHRONOUSLY on the calling thread after the enqueue (`bool ok = send(...); if (cb) cb(sid, ok ? ok(len) : err)`) - the
// server relies on that (SR-7 comments), and sendErrorResponse's completion is what closes and erases the session after a 503.
// The shared FakeEngine drops the callback; this one does what the real engine does.
struct SrvEngine : vh::FakeEngine
{
  void sendAsync(SessionId sid, const void* d, std::size_t n, SendCompleteCallback cb) override
  {
    bool ok = send(sid, d, n);
    if (cb)
    {
      if (ok) cb(sid, SendResult::ok(n));
      else cb(sid, SendResult::err(TransportErrorInfo{TransportError::Socket, "send enqueue failed"}));
    }
  }
};

struct Srv
{
  std::unique_ptr<HttpServer> s;
  vh::FakeEngine* eng = nullptr;
  std::mutex mx;
  std::vector<std::string> workerEvs, ioEvs;
  std::thread::id ioThread = std::this_thread::get_id();
  static constexpr SessionId sid = 7;
  // blockers: occupy all pool workers but one so that dispatched requests run one at a time in dispatch order
  std::mutex bmx;
  std::condition_variable bcv;
  bool release = false;
  std::atomic<int> started{0};

  void ev(const std::string& e)
  {
    std::lock_guard<std::mutex> g(mx);
    (std::this_thread::get_id() == ioThread ? ioEvs : workerEvs).push_back(e);
  }

  void init()
  {
    s = std::make_unique<HttpServer>("127.0.0.1", 0);
    auto fe = std::make_unique<SrvEngine>();
    eng = fe.get();
    TransportConfig cfg;
    cfg.protocol = Protocol::TCP;
    s->_transport = iora::network::test::TransportEngineInjector::withEngine(std::move(fe), cfg);
    eng->onSend = [this](SessionId, const std::string& b) {
      // "HTTP/1.1 NNN ..."
      std::string code = b.size() >= 12 ? b.substr(9, 3) : "???";
      ev("S:" + code);
    };
    eng->onCloseCall = [this](SessionId) { ev("X"); };
    s->setDefaultHandler([this](const HttpServer::Request& r, HttpServer::Response&) {
      // method, query-stripped path, header map, body, and the query parameters processHttpRequest put into req.params
      ev("R/" + std::to_string(static_cast<int>(r.method)) + "/" + vh::toHex(r.path) + "/" + showHeaders(r.headers) + "/" +
         digest(r.body) + "/" + showParams(r.params));
    });
    const std::size_t maxThreads = s->_threadPool._maxSize;
    for (std::size_t i = 0; i + 1 < maxThreads; ++i)
    {
      s->_threadPool.tryEnqueue([this]() {
        ++started;
        std::unique_lock<std::mutex> l(bmx);
        bcv.wait(l, [this] { return release; });
      });
    }
    // all workers but one must be parked before the first request is dispatched (otherwise handlers could run out of order)
    for (int i = 0; i < 30000 && started.load() + 1 < static_cast<int>(maxThreads); ++i)
      std::this_thread::sleep_for(std::chrono::milliseconds(1));
    if (started.load() + 1 < static_cast<int>(maxThreads)) { std::fprintf(stderr, "c15 harness: could not park the pool workers\n"); _exit(96); }
  }

  // ---- the oracle ops: when do the workers run, how many tasks does the pool still accept, when does the close land
  // `hold k`: the one free worker is parked behind a gate and the task queue is filled up so that exactly k more tryEnqueue
  // calls succeed (k >= queue capacity: nothing is filled).  While held, `data` ops do not wait for the workers: dispatched
  // requests stay queued, the I/O thread's extraction goes on; a refused request is answered 503 by the I/O thread itself.
  // `release`: the gate opens, every queued request runs (in dispatch order), the worker events are the answer.
  bool held = false;
  std::mutex gmx;
  std::condition_variable gcv;
  bool gateOpen = false;
  std::atomic<int> gateEntered{0};

  std::string hold(std::size_t k)
  {
    if (held) return "bad-op";
    drainPool();
    {
      std::lock_guard<std::mutex> l(gmx);
      gateOpen = false;
    }
    gateEntered = 0;
    while (!s->_threadPool.tryEnqueue([this]() {
      ++gateEntered;
      std::unique_lock<std::mutex> l(gmx);
      gcv.wait(l, [this] { return gateOpen; });
    }))
      std::this_thread::sleep_for(std::chrono::milliseconds(1));
    for (int i = 0; i < 30000 && gateEntered.load() == 0; ++i) std::this_thread::sleep_for(std::chrono::milliseconds(1));
    if (gateEntered.load() == 0) { std::fprintf(stderr, "c15 harness: gate task was not picked up\n"); _exit(96); }
    const std::size_t cap = s->_threadPool._maxQueueSize;
    std::size_t filled = 0;
    if (k < cap)
      for (std::size_t i = 0; i < cap - k; ++i)
        if (s->_threadPool.tryEnqueue([]() {})) ++filled;
    held = true;
    (void)filled;
    return "ok";
  }

  std::string releaseGate()
  {
    if (!held) return "bad-op";
    {
      std::lock_guard<std::mutex> l(gmx);
      gateOpen = true;
    }
    gcv.notify_all();
    held = false;
    drainPool();
    return collect();
  }

  // the engine's close callback: HttpServer::start() wires Transport::onClose to the member handleSessionClosed(sid) (erases
  // _sessionInfo / _upgradedSessions / _upgradePending under _sessionMutex, then the onSessionClosed hook); the scripted engine
  // has no callback of its own - the queued close LANDS here, through the real member
  std::string closed()
  {
    s->handleSessionClosed(sid);
    return "ok";
  }

  void drainPool()
  {
    std::promise<void> p;
    auto f = p.get_future();
    while (!s->_threadPool.tryEnqueue([&p]() { p.set_value(); }))
      std::this_thread::sleep_for(std::chrono::milliseconds(1));
    f.wait();
  }

  void reset()
  {
    if (!s) init();
    if (held) (void)releaseGate();
    drainPool();
    {
      std::lock_guard<std::mutex> g(s->_sessionMutex);
      s->_sessionInfo.erase(sid);
      s->_sessionInfo[sid] = HttpServer::SessionInfo{};
      s->_upgradedSessions.clear();
      s->_upgradePending.clear();
    }
    std::lock_guard<std::mutex> g(mx);
    workerEvs.clear();
    ioEvs.clear();
  }

  std::string data(const Bytes& d)
  {
    {
      Watchdog w;
      s->handleIncomingData(sid, d.data(), d.size());
    }
    if (!held) drainPool();
    return collect();
  }

  std::string collect()
  {
    std::string o;
    std::size_t buf = 0;
    bool alive = false;
    {
      std::lock_guard<std::mutex> g(mx);
      auto join = [&](const std::vector<std::string>& v) {
        std::string r;
        if (v.empty()) r = "-";
        for (std::size_t i = 0; i < v.size(); ++i) { if (i) r += ","; r += v[i]; }
        return r;
      };
      o = join(workerEvs) + " | io=" + join(ioEvs);
      workerEvs.clear();
      ioEvs.clear();
    }
    {
      std::lock_guard<std::mutex> g(s->_sessionMutex);
      // NOTHING is erased here: Transport::close only queues the close, the engine's close callback runs when the script says
      // so (`sv closed`).  A session that is gone at this point was erased by the server's own code.
      auto it = s->_sessionInfo.find(sid);
      alive = it != s->_sessionInfo.end();
      buf = alive ? it->second.buffer.size() : 0;
    }
    return o + " | buf=" + std::to_string(buf) + " alive=" + (alive ? "1" : "0");
  }

  void shutdown()
  {
    {
      std::lock_guard<std::mutex> l(bmx);
      release = true;
    }
    bcv.notify_all();
  }
};

// `HttpServer::kChunkedMalformed` exists only in trees that carry the F26 repair; the harness compiles against both.
template <typename T, typename = void> struct MalformedConst
{
  static constexpr bool has = false;
  static constexpr std::size_t value = 0;
};
template <typename T> struct MalformedConst<T, std::void_t<decltype(T::kChunkedMalformed)>>
{
  static constexpr bool has = true;
  static constexpr std::size_t value = T::kChunkedMalformed;
};

static std::string guarded(const std::function<std::string()>& f)
{
  try { return f(); }
  catch (const std::exception& e) { return "throw " + demangled(e); }
  catch (...) { return "throw unknown"; }
}

int main()
{
  iora::core::Logger::setLevel(iora::core::Logger::Level::Fatal);
  signal(SIGALRM, onAlarm);
  signal(SIGPROF, onAlarm);
  Cl cl;
  Srv srv;
  int rc = vh::runLines([&](const std::vector<std::string>& t) -> std::string {
    return guarded([&]() -> std::string {
      Bytes d, m;
      unsigned long long n = 0, k = 0;
      if (t.size() == 4 && t[0] == "cl" && t[1] == "reset" && vh::ofHex(t[2], m) && vh::parseNat(t[3], n))
      {
        cl.reset(str(m), static_cast<std::size_t>(n));
        return "ok";
      }
      if (t.size() == 3 && t[0] == "cl" && t[1] == "feed" && vh::ofHex(t[2], d)) return cl.feed(d);
      if (t.size() == 2 && t[0] == "cl" && t[1] == "close") return cl.peerClosed();
      if (t.size() >= 5 && t[0] == "xr" && vh::ofHex(t[1], m) && vh::parseNat(t[2], n) && vh::parseNat(t[3], k) &&
          (t[4] == "0" || t[4] == "1"))
        return xr(str(m), static_cast<std::size_t>(n), static_cast<std::size_t>(k), t[4] == "1",
                  std::vector<std::string>(t.begin() + 5, t.end()));
      if (t.size() == 2 && t[0] == "pcl" && vh::ofHex(t[1], d))
      {
        try { return "ok " + std::to_string(cl.client.parseContentLength(str(d))); }
        catch (const HttpFramingError& e) { return "error " + kindOf(e.what()); }
      }
      if (t.size() == 2 && t[0] == "te" && vh::ofHex(t[1], d))
        return cl.client.transferEncodingFinalIsChunked(str(d)) ? "1" : "0";
      if (t.size() == 2 && t[0] == "phb" && vh::ofHex(t[1], d))
      {
        try
        {
          HttpClient::Response r;
          cl.client.parseHeaderBlock(str(d), r);
          return "ok " + showResp(r);
        }
        catch (const HttpFramingError& e) { return "error " + kindOf(e.what()); }
      }
      if (t.size() == 4 && t[0] == "df" && vh::ofHex(t[1], m) && vh::parseNat(t[2], n) && vh::ofHex(t[3], d))
      {
        try
        {
          HttpClient::Response r;
          cl.client.parseHeaderBlock(str(d), r);
          auto f = cl.client.determineFraming(str(m), r, static_cast<std::size_t>(n));
          return std::string(modeName(f.mode)) + " " + std::to_string(f.contentLength);
        }
        catch (const HttpFramingError& e) { return "error " + kindOf(e.what()); }
      }
      if (t.size() == 4 && t[0] == "adv" && vh::parseNat(t[1], n) && vh::parseNat(t[2], k) && vh::ofHex(t[3], d))
      {
        Watchdog w;
        HttpClient::ChunkState st;
        st.pos = static_cast<std::size_t>(k);
        auto fs = cl.client.advanceChunked(str(d), static_cast<std::size_t>(n), st);
        if (fs == HttpClient::FrameStatus::NeedMore) return "needMore pos=" + std::to_string(st.pos) + " dec=" + digest(st.decoded);
        if (fs == HttpClient::FrameStatus::Complete)
          return "complete end=" + std::to_string(st.messageEnd) + " pos=" + std::to_string(st.pos) + " dec=" + digest(st.decoded);
        return "malformed";
      }
      if (t.size() == 2 && t[0] == "sv" && t[1] == "reset") { srv.reset(); return "ok"; }
      if (t.size() == 3 && t[0] == "sv" && t[1] == "data" && vh::ofHex(t[2], d)) return srv.data(d);
      if (t.size() == 2 && t[0] == "sv" && t[1] == "closed") { if (!srv.s) srv.init(); return srv.closed(); }
      if (t.size() == 3 && t[0] == "sv" && t[1] == "hold" && vh::parseNat(t[2], n)) { if (!srv.s) srv.init(); return srv.hold(static_cast<std::size_t>(n)); }
      if (t.size() == 2 && t[0] == "sv" && t[1] == "release") { if (!srv.s) srv.init(); return srv.releaseGate(); }
      if (t.size() == 3 && t[0] == "fce" && vh::parseNat(t[1], n) && vh::ofHex(t[2], d))
      {
        if (!srv.s) srv.init();
        Watchdog w;
        std::size_t e = srv.s->findChunkedRequestEnd(str(d), static_cast<std::size_t>(n));
        if (e == std::string::npos) return "needMore";
        if (MalformedConst<HttpServer>::has && e == MalformedConst<HttpServer>::value) return "malformed";
        return "end " + std::to_string(e);
      }
      return "bad-op";
    });
  });
  std::fflush(stdout);
  srv.shutdown();
  _exit(rc);
}
