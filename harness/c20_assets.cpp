// Correspondence harness for C20: the real iora::web::Assets (lexical filter, containment, the three lookup modes, caches,
// readFile with its real open(2) flags) and the real std::filesystem / kernel path resolution, over directory trees that
// the `tree` op materialises below ${C20_SANDBOX}.  Same line protocol as lean/Driver/Assets.lean.
// Nothing is ever created, changed or removed outside ${C20_SANDBOX} (every mutating path is checked).
#include <algorithm>
#include <atomic>
#include <condition_variable>
#include <cerrno>
#include <chrono>
#include <cstdarg>
#include <cstdio>
#include <cstdlib>
#include <cstring>
#include <filesystem>
#include <fstream>
#include <functional>
#include <iostream>
#include <memory>
#include <mutex>
#include <optional>
#include <sstream>
#include <stdexcept>
#include <string>
#include <string_view>
#include <system_error>
#include <thread>
#include <typeinfo>
#include <unordered_map>
#include <vector>
#include <cxxabi.h>
#include <dlfcn.h>
#include <fcntl.h>
#include <limits.h>
#include <sys/stat.h>
#include <sys/syscall.h>
#include <sys/types.h>
#include <unistd.h>
#define private public
#define protected public
#include "iora/web/assets.hpp"
#undef private
#undef protected
#include "common/lineproto.hpp"

namespace fs = std::filesystem;
using iora::web::Assets;
using iora::web::GetStaticResult;
using vh::Bytes;

static std::string g_sandbox; // canonical, no trailing slash

static std::string str(const Bytes& b) { return std::string(b.begin(), b.end()); }

static bool hasDotDot(const std::string& p)
{
  std::size_t i = 0;
  while (i <= p.size())
  {
    std::size_t j = p.find('/', i);
    if (j == std::string::npos) j = p.size();
    if (p.compare(i, j - i, "..") == 0) return true;
    i = j + 1;
  }
  return false;
}

// a path this harness may create / replace / remove
static bool inSandbox(const std::string& p)
{
  return !g_sandbox.empty() && p.size() > g_sandbox.size() + 1 && p.compare(0, g_sandbox.size(), g_sandbox) == 0 &&
         p[g_sandbox.size()] == '/' && !hasDotDot(p) && p.find('\0') == std::string::npos;
}

[[noreturn]] static void die(const std::string& why)
{
  std::fprintf(stderr, "c20 harness: %s\n", why.c_str());
  std::fflush(stdout);
  std::_Exit(3);
}

// ---------------------------------------------------------------------------------------------------------------
// Interposed open(2): the calls `::open(...)` compiled from assets.hpp bind to this definition.  When armed, the FIRST
// open of a lookup first replaces the file being opened by a symbolic link (the schedule {resolve, swap-leaf, open}).
// ---------------------------------------------------------------------------------------------------------------
static bool g_armed = false;
static bool g_fired = false;
static std::string g_swapTarget;
static std::atomic<unsigned long> g_opens{0}, g_openEloop{0};

// hits of the interposers themselves (op `selftest`): a toolchain whose std::filesystem goes through statx/fstatat/openat
// directly would leave the schedules of `sched` silently disabled
static std::atomic<unsigned long> g_hitStat{0}, g_hitRealpath{0}, g_hitOpen{0};

// Gate for the two-thread schedule (op `race`): when set, the FIRST open() of the gated thread parks until released.
static std::function<void()> g_openGate;
static thread_local bool t_gated = false;

// ---------------------------------------------------------------------------------------------------------------
// Interposed read(2) (op `readcfg`): the read loop of Assets::readFile sees SHORT reads (at most g_chunkMax bytes per call) and,
// every g_eintrEvery-th call, a failure with errno = EINTR before the data.  Only descriptors that the interposed open() above
// handed to the library are affected (the line protocol's own stdin reads are not).  Counters feed the evidence file.
// ---------------------------------------------------------------------------------------------------------------
static std::size_t g_chunkMax = 0;
static unsigned g_eintrEvery = 0;
static bool g_libFd[4096];
static std::atomic<unsigned long> g_reads{0}, g_readsShort{0}, g_readsEintr{0}, g_readsFull{0}, g_readsEof{0}, g_readLoops2{0};
static thread_local unsigned t_readsThisFd = 0;
static std::vector<long> g_script; // op `readscript`: -1 EINTR, -2 EIO, k > 0 at most k bytes; consumed front to back
static std::size_t g_scriptPos = 0;

extern "C" ssize_t read(int fd, void* buf, size_t n)
{
  const bool lib = fd >= 0 && fd < 4096 && g_libFd[fd];
  if (lib)
  {
    unsigned long k = ++g_reads;
    if (g_scriptPos < g_script.size())
    {
      long c = g_script[g_scriptPos++];
      if (c == -1) { g_readsEintr++; errno = EINTR; return -1; }
      if (c == -2) { errno = EIO; return -1; }
      if (static_cast<size_t>(c) < n) n = static_cast<size_t>(c);
    }
    else if (g_eintrEvery && k % g_eintrEvery == 0)
    {
      g_readsEintr++;
      errno = EINTR;
      return -1;
    }
    if (g_chunkMax && n > g_chunkMax) { n = g_chunkMax; }
  }
  ssize_t r = static_cast<ssize_t>(::syscall(SYS_read, fd, buf, n));
  if (lib)
  {
    if (r == 0) { g_readsEof++; t_readsThisFd = 0; }
    else if (r > 0)
    {
      if (static_cast<size_t>(r) == 65536) g_readsFull++;
      else g_readsShort++;
      if (++t_readsThisFd == 2) g_readLoops2++; // a second data read on the same descriptor: the loop really iterated
    }
  }
  return r;
}

extern "C" int close(int fd)
{
  if (fd >= 0 && fd < 4096) g_libFd[fd] = false;
  return static_cast<int>(::syscall(SYS_close, fd));
}


// ---------------------------------------------------------------------------------------------------------------
// Deterministic schedules at EVERY system-call boundary of one lookup (op `sched`).  The lookup's path-taking system calls are
// recognised as they happen: status(candidate) and, if the candidate does not exist, the prefix loop of weakly_canonical
// (phase WC, never split), realpath(candidate) [point C], then — after the last realpath of weakly_canonical returned —
// the next stat = is_regular_file(resolved) [R], the next open = open(resolved) [O], the next stat = is_regular_file(gz) [G],
// the next open = open(gz) [Z].  The armed mutation of the file system is carried out just BEFORE the system call of its point.
// ---------------------------------------------------------------------------------------------------------------
struct Sched
{
  bool active = false;
  bool busy = false; // inside the mutation / inside a hook: the harness's own system calls are not the lookup's
  char point = 0;
  int needRealpath = 1; // 1: filesystem mode, 2: embedded-external (the first is weakly_canonical(EXTERNAL_DIR))
  int realpathSeen = 0;
  int phase = 0; // 0 WC, 1 after WC, 2 after R, 3 after O, 4 after G, 5 done
  bool fired = false;
  std::string candidateAbs;
  std::function<void()> mutate;
};
static Sched g_s;

static void schedFire(char pt)
{
  if (g_s.point == pt && !g_s.fired)
  {
    g_s.busy = true;
    g_s.mutate();
    g_s.busy = false;
    g_s.fired = true;
  }
}

static void hookStat()
{
  g_hitStat++;
  if (!g_s.active || g_s.busy) return;
  if (g_s.phase == 1) { schedFire('R'); g_s.phase = 2; }
  else if (g_s.phase == 3) { schedFire('G'); g_s.phase = 4; }
}

static void hookOpen()
{
  if (!g_s.active || g_s.busy) return;
  if (g_s.phase == 2) { schedFire('O'); g_s.phase = 3; }
  else if (g_s.phase == 4) { schedFire('Z'); g_s.phase = 5; }
}

extern "C" char* realpath(const char* path, char* resolved)
{
  using F = char* (*)(const char*, char*);
  static F real = reinterpret_cast<F>(::dlsym(RTLD_NEXT, "realpath"));
  g_hitRealpath++;
  const bool mine = g_s.active && !g_s.busy;
  if (mine && g_s.phase == 0 && g_s.realpathSeen + 1 == g_s.needRealpath && g_s.candidateAbs == path) schedFire('C');
  char* out = real(path, resolved);
  if (mine && g_s.phase == 0 && ++g_s.realpathSeen == g_s.needRealpath) g_s.phase = 1;
  return out;
}

extern "C" int stat(const char* path, struct stat* sb)
{
  using F = int (*)(const char*, struct stat*);
  static F real = reinterpret_cast<F>(::dlsym(RTLD_NEXT, "stat"));
  hookStat();
  if (real) return real(path, sb);
  return static_cast<int>(::syscall(SYS_newfstatat, AT_FDCWD, path, sb, 0));
}

extern "C" int stat64(const char* path, struct stat64* sb)
{
  hookStat();
  return static_cast<int>(::syscall(SYS_newfstatat, AT_FDCWD, path, sb, 0));
}

extern "C" int __xstat(int, const char* path, struct stat* sb)
{
  hookStat();
  return static_cast<int>(::syscall(SYS_newfstatat, AT_FDCWD, path, sb, 0));
}

extern "C" int __xstat64(int, const char* path, struct stat64* sb)
{
  hookStat();
  return static_cast<int>(::syscall(SYS_newfstatat, AT_FDCWD, path, sb, 0));
}

extern "C" int open(const char* path, int flags, ...)
{
  mode_t mode = 0;
  if (flags & O_CREAT)
  {
    va_list ap;
    va_start(ap, flags);
    mode = static_cast<mode_t>(va_arg(ap, int));
    va_end(ap);
  }
  g_hitOpen++;
  if (t_gated && g_openGate)
  {
    t_gated = false;
    g_openGate();
  }
  hookOpen();
  if (g_armed)
  {
    g_armed = false;
    std::string p(path);
    if (!inSandbox(p)) die("swap target outside the sandbox: " + p);
    std::string tmp = g_sandbox + "/.swap-tmp";
    ::unlink(tmp.c_str());
    if (::symlink(g_swapTarget.c_str(), tmp.c_str()) != 0 || ::rename(tmp.c_str(), p.c_str()) != 0) die("swap failed for " + p);
    g_fired = true;
  }
  int fd = static_cast<int>(::syscall(SYS_openat, AT_FDCWD, path, flags, mode));
  if (fd >= 0 && fd < 4096) { g_libFd[fd] = (flags & O_ACCMODE) == O_RDONLY; t_readsThisFd = 0; }
  g_opens++;
  if (fd < 0 && errno == ELOOP) g_openEloop++;
  return fd;
}

static std::string errnoName(const std::error_code& ec)
{
  switch (ec.value())
  {
  case ENOENT: return "ENOENT";
  case ENOTDIR: return "ENOTDIR";
  case ELOOP: return "ELOOP";
  case ENAMETOOLONG: return "ENAMETOOLONG";
  case EACCES: return "EACCES";
  default: return "E" + std::to_string(ec.value());
  }
}

static std::string guarded(const std::function<std::string()>& f)
{
  try { return f(); }
  catch (const std::exception& e)
  {
    int st = 0;
    char* n = abi::__cxa_demangle(typeid(e).name(), nullptr, nullptr, &st);
    std::string name = n ? n : typeid(e).name();
    std::free(n);
    return "throw " + name;
  }
  catch (...) { return "throw unknown"; }
}

static void removeSandboxContents()
{
  std::error_code ec;
  for (auto it = fs::directory_iterator(g_sandbox, ec); !ec && it != fs::directory_iterator(); it.increment(ec))
  {
    std::string p = it->path().string();
    if (!inSandbox(p)) die("refusing to remove " + p);
    std::error_code ec2;
    fs::remove_all(it->path(), ec2); // does not follow symlinks
  }
}

static void writeFile(const std::string& p, const std::string& data)
{
  int fd = static_cast<int>(::syscall(SYS_openat, AT_FDCWD, p.c_str(), O_WRONLY | O_CREAT | O_TRUNC | O_NOFOLLOW, 0644));
  if (fd < 0) die("cannot create " + p + ": " + std::strerror(errno));
  std::size_t off = 0;
  while (off < data.size())
  {
    ssize_t n = ::write(fd, data.data() + off, data.size() - off);
    if (n <= 0) die("write failed");
    off += static_cast<std::size_t>(n);
  }
  ::close(fd);
}

// remove whatever is at p (file, link, or directory tree), never following links
static void removeAt(const std::string& p)
{
  if (!inSandbox(p)) die("refusing to remove " + p);
  std::error_code ec;
  fs::remove_all(fs::path(p), ec);
}

// Environment steps (`put`, `rm`, the mutation of `sched` / `race`) act only when the PARENT of the named path is a real directory
// reached through real directories — no symbolic link is traversed on the way (the model's Fs.envSet / Fs.envRemove: `Fs.get` by
// names).  Otherwise nothing happens: a path spelled through a link would create / remove an object somewhere else.
static bool realParent(const std::string& p)
{
  std::size_t k = p.rfind('/');
  if (k == std::string::npos || k == 0) return false;
  const std::string parent = p.substr(0, k);
  using F = char* (*)(const char*, char*);
  static F real = reinterpret_cast<F>(::dlsym(RTLD_NEXT, "realpath"));
  char* r = real(parent.c_str(), nullptr);
  if (!r) return false;
  const bool same = parent == r;
  std::free(r);
  struct stat sb;
  return same && ::syscall(SYS_newfstatat, AT_FDCWD, parent.c_str(), &sb, AT_SYMLINK_NOFOLLOW) == 0 && S_ISDIR(sb.st_mode);
}

static bool die2(const std::string& p) { die("cannot create " + p + ": " + std::strerror(errno)); }

static bool putEntry(char kind, const std::string& p, const std::string& data, bool replace)
{
  if (!inSandbox(p))
  {
    // the chain of directories from `/` down to the sandbox is part of the tree description (for the model only)
    struct stat sb;
    if (kind == 'd' && ::stat(p.c_str(), &sb) == 0 && S_ISDIR(sb.st_mode) &&
        (g_sandbox == p || (g_sandbox.size() > p.size() && g_sandbox.compare(0, p.size(), p) == 0 && (p == "/" || g_sandbox[p.size()] == '/'))))
      return true;
    die("entry outside the sandbox: " + p);
  }
  if (replace)
  {
    if (!realParent(p)) return true; // nothing happens (see realParent)
    removeAt(p);
  }
  if (kind == 'd') return ::mkdir(p.c_str(), 0755) == 0 || die2(p);
  if (kind == 'f') { writeFile(p, data); return true; }
  if (kind == 'l') return ::symlink(data.c_str(), p.c_str()) == 0 || die2(p);
  return false;
}

struct Emb
{
  std::vector<std::string> store; // owns every string the registry views
  std::vector<iora::web::EmbeddedAsset> statics;
  std::vector<iora::web::EmbeddedTemplate> templates;
  std::vector<std::string_view> externals;
  std::string externalDir;
  iora::web::EmbeddedAssetRegistry reg;
};

struct State
{
  std::unique_ptr<Emb> emb;
  std::optional<Assets> a;
  std::string rootArg; // what fromDirectory was given (for the OS oracle)
  bool isFs = false;
};

static std::vector<std::string> splitOn(const std::string& s, char c)
{
  std::vector<std::string> out;
  std::size_t i = 0;
  for (;;)
  {
    std::size_t j = s.find(c, i);
    if (j == std::string::npos) { out.push_back(s.substr(i)); break; }
    out.push_back(s.substr(i, j - i));
    i = j + 1;
  }
  return out;
}

static std::string realpathHex(const std::string& p)
{
  if (p.find('\0') != std::string::npos) return "~";
  char* r = ::realpath(p.c_str(), nullptr);
  if (!r) return "~";
  std::string s(r);
  std::free(r);
  return vh::toHex(s);
}

static std::string showStatic(const GetStaticResult& r)
{
  switch (r.status)
  {
  case GetStaticResult::Status::NotFound: return "notfound";
  case GetStaticResult::Status::Rejected: return "rejected";
  case GetStaticResult::Status::Found:
  {
    std::string o = "found " + vh::toHex(std::string(r.blob.bytes)) + " ";
    o += r.blob.gzipBytes ? vh::toHex(std::string(*r.blob.gzipBytes)) : std::string("~");
    if (r.blob.gzipBytes.has_value() != r.blob.gzipVariantExists) o += "!gzflag";
    o += " " + vh::toHex(std::string(r.blob.mime));
    return o;
  }
  }
  return "?";
}

static std::string oracleFor(const State& st, bool tmpl, const std::string& name)
{
  // OS oracle (implementation side only, independent of the library's verdict): where does <root>/<name> really live right now
  // (rp), what is the object at the joined path itself (lf: f regular file, l symbolic link, d directory, ~ nothing), and does rp
  // lie outside realpath(<root>) (esc)?   lf=f with esc=1 is a request THROUGH a directory link that leaves the root.
  if (!st.a) return "";
  std::string base;
  if (st.isFs) base = tmpl ? st.a->_fs->templatesRoot.string() : st.a->_fs->staticsRoot.string();
  else if (st.emb && !tmpl) base = st.emb->externalDir;
  if (base.empty() || name.find('\0') != std::string::npos) return "";
  const std::string joined = base + "/" + name;
  std::string o = " # rp=" + realpathHex(joined);
  struct stat sb;
  char lf = '~';
  if (::syscall(SYS_newfstatat, AT_FDCWD, joined.c_str(), &sb, AT_SYMLINK_NOFOLLOW) == 0)
    lf = S_ISLNK(sb.st_mode) ? 'l' : S_ISDIR(sb.st_mode) ? 'd' : S_ISREG(sb.st_mode) ? 'f' : 'o';
  o += std::string(" lf=") + lf;
  char* rb = ::realpath(base.c_str(), nullptr);
  char* rj = ::realpath(joined.c_str(), nullptr);
  if (rb && rj)
  {
    std::string b(rb), j(rj);
    const bool in = j.size() > b.size() && j.compare(0, b.size(), b) == 0 && (b == "/" || j[b.size()] == '/');
    o += in ? " esc=0" : (j == b ? " esc=0" : " esc=1");
    struct stat sj;
    if (::syscall(SYS_newfstatat, AT_FDCWD, rj, &sj, 0) == 0 && S_ISREG(sj.st_mode)) o += " reg=1";
  }
  std::free(rb);
  std::free(rj);
  return o;
}

int main()
{
  const char* sb = std::getenv("C20_SANDBOX");
  if (!sb || !*sb) die("C20_SANDBOX not set");
  {
    char* r = ::realpath(sb, nullptr);
    if (!r) die("C20_SANDBOX does not exist");
    g_sandbox = r;
    std::free(r);
    if (g_sandbox != sb) die("C20_SANDBOX must be canonical");
    if (g_sandbox.find("/.work/") == std::string::npos) die("C20_SANDBOX must be inside a .work directory");
  }
  State st;
  struct StatsAtExit
  {
    ~StatsAtExit()
    {
      if (const char* sf = std::getenv("C20_STATS"))
      {
        std::ofstream f(sf, std::ios::app);
        f << "reads total=" << g_reads.load() << " full64k=" << g_readsFull.load() << " short=" << g_readsShort.load()
          << " eintr=" << g_readsEintr.load() << " eof=" << g_readsEof.load() << " second_data_read_same_fd=" << g_readLoops2.load()
          << " opens=" << g_opens.load() << " open_eloop=" << g_openEloop.load() << "\n";
      }
    }
  } statsAtExit;
  return vh::runLines([&](const std::vector<std::string>& t) -> std::string {
    return guarded([&]() -> std::string {
      Bytes a, b, c;
      if (t.size() >= 2 && t[0] == "tree" && vh::ofHex(t[1], a))
      {
        st.a.reset();
        st.emb.reset();
        g_chunkMax = 0;
        g_eintrEvery = 0;
        if (::chdir(g_sandbox.c_str()) != 0) die("chdir");
        removeSandboxContents();
        for (std::size_t i = 2; i < t.size(); ++i)
        {
          auto f = splitOn(t[i], ':');
          if (f.size() < 2 || f[0].size() != 1 || !vh::ofHex(f[1], b)) return "bad-op";
          c.clear();
          if (f.size() >= 3 && !vh::ofHex(f[2], c)) return "bad-op";
          if ((f[0] == "d") != (f.size() == 2)) return "bad-op";
          putEntry(f[0][0], str(b), str(c), false);
        }
        if (::chdir(str(a).c_str()) != 0) die("chdir to cwd " + str(a));
        return "ok";
      }
      if ((t.size() == 3 || t.size() == 4) && t[0] == "put" && t[1].size() == 1 && vh::ofHex(t[2], a))
      {
        b.clear();
        if (t.size() == 4 && !vh::ofHex(t[3], b)) return "bad-op";
        if ((t[1] == "d") != (t.size() == 3)) return "bad-op";
        putEntry(t[1][0], str(a), str(b), true);
        return "ok";
      }
      if (t.size() == 2 && t[0] == "rm" && vh::ofHex(t[1], a))
      {
        if (!inSandbox(str(a))) die("refusing to remove " + str(a));
        if (realParent(str(a))) removeAt(str(a));
        return "ok";
      }
      if (t.size() == 2 && t[0] == "wc" && vh::ofHex(t[1], a))
      {
        std::error_code ec;
        fs::path r = fs::weakly_canonical(fs::path(str(a)), ec);
        if (ec) return "err " + errnoName(ec);
        return "ok " + vh::toHex(r.string());
      }
      if (t.size() == 2 && t[0] == "norm" && vh::ofHex(t[1], a)) return vh::toHex(fs::path(str(a)).lexically_normal().string());
      if (t.size() == 3 && t[0] == "cont" && vh::ofHex(t[1], a) && vh::ofHex(t[2], b))
        return Assets::isContained(fs::path(str(a)), fs::path(str(b))) ? "1" : "0";
      if (t.size() == 2 && t[0] == "lexrej" && vh::ofHex(t[1], a))
      {
        std::string s = str(a);
        return Assets::lexicallyRejected(std::string_view(s)) ? "1" : "0";
      }
      if (t.size() == 2 && t[0] == "stat" && vh::ofHex(t[1], a))
      {
        std::error_code ec;
        fs::file_status s = fs::status(fs::path(str(a)), ec);
        if (fs::is_regular_file(s)) return "file";
        if (fs::is_directory(s)) return "dir";
        if (s.type() == fs::file_type::not_found) return "notfound";
        if (ec) return "err " + errnoName(ec);
        return "other";
      }
      if (t.size() == 2 && t[0] == "read" && vh::ofHex(t[1], a))
      {
        auto d = Assets::readFile(fs::path(str(a)));
        return d ? "some " + vh::toHex(*d) : std::string("none");
      }
      if (t.size() == 3 && t[0] == "newfs" && vh::ofHex(t[1], a) && (t[2] == "0" || t[2] == "1"))
      {
        st.a.reset();
        st.emb.reset();
        st.isFs = true;
        st.rootArg = str(a);
        try { st.a.emplace(Assets::fromDirectory(fs::path(st.rootArg), t[2] == "1")); }
        catch (const fs::filesystem_error&) { return "throw"; }
        return "ok " + vh::toHex(st.a->_fs->staticsRoot.string()) + " " + vh::toHex(st.a->_fs->templatesRoot.string()) +
               " # rp=" + realpathHex(st.rootArg) + " srp=" + realpathHex(st.rootArg + "/static") +
               " trp=" + realpathHex(st.rootArg + "/templates");
      }
      if (t.size() == 5 && t[0] == "newemb" && vh::ofHex(t[1], a))
      {
        st.a.reset();
        auto e = std::make_unique<Emb>();
        e->store.reserve(4096);
        auto keep = [&](const Bytes& x) -> std::string_view { e->store.push_back(str(x)); return std::string_view(e->store.back()); };
        e->externalDir = str(a);
        if (t[2] != "-")
          for (auto& item : splitOn(t[2], ','))
          {
            auto f = splitOn(item, ':');
            if (f.size() != 3 || !vh::ofHex(f[0], a) || !vh::ofHex(f[1], b)) return "bad-op";
            iora::web::EmbeddedAsset ea;
            ea.path = keep(a);
            ea.bytes = keep(b);
            ea.etag = "e";
            if (f[2] != "~")
            {
              if (!vh::ofHex(f[2], c)) return "bad-op";
              ea.gzipBytes = keep(c);
              ea.gzipEtag = "g";
            }
            e->statics.push_back(ea);
          }
        if (t[3] != "-")
          for (auto& item : splitOn(t[3], ','))
          {
            auto f = splitOn(item, ':');
            if (f.size() != 2 || !vh::ofHex(f[0], a) || !vh::ofHex(f[1], b)) return "bad-op";
            iora::web::EmbeddedTemplate et;
            et.name = keep(a);
            et.bytes = keep(b);
            e->templates.push_back(et);
          }
        if (t[4] != "-")
          for (auto& item : splitOn(t[4], ','))
          {
            if (!vh::ofHex(item, a)) return "bad-op";
            e->externals.push_back(keep(a));
          }
        if (e->store.size() > 4096) die("registry too large for the harness");
        e->reg.templates = e->templates.data();
        e->reg.templatesCount = e->templates.size();
        e->reg.statics = e->statics.data();
        e->reg.staticsCount = e->statics.size();
        e->reg.externalDir = e->externalDir;
        e->reg.externalPaths = e->externals.data();
        e->reg.externalPathsCount = e->externals.size();
        st.emb = std::move(e);
        st.isFs = false;
        st.a.emplace(Assets::fromEmbedded(st.emb->reg));
        return "ok # erp=" + realpathHex(st.emb->externalDir);
      }
      if (t.size() == 2 && t[0] == "static" && vh::ofHex(t[1], a))
      {
        if (!st.a) return "no-instance";
        std::string n = str(a);
        GetStaticResult r = st.a->getStatic(std::string_view(n));
        std::string o = showStatic(r);
        if (r.status != GetStaticResult::Status::Found || st.isFs || r.blob._entry) o += oracleFor(st, false, n);
        return o;
      }
      if (t.size() == 2 && t[0] == "template" && vh::ofHex(t[1], a))
      {
        if (!st.a) return "no-instance";
        std::string n = str(a);
        auto r = st.a->getTemplate(std::string_view(n));
        if (!r) return "none" + (st.isFs ? oracleFor(st, true, n) : std::string());
        std::string o = "some " + vh::toHex(std::string(*r));
        if (st.isFs) o += oracleFor(st, true, n);
        return o;
      }
      if (t.size() == 3 && (t[0] == "swapstatic" || t[0] == "swaptemplate") && vh::ofHex(t[1], a) && vh::ofHex(t[2], b))
      {
        if (!st.a) return "no-instance";
        std::string n = str(a);
        g_swapTarget = str(b);
        g_fired = false;
        g_armed = true;
        std::string o;
        if (t[0] == "swapstatic") o = showStatic(st.a->getStatic(std::string_view(n)));
        else
        {
          auto r = st.a->getTemplate(std::string_view(n));
          o = r ? "some " + vh::toHex(std::string(*r)) : std::string("none");
        }
        g_armed = false;
        return o + (g_fired ? " swapped=1" : " swapped=0");
      }
      if ((t.size() == 6 || t.size() == 7) && t[0] == "sched" && (t[1] == "static" || t[1] == "template") && vh::ofHex(t[2], a) &&
          t[3].size() == 1 && std::string("CROGZ").find(t[3][0]) != std::string::npos && t[4].size() == 1 && vh::ofHex(t[5], b))
      {
        // sched <static|template> <name> <point> <l|f|d|r> <path> [<data>]: one lookup; just before the system call of <point> the
        // object at <path> is replaced by a link / file / directory or removed.
        if (!st.a) return "no-instance";
        c.clear();
        if (t.size() == 7 && !vh::ofHex(t[6], c)) return "bad-op";
        if ((t[4] == "l" || t[4] == "f") != (t.size() == 7)) return "bad-op";
        const std::string n = str(a), mpath = str(b), mdata = str(c);
        const char kind = t[4][0];
        if (!inSandbox(mpath)) die("sched mutation outside the sandbox: " + mpath);
        const bool tmpl = t[1] == "template";
        std::string base;
        if (st.isFs) base = tmpl ? st.a->_fs->templatesRoot.string() : st.a->_fs->staticsRoot.string();
        else if (st.emb) base = st.emb->externalDir;
        g_s = Sched{};
        g_s.point = t[3][0];
        g_s.needRealpath = st.isFs ? 1 : 2;
        {
          std::error_code ec;
          g_s.candidateAbs = fs::absolute(fs::path(base) / fs::path(n), ec).string();
        }
        g_s.mutate = [kind, mpath, mdata]() {
          // nothing happens unless the parent is a real directory reached without traversing a link (Fs.envSet / Fs.envRemove)
          if (!realParent(mpath)) return;
          removeAt(mpath);
          if (kind == 'd') (void)::mkdir(mpath.c_str(), 0755);
          else if (kind == 'l') (void)::symlink(mdata.c_str(), mpath.c_str());
          else if (kind == 'f')
          {
            int fd = static_cast<int>(::syscall(SYS_openat, AT_FDCWD, mpath.c_str(), O_WRONLY | O_CREAT | O_TRUNC | O_NOFOLLOW, 0644));
            if (fd >= 0)
            {
              std::size_t off = 0;
              while (off < mdata.size())
              {
                ssize_t w = ::write(fd, mdata.data() + off, mdata.size() - off);
                if (w <= 0) break;
                off += static_cast<std::size_t>(w);
              }
              ::close(fd);
            }
          }
        };
        std::string o;
        g_s.active = true;
        if (!tmpl) o = showStatic(st.a->getStatic(std::string_view(n)));
        else
        {
          auto r = st.a->getTemplate(std::string_view(n));
          o = r ? "some " + vh::toHex(std::string(*r)) : std::string("none");
        }
        g_s.active = false;
        const bool fired = g_s.fired;
        g_s = Sched{};
        return o + (fired ? " fired=1" : " fired=0");
      }
      if (t.size() == 1 && t[0] == "reload")
      {
        if (st.a) st.a->reload();
        return "ok";
      }
      if (t.size() == 3 && t[0] == "readcfg")
      {
        // readcfg <max bytes per read, 0 = unlimited> <every k-th read fails with EINTR first, 0 = never>
        unsigned long long k = 0, m = 0;
        if (!vh::parseNat(t[1], k) || !vh::parseNat(t[2], m)) return "bad-op";
        g_chunkMax = static_cast<std::size_t>(k);
        g_eintrEvery = static_cast<unsigned>(m);
        return "ok";
      }
      if (t.size() == 3 && t[0] == "readscript" && vh::ofHex(t[1], a))
      {
        // readscript <path> <comma list: e = EINTR, x = EIO, k = at most k bytes>: Assets::readFile with the answers of read(2) scripted
        g_script.clear();
        g_scriptPos = 0;
        if (t[2] != "-")
          for (auto& tok : splitOn(t[2], ','))
          {
            unsigned long long k = 0;
            if (tok == "e") g_script.push_back(-1);
            else if (tok == "x") g_script.push_back(-2);
            else if (vh::parseNat(tok, k)) g_script.push_back(static_cast<long>(k == 0 ? 1 : k));
            else return "bad-op";
          }
        // the script alone decides what read(2) answers during this op: a `readcfg` in force (chunk limit, EINTR every k-th read of
        // a GLOBAL counter the model cannot know) is suspended, otherwise it would clamp the scripted sizes and shift the script
        const std::size_t savedChunk = g_chunkMax;
        const unsigned savedEintr = g_eintrEvery;
        g_chunkMax = 0;
        g_eintrEvery = 0;
        auto d = Assets::readFile(fs::path(str(a)));
        g_chunkMax = savedChunk;
        g_eintrEvery = savedEintr;
        g_script.clear();
        g_scriptPos = 0;
        return d ? "some " + vh::toHex(*d) : std::string("none");
      }
      if (t.size() == 1 && t[0] == "selftest")
      {
        // do the interposers see what std::filesystem / the library do on THIS toolchain?  (independent of assets.hpp's lookups)
        std::string p = g_sandbox + "/.selftest";
        writeFile(p, "x");
        unsigned long s0 = g_hitStat, r0 = g_hitRealpath, o0 = g_hitOpen, d0 = g_reads;
        std::error_code ec;
        bool reg = fs::is_regular_file(fs::path(p), ec);
        fs::path wc = fs::weakly_canonical(fs::path(p), ec);
        // open/read/close exactly as header-only library code compiled into this executable binds them (no library function is
        // called here: the self-test must not depend on the code under test)
        std::optional<std::string> d;
        {
          int fd = ::open(p.c_str(), O_RDONLY | O_CLOEXEC);
          char c = 0;
          if (fd >= 0 && ::read(fd, &c, 1) == 1) d = std::string(1, c);
          if (fd >= 0) ::close(fd);
        }
        ::unlink(p.c_str());
        std::string o = "ok # stat=" + std::to_string(g_hitStat - s0 > 0) + " realpath=" + std::to_string(g_hitRealpath - r0 > 0) +
                        " open=" + std::to_string(g_hitOpen - o0 > 0) + " read=" + std::to_string(g_reads - d0 > 0) +
                        " sane=" + std::to_string(reg && wc.string() == p && d && *d == "x");
        return o;
      }
      if (t.size() == 8 && t[0] == "race" && (t[1] == "static" || t[1] == "template") && vh::ofHex(t[2], a) && vh::ofHex(t[4], b) &&
          t[5].size() == 1 && vh::ofHex(t[6], c))
      {
        // race <static|template> <nameA> <static|template|reload|none> <nameB> <l|f|r|n> <path> <data>
        // Thread A looks <nameA> up and is parked just before its FIRST open(2) (= after validation and the first cache probe, before
        // the read outside the lock).  While it is parked this thread runs B's operation to completion, then changes the file
        // system, then lets A finish (build + second probe / emplace).  If A never opens anything, B runs after A.
        if (!st.a) return "no-instance";
        if (!st.isFs) return "race unsupported";
        Bytes md;
        if (!vh::ofHex(t[7], md)) return "bad-op";
        const std::string nA = str(a), nB = str(b), mpath = str(c), mdata = str(md);
        const char mk = t[5][0];
        if (mk != 'n' && !inSandbox(mpath)) die("race mutation outside the sandbox: " + mpath);
        const bool tmplA = t[1] == "template";
        std::mutex m;
        std::condition_variable cv;
        int phase = 0; // 0 running, 1 parked, 2 released, 3 finished
        std::string resA;
        g_openGate = [&] {
          std::unique_lock<std::mutex> lk(m);
          phase = 1;
          cv.notify_all();
          cv.wait(lk, [&] { return phase == 2; });
        };
        std::thread ta([&] {
          t_gated = true;
          std::string o = guarded([&]() -> std::string {
            if (!tmplA) return showStatic(st.a->getStatic(std::string_view(nA)));
            auto r = st.a->getTemplate(std::string_view(nA));
            return r ? "some " + vh::toHex(std::string(*r)) : std::string("none");
          });
          t_gated = false;
          std::unique_lock<std::mutex> lk(m);
          resA = o;
          phase = 3;
          cv.notify_all();
        });
        bool gated = false;
        {
          std::unique_lock<std::mutex> lk(m);
          cv.wait(lk, [&] { return phase == 1 || phase == 3; });
          gated = phase == 1;
        }
        auto runB = [&]() -> std::string {
          if (t[3] == "reload") { st.a->reload(); return "ok"; }
          if (t[3] == "static") return showStatic(st.a->getStatic(std::string_view(nB)));
          if (t[3] == "template")
          {
            auto r = st.a->getTemplate(std::string_view(nB));
            return r ? "some " + vh::toHex(std::string(*r)) : std::string("none");
          }
          return "-";
        };
        // B runs on a thread of its own so that a lock held by the parked A (a build moved under the mutex) shows up as
        // `blocked=1` after 2 s instead of hanging the run: A is then released first and B finishes afterwards
        std::string resB;
        bool bDone = false, blocked = false;
        std::thread tb([&] {
          std::string o = guarded(runB);
          std::unique_lock<std::mutex> lk(m);
          resB = o;
          bDone = true;
          cv.notify_all();
        });
        {
          std::unique_lock<std::mutex> lk(m);
          if (!cv.wait_for(lk, std::chrono::seconds(gated ? 2 : 600), [&] { return bDone; })) blocked = true;
        }
        if (gated)
        {
          if (mk != 'n' && realParent(mpath))
          {
            removeAt(mpath);
            if (mk == 'l') (void)::symlink(mdata.c_str(), mpath.c_str());
            else if (mk == 'f') writeFile(mpath, mdata);
          }
          std::unique_lock<std::mutex> lk(m);
          phase = 2;
          cv.notify_all();
          cv.wait(lk, [&] { return phase == 3; });
        }
        ta.join();
        tb.join();
        g_openGate = nullptr;
        return resA + " | " + resB + (gated ? " gated=1" : " gated=0") + (blocked ? " blocked=1" : "");
      }
      if (t.size() == 6 && t[0] == "storm" && vh::ofHex(t[2], a) && vh::ofHex(t[3], b) && vh::ofHex(t[4], c))
      {
        // storm <iters> <name> <victim path> <good content> <link target>: a second thread keeps replacing the victim by
        // a link to <target> and back while this thread looks <name> up; anything but <good content> is a leak.
        unsigned long long iters = 0;
        Bytes tgt;
        if (!vh::parseNat(t[1], iters) || !vh::ofHex(t[5], tgt)) return "bad-op";
        if (!st.a) return "no-instance";
        std::string name = str(a), victim = str(b), good = str(c), target = str(tgt);
        if (!inSandbox(victim)) die("storm victim outside the sandbox");
        std::atomic<bool> stop{false};
        std::atomic<unsigned long> swaps{0};
        std::string tmp = g_sandbox + "/.storm-tmp";
        std::thread sw([&] {
          while (!stop.load(std::memory_order_relaxed))
          {
            ::unlink(tmp.c_str());
            if (::symlink(target.c_str(), tmp.c_str()) == 0) ::rename(tmp.c_str(), victim.c_str());
            writeFile(tmp, good);
            ::rename(tmp.c_str(), victim.c_str());
            swaps++;
          }
        });
        unsigned long found = 0, refused = 0, e0 = g_openEloop.load();
        std::string leak;
        for (unsigned long long i = 0; i < iters && leak.empty(); ++i)
        {
          if (st.isFs) st.a->reload();
          GetStaticResult r = st.a->getStatic(std::string_view(name));
          if (r.status == GetStaticResult::Status::Found)
          {
            found++;
            if (std::string(r.blob.bytes) != good) leak = std::string(r.blob.bytes);
            else if (r.blob.gzipBytes && std::string(*r.blob.gzipBytes) != good) leak = "gz:" + std::string(*r.blob.gzipBytes);
          }
          else refused++;
          auto tp = st.isFs ? st.a->getTemplate(std::string_view(name)) : std::nullopt;
          if (tp && std::string(*tp) != good) leak = std::string(*tp);
        }
        stop = true;
        sw.join();
        ::unlink(tmp.c_str());
        writeFile(tmp, good);
        ::rename(tmp.c_str(), victim.c_str());
        if (st.isFs) st.a->reload();
        if (const char* sf = std::getenv("C20_STATS"))
        {
          std::ofstream f(sf, std::ios::app);
          f << "storm iters=" << iters << " found=" << found << " refused=" << refused << " swaps=" << swaps.load()
            << " open_eloop=" << (g_openEloop.load() - e0) << "\n";
        }
        if (!leak.empty()) return "storm LEAK " + vh::toHex(leak);
        return "storm ok";
      }
      return "bad-op";
    });
  });
}
