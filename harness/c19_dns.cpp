// Correspondence harness for C19: the real DnsMessage parser / query builder and the real DnsCache (on top of the real
// ExpiringCache and its purge thread) driven by the line protocol.  Built against ${VERIF_REPO}/include on every check run.
//
// Time: `clock_gettime(CLOCK_MONOTONIC)` is interposed inside this executable (DESIGN 3.1), so `steady_clock::now()` reads a
// virtual clock that only the `c t <ms>` operation moves.  The purge thread of ExpiringCache sleeps in
// `condition_variable::wait_for(5 s)`, i.e. in `pthread_cond_clockwait`; that call is interposed too: the thread parks until
// the harness hands it a ticket (`c purge`), then performs exactly one sweep at the current virtual time and parks again.
#include <algorithm>
#include <arpa/inet.h>
#include <atomic>
#include <cerrno>
#include <chrono>
#include <condition_variable>
#include <cstdint>
#include <cstdio>
#include <cstring>
#include <ctime>
#include <dlfcn.h>
#include <fstream>
#include <functional>
#include <iomanip>
#include <iostream>
#include <limits>
#include <map>
#include <memory>
#include <mutex>
#include <optional>
#include <pthread.h>
#include <random>
#include <sstream>
#include <stdexcept>
#include <string>
#include <thread>
#include <typeinfo>
#include <unordered_map>
#include <unordered_set>
#include <vector>
#include <cxxabi.h>
#include <unistd.h>

// ------------------------------------------------------------------------------------------------ virtual steady clock
static std::atomic<long long> g_virtualNs{1000LL * 1000000000LL};   // base: 1000 s (only differences matter)
static std::atomic<long> g_clockReads{0};
static thread_local long long tl_overrideOnceNs = -1;               // see pthread_cond_clockwait below

extern "C" int clock_gettime(clockid_t id, struct timespec* ts)
{
  using Fn = int (*)(clockid_t, struct timespec*);
  static Fn real = reinterpret_cast<Fn>(dlsym(RTLD_NEXT, "clock_gettime"));
  if (id == CLOCK_MONOTONIC)
  {
    long long v = g_virtualNs.load();
    if (tl_overrideOnceNs >= 0)
    {
      v = tl_overrideOnceNs;
      tl_overrideOnceNs = -1;
    }
    ts->tv_sec = v / 1000000000LL;
    ts->tv_nsec = v % 1000000000LL;
    g_clockReads.fetch_add(1);
    return 0;
  }
  return real(id, ts);
}

// ------------------------------------------------------------------------------------------------ purge-thread gate
static std::atomic<int> g_parked{0};
static std::atomic<long> g_tickets{0}, g_taken{0}, g_done{0};   // sweeps requested / claimed by the thread / completed
static thread_local bool tl_sweeping = false;
static std::atomic<bool> g_draining{false};   // set by the harness around operations that destroy an ExpiringCache

static long long tsNs(const struct timespec* t) { return static_cast<long long>(t->tv_sec) * 1000000000LL + t->tv_nsec; }

extern "C" int pthread_cond_clockwait(pthread_cond_t* cond, pthread_mutex_t* mutex, clockid_t clockid, const struct timespec* abstime)
{
  // Only ExpiringCache's purge thread gets here in this process (condition_variable::wait_for on the steady clock).
  // libstdc++ ignores the return value: it decides "timeout" by re-reading the steady clock once after this call returns.
  // `tl_overrideOnceNs` fixes what that single read sees; every later read (the sweep's own `now`) sees the virtual time.
  if (tl_sweeping)
  {
    tl_sweeping = false;      // the sweep this thread was released for (and its eviction callbacks) is complete
    g_done.fetch_add(1);
  }
  g_parked.fetch_add(1);
  for (;;)
  {
    if (g_taken.load() < g_tickets.load())
    {
      g_taken.fetch_add(1);
      tl_sweeping = true;
      tl_overrideOnceNs = tsNs(abstime);          // "deadline reached": exactly one sweep at the current virtual time
      g_parked.fetch_sub(1);
      return ETIMEDOUT;
    }
    struct timespec rt;
    clock_gettime(CLOCK_REALTIME, &rt);
    rt.tv_nsec += 500000; // 0.5 ms of real time
    if (rt.tv_nsec >= 1000000000L) { rt.tv_nsec -= 1000000000L; rt.tv_sec += 1; }
    int rc = pthread_cond_timedwait(cond, mutex, &rt);
    if (rc == 0 || g_draining.load())
    {
      // notified (shutdown), spurious, or a destructor may be waiting for this thread (its notify_one can fall between two
      // of these short waits): let the caller re-check its predicate, but never let it conclude that the 5 s elapsed
      // (no sweep that the history did not ask for)
      tl_overrideOnceNs = tsNs(abstime) - 1;
      g_parked.fetch_sub(1);
      return 0;
    }
  }
}

struct Draining
{
  Draining() { g_draining.store(true); }
  ~Draining() { g_draining.store(false); }
};

#define private public
#define protected public
#include "iora/network/dns/dns_message.hpp"
#include "iora/network/dns/dns_cache.hpp"
#undef private
#undef protected
#include "common/lineproto.hpp"

using namespace iora::network::dns;
using vh::Bytes;

static std::string demangle(const char* n)
{
  int st = 0;
  char* d = abi::__cxa_demangle(n, nullptr, nullptr, &st);
  std::string s = (st == 0 && d) ? d : n;
  std::free(d);
  for (auto& c : s) if (c == ' ') c = '_';
  return s;
}

// Exceptions carry only text; map the fixed message prefixes to the model's enum (never print message text).
static std::string errKind(const std::string& what, bool encoding)
{
  const std::string p = "DNS Parse Error: ";
  std::string m = what.compare(0, p.size(), p) == 0 ? what.substr(p.size()) : what;
  auto starts = [&](const char* s) { return m.compare(0, std::strlen(s), s) == 0; };
  if (starts("Message too short")) return "tooShort";
  if (starts("Insufficient data")) return "bounds";
  if (starts("Invalid compression pointer in RDATA")) return "rdBadPointer";
  if (starts("Invalid compression pointer")) return "badPointer";
  if (starts("Compression pointer loop")) return "loop";
  if (starts("Label too long")) return encoding ? "encLabel" : "labelTooLong";
  if (starts("Domain name too long")) return encoding ? "encName" : "nameTooLong";
  if (starts("Domain name not terminated")) return "unterminated";
  if (starts("Too many compression pointers")) return "tooManyJumps";
  if (starts("Malicious")) return "malicious";
  if (starts("RDATA too short")) return "rdShort";
  if (starts("RDATA name offset beyond")) return "rdBeyond";
  if (starts("Invalid label length in RDATA")) return "rdLabel";
  if (starts("Name extends beyond RDATA")) return "rdExtends";
  if (starts("Invalid A record") || starts("Invalid AAAA record") || starts("Invalid SRV record") || starts("Invalid NAPTR record") ||
      starts("Invalid MX record") || starts("Invalid SOA record") || starts("SOA record truncated"))
    return "typedLen";
  return "other";
}

static std::string hx(const std::string& s) { return vh::toHex(s); }
static std::string sep(const std::vector<std::string>& v)
{
  if (v.empty()) return "-";
  std::string o;
  for (std::size_t i = 0; i < v.size(); ++i) { if (i) o += ";"; o += v[i]; }
  return o;
}
static std::string showRR(const DnsResourceRecord& r)
{
  return hx(r.name) + ":" + std::to_string(static_cast<unsigned>(r.type)) + ":" + std::to_string(static_cast<unsigned>(r.cls)) + ":" +
         std::to_string(r.ttl) + ":" + std::to_string(r.rdlength) + ":" + vh::toHex(r.rdata);
}
template <typename T, typename F> static std::string group(const std::vector<T>& v, F f)
{
  std::vector<std::string> o;
  for (const auto& x : v) o.push_back(f(x));
  return sep(o);
}
static std::string canonV6(const std::string& text)
{
  unsigned char b[16];
  if (inet_pton(AF_INET6, text.c_str(), b) == 1) return vh::toHex(b, 16);
  return "!" + hx(text);
}

static std::string showResult(const DnsResult& r)
{
  const auto& h = r.header;
  std::ostringstream o;
  o << "ok h=" << h.id << "," << h.qr << "," << static_cast<unsigned>(h.opcode) << "," << h.aa << "," << h.tc << "," << h.rd << "," << h.ra << ","
    << static_cast<unsigned>(h.z) << "," << static_cast<unsigned>(h.rcode) << "," << h.qdcount << "," << h.ancount << "," << h.nscount << "," << h.arcount;
  o << " q=" << group(r.questions, [](const DnsQuestion& q) {
    return hx(q.qname) + ":" + std::to_string(static_cast<unsigned>(q.qtype)) + ":" + std::to_string(static_cast<unsigned>(q.qclass)); });
  o << " an=" << group(r.answers, showRR) << " ns=" << group(r.authority, showRR) << " ar=" << group(r.additional, showRR);
  o << " A=" << group(r.a_records, [](const ARecord& x) { return hx(x.name) + ":" + x.address + ":" + std::to_string(x.ttl); });
  o << " AAAA=" << group(r.aaaa_records, [](const AAAARecord& x) { return hx(x.name) + ":" + canonV6(x.address) + ":" + std::to_string(x.ttl); });
  o << " SRV=" << group(r.srv_records, [](const SrvRecord& x) {
    return hx(x.name) + ":" + std::to_string(x.priority) + ":" + std::to_string(x.weight) + ":" + std::to_string(x.port) + ":" + hx(x.target) + ":" + std::to_string(x.ttl); });
  o << " NAPTR=" << group(r.naptr_records, [](const NaptrRecord& x) {
    return hx(x.name) + ":" + std::to_string(x.order) + ":" + std::to_string(x.preference) + ":" + hx(x.flags) + ":" + hx(x.service) + ":" + hx(x.regexp) + ":" +
           hx(x.replacement) + ":" + std::to_string(x.ttl); });
  o << " CNAME=" << group(r.cname_records, [](const CnameRecord& x) { return hx(x.name) + ":" + hx(x.cname) + ":" + std::to_string(x.ttl); });
  o << " MX=" << group(r.mx_records, [](const MxRecord& x) { return hx(x.name) + ":" + std::to_string(x.preference) + ":" + hx(x.exchange) + ":" + std::to_string(x.ttl); });
  o << " TXT=" << group(r.txt_records, [](const TxtRecord& x) {
    std::string t;
    if (x.text.empty()) t = "~";
    for (std::size_t i = 0; i < x.text.size(); ++i) { if (i) t += ","; t += hx(x.text[i]); }
    return hx(x.name) + ":" + t + ":" + std::to_string(x.ttl); });
  o << " PTR=" << group(r.ptr_records, [](const PtrRecord& x) { return hx(x.name) + ":" + hx(x.ptrdname) + ":" + std::to_string(x.ttl); });
  o << " SOA=" << group(r.soa_records, [](const SoaRecord& x) {
    return hx(x.name) + ":" + hx(x.mname) + ":" + hx(x.rname) + ":" + std::to_string(x.serial) + ":" + std::to_string(x.refresh) + ":" + std::to_string(x.retry) + ":" +
           std::to_string(x.expire) + ":" + std::to_string(x.minimum) + ":" + std::to_string(x.ttl); });
  return o.str();
}

// exact-size heap copy, so that AddressSanitizer sees every read past the end
struct Exact
{
  std::uint8_t* p;
  std::size_t n;
  explicit Exact(const Bytes& b) : p(new std::uint8_t[b.size()]), n(b.size()) { if (n) std::memcpy(p, b.data(), n); }
  ~Exact() { delete[] p; }
};

static std::unique_ptr<DnsCache> g_cache;
// measured branch counters (printed by `counters`; evidence only, not part of the lockstep)
static unsigned long long g_posHits = 0, g_negHits = 0, g_misses = 0, g_evictGet = 0, g_evictPurge = 0, g_soaTyped = 0, g_soaFallback = 0, g_soaNone = 0,
                          g_parseVec = 0, g_query1 = 0, g_queryDefault = 0;

static void waitParked()
{
  // the purge thread of the live ExpiringCache must sit in the gate before the harness hands out a ticket
  for (int i = 0; i < 200000 && g_parked.load() < 1; ++i) usleep(50);
}

static std::string cacheTail()
{
  auto st = g_cache->getStats();
  return " | n=" + std::to_string(g_cache->cache_->size()) + " cur=" + std::to_string(st.current_entries) + " neg=" + std::to_string(st.current_negative_entries);
}

static bool parseTtls(const std::string& s, std::vector<std::uint32_t>& out)
{
  out.clear();
  if (s == "-") return true;
  std::size_t i = 0;
  while (i <= s.size())
  {
    std::size_t j = s.find(',', i);
    if (j == std::string::npos) j = s.size();
    unsigned long long v;
    if (!vh::parseNat(s.substr(i, j - i), v) || v > 0xFFFFFFFFull) return false;
    out.push_back(static_cast<std::uint32_t>(v));
    i = j + 1;
  }
  return true;
}

static DnsResult mkResult(unsigned long long id, const std::vector<std::uint32_t>& ttls)
{
  DnsResult r;
  r.header.id = static_cast<std::uint16_t>(id);
  for (auto t : ttls) r.answers.push_back(DnsResourceRecord("", DnsType::A, DnsClass::IN, t));
  return r;
}

static bool mkQuestion(const std::string& n, const std::string& t, const std::string& c, DnsQuestion& q)
{
  Bytes nb;
  unsigned long long tv, cv;
  if (!vh::ofHex(n, nb) || !vh::parseNat(t, tv) || !vh::parseNat(c, cv) || tv > 65535 || cv > 65535) return false;
  q.qname.assign(nb.begin(), nb.end());
  q.qtype = static_cast<DnsType>(tv);
  q.qclass = static_cast<DnsClass>(cv);
  return true;
}

static std::string stepInner(const std::vector<std::string>& t, bool& encoding)
{
  if (t.size() == 2 && t[0] == "parse")
  {
    Bytes m;
    if (!vh::ofHex(t[1], m)) return "bad-op";
    Exact e(m);
    return showResult(DnsMessage::parse(e.p, e.n));
  }
  if (t.size() == 2 && t[0] == "parsev")
  {
    // the public wrapper parse(const std::vector<uint8_t>&): the vector's capacity exceeds its size (spare bytes poisoned by
    // _GLIBCXX_SANITIZE_VECTOR), so a wrapper that hands capacity() instead of size() to the parser is seen
    Bytes m;
    if (!vh::ofHex(t[1], m)) return "bad-op";
    std::vector<std::uint8_t> v;
    v.reserve(m.size() + 64);
    v.assign(m.begin(), m.end());
    ++g_parseVec;
    return showResult(DnsMessage::parse(v));
  }
  if (t.size() == 1 && t[0] == "counters")
  {
    std::ostringstream o;
    o << "counters pos_hits=" << g_posHits << " neg_hits=" << g_negHits << " misses=" << g_misses << " evicted_by_get=" << g_evictGet << " evicted_by_purge=" << g_evictPurge
      << " negttl_typed_soa=" << g_soaTyped << " negttl_soa_fallback=" << g_soaFallback << " negttl_no_soa=" << g_soaNone << " parse_vector=" << g_parseVec
      << " buildQuery_one=" << g_query1 << " buildQuery_default_rd=" << g_queryDefault;
    return o.str();
  }
  if (t.size() == 3 && t[0] == "timed")
  {
    // cost monitor (not part of the lockstep): best-of-N CPU time of this thread (CLOCK_THREAD_CPUTIME_ID: independent of the load of
    // the host) spent in DnsMessage::parse on one message, in microseconds
    Bytes m;
    unsigned long long reps;
    if (!vh::ofHex(t[2], m) || !vh::parseNat(t[1], reps) || reps == 0 || reps > 20) return "bad-op";
    Exact e(m);
    long long best = -1;
    std::string verdict = "ok";
    for (unsigned long long i = 0; i < reps; ++i)
    {
      struct timespec a, b;
      clock_gettime(CLOCK_THREAD_CPUTIME_ID, &a);
      try { auto r = DnsMessage::parse(e.p, e.n); verdict = "ok " + std::to_string(r.answers.size()); }
      catch (const DnsParseException& ex) { verdict = "err " + errKind(ex.what(), false); }
      clock_gettime(CLOCK_THREAD_CPUTIME_ID, &b);
      long long us = (b.tv_sec - a.tv_sec) * 1000000LL + (b.tv_nsec - a.tv_nsec) / 1000;
      if (best < 0 || us < best) best = us;
    }
    return "timed " + std::to_string(best) + " " + verdict;
  }
  if (t.size() == 3 && t[0] == "name")
  {
    Bytes m;
    unsigned long long off;
    if (!vh::ofHex(t[1], m) || !vh::parseNat(t[2], off)) return "bad-op";
    Exact e(m);
    std::string name;
    std::size_t nx = DnsMessage::decodeName(e.p, off, e.n, name);
    return "ok " + hx(name) + " " + std::to_string(nx);
  }
  if (t.size() == 4 && t[0] == "namev")
  {
    // the public decodeNameWithLoopDetection with a caller-supplied (possibly non-empty) visited set
    Bytes m;
    unsigned long long off;
    std::vector<std::uint32_t> vs;
    if (!vh::ofHex(t[1], m) || !vh::parseNat(t[2], off) || !parseTtls(t[3], vs)) return "bad-op";
    std::unordered_set<std::uint16_t> visited;
    for (auto v : vs) { if (v > 65535) return "bad-op"; visited.insert(static_cast<std::uint16_t>(v)); }
    Exact e(m);
    std::string name;
    std::size_t nx = DnsMessage::decodeNameWithLoopDetection(e.p, off, e.n, name, visited);
    return "ok " + hx(name) + " " + std::to_string(nx);
  }
  if (t.size() == 5 && t[0] == "rdname")
  {
    Bytes m;
    unsigned long long s, o, l;
    if (!vh::ofHex(t[1], m) || !vh::parseNat(t[2], s) || !vh::parseNat(t[3], o) || !vh::parseNat(t[4], l) || s + l > m.size()) return "bad-op";
    Exact e(m);
    Bytes rd(m.begin() + s, m.begin() + s + l);
    Exact r(rd);
    std::string name;
    std::size_t nx = DnsMessage::decodeNameFromRdata(e.p, e.n, s, o, r.p, r.n, name);
    return "ok " + hx(name) + " " + std::to_string(nx);
  }
  if (t.size() == 2 && t[0] == "enc")
  {
    Bytes n;
    if (!vh::ofHex(t[1], n)) return "bad-op";
    encoding = true;
    return vh::toHex(DnsMessage::encodeName(std::string(n.begin(), n.end())));
  }
  if (t.size() >= 3 && t[0] == "query" && (t.size() - 3) % 3 == 0)
  {
    unsigned long long id;
    if ((t[1] != "0" && t[1] != "1") || !vh::parseNat(t[2], id) || id > 65535) return "bad-op";
    std::vector<DnsQuestion> qs;
    for (std::size_t i = 3; i < t.size(); i += 3)
    {
      DnsQuestion q;
      if (!mkQuestion(t[i], t[i + 1], t[i + 2], q)) return "bad-op";
      qs.push_back(q);
    }
    encoding = true;
    auto w = DnsMessage::buildQuery(qs, t[1] == "1", static_cast<std::uint16_t>(id));
    if (id == 0)
    {
      // the code draws an id from generateQueryId(): never 0; both sides print `xxxx` for it
      if (w.size() < 2 || (w[0] == 0 && w[1] == 0)) return "generated-id-is-zero";
      return "xxxx" + vh::toHex(w.data() + 2, w.size() - 2);
    }
    return vh::toHex(w);
  }
  if (t.size() == 5 && t[0] == "query1")
  {
    // buildQuery(const DnsQuestion&, id): one question, RD set
    unsigned long long id;
    DnsQuestion q;
    if (!vh::parseNat(t[1], id) || id == 0 || id > 65535 || !mkQuestion(t[2], t[3], t[4], q)) return "bad-op";
    encoding = true;
    ++g_query1;
    return vh::toHex(DnsMessage::buildQuery(q, static_cast<std::uint16_t>(id)));
  }
  if (t.size() >= 2 && t[0] == "queryd" && (t.size() - 2) % 3 == 0)
  {
    // buildQuery(const std::vector<DnsQuestion>&, id): RD set by default
    unsigned long long id;
    if (!vh::parseNat(t[1], id) || id == 0 || id > 65535) return "bad-op";
    std::vector<DnsQuestion> qs;
    for (std::size_t i = 2; i < t.size(); i += 3)
    {
      DnsQuestion q;
      if (!mkQuestion(t[i], t[i + 1], t[i + 2], q)) return "bad-op";
      qs.push_back(q);
    }
    encoding = true;
    ++g_queryDefault;
    return vh::toHex(DnsMessage::buildQuery(qs, static_cast<std::uint16_t>(id)));
  }
  if (t.size() >= 2 && t[0] == "c")
  {
    const std::string& op = t[1];
    unsigned long long v;
    if (op == "new" && t.size() == 3 && vh::parseNat(t[2], v))
    {
      Draining dr;
      g_cache.reset();
      g_virtualNs.store(1000LL * 1000000000LL);
      g_cache = std::make_unique<DnsCache>(std::chrono::seconds(static_cast<long long>(v)));
      return "ok" + cacheTail();
    }
    if (op == "t" && t.size() == 3 && vh::parseNat(t[2], v))
    {
      g_virtualNs.store(1000LL * 1000000000LL + static_cast<long long>(v) * 1000000LL);
      return "ok";
    }
    if (!g_cache) g_cache = std::make_unique<DnsCache>();
    DnsQuestion q;
    if (op == "put" && t.size() == 7 && mkQuestion(t[2], t[3], t[4], q))
    {
      std::vector<std::uint32_t> ttls;
      if (!vh::parseNat(t[5], v) || !parseTtls(t[6], ttls)) return "bad-op";
      g_cache->put(q, mkResult(v, ttls));
      return "ok" + cacheTail();
    }
    if ((op == "putmsg" || op == "putnegmsg") && t.size() == 6 && mkQuestion(t[2], t[3], t[4], q))
    {
      Bytes m;
      if (!vh::ofHex(t[5], m)) return "bad-op";
      Exact e(m);
      DnsResult r = DnsMessage::parse(e.p, e.n);
      if (op == "putmsg") g_cache->put(q, r);
      else
      {
        bool rawSoa = false;
        for (auto& rr : r.authority) if (rr.type == DnsType::SOA) rawSoa = true;
        if (!r.soa_records.empty()) ++g_soaTyped; else if (rawSoa) ++g_soaFallback; else ++g_soaNone;
        g_cache->putNegative(q, r, std::string());
      }
      return "ok" + cacheTail();
    }
    if (op == "putneg" && t.size() == 8 && mkQuestion(t[2], t[3], t[4], q))
    {
      std::vector<std::uint32_t> ttls;
      unsigned long long ttl;
      if (!vh::parseNat(t[5], v) || !vh::parseNat(t[6], ttl) || ttl > 0xFFFFFFFFull || !parseTtls(t[7], ttls)) return "bad-op";
      g_cache->putNegative(q, mkResult(v, ttls), static_cast<std::uint32_t>(ttl), std::string());
      return "ok" + cacheTail();
    }
    if (op == "get" && t.size() == 5 && mkQuestion(t[2], t[3], t[4], q))
    {
      DnsResult out;
      auto before = g_cache->getStats();
      std::size_t nBefore = g_cache->cache_->size();
      bool hit = g_cache->get(q, out);
      auto after = g_cache->getStats();
      if (!hit) ++g_misses; else if (after.negative_hits > before.negative_hits) ++g_negHits; else ++g_posHits;
      if (g_cache->cache_->size() < nBefore) ++g_evictGet;
      return (hit ? "hit " + std::to_string(out.header.id) + " " + std::to_string(out.answers.size()) : std::string("miss")) + cacheTail();
    }
    if (op == "remove" && t.size() == 5 && mkQuestion(t[2], t[3], t[4], q))
    {
      g_cache->remove(q);
      return "ok" + cacheTail();
    }
    if (op == "clear" && t.size() == 3 && (t[2] == "0" || t[2] == "1"))
    {
      Draining dr;
      g_cache->clear(t[2] == "1");
      return "ok" + cacheTail();
    }
    if (op == "setdefault" && t.size() == 3 && vh::parseNat(t[2], v))
    {
      g_cache->setDefaultTtl(std::chrono::seconds(static_cast<long long>(v)));
      return "ok" + cacheTail();
    }
    if (op == "purge" && t.size() == 2)
    {
      waitParked();
      std::size_t nBefore = g_cache->cache_->size();
      long want = g_tickets.fetch_add(1) + 1;
      for (int i = 0; i < 1200000 && g_done.load() < want; ++i) usleep(25);   // >= 30 s of real time
      if (g_done.load() < want) return "purge-stuck";
      if (g_cache->cache_->size() < nBefore) g_evictPurge += nBefore - g_cache->cache_->size();
      return "ok" + cacheTail();
    }
    if (op == "stats" && t.size() == 2)
    {
      auto s = g_cache->getStats();
      std::ostringstream o;
      o << "stats " << s.hits << " " << s.misses << " " << s.negative_hits << " " << s.insertions << " " << s.replacements << " " << s.negative_insertions << " "
        << s.negative_replacements << " " << s.current_entries << " " << s.current_negative_entries;
      return o.str();
    }
    if (op == "interposer" && t.size() == 2)
      return "clock_reads=" + std::to_string(g_clockReads.load()) + " sweeps=" + std::to_string(g_done.load());
    return "bad-op";
  }
  return "bad-op";
}

int main()
{
  // line-buffered answers: a sanitizer abort must not swallow the answers of the operations that preceded it
  // (ctx.lockstep attributes a crash to the first operation without an answer line)
  static char outbuf[1 << 16];
  std::setvbuf(stdout, outbuf, _IOLBF, sizeof outbuf);
  iora::core::Logger::setLevel(iora::core::Logger::Level::Fatal);
  int rc = vh::runLines([&](const std::vector<std::string>& t) -> std::string {
    bool encoding = false;
    try
    {
      return stepInner(t, encoding);
    }
    catch (const DnsParseException& e)
    {
      return "err " + errKind(e.what(), encoding);
    }
    catch (const std::exception& e)
    {
      return "throw " + demangle(typeid(e).name());
    }
    catch (...)
    {
      return "throw unknown";
    }
  });
  {
    Draining dr;
    g_cache.reset();
  }
  return rc;
}
