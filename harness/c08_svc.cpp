// Correspondence harness for C08 (epoll TimerService), deterministic part: the REAL iora::core::TimerService with its REAL
// loop thread, single-stepped, plus helper threads that run the REAL drain() and stop().  Interposers inside this executable
// (DESIGN §3.1):
//   * clock_gettime(CLOCK_MONOTONIC)  -> virtual steady clock set by the op list;
//   * epoll_wait on the service's epoll fd -> the loop thread parks there until the op `wake` lets it run ONE pass of its loop:
//     the locked section after epoll_wait (collectDueLocked(Clock::now()), pre-announce), its handlers, then the top of the loop:
//     with _running == false the exit branch (second collectDueLocked, its handlers) and the thread leaves runLoop;
//   * pthread_cond_clockwait / pthread_cond_wait of the helper threads -> the waits of drain() (also the drain(5000) inside stop())
//     sleep in short real slices and are woken - a legitimate spurious wake-up - after every op (`settle`), so the predicate and the
//     virtual deadline are re-evaluated exactly at op boundaries: a drain completes, times out or keeps waiting as a deterministic
//     function of the op list;
//   * pthread_join of the stopper -> tells that stop() has reached `_thread.join()`;
//   * pthread_mutex_lock of a drainer started with `park` -> it is held before its 4th acquisition of `_mutex`, which is the restore
//     section of a timed-out drain (1 gate, 2 sweep, 3 wait), until the op `dgo`.
//   * timerfd_settime on the service's timerfd -> passed through, and the programmed expiry is recorded as an absolute VIRTUAL time
//     (`arm=` in the state line; `-` = disarmed); the eventfd is the real one (`poke=` = it is readable, asked from the kernel by poll);
//     the op `tick` lets the loop thread leave epoll_wait only if the kernel would: eventfd readable or recorded expiry <= virtual now
//     (answer `sleep` otherwise), and reports exactly the ready fds; `wake` forces a pass (eventfd reported, timerfd too if expired);
//   * pthread_mutex_lock of a racer thread (`rsched`) -> it is held before its FIRST acquisition of `_mutex`, i.e. between the lock-free
//     `_accepting` test of scheduleAt() and the re-test under the lock, until the op `rgo`.
// Ops: reset / clk / at / per / cancel / wake / tick / release / inflight / drain <ms> [park] / dwait / dgo / stop / swait /
//      svcreset (the real reset()) / start (the real start(): after reset() it creates new fds and a new loop thread) /
//      rsched <tp> / rgo.
// Handlers record `s<id>` when they start and `e<id>` when they end; kind `g` (gate) blocks after `s<id>` until `release`;
// kind `x<j>` calls cancel(j) from the loop thread and records `c<j>=0|1`; kind `t` throws std::runtime_error after `s<id>` `e<id>`.
// After every op the private state is printed: heap array in array order, records and periodic entries sorted by id, the counters
// and flags.
#include <algorithm>
#include <atomic>
#include <chrono>
#include <condition_variable>
#include <cstdint>
#include <cstdio>
#include <cstring>
#include <exception>
#include <functional>
#include <future>
#include <map>
#include <memory>
#include <mutex>
#include <optional>
#include <queue>
#include <sstream>
#include <stdexcept>
#include <string>
#include <thread>
#include <type_traits>
#include <typeinfo>
#include <unordered_map>
#include <utility>
#include <vector>
#include <dlfcn.h>
#include <errno.h>
#include <pthread.h>
#include <string.h>
#include <poll.h>
#include <sys/epoll.h>
#include <sys/eventfd.h>
#include <sys/syscall.h>
#include <sys/timerfd.h>
#include <time.h>
#include <unistd.h>
#define private public
#define protected public
#include "iora/core/timer.hpp"
#undef private
#undef protected
#include "common/lineproto.hpp"

using iora::core::TimerService;
using iora::core::TimerServiceConfig;
using std::chrono::milliseconds;
using std::chrono::nanoseconds;

// ---------------------------------------------------------------------------------------------- virtual steady clock
static std::atomic<long long> g_base_ns{0};
static std::atomic<long long> g_vns{0};
static std::atomic<bool> g_virtual{false};
static std::atomic<unsigned long> g_clock_reads{0};
static int real_clock_gettime(clockid_t c, struct timespec* ts) { return (int)syscall(SYS_clock_gettime, c, ts); }
extern "C" int clock_gettime(clockid_t c, struct timespec* ts)
{
  if (c == CLOCK_MONOTONIC && g_virtual.load(std::memory_order_acquire))
  {
    long long t = g_base_ns.load(std::memory_order_relaxed) + g_vns.load(std::memory_order_relaxed);
    ts->tv_sec = t / 1000000000LL;
    ts->tv_nsec = t % 1000000000LL;
    g_clock_reads.fetch_add(1, std::memory_order_relaxed);
    return 0;
  }
  return real_clock_gettime(c, ts);
}
static long long realNowNs()
{
  struct timespec ts;
  real_clock_gettime(CLOCK_MONOTONIC, &ts);   // the syscall, not the interposed function: real monotonic time
  return ts.tv_sec * 1000000000LL + ts.tv_nsec;
}

// ---------------------------------------------------------------------------------------------- shared harness state
static std::mutex g_m;
static std::condition_variable g_cv;
static int g_epfd = -1;            // epoll fd of the service under test
static int g_evfd = -1;
static std::atomic<int> g_tfd{-1};             // timerfd of the service under test (-2 = not known yet: every timerfd_settime is the service's)
static std::atomic<long long> g_arm_abs{-1};   // expiry programmed into the timerfd, ns of virtual time (-1 = disarmed)
static std::atomic<unsigned long> g_settime_calls{0};
static int g_wake_mask = 1;        // what the interposed epoll_wait reports on the next pass: 1 eventfd, 2 timerfd
static unsigned long g_ticks_slept = 0, g_ticks_woke = 0, g_timerfd_wakes = 0;
static bool g_step = false;        // step mode on/off (off = pass through to the kernel)
static bool g_parked = false;      // loop thread is inside the interposed epoll_wait
static bool g_go = false;          // permission for one pass
static int g_gate_blocked = 0;     // id of the gate handler the loop thread is blocked in (0 = none)
static bool g_gate_open = false;
static bool g_gates_off = false;   // teardown: gate handlers no longer block
static std::vector<std::string> g_events;
static unsigned long g_epoll_parks = 0;
static unsigned long g_slices = 0;
static pthread_mutex_t* g_svc_mutex = nullptr;   // &svc->_mutex

// a helper thread that runs drain() or stop()
struct Waiter
{
  bool active = false;      // thread exists and has not been reaped
  bool finished = false;    // the call has returned
  bool blocked = false;     // inside an interposed condition wait
  bool in_join = false;     // inside pthread_join (stop(): waiting for the loop thread)
  bool join_done = false;   // that pthread_join has returned
  bool want_park = false;   // hold before the `park_at`-th acquisition of _mutex
  int park_at = 4;
  bool parked = false;
  bool release = false;
  bool abort = false;       // teardown: leave every wait at once
  int locks = 0;
  unsigned long req = 0;    // settle requests
  unsigned long ack = 0;    // requests after which the thread re-evaluated and went back to waiting
  std::string result;
  std::thread th;
  void clear() { active = finished = blocked = in_join = join_done = want_park = parked = release = abort = false; park_at = 4; locks = 0; req = ack = 0; result.clear(); }
};
static Waiter g_D;   // drainer
static Waiter g_S;   // stopper
static Waiter g_R;   // racer: scheduleAt() held between its lock-free test and its locked section
static thread_local Waiter* t_w = nullptr;
static thread_local unsigned long t_pending_ack = 0;

using ClockwaitFn = int (*)(pthread_cond_t*, pthread_mutex_t*, clockid_t, const struct timespec*);
static ClockwaitFn realClockwait()
{
  static ClockwaitFn f = reinterpret_cast<ClockwaitFn>(dlsym(RTLD_NEXT, "pthread_cond_clockwait"));
  return f;
}

// the wait of a helper thread: real slices; back to the caller (which re-evaluates predicate and clock) when the op thread asks for
// it (`settle`, after every op), or at teardown
static int waiterWait(pthread_cond_t* c, pthread_mutex_t* m)
{
  Waiter* w = t_w;
  {
    std::lock_guard<std::mutex> lk(g_m);
    w->blocked = true;
    if (t_pending_ack > w->ack) w->ack = t_pending_ack;   // re-evaluated after that request and still waiting
    g_cv.notify_all();
  }
  for (;;)
  {
    long long r = realNowNs() + 200000;   // 0.2 ms
    struct timespec ts;
    ts.tv_sec = r / 1000000000LL;
    ts.tv_nsec = r % 1000000000LL;
    int rc = realClockwait()(c, m, CLOCK_MONOTONIC, &ts);
    std::lock_guard<std::mutex> lk(g_m);
    ++g_slices;
    (void)rc;   // a notification from the service is not acted upon at once (the thread is merely slow to run): the re-evaluation
                // happens at the next op boundary, where `settle` asks for it - otherwise it would race the loop thread's own progress
    if (w->abort || w->req > w->ack)
    {
      t_pending_ack = w->req;
      w->blocked = false;
      return 0;
    }
  }
}

extern "C" int pthread_cond_clockwait(pthread_cond_t* c, pthread_mutex_t* m, clockid_t clk, const struct timespec* abstime)
{
  if (!(clk == CLOCK_MONOTONIC && g_virtual.load(std::memory_order_acquire)))
    return realClockwait()(c, m, clk, abstime);
  if (t_w != nullptr)
    return waiterWait(c, m);   // libstdc++ derives timeout / no_timeout from the (virtual) clock, not from the return value
  // any other timed wait (stop()'s internal drain at teardown): the same span, in real time
  long long vnow = g_base_ns.load(std::memory_order_relaxed) + g_vns.load(std::memory_order_relaxed);
  long long rel = abstime->tv_sec * 1000000000LL + abstime->tv_nsec - vnow;
  if (rel < 0) rel = 0;
  long long r = realNowNs() + rel;
  struct timespec ts;
  ts.tv_sec = r / 1000000000LL;
  ts.tv_nsec = r % 1000000000LL;
  return realClockwait()(c, m, clk, &ts);
}

extern "C" int pthread_cond_wait(pthread_cond_t* c, pthread_mutex_t* m)
{
  using Fn = int (*)(pthread_cond_t*, pthread_mutex_t*);
  static Fn real = reinterpret_cast<Fn>(dlsym(RTLD_NEXT, "pthread_cond_wait"));
  if (t_w != nullptr && g_virtual.load(std::memory_order_acquire))
    return waiterWait(c, m);   // drain(0): untimed wait
  return real(c, m);
}

extern "C" int pthread_join(pthread_t th, void** ret)
{
  using Fn = int (*)(pthread_t, void**);
  static Fn real = reinterpret_cast<Fn>(dlsym(RTLD_NEXT, "pthread_join"));
  Waiter* w = t_w;
  if (w == nullptr) return real(th, ret);
  {
    std::lock_guard<std::mutex> lk(g_m);
    w->in_join = true;
    g_cv.notify_all();
  }
  int rc = real(th, ret);
  {
    std::lock_guard<std::mutex> lk(g_m);
    w->in_join = false;
    w->join_done = true;
    g_cv.notify_all();
  }
  return rc;
}

extern "C" int pthread_mutex_lock(pthread_mutex_t* m)
{
  using Fn = int (*)(pthread_mutex_t*);
  static Fn real = reinterpret_cast<Fn>(dlsym(RTLD_NEXT, "pthread_mutex_lock"));
  Waiter* w = t_w;
  if (w != nullptr && m == g_svc_mutex && m != nullptr)
  {
    bool park = false;
    {
      real(g_m.native_handle());
      ++w->locks;
      park = w->want_park && w->locks == w->park_at && !w->abort;
      if (park)
      {
        w->parked = true;
        g_cv.notify_all();
      }
      pthread_mutex_unlock(g_m.native_handle());
    }
    while (park)
    {
      struct timespec ts{0, 200000};
      nanosleep(&ts, nullptr);
      real(g_m.native_handle());
      if (w->release || w->abort)
      {
        w->parked = false;
        park = false;
      }
      pthread_mutex_unlock(g_m.native_handle());
    }
  }
  return real(m);
}

extern "C" int timerfd_settime(int fd, int flags, const struct itimerspec* nv, struct itimerspec* ov)
{
  int known = g_tfd.load(std::memory_order_acquire);
  if (g_virtual.load(std::memory_order_acquire) && nv != nullptr && (fd == known || known == -2) && flags == 0)
  {
    long long rel = (long long)nv->it_value.tv_sec * 1000000000LL + nv->it_value.tv_nsec;
    g_arm_abs.store(rel == 0 ? -1 : g_vns.load(std::memory_order_relaxed) + rel, std::memory_order_release);
    g_settime_calls.fetch_add(1, std::memory_order_relaxed);
  }
  return (int)syscall(SYS_timerfd_settime, fd, flags, nv, ov);
}

static bool timerExpired()
{
  long long a = g_arm_abs.load(std::memory_order_acquire);
  return a >= 0 && a <= g_vns.load(std::memory_order_relaxed);
}

static bool fdReadable(int fd)
{
  if (fd < 0) return false;
  struct pollfd p{fd, POLLIN, 0};
  return ::poll(&p, 1, 0) == 1 && (p.revents & POLLIN) != 0;
}

extern "C" int epoll_wait(int epfd, struct epoll_event* ev, int maxev, int timeout)
{
  {
    std::unique_lock<std::mutex> lk(g_m);
    if (g_step && epfd == g_epfd)
    {
      g_parked = true;
      ++g_epoll_parks;
      g_cv.notify_all();
      g_cv.wait(lk, [] { return g_go || !g_step; });
      g_parked = false;
      if (g_step)
      {
        g_go = false;
        int n = 0;
        if ((g_wake_mask & 1) && n < maxev) { ev[n].events = EPOLLIN; ev[n].data.fd = g_evfd; ++n; }
        if ((g_wake_mask & 2) && n < maxev)
        {
          ev[n].events = EPOLLIN; ev[n].data.fd = g_tfd.load(); ++n;
          g_arm_abs.store(-1, std::memory_order_release);   // an expired one-shot timerfd is disarmed
          ++g_timerfd_wakes;
        }
        return n;
      }
    }
  }
  return (int)syscall(SYS_epoll_wait, epfd, ev, maxev, timeout);
}

// the loop thread is quiescent: parked in epoll_wait, blocked in a gate handler, or gone (the stopper's join has returned)
static void waitQuiescent()
{
  std::unique_lock<std::mutex> lk(g_m);
  g_cv.wait(lk, [] { return (g_parked && !g_go) || g_gate_blocked != 0 || g_S.join_done; });
}

static std::string takeEvents()
{
  std::lock_guard<std::mutex> lk(g_m);
  std::string o;
  for (std::size_t i = 0; i < g_events.size(); ++i) { if (i) o += ","; o += g_events[i]; }
  g_events.clear();
  return o.empty() ? "-" : o;
}

// ---------------------------------------------------------------------------------------------- watchdog
static std::atomic<long long> g_op_started_ns{0};
static void watchdog()
{
  for (;;)
  {
    struct timespec ts{0, 50000000};
    nanosleep(&ts, nullptr);
    long long s = g_op_started_ns.load(std::memory_order_acquire);
    if (s != 0 && realNowNs() - s > 12000000000LL)
    {
      std::fflush(stdout);
      std::fputs("hang\n", stdout);
      std::fflush(stdout);
      _exit(97);
    }
  }
}

// ---------------------------------------------------------------------------------------------- the service under test
struct HInfo
{
  std::uint64_t id = 0;
  char kind = 'n';          // n normal, g gate, x cancels `arg`, t throws
  std::uint64_t arg = 0;
};

struct S
{
  std::unique_ptr<TimerService> svc;
  TimerService* raw = nullptr;   // stays valid while the destructor runs (handlers of the exit path may still call cancel)
  std::vector<std::shared_ptr<HInfo>> hs;
  bool loopGone = false;         // the loop thread has left runLoop and stop() has returned
  std::vector<std::unique_ptr<iora::core::SteadyTimer>> sts;
  std::uint64_t racerId = 0;

  std::function<void()> handler(std::shared_ptr<HInfo> h)
  {
    return [this, h]() {
      {
        std::lock_guard<std::mutex> lk(g_m);
        g_events.push_back("s" + std::to_string(h->id));
      }
      if (h->kind == 'g')
      {
        std::unique_lock<std::mutex> lk(g_m);
        if (!g_gates_off)
        {
          g_gate_blocked = (int)h->id;
          g_gate_open = false;
          g_cv.notify_all();
          g_cv.wait(lk, [] { return g_gate_open || g_gates_off; });
          g_gate_blocked = 0;
        }
      }
      else if (h->kind == 'x')
      {
        bool r = raw->cancel(h->arg);
        std::lock_guard<std::mutex> lk(g_m);
        g_events.push_back("c" + std::to_string(h->arg) + "=" + (r ? "1" : "0"));
      }
      {
        std::lock_guard<std::mutex> lk(g_m);
        g_events.push_back("e" + std::to_string(h->id));
      }
      if (h->kind == 't') throw std::runtime_error("handler of kind t");
    };
  }

  // after every op: every waiting helper thread re-evaluates now (forced spurious wake-up); wait until each of them has returned, is
  // waiting again, is held before the restore section, or sits in pthread_join; a stopper whose join has returned runs to the end
  void settle()
  {
    std::unique_lock<std::mutex> lk(g_m);
    for (Waiter* w : {&g_D, &g_S, &g_R})
    {
      if (!w->active || w->finished) continue;
      if (w->join_done)
      {
        g_cv.wait(lk, [w] { return w->finished; });
        continue;
      }
      if (w->in_join || w->parked) continue;
      unsigned long want = ++w->req;
      g_cv.wait(lk, [w, want] { return w->finished || (w->blocked && w->ack >= want) || w->in_join || w->parked; });
      if (w->join_done && !w->finished) g_cv.wait(lk, [w] { return w->finished; });
    }
    if (g_S.active && g_S.finished && g_S.join_done) loopGone = true;
  }

  std::string where(Waiter& w, const char* tag)
  {
    // caller holds g_m
    if (!w.active) return std::string(tag) + "=none";
    if (w.finished) return std::string(tag) + "=" + w.result;
    if (w.parked) return std::string(tag) + "=parked";
    if (w.in_join) return std::string(tag) + "=join";
    return std::string(tag) + (&w == &g_S ? "=drainwait" : "=wait");
  }

  std::string startDrain(std::uint32_t ms, bool park)
  {
    {
      std::lock_guard<std::mutex> lk(g_m);
      if (g_D.active) return "d=busy";
      g_D.clear();
      g_D.active = true;
      g_D.want_park = park;
    }
    TimerService* p = raw;
    g_D.th = std::thread([p, ms]() {
      t_w = &g_D;
      auto r = p->drain(ms);
      std::string res = r.success ? "ok" : (r.message.rfind("Can only drain", 0) == 0 ? "refused" : "timeout");
      std::lock_guard<std::mutex> lk(g_m);
      g_D.result = res;
      g_D.finished = true;
      g_cv.notify_all();
    });
    std::unique_lock<std::mutex> lk(g_m);
    g_cv.wait(lk, [] { return g_D.finished || g_D.blocked || g_D.parked; });
    if (!g_D.finished) return where(g_D, "d");
    lk.unlock();
    return reap(g_D, "d");
  }

  std::string startStop()
  {
    {
      std::lock_guard<std::mutex> lk(g_m);
      if (g_S.active) return "s=busy";
      g_S.clear();
      g_S.active = true;
    }
    TimerService* p = raw;
    g_S.th = std::thread([p]() {
      t_w = &g_S;
      auto r = p->stop();
      std::lock_guard<std::mutex> lk(g_m);
      g_S.result = r.success ? "ok" : "refused";
      g_S.finished = true;
      g_cv.notify_all();
    });
    std::unique_lock<std::mutex> lk(g_m);
    g_cv.wait(lk, [] { return g_S.finished || g_S.blocked || g_S.in_join; });
    return where(g_S, "s");
  }

  // report where the helper thread is; reap it once its call has returned (the stopper is kept: its flags say the loop thread is gone)
  std::string reap(Waiter& w, const char* tag)
  {
    std::unique_lock<std::mutex> lk(g_m);
    std::string o = where(w, tag);
    if (w.active && w.finished && &w == &g_D)
    {
      lk.unlock();
      w.th.join();
      lk.lock();
      w.active = false;
    }
    return o;
  }

  std::string go()
  {
    std::unique_lock<std::mutex> lk(g_m);
    if (!g_D.active || !g_D.parked) return "d=notparked";
    g_D.release = true;
    g_cv.wait(lk, [] { return g_D.finished; });
    return "d=go";
  }

  void finishWaiter(Waiter& w)
  {
    if (!w.th.joinable()) return;
    {
      std::lock_guard<std::mutex> lk(g_m);
      w.abort = true;
      w.release = true;
    }
    w.th.join();
    std::lock_guard<std::mutex> lk(g_m);
    w.clear();
  }

  void teardown()
  {
    if (!svc) return;
    {
      std::lock_guard<std::mutex> lk(g_m);
      g_step = false;       // free-run: the loop thread uses the real epoll_wait from now on
      g_gates_off = true;
      g_gate_open = true;
      g_cv.notify_all();
    }
    finishWaiter(g_R);
    sts.clear();                                        // ~SteadyTimer cancels
    for (auto& h : hs) if (h->id) svc->cancel(h->id);   // nothing live: a drain completes at once
    g_vns.fetch_add(6000000000LL);   // whatever a (mutated) cancel left behind is due or beyond every drain horizon now
    svc->poke();
    finishWaiter(g_S);    // a stop() under way runs to its end: its waits give up, the loop thread runs freely and exits
    finishWaiter(g_D);
    delete svc.release();
    raw = nullptr;
    hs.clear();
    loopGone = false;
    std::lock_guard<std::mutex> lk(g_m);
    g_events.clear();
    g_gate_blocked = 0;
    g_parked = false;
    g_go = false;
    g_gates_off = false;
    g_svc_mutex = nullptr;
    g_tfd.store(-1);
    g_arm_abs.store(-1);
  }

  // the loop thread of a freshly started service may already sit in the REAL epoll_wait (it started before the fds were known): poke it
  // so that its next epoll_wait is the interposed one; if it reached the interposed one first, one forced pass consumes the poke
  void primeLoop()
  {
    {
      std::lock_guard<std::mutex> lk(g_m);
      g_epfd = svc->_epollFd;
      g_evfd = svc->_eventFd.load();
      g_tfd.store(svc->_timerFd);
      g_svc_mutex = svc->_mutex.native_handle();
    }
    svc->poke();
    {
      std::unique_lock<std::mutex> lk(g_m);
      g_cv.wait(lk, [] { return g_parked; });
    }
    while (fdReadable(svc->_eventFd.load()))
    {
      {
        std::lock_guard<std::mutex> lk(g_m);
        g_wake_mask = 1;
        g_go = true;
        g_cv.notify_all();
      }
      waitQuiescent();
    }
  }

  std::string doStart()
  {
    using iora::common::LifecycleState;
    if (svc->_lifecycleState.load() != LifecycleState::Reset)
    {
      auto r = svc->start();
      return r.success ? "st=ok" : "st=refused";
    }
    finishWaiter(g_S);      // the stopper of the previous epoch has returned long ago
    {
      std::lock_guard<std::mutex> lk(g_m);
      g_epfd = -2;
      g_tfd.store(-2);
      g_arm_abs.store(-1);
      g_parked = false;
      g_go = false;
    }
    loopGone = false;
    auto r = svc->start();
    if (!r.success) return "st=failed";
    primeLoop();
    return "st=ok";
  }

  std::string startRacer(long long tpNs)
  {
    {
      std::lock_guard<std::mutex> lk(g_m);
      if (g_R.active) return "r=busy";
      g_R.clear();
      g_R.active = true;
      g_R.want_park = true;
      g_R.park_at = 1;
    }
    auto h = std::make_shared<HInfo>();
    hs.push_back(h);
    TimerService* p = raw;
    auto fn = handler(h);
    long long base = g_base_ns.load();
    g_R.th = std::thread([p, h, fn, tpNs, base]() {
      t_w = &g_R;
      TimerService::TimePoint tp{nanoseconds(base + tpNs)};
      std::uint64_t id = p->scheduleAt(tp, fn);
      h->id = id;
      std::lock_guard<std::mutex> lk(g_m);
      g_R.result = std::to_string(id);
      g_R.finished = true;
      g_cv.notify_all();
    });
    std::unique_lock<std::mutex> lk(g_m);
    g_cv.wait(lk, [] { return g_R.finished || g_R.parked; });
    if (g_R.finished)
    {
      lk.unlock();
      g_R.th.join();
      lk.lock();
      g_R.active = false;
      return "r=" + g_R.result;       // refused by the lock-free tests: never reached the mutex
    }
    return "r=parked";
  }

  std::string racerGo()
  {
    std::unique_lock<std::mutex> lk(g_m);
    if (!g_R.active || !g_R.parked) return "r=notparked";
    g_R.release = true;
    g_cv.wait(lk, [] { return g_R.finished; });
    lk.unlock();
    g_R.th.join();
    lk.lock();
    g_R.active = false;
    return "r=" + g_R.result;
  }

  void reset(std::size_t maxTimers, std::size_t maxPeriodic, long long maxTimeoutMs)
  {
    teardown();
    g_vns.store(0);
    TimerServiceConfig cfg;
    cfg.limits.maxConcurrentTimers = maxTimers;
    cfg.limits.maxPeriodicTimers = maxPeriodic;
    cfg.limits.maxTimeout = milliseconds(maxTimeoutMs);
    cfg.enableStatistics = true;
    {
      std::lock_guard<std::mutex> lk(g_m);
      g_step = true;
      g_epfd = -2;     // learn the fd below; until then nothing matches (the first epoll_wait passes through and returns on our poke)
      g_tfd.store(-2);
      g_arm_abs.store(-1);
    }
    svc = std::make_unique<TimerService>(cfg);
    raw = svc.get();
    primeLoop();
  }

  std::string state()
  {
    std::ostringstream o;
    std::lock_guard<std::mutex> lk(svc->_mutex);
    long long base = g_base_ns.load();
    auto ns = [base](TimerService::TimePoint tp) { return std::chrono::duration_cast<nanoseconds>(tp.time_since_epoch()).count() - base; };
    o << "heap=";
    if (svc->_heap.empty()) o << "-";
    for (std::size_t i = 0; i < svc->_heap.size(); ++i) { if (i) o << ","; o << ns(svc->_heap[i].tp) << ":" << svc->_heap[i].id; }
    std::vector<std::uint64_t> ids;
    for (auto& kv : svc->_records) ids.push_back(kv.first);
    std::sort(ids.begin(), ids.end());
    o << " rec=";
    if (ids.empty()) o << "-";
    for (std::size_t i = 0; i < ids.size(); ++i)
    {
      auto& r = svc->_records.at(ids[i]);
      if (i) o << ",";
      o << ids[i] << ":" << ns(r.tp) << ":" << (r.canceled ? 1 : 0);
    }
    ids.clear();
    for (auto& kv : svc->_periodicTimers) ids.push_back(kv.first);
    std::sort(ids.begin(), ids.end());
    o << " per=";
    if (ids.empty()) o << "-";
    for (std::size_t i = 0; i < ids.size(); ++i)
    {
      auto& p = svc->_periodicTimers.at(ids[i]);
      if (i) o << ",";
      o << ids[i] << ":" << std::chrono::duration_cast<nanoseconds>(p.interval).count() << ":" << ns(p.nextExecution) << ":" << (p.canceled ? 1 : 0);
    }
    o << " exec=" << svc->_executingCallbacks.load() << " acc=" << (svc->_accepting.load() ? 1 : 0);
    switch (svc->_lifecycleState.load())
    {
    case iora::common::LifecycleState::Running: o << " life=R"; break;
    case iora::common::LifecycleState::Draining: o << " life=D"; break;
    case iora::common::LifecycleState::Stopped: o << " life=S"; break;
    case iora::common::LifecycleState::Reset: o << " life=Z"; break;
    default: o << " life=?"; break;
    }
    o << " run=" << (svc->_running.load() ? 1 : 0);
    long long arm = g_arm_abs.load();
    if (arm < 0) o << " arm=-"; else o << " arm=" << arm;
    o << " poke=" << (fdReadable(svc->_eventFd.load()) ? 1 : 0);
    return o.str();
  }
};

template <typename F> static std::string guarded(F&& f)
{
  try { return f(); }
  catch (const std::exception& e) { return std::string("throw ") + typeid(e).name(); }
  catch (...) { return "throw unknown"; }
}

static bool parseInt(const std::string& s, long long& out)
{
  if (s.empty()) return false;
  bool neg = s[0] == '-';
  unsigned long long v = 0;
  if (!vh::parseNat(neg ? s.substr(1) : s, v) || v > 4000000000000000000ULL) return false;
  out = neg ? -static_cast<long long>(v) : static_cast<long long>(v);
  return true;
}

static bool parseKind(const std::string& s, HInfo& h)
{
  if (s == "n" || s == "g" || s == "t") { h.kind = s[0]; return true; }
  long long a = 0;
  if (s.size() > 1 && s[0] == 'x' && parseInt(s.substr(1), a) && a >= 0) { h.kind = 'x'; h.arg = (std::uint64_t)a; return true; }
  return false;
}

int main()
{
  g_base_ns.store(realNowNs() + 30LL * 86400 * 1000000000LL);
  g_virtual.store(true);
  std::thread(watchdog).detach();
  S st;
  int rc = vh::runLines([&](const std::vector<std::string>& t) -> std::string {
    std::fflush(stdout);
    g_op_started_ns.store(realNowNs(), std::memory_order_release);
    std::string out = guarded([&]() -> std::string {
      long long a = 0, b = 0, c = 0;
      if (t.size() == 4 && t[0] == "reset" && parseInt(t[1], a) && parseInt(t[2], b) && parseInt(t[3], c) && a >= 0 && b >= 0)
      {
        st.reset((std::size_t)a, (std::size_t)b, c);
        return std::string("ok \x01");
      }
      if (!st.svc) return "bad-op";
      bool blocked;
      {
        std::lock_guard<std::mutex> lk(g_m);
        blocked = g_gate_blocked != 0;
      }
      if (t.size() == 2 && t[0] == "clk" && parseInt(t[1], a) && a >= 0)
      {
        g_vns.store(a);
        return "ok";
      }
      if (t.size() == 1 && t[0] == "vclock")
      {
        // the steady clock the service reads IS the virtual one
        auto now = std::chrono::duration_cast<nanoseconds>(TimerService::Clock::now().time_since_epoch()).count();
        bool ok = now == g_base_ns.load() + g_vns.load() && g_clock_reads.load() > 0;
        return ok ? "virtual" : "clock-not-interposed";
      }
      if (t.size() == 3 && t[0] == "at" && parseInt(t[1], a))
      {
        // scheduleAt(base + a ns, handler of kind t[2])
        auto h = std::make_shared<HInfo>();
        if (!parseKind(t[2], *h)) return "bad-op";
        TimerService::TimePoint tp{nanoseconds(g_base_ns.load() + a)};
        std::uint64_t id = st.svc->scheduleAt(tp, st.handler(h));
        h->id = id;
        st.hs.push_back(h);
        return std::to_string(id) + " \x01";
      }
      if (t.size() == 3 && t[0] == "per" && parseInt(t[1], a))
      {
        auto h = std::make_shared<HInfo>();
        if (!parseKind(t[2], *h)) return "bad-op";
        std::uint64_t id = st.svc->schedulePeriodic(nanoseconds(a), st.handler(h));
        h->id = id;
        st.hs.push_back(h);
        return std::to_string(id) + " \x01";
      }
      if (t.size() == 2 && t[0] == "cancel" && parseInt(t[1], a) && a >= 0)
      {
        bool r = st.svc->cancel((std::uint64_t)a);
        return std::string(r ? "1 \x01" : "0 \x01");
      }
      if (t.size() == 1 && (t[0] == "wake" || t[0] == "tick"))
      {
        if (st.loopGone) return "gone \x01";
        if (blocked) return "busy";
        // what the kernel would report: the eventfd if it is readable, the timerfd if its programmed expiry has passed
        int mask = (fdReadable(st.svc->_eventFd.load()) ? 1 : 0) | (timerExpired() ? 2 : 0);
        if (t[0] == "tick")
        {
          if (mask == 0) { ++g_ticks_slept; return "sleep \x01"; }
          ++g_ticks_woke;
        }
        else
          mask |= 1;      // a forced pass is reported as an eventfd event
        {
          std::lock_guard<std::mutex> lk(g_m);
          g_wake_mask = mask;
          g_go = true;
          g_cv.notify_all();
        }
        waitQuiescent();
        return "ev=" + takeEvents() + " \x01";
      }
      if (t.size() == 1 && t[0] == "svcreset")
      {
        auto r = st.svc->reset();
        return std::string(r.success ? "r=ok \x01" : "r=refused \x01");
      }
      if (t.size() == 1 && t[0] == "start")
        return st.doStart() + " \x01";
      if (t.size() == 2 && t[0] == "rsched" && parseInt(t[1], a))
        return st.startRacer(a) + " \x01";
      if (t.size() == 1 && t[0] == "rgo")
        return st.racerGo() + " \x01";
      if (t.size() == 4 && t[0] == "sat" && parseInt(t[1], a) && a >= 0 && a < 8 && parseInt(t[2], b))
      {
        // SteadyTimer[a].expiresAt(base + b ns); asyncWait(handler of kind t[3])
        auto h = std::make_shared<HInfo>();
        if (!parseKind(t[3], *h)) return "bad-op";
        if (st.sts.size() <= (std::size_t)a) st.sts.resize((std::size_t)a + 1);
        if (!st.sts[a]) st.sts[a] = std::make_unique<iora::core::SteadyTimer>(*st.svc);
        st.sts[a]->expiresAt(TimerService::TimePoint{nanoseconds(g_base_ns.load() + b)});
        st.sts[a]->asyncWait(st.handler(h));
        std::uint64_t id = st.sts[a]->_token.value_or(0);
        h->id = id;
        st.hs.push_back(h);
        return std::to_string(id) + " \x01";
      }
      if (t.size() == 2 && t[0] == "scancel" && parseInt(t[1], a) && a >= 0 && a < 8)
      {
        if (st.sts.size() <= (std::size_t)a || !st.sts[a]) return std::string("0 \x01");
        bool r = st.sts[a]->cancel();
        return std::string(r ? "1 \x01" : "0 \x01");
      }
      if (t.size() == 1 && t[0] == "release")
      {
        if (!blocked) return "idle";
        {
          std::lock_guard<std::mutex> lk(g_m);
          g_gate_open = true;
          g_gate_blocked = 0;     // the handler leaves the gate; quiescent again = parked, blocked in the next gate, or gone
          g_cv.notify_all();
        }
        waitQuiescent();
        return "ev=" + takeEvents() + " \x01";
      }
      if (t.size() == 1 && t[0] == "inflight")
        return std::to_string(st.svc->getInFlightCount());
      if ((t.size() == 2 || (t.size() == 3 && t[2] == "park")) && t[0] == "drain" && parseInt(t[1], a) && a >= 0 && a <= 5000)
        return st.startDrain(static_cast<std::uint32_t>(a), t.size() == 3) + " \x01";
      if (t.size() == 1 && t[0] == "dwait")
        return st.reap(g_D, "d") + " \x01";
      if (t.size() == 1 && t[0] == "dgo")
        return st.go() + " \x01";
      if (t.size() == 1 && t[0] == "stop")
        return st.startStop() + " \x01";
      if (t.size() == 1 && t[0] == "swait")
        return st.reap(g_S, "s") + " \x01";
      return "bad-op";
    });
    if (st.svc && out != "bad-op")
    {
      st.settle();
      auto pos = out.find('\x01');
      if (pos != std::string::npos) out.replace(pos, 1, st.state());
    }
    g_op_started_ns.store(0, std::memory_order_release);
    return out;
  });
  g_op_started_ns.store(realNowNs(), std::memory_order_release);   // the final teardown is watched too
  st.teardown();
  g_op_started_ns.store(0, std::memory_order_release);
  std::fprintf(stderr, "epoll_parks=%lu wait_slices=%lu clock_reads=%lu settime_calls=%lu ticks_slept=%lu ticks_woke=%lu timerfd_wakes=%lu\n", g_epoll_parks, g_slices,
               g_clock_reads.load(), g_settime_calls.load(), g_ticks_slept, g_ticks_woke, g_timerfd_wakes);
  return rc;
}
