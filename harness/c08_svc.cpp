// Correspondence harness for C08 (epoll TimerService), deterministic part: the REAL iora::core::TimerService with its REAL
// loop thread, single-stepped.  Two interposers inside this executable (DESIGN §3.1):
//   * clock_gettime(CLOCK_MONOTONIC)  -> virtual steady clock set by the op list;
//   * epoll_wait on the service's epoll fd -> the loop thread parks there until the op `wake` lets it run ONE iteration
//     (it then takes `_mutex`, runs collectDueLocked(Clock::now()), pre-announces, releases the lock and runs the handlers).
// Handlers record `s<id>` when they start and `e<id>` when they end; a handler of kind `g` (gate) blocks after `s<id>` until the
// op `release`, so cancel/schedule can be issued while a handler is running and while collected handlers have not started yet;
// a handler of kind `x<j>` calls cancel(j) from the loop thread and records the answer (`c<j>=0|1`).
// `drain <ms>` runs the real drain(ms) on a helper thread whose timed wait is interposed too (see below); `dwait` reports its outcome.
// After every op the private state is printed: heap array in array order, records and periodic entries sorted by id.
#include <algorithm>
#include <atomic>
#include <chrono>
#include <condition_variable>
#include <cstdint>
#include <cstdio>
#include <cstring>
#include <exception>
#include <functional>
#include <future>
#include <map>
#include <memory>
#include <mutex>
#include <optional>
#include <queue>
#include <sstream>
#include <stdexcept>
#include <string>
#include <thread>
#include <type_traits>
#include <typeinfo>
#include <unordered_map>
#include <utility>
#include <vector>
#include <dlfcn.h>
#include <errno.h>
#include <pthread.h>
#include <string.h>
#include <sys/epoll.h>
#include <sys/eventfd.h>
#include <sys/syscall.h>
#include <sys/timerfd.h>
#include <time.h>
#include <unistd.h>
#define private public
#define protected public
#include "iora/core/timer.hpp"
#undef private
#undef protected
#include "common/lineproto.hpp"

using iora::core::TimerService;
using iora::core::TimerServiceConfig;
using std::chrono::milliseconds;
using std::chrono::nanoseconds;

// ---------------------------------------------------------------------------------------------- virtual steady clock
static std::atomic<long long> g_base_ns{0};
static std::atomic<long long> g_vns{0};
static std::atomic<bool> g_virtual{false};
static int real_clock_gettime(clockid_t c, struct timespec* ts) { return (int)syscall(SYS_clock_gettime, c, ts); }
extern "C" int clock_gettime(clockid_t c, struct timespec* ts)
{
  if (c == CLOCK_MONOTONIC && g_virtual.load(std::memory_order_acquire))
  {
    long long t = g_base_ns.load(std::memory_order_relaxed) + g_vns.load(std::memory_order_relaxed);
    ts->tv_sec = t / 1000000000LL;
    ts->tv_nsec = t % 1000000000LL;
    return 0;
  }
  return real_clock_gettime(c, ts);
}
static long long realNowNs(clockid_t c)
{
  struct timespec ts;
  real_clock_gettime(c, &ts);
  return ts.tv_sec * 1000000000LL + ts.tv_nsec;
}

// ---------------------------------------------------------------------------------------------- stepping the loop thread
static std::mutex g_m;
static std::condition_variable g_cv;
static int g_epfd = -1;            // epoll fd of the service under test
static int g_evfd = -1;
static bool g_step = false;        // step mode on/off (off = pass through to the kernel)
static bool g_parked = false;      // loop thread is inside the interposed epoll_wait
static bool g_go = false;          // permission for one iteration
static int g_gate_blocked = 0;     // id of the gate handler the loop thread is blocked in (0 = none)
static bool g_gate_open = false;
static bool g_gates_off = false;    // teardown: gate handlers no longer block
static std::vector<std::string> g_events;
static unsigned long g_epoll_parks = 0;

extern "C" int epoll_wait(int epfd, struct epoll_event* ev, int maxev, int timeout)
{
  {
    std::unique_lock<std::mutex> lk(g_m);
    if (g_step && epfd == g_epfd)
    {
      g_parked = true;
      ++g_epoll_parks;
      g_cv.notify_all();
      g_cv.wait(lk, [] { return g_go || !g_step; });
      g_parked = false;
      if (g_step)
      {
        g_go = false;
        ev[0].events = EPOLLIN;
        ev[0].data.fd = g_evfd;
        return 1;
      }
    }
  }
  return (int)syscall(SYS_epoll_wait, epfd, ev, maxev, timeout);
}

static void waitQuiescent()
{
  std::unique_lock<std::mutex> lk(g_m);
  g_cv.wait(lk, [] { return (g_parked && !g_go) || g_gate_blocked != 0; });
}

static std::string takeEvents()
{
  std::lock_guard<std::mutex> lk(g_m);
  std::string o;
  for (std::size_t i = 0; i < g_events.size(); ++i) { if (i) o += ","; o += g_events[i]; }
  g_events.clear();
  return o.empty() ? "-" : o;
}

// ---------------------------------------------------------------------------------------------- the thread that calls drain()
// `drain <ms>` runs the REAL TimerService::drain(ms) on a helper thread.  Its timed wait (libstdc++: pthread_cond_clockwait on
// CLOCK_MONOTONIC) is interposed: the drainer sleeps in short real slices and is woken - a legitimate spurious wake-up - after
// every op of the op list (`settle`), so that it re-evaluates its predicate and the (virtual) deadline exactly there: the drain
// completes, times out (restoring Running/_accepting) or keeps waiting as a deterministic function of the op list.
static thread_local bool t_is_drainer = false;
static bool g_d_active = false;      // a drainer thread exists and has not been reaped
static bool g_d_finished = false;    // drain() has returned
static bool g_d_blocked = false;     // the drainer is inside the interposed timed wait
static bool g_d_abort = false;       // teardown: leave the wait at the next slice
static unsigned long g_d_req = 0;    // settle requests issued by the op thread
static unsigned long g_d_ack = 0;    // requests after which the drainer has re-evaluated and gone back to waiting
static std::string g_d_result;       // ok | timeout | refused
static unsigned long g_d_slices = 0;

extern "C" int pthread_cond_clockwait(pthread_cond_t* c, pthread_mutex_t* m, clockid_t clk, const struct timespec* abstime)
{
  using Fn = int (*)(pthread_cond_t*, pthread_mutex_t*, clockid_t, const struct timespec*);
  static Fn real = reinterpret_cast<Fn>(dlsym(RTLD_NEXT, "pthread_cond_clockwait"));
  if (!(clk == CLOCK_MONOTONIC && g_virtual.load(std::memory_order_acquire)))
    return real(c, m, clk, abstime);
  if (!t_is_drainer)
  {
    // any other timed wait (stop()'s internal drain at teardown): the same span, in real time
    long long vnow = g_base_ns.load(std::memory_order_relaxed) + g_vns.load(std::memory_order_relaxed);
    long long rel = abstime->tv_sec * 1000000000LL + abstime->tv_nsec - vnow;
    if (rel < 0) rel = 0;
    long long r = realNowNs(CLOCK_MONOTONIC) + rel;
    struct timespec ts;
    ts.tv_sec = r / 1000000000LL;
    ts.tv_nsec = r % 1000000000LL;
    return real(c, m, clk, &ts);
  }
  static thread_local unsigned long pending_ack = 0;
  {
    std::lock_guard<std::mutex> lk(g_m);
    g_d_blocked = true;
    if (pending_ack > g_d_ack) g_d_ack = pending_ack;   // re-evaluated after that request and still not done
    g_cv.notify_all();
  }
  for (;;)
  {
    long long r = realNowNs(CLOCK_MONOTONIC) + 200000;   // 0.2 ms slice
    struct timespec ts;
    ts.tv_sec = r / 1000000000LL;
    ts.tv_nsec = r % 1000000000LL;
    int rc = real(c, m, clk, &ts);
    std::lock_guard<std::mutex> lk(g_m);
    ++g_d_slices;
    if (rc == 0)
    {
      // notified by the service (or spurious): back to the caller, which re-evaluates (libstdc++ derives timeout/no_timeout from
      // the clock, not from this return value)
      g_d_blocked = false;
      return 0;
    }
    if (g_d_abort || g_d_req > g_d_ack)
    {
      pending_ack = g_d_req;
      g_d_blocked = false;
      return 0;
    }
  }
}

// ---------------------------------------------------------------------------------------------- watchdog
static std::atomic<long long> g_op_started_ns{0};
static void watchdog()
{
  for (;;)
  {
    struct timespec ts{0, 50000000};
    nanosleep(&ts, nullptr);
    long long s = g_op_started_ns.load(std::memory_order_acquire);
    if (s != 0 && realNowNs(CLOCK_REALTIME) - s > 12000000000LL)
    {
      std::fflush(stdout);
      std::fputs("hang\n", stdout);
      std::fflush(stdout);
      _exit(97);
    }
  }
}

// ---------------------------------------------------------------------------------------------- the service under test
struct HInfo
{
  std::uint64_t id = 0;
  char kind = 'n';          // n normal, g gate, x cancels `arg`
  std::uint64_t arg = 0;
};

struct S
{
  std::unique_ptr<TimerService> svc;
  TimerService* raw = nullptr;   // stays valid while the destructor runs (handlers of the exit path may still call cancel)
  std::thread drainer;
  std::vector<std::shared_ptr<HInfo>> hs;

  std::function<void()> handler(std::shared_ptr<HInfo> h)
  {
    return [this, h]() {
      {
        std::lock_guard<std::mutex> lk(g_m);
        g_events.push_back("s" + std::to_string(h->id));
      }
      if (h->kind == 'g')
      {
        std::unique_lock<std::mutex> lk(g_m);
        if (!g_gates_off)
        {
          g_gate_blocked = (int)h->id;
          g_gate_open = false;
          g_cv.notify_all();
          g_cv.wait(lk, [] { return g_gate_open || g_gates_off; });
          g_gate_blocked = 0;
        }
      }
      else if (h->kind == 'x')
      {
        bool r = raw->cancel(h->arg);
        std::lock_guard<std::mutex> lk(g_m);
        g_events.push_back("c" + std::to_string(h->arg) + "=" + (r ? "1" : "0"));
      }
      std::lock_guard<std::mutex> lk(g_m);
      g_events.push_back("e" + std::to_string(h->id));
    };
  }

  // after every op: let a waiting drainer re-evaluate predicate and deadline now (forced spurious wake-up), and wait until it has
  // either returned from drain() or gone back to waiting
  void settle()
  {
    std::unique_lock<std::mutex> lk(g_m);
    if (!g_d_active || g_d_finished) return;
    unsigned long want = ++g_d_req;
    g_cv.wait(lk, [want] { return g_d_finished || (g_d_blocked && g_d_ack >= want); });
  }

  // `drain <ms>`: start drain(ms) on the helper thread; answer once it has returned or is waiting
  std::string startDrain(std::uint32_t ms)
  {
    {
      std::lock_guard<std::mutex> lk(g_m);
      if (g_d_active) return "d=busy";
      g_d_active = true;
      g_d_finished = false;
      g_d_blocked = false;
      g_d_result.clear();
    }
    TimerService* p = raw;
    drainer = std::thread([p, ms]() {
      t_is_drainer = true;
      auto r = p->drain(ms);
      std::string res = r.success ? "ok" : (r.message.rfind("Can only drain", 0) == 0 ? "refused" : "timeout");
      std::lock_guard<std::mutex> lk(g_m);
      g_d_result = res;
      g_d_finished = true;
      g_cv.notify_all();
    });
    {
      std::unique_lock<std::mutex> lk(g_m);
      g_cv.wait(lk, [] { return g_d_finished || g_d_blocked; });
      if (!g_d_finished) return "d=wait";
    }
    return reap();
  }

  // `dwait`: report the outcome of the drain if it has returned (the drainer is settled after every op)
  std::string reap()
  {
    {
      std::lock_guard<std::mutex> lk(g_m);
      if (!g_d_active) return "d=none";
      if (!g_d_finished) return "d=blocked";
    }
    drainer.join();
    std::lock_guard<std::mutex> lk(g_m);
    g_d_active = false;
    return "d=" + g_d_result;
  }

  void teardown()
  {
    if (!svc) return;
    {
      std::lock_guard<std::mutex> lk(g_m);
      g_step = false;       // free-run: the loop thread uses the real epoll_wait from now on
      g_gates_off = true;
      g_gate_open = true;
      g_cv.notify_all();
    }
    for (auto& h : hs) if (h->id) svc->cancel(h->id);   // nothing live: stop()'s internal drain completes at once
    g_vns.fetch_add(6000000000LL);   // whatever a (mutated) cancel left behind is due or beyond the drain horizon now
    if (drainer.joinable())
    {
      // a drain still waiting: its deadline (<= 5 s) has passed on the virtual clock now; wake it for good
      {
        std::lock_guard<std::mutex> lk(g_m);
        g_d_abort = true;
      }
      drainer.join();
      std::lock_guard<std::mutex> lk(g_m);
      g_d_active = false;
      g_d_finished = false;
      g_d_abort = false;
      g_d_blocked = false;
    }
    delete svc.release();
    raw = nullptr;
    hs.clear();
    std::lock_guard<std::mutex> lk(g_m);
    g_events.clear();
    g_gate_blocked = 0;
    g_parked = false;
    g_go = false;
    g_gates_off = false;
  }

  void reset(std::size_t maxTimers, std::size_t maxPeriodic, long long maxTimeoutMs)
  {
    teardown();
    g_vns.store(0);
    TimerServiceConfig cfg;
    cfg.limits.maxConcurrentTimers = maxTimers;
    cfg.limits.maxPeriodicTimers = maxPeriodic;
    cfg.limits.maxTimeout = milliseconds(maxTimeoutMs);
    cfg.enableStatistics = true;
    {
      std::lock_guard<std::mutex> lk(g_m);
      g_step = true;
      g_epfd = -2;     // learn the fd below; until then nothing matches (the first epoll_wait passes through and returns on our poke)
    }
    svc = std::make_unique<TimerService>(cfg);
    raw = svc.get();
    {
      std::lock_guard<std::mutex> lk(g_m);
      g_epfd = svc->_epollFd;
      g_evfd = svc->_eventFd.load();
    }
    // the loop thread may already sit in the real epoll_wait (it started before we knew the fd): poke it once so that its next
    // epoll_wait is the interposed one; the extra iteration collects nothing (no timers yet)
    svc->poke();
    std::unique_lock<std::mutex> lk(g_m);
    g_cv.wait(lk, [] { return g_parked; });
  }

  std::string state()
  {
    std::ostringstream o;
    std::lock_guard<std::mutex> lk(svc->_mutex);
    long long base = g_base_ns.load();
    auto ns = [base](TimerService::TimePoint tp) { return std::chrono::duration_cast<nanoseconds>(tp.time_since_epoch()).count() - base; };
    o << "heap=";
    if (svc->_heap.empty()) o << "-";
    for (std::size_t i = 0; i < svc->_heap.size(); ++i) { if (i) o << ","; o << ns(svc->_heap[i].tp) << ":" << svc->_heap[i].id; }
    std::vector<std::uint64_t> ids;
    for (auto& kv : svc->_records) ids.push_back(kv.first);
    std::sort(ids.begin(), ids.end());
    o << " rec=";
    if (ids.empty()) o << "-";
    for (std::size_t i = 0; i < ids.size(); ++i)
    {
      auto& r = svc->_records.at(ids[i]);
      if (i) o << ",";
      o << ids[i] << ":" << ns(r.tp) << ":" << (r.canceled ? 1 : 0);
    }
    ids.clear();
    for (auto& kv : svc->_periodicTimers) ids.push_back(kv.first);
    std::sort(ids.begin(), ids.end());
    o << " per=";
    if (ids.empty()) o << "-";
    for (std::size_t i = 0; i < ids.size(); ++i)
    {
      auto& p = svc->_periodicTimers.at(ids[i]);
      if (i) o << ",";
      o << ids[i] << ":" << std::chrono::duration_cast<nanoseconds>(p.interval).count() << ":" << ns(p.nextExecution) << ":" << (p.canceled ? 1 : 0);
    }
    o << " exec=" << svc->_executingCallbacks.load() << " acc=" << (svc->_accepting.load() ? 1 : 0);
    switch (svc->_lifecycleState.load())
    {
    case iora::common::LifecycleState::Running: o << " life=R"; break;
    case iora::common::LifecycleState::Draining: o << " life=D"; break;
    case iora::common::LifecycleState::Stopped: o << " life=S"; break;
    default: o << " life=?"; break;
    }
    return o.str();
  }
};

template <typename F> static std::string guarded(F&& f)
{
  try { return f(); }
  catch (const std::exception& e) { return std::string("throw ") + typeid(e).name(); }
  catch (...) { return "throw unknown"; }
}

static bool parseInt(const std::string& s, long long& out)
{
  if (s.empty()) return false;
  bool neg = s[0] == '-';
  unsigned long long v = 0;
  if (!vh::parseNat(neg ? s.substr(1) : s, v) || v > 4000000000000000000ULL) return false;
  out = neg ? -static_cast<long long>(v) : static_cast<long long>(v);
  return true;
}

static bool parseKind(const std::string& s, HInfo& h)
{
  if (s == "n" || s == "g") { h.kind = s[0]; return true; }
  long long a = 0;
  if (s.size() > 1 && s[0] == 'x' && parseInt(s.substr(1), a) && a >= 0) { h.kind = 'x'; h.arg = (std::uint64_t)a; return true; }
  return false;
}

int main()
{
  g_base_ns.store(realNowNs(CLOCK_MONOTONIC) + 30LL * 86400 * 1000000000LL);
  g_virtual.store(true);
  std::thread(watchdog).detach();
  S st;
  int rc = vh::runLines([&](const std::vector<std::string>& t) -> std::string {
    std::fflush(stdout);
    g_op_started_ns.store(realNowNs(CLOCK_REALTIME), std::memory_order_release);
    std::string out = guarded([&]() -> std::string {
      long long a = 0, b = 0, c = 0;
      if (t.size() == 4 && t[0] == "reset" && parseInt(t[1], a) && parseInt(t[2], b) && parseInt(t[3], c) && a >= 0 && b >= 0)
      {
        st.reset((std::size_t)a, (std::size_t)b, c);
        return std::string("ok \x01");
      }
      if (!st.svc) return "bad-op";
      bool blocked;
      {
        std::lock_guard<std::mutex> lk(g_m);
        blocked = g_gate_blocked != 0;
      }
      if (t.size() == 2 && t[0] == "clk" && parseInt(t[1], a) && a >= 0)
      {
        g_vns.store(a);
        return "ok";
      }
      if (t.size() == 3 && t[0] == "at" && parseInt(t[1], a))
      {
        // scheduleAt(base + a ns, handler of kind t[2])
        auto h = std::make_shared<HInfo>();
        if (!parseKind(t[2], *h)) return "bad-op";
        TimerService::TimePoint tp{nanoseconds(g_base_ns.load() + a)};
        std::uint64_t id = st.svc->scheduleAt(tp, st.handler(h));
        h->id = id;
        st.hs.push_back(h);
        return std::to_string(id) + " \x01";
      }
      if (t.size() == 3 && t[0] == "per" && parseInt(t[1], a))
      {
        auto h = std::make_shared<HInfo>();
        if (!parseKind(t[2], *h)) return "bad-op";
        std::uint64_t id = st.svc->schedulePeriodic(nanoseconds(a), st.handler(h));
        h->id = id;
        st.hs.push_back(h);
        return std::to_string(id) + " \x01";
      }
      if (t.size() == 2 && t[0] == "cancel" && parseInt(t[1], a) && a >= 0)
      {
        bool r = st.svc->cancel((std::uint64_t)a);
        return std::string(r ? "1 \x01" : "0 \x01");
      }
      if (t.size() == 1 && t[0] == "wake")
      {
        if (blocked) return "busy";
        {
          std::lock_guard<std::mutex> lk(g_m);
          g_go = true;
          g_cv.notify_all();
        }
        waitQuiescent();
        return "ev=" + takeEvents() + " \x01";
      }
      if (t.size() == 1 && t[0] == "release")
      {
        if (!blocked) return "idle";
        {
          std::lock_guard<std::mutex> lk(g_m);
          g_gate_open = true;
          g_gate_blocked = 0;     // the handler leaves the gate; quiescent again = parked, or blocked in the next gate
          g_cv.notify_all();
        }
        waitQuiescent();
        return "ev=" + takeEvents() + " \x01";
      }
      if (t.size() == 1 && t[0] == "inflight")
        return std::to_string(st.svc->getInFlightCount());
      if (t.size() == 2 && t[0] == "drain" && parseInt(t[1], a) && a > 0 && a <= 5000)
        return st.startDrain(static_cast<std::uint32_t>(a)) + " \x01";
      if (t.size() == 1 && t[0] == "dwait")
        return st.reap() + " \x01";
      return "bad-op";
    });
    if (st.svc && out != "bad-op")
    {
      st.settle();
      auto pos = out.find('\x01');
      if (pos != std::string::npos) out.replace(pos, 1, st.state());
    }
    g_op_started_ns.store(0, std::memory_order_release);
    return out;
  });
  g_op_started_ns.store(realNowNs(CLOCK_REALTIME), std::memory_order_release);   // the final teardown is watched too
  st.teardown();
  g_op_started_ns.store(0, std::memory_order_release);
  std::fprintf(stderr, "epoll_parks=%lu drain_slices=%lu\n", g_epoll_parks, g_d_slices);
  return rc;
}
