// Correspondence harness for C14: the real iora XML pull tokenizer, SAX runner, DomBuilder and entity decoder,
// driven by the line protocol.  Built against ${VERIF_REPO}/include on every check run (ASan+UBSan).
//
//   pull <maxDepth> <maxAttrs> <maxName> <maxText> <maxTokens> <hex doc>   token list + final state
//   sax  <same options> <hex doc>                                          events seen by the 9 callbacks + result
//   saxm <mask> <same options> <hex doc>                                   only the callbacks whose bit is set are registered
//   dom  <same options> <hex doc>                                          DomBuilder tree dump / error
//   dom0 <same options> <hex doc>                                          DomBuilder::build(parser, nullptr): no error sink
//   domh <same options> <hex doc>                                          Node::getTextContent / getAttribute / childByName on every element
//   dec  <hex>                                                             Parser::decodeEntities
//   dec0 <hex>                                                             Parser::decodeEntities(in, out) with err == nullptr
//   pullstat / domstat <same options> <hex doc>                            counts only (documents too large / deep to dump)
//   utf8 <code point>                                                      Parser::encodeUtf8
//   defaults                                                               Options{} as constructed by the header
//   tpull / tsax / tdom <same options> <hex doc>                           as pull / sax / dom in the build with IORA_XML_THROW_ON_ERROR=1
//                                                                          (fail() throws std::runtime_error): every call into the parser is
//                                                                          wrapped in try/catch, the answer ends in thrown=0|1 (tdom: `throw
//                                                                          <kind> @o:l:c`).  In the default build these three answer bad-op.
//
// The document is copied into an exactly-sized heap block (no terminator, no slack), so that a read one byte past
// the end — or one byte before the start — is an ASan report, not a silent read.
#include <algorithm>
#include <cstddef>
#include <cstdint>
#include <cstdlib>
#include <cstring>
#include <functional>
#include <limits>
#include <memory>
#include <sstream>
#include <stdexcept>
#include <string>
#include <string_view>
#include <typeinfo>
#include <utility>
#include <vector>
#include <cxxabi.h>
#define private public
#define protected public
#include "iora/parsers/xml.hpp"
#undef private
#undef protected
#include "common/lineproto.hpp"

namespace x = iora::parsers::xml;
using vh::Bytes;

struct Doc
{
  char* p = nullptr;
  std::size_t n = 0;
  explicit Doc(const Bytes& b) : n(b.size())
  {
    p = static_cast<char*>(std::malloc(n ? n : 1));   // exact size: ASan red zones on both sides
    if (n) std::memcpy(p, b.data(), n);
  }
  ~Doc() { std::free(p); }
  Doc(const Doc&) = delete;
  Doc& operator=(const Doc&) = delete;
  std::string_view view() const { return std::string_view(p, n); }
};

static const char* errKind(const std::string& m)
{
  static const std::pair<const char*, const char*> exact[] = {
    {"token limit exceeded", "tokenLimit"},
    {"unexpected end after '<'", "eofAfterLt"},
    {"unsupported markup declaration", "badDecl"},
    {"name too long", "nameTooLong"},
    {"expected quote", "expectedQuote"},
    {"expected '\"' or ''' for attribute value", "expectedQuoteChar"},
    {"unterminated attribute value", "unterminatedAttr"},
    {"attribute value too long", "attrTooLong"},
    {"unexpected end in attributes", "eofInAttrs"},
    {"invalid attribute name", "badAttrName"},
    {"expected '=' after attribute name", "expectedEq"},
    {"too many attributes", "tooManyAttrs"},
    {"invalid PI target", "badPiTarget"},
    {"unterminated processing instruction", "unterminatedPi"},
    {"unterminated comment", "unterminatedComment"},
    {"unterminated CDATA", "unterminatedCData"},
    {"unterminated doctype", "unterminatedDoctype"},
    {"invalid end tag name", "badEndName"},
    {"expected '>' after end tag name", "expectedGtEnd"},
    {"end tag without matching start tag", "strayEnd"},
    {"invalid start tag name", "badStartName"},
    {"expected '>' to end start tag", "expectedGtStart"},
    {"maximum element depth exceeded", "depthExceeded"},
    {"text span too large", "textTooLarge"},
    {"unterminated entity", "unterminatedEntity"},
    {"invalid character reference", "badCharRef"},
    {"unknown entity", "unknownEntity"},
    {"unbalanced end element", "domUnbalancedEnd"},
    {"unclosed elements at end of document", "domUnclosed"},
  };
  for (const auto& e : exact)
    if (m == e.first) return e.second;
  if (m.rfind("mismatched end tag - expected </", 0) == 0) return "mismatch";
  if (m.rfind("unclosed elements at end of document: ", 0) == 0) return "unclosed";
  return "unknownMessage";
}

struct Dump
{
  const Doc& doc;
  explicit Dump(const Doc& d) : doc(d) {}

  // A slice is printed as offset+length relative to the document; a default-constructed view as `-`;
  // a view that does not lie inside the document as OUT(...) (the monitor flags it).
  std::string slice(std::string_view v) const
  {
    if (v.data() == nullptr) return "-";
    const char* b = doc.p;
    const char* e = doc.p + doc.n;
    if (v.data() < b || v.data() > e || v.size() > static_cast<std::size_t>(e - v.data()))
    {
      return "OUT(" + std::to_string(reinterpret_cast<std::uintptr_t>(v.data()) - reinterpret_cast<std::uintptr_t>(b)) + "+" +
             std::to_string(v.size()) + ")";
    }
    return std::to_string(static_cast<std::size_t>(v.data() - b)) + "+" + std::to_string(v.size());
  }

  static const char* kind(x::TokenKind k)
  {
    switch (k)
    {
    case x::TokenKind::Invalid: return "Inv";
    case x::TokenKind::Eof: return "Eof";
    case x::TokenKind::XmlDecl: return "Xd";
    case x::TokenKind::Doctype: return "Dt";
    case x::TokenKind::StartElement: return "S";
    case x::TokenKind::EndElement: return "E";
    case x::TokenKind::EmptyElement: return "Em";
    case x::TokenKind::Text: return "T";
    case x::TokenKind::CData: return "Cd";
    case x::TokenKind::Comment: return "Cm";
    case x::TokenKind::ProcessingInstruction: return "Pi";
    }
    return "?";
  }

  std::string token(const x::Token& t) const
  {
    std::string o = kind(t.kind);
    o += " n=" + slice(t.name) + " t=" + slice(t.text) + " a=";
    if (t.attributes.empty()) o += "-";
    for (std::size_t i = 0; i < t.attributes.size(); ++i)
    {
      if (i) o += ",";
      o += slice(t.attributes[i].name) + "=" + slice(t.attributes[i].value);
    }
    o += std::string(" sc=") + (t.selfClosing ? "1" : "0");
    o += " d=" + std::to_string(t.depth);
    o += " @" + std::to_string(t.offset) + ":" + std::to_string(t.line) + ":" + std::to_string(t.column);
    // Token::splitQName(): length of the prefix, `-` when the name has no colon
    auto pq = t.splitQName();
    if (t.name.data() == nullptr) o += " q=-";
    else if (pq.first.data() == nullptr) o += " q=-";
    else o += " q=" + std::to_string(pq.first.size()) + "/" + std::to_string(pq.second.size());
    return o;
  }

  static std::string err(const x::Error& e)
  {
    return std::string(errKind(e.message)) + " @" + std::to_string(e.offset) + ":" + std::to_string(e.line) + ":" + std::to_string(e.column);
  }
};

static bool parseOpts(const std::vector<std::string>& t, x::Options& o)
{
  unsigned long long v[5];
  for (int i = 0; i < 5; ++i)
    if (!vh::parseNat(t[1 + i], v[i])) return false;
  o.maxDepth = v[0];
  o.maxAttrsPerElement = v[1];
  o.maxNameLength = v[2];
  o.maxTextSpan = v[3];
  o.maxTotalTokens = v[4];
  return true;
}

static std::string join(const std::vector<std::string>& v)
{
  if (v.empty()) return "-";
  std::string o;
  for (std::size_t i = 0; i < v.size(); ++i) { if (i) o += ";"; o += v[i]; }
  return o;
}

static std::string hexOf(const std::string& s) { return vh::toHex(s); }

static void dumpNode(const x::Node& n, std::string& o)
{
  switch (n.type)
  {
  case x::NodeType::Document: o += "doc"; break;
  case x::NodeType::Element:
    o += "E:" + hexOf(n.name) + "{";
    for (std::size_t i = 0; i < n.attributes.size(); ++i)
    {
      if (i) o += ",";
      o += hexOf(n.attributes[i].name) + "=" + hexOf(n.attributes[i].value);
    }
    o += "}";
    break;
  case x::NodeType::Text: o += "T:" + hexOf(n.value); return;
  case x::NodeType::CData: o += "C:" + hexOf(n.value); return;
  case x::NodeType::Comment: o += "M:" + hexOf(n.value); return;
  case x::NodeType::ProcessingInstruction: o += "P:" + hexOf(n.name) + ":" + hexOf(n.value); return;
  }
  o += "[";
  for (std::size_t i = 0; i < n.children.size(); ++i)
  {
    if (i) o += ";";
    dumpNode(*n.children[i], o);
  }
  o += "]";
}

static std::string viewOrNull(std::string_view v) { return v.data() == nullptr ? std::string("~") : vh::toHex(std::string(v)); }

// Node::getTextContent(), getAttribute(own attribute names), childByName(own element children) and two look-ups that must miss
static void helperLine(const x::Node& n, std::vector<std::string>& out)
{
  std::string o = (n.type == x::NodeType::Document ? std::string("-") : hexOf(n.name)) + " t=" + hexOf(n.getTextContent()) + " a=";
  for (std::size_t i = 0; i < n.attributes.size(); ++i)
  {
    if (i) o += ",";
    o += viewOrNull(n.getAttribute(n.attributes[i].name));
  }
  o += " c=";
  bool first = true;
  for (const auto& c : n.children)
  {
    if (c->type != x::NodeType::Element) continue;
    if (!first) o += ",";
    first = false;
    const x::Node* hit = n.childByName(c->name);
    if (!hit) { o += "~"; continue; }
    std::size_t idx = 0;
    for (; idx < n.children.size(); ++idx)
      if (n.children[idx].get() == hit) break;
    o += std::to_string(idx);
  }
  const std::string miss(1, '\x01');
  o += " m=" + viewOrNull(n.getAttribute(miss)) + (n.childByName(miss) ? "!" : "~");
  out.push_back(o);
  for (const auto& c : n.children)
    if (c->type == x::NodeType::Element) helperLine(*c, out);
}

static std::string guarded(const std::function<std::string()>& f)
{
  try { return f(); }
  catch (const std::exception& e)
  {
    int st = 0;
    char* n = abi::__cxa_demangle(typeid(e).name(), nullptr, nullptr, &st);
    std::string name = n ? n : typeid(e).name();
    std::free(n);
    return "throw " + name;
  }
  catch (...) { return "throw unknown"; }
}

int main()
{
  return vh::runLines([&](const std::vector<std::string>& t) -> std::string {
    return guarded([&]() -> std::string {
      Bytes d;
      x::Options opt;
      if (t.size() == 7 && t[0] == "pull" && parseOpts(t, opt) && vh::ofHex(t[6], d))
      {
        Doc doc(d);
        Dump dump(doc);
        x::Parser p(doc.view(), opt);
        std::vector<std::string> toks;
        // the loop bound is a watchdog only: a parser that does not advance would otherwise hang the run
        std::size_t guard = doc.n + 8;
        bool more = false;
        while ((more = p.next()))
        {
          toks.push_back(dump.token(p.current()));
          if (guard-- == 0) return join(toks) + " | nonterminating";
        }
        std::string fin;
        if (const x::Error* e = p.error()) fin = "err " + Dump::err(*e);
        else
        {
          const x::Token& c = p.current();
          fin = std::string(c.kind == x::TokenKind::Eof ? "eof" : "stopped-without-eof") + " d=" + std::to_string(c.depth) + " @" +
                std::to_string(c.offset) + ":" + std::to_string(c.line) + ":" + std::to_string(c.column);
        }
        // next() after the end must stay false and must not change the outcome
        bool again = p.next();
        if (again) fin += " next-after-end=true";
        return join(toks) + " | " + fin + " stack=" + std::to_string(p._elementStack.size()) + " depth=" + std::to_string(p._depth) +
               " produced=" + std::to_string(p._producedTokens);
      }
      if (t.size() == 7 && t[0] == "sax" && parseOpts(t, opt) && vh::ofHex(t[6], d))
      {
        Doc doc(d);
        Dump dump(doc);
        x::Parser p(doc.view(), opt);
        std::vector<std::string> evs;
        x::SaxCallbacks cb;
        auto rec = [&](const char* tag) {
          return [&evs, &dump, tag](const x::Token& tk) {
            std::string s = dump.token(tk);
            // the callback slot must agree with the token kind
            std::string k = s.substr(0, s.find(' '));
            evs.push_back(k == tag ? s : std::string("WRONG-CALLBACK(") + tag + ")" + s);
          };
        };
        cb.onXmlDecl = rec("Xd");
        cb.onDoctype = rec("Dt");
        cb.onStartElement = rec("S");
        cb.onEndElement = rec("E");
        cb.onEmptyElement = rec("Em");
        cb.onText = rec("T");
        cb.onCData = rec("Cd");
        cb.onComment = rec("Cm");
        cb.onPI = rec("Pi");
        bool ok = x::runSax(p, cb);
        std::string fin = ok ? "ok" : "fail";
        if (const x::Error* e = p.error()) fin += " err " + Dump::err(*e);
        return join(evs) + " | " + fin;
      }
      if (t.size() == 8 && t[0] == "saxm")
      {
        unsigned long long mask = 0;
        std::vector<std::string> t2(t.begin() + 1, t.end());
        if (!vh::parseNat(t[1], mask) || mask >= 512 || !parseOpts(t2, opt) || !vh::ofHex(t[7], d)) return "bad-op";
        Doc doc(d);
        Dump dump(doc);
        x::Parser p(doc.view(), opt);
        std::vector<std::string> evs;
        x::SaxCallbacks cb;
        auto rec = [&](const char* tag) {
          return [&evs, &dump, tag](const x::Token& tk) {
            std::string s = dump.token(tk);
            std::string k = s.substr(0, s.find(' '));
            evs.push_back(k == tag ? s : std::string("WRONG-CALLBACK(") + tag + ")" + s);
          };
        };
        if (mask & 1) cb.onXmlDecl = rec("Xd");
        if (mask & 2) cb.onDoctype = rec("Dt");
        if (mask & 4) cb.onStartElement = rec("S");
        if (mask & 8) cb.onEndElement = rec("E");
        if (mask & 16) cb.onEmptyElement = rec("Em");
        if (mask & 32) cb.onText = rec("T");
        if (mask & 64) cb.onCData = rec("Cd");
        if (mask & 128) cb.onComment = rec("Cm");
        if (mask & 256) cb.onPI = rec("Pi");
        bool ok = x::runSax(p, cb);
        std::string fin = ok ? "ok" : "fail";
        if (const x::Error* e = p.error()) fin += " err " + Dump::err(*e);
        return join(evs) + " | " + fin;
      }
      if (t.size() == 7 && t[0] == "dom0" && parseOpts(t, opt) && vh::ofHex(t[6], d))
      {
        Doc doc(d);
        x::Parser p(doc.view(), opt);
        std::unique_ptr<x::Node> root = x::DomBuilder::build(p);      // errOut == nullptr
        if (!root) return "null";
        std::string o;
        dumpNode(*root, o);
        return o;
      }
      if (t.size() == 7 && t[0] == "domh" && parseOpts(t, opt) && vh::ofHex(t[6], d))
      {
        Doc doc(d);
        x::Parser p(doc.view(), opt);
        std::unique_ptr<x::Node> root = x::DomBuilder::build(p);
        if (!root) return "null";
        std::vector<std::string> lines;
        helperLine(*root, lines);
        return join(lines);
      }
      if (t.size() == 7 && t[0] == "pullstat" && parseOpts(t, opt) && vh::ofHex(t[6], d))
      {
        Doc doc(d);
        x::Parser p(doc.view(), opt);
        std::size_t n = 0, maxDepth = 0, maxAttrs = 0, maxName = 0, maxText = 0, guard = doc.n + 8;
        bool inb = true;
        auto inside = [&](std::string_view v) {
          return v.data() == nullptr || (v.data() >= doc.p && v.data() + v.size() <= doc.p + doc.n);
        };
        while (p.next())
        {
          const x::Token& c = p.current();
          ++n;
          maxDepth = std::max(maxDepth, c.depth);
          maxAttrs = std::max(maxAttrs, c.attributes.size());
          maxName = std::max(maxName, c.name.size());
          if (c.kind == x::TokenKind::Text) maxText = std::max(maxText, c.text.size());
          inb = inb && inside(c.name) && inside(c.text);
          for (const auto& a : c.attributes)
          {
            maxName = std::max(maxName, a.name.size());
            maxText = std::max(maxText, a.value.size());
            inb = inb && inside(a.name) && inside(a.value);
          }
          if (guard-- == 0) return "nonterminating";
        }
        std::string fin = p.error() ? "err " + Dump::err(*p.error()) : std::string("eof");
        return "tokens=" + std::to_string(n) + " depth=" + std::to_string(maxDepth) + " attrs=" + std::to_string(maxAttrs) + " name=" +
               std::to_string(maxName) + " text=" + std::to_string(maxText) + " inbounds=" + (inb ? "1" : "0") + " | " + fin +
               " stack=" + std::to_string(p._elementStack.size());
      }
      if (t.size() == 7 && t[0] == "domstat" && parseOpts(t, opt) && vh::ofHex(t[6], d))
      {
        Doc doc(d);
        x::Parser p(doc.view(), opt);
        x::Error e{};
        std::size_t nodes = 0, depth = 0;
        {
          std::unique_ptr<x::Node> root = x::DomBuilder::build(p, &e);
          if (!root) return "null " + Dump::err(e);
          std::vector<std::pair<const x::Node*, std::size_t>> st;      // iterative walk: the tree may be very deep
          st.push_back({root.get(), 0});
          while (!st.empty())
          {
            auto cur = st.back();
            st.pop_back();
            ++nodes;
            depth = std::max(depth, cur.second);
            for (const auto& c : cur.first->children) st.push_back({c.get(), cur.second + 1});
          }
        }   // the document is destroyed here
        return "nodes=" + std::to_string(nodes) + " depth=" + std::to_string(depth) + " destroyed";
      }
      if (t.size() == 7 && t[0] == "dom" && parseOpts(t, opt) && vh::ofHex(t[6], d))
      {
        Doc doc(d);
        x::Parser p(doc.view(), opt);
        x::Error e{};
        e.message = "<unset>";
        std::unique_ptr<x::Node> root = x::DomBuilder::build(p, &e);
        if (!root) return "null " + Dump::err(e);
        std::string o;
        dumpNode(*root, o);
        return o;
      }
      if (t.size() == 7 && (t[0] == "tpull" || t[0] == "tsax" || t[0] == "tdom") && parseOpts(t, opt) && vh::ofHex(t[6], d))
      {
#if IORA_XML_THROW_ON_ERROR
        Doc doc(d);
        Dump dump(doc);
        x::Parser p(doc.view(), opt);
        if (t[0] == "tpull")
        {
          std::vector<std::string> toks;
          std::size_t guard = doc.n + 8;
          bool thrown = false;
          while (true)
          {
            bool more = false;
            try { more = p.next(); }
            catch (const std::runtime_error&) { thrown = true; more = false; }   // the loop ends as if next() had returned false
            if (!more) break;
            toks.push_back(dump.token(p.current()));
            if (guard-- == 0) return join(toks) + " | nonterminating";
          }
          std::string fin;
          if (const x::Error* e = p.error()) fin = "err " + Dump::err(*e);          // fail() fills the error in BEFORE it throws
          else
          {
            const x::Token& c = p.current();
            fin = std::string(c.kind == x::TokenKind::Eof ? "eof" : "stopped-without-eof") + " d=" + std::to_string(c.depth) + " @" +
                  std::to_string(c.offset) + ":" + std::to_string(c.line) + ":" + std::to_string(c.column);
          }
          bool again = false;
          try { again = p.next(); }
          catch (const std::runtime_error&) { fin += " next-after-end=threw"; }
          if (again) fin += " next-after-end=true";
          return join(toks) + " | " + fin + " stack=" + std::to_string(p._elementStack.size()) + " depth=" + std::to_string(p._depth) +
                 " produced=" + std::to_string(p._producedTokens) + (thrown ? " thrown=1" : " thrown=0");
        }
        if (t[0] == "tsax")
        {
          std::vector<std::string> evs;
          x::SaxCallbacks cb;
          auto rec = [&](const char* tag) {
            return [&evs, &dump, tag](const x::Token& tk) {
              std::string s = dump.token(tk);
              std::string k = s.substr(0, s.find(' '));
              evs.push_back(k == tag ? s : std::string("WRONG-CALLBACK(") + tag + ")" + s);
            };
          };
          cb.onXmlDecl = rec("Xd");
          cb.onDoctype = rec("Dt");
          cb.onStartElement = rec("S");
          cb.onEndElement = rec("E");
          cb.onEmptyElement = rec("Em");
          cb.onText = rec("T");
          cb.onCData = rec("Cd");
          cb.onComment = rec("Cm");
          cb.onPI = rec("Pi");
          bool ok = false, thrown = false;
          try { ok = x::runSax(p, cb); }
          catch (const std::runtime_error&) { thrown = true; }
          std::string fin = ok ? "ok" : "fail";
          if (const x::Error* e = p.error()) fin += " err " + Dump::err(*e);
          return join(evs) + " | " + fin + (thrown ? " thrown=1" : " thrown=0");
        }
        {
          x::Error e{};
          e.message = "<unset>";
          std::unique_ptr<x::Node> root;
          bool thrown = false;
          try { root = x::DomBuilder::build(p, &e); }
          catch (const std::runtime_error&) { thrown = true; }
          if (thrown) return "throw " + (p.error() ? Dump::err(*p.error()) : std::string("without-error"));
          if (!root) return "null " + Dump::err(e);      // entity decoding failures do not go through fail(): no exception
          std::string o;
          dumpNode(*root, o);
          return o;
        }
#else
        return "bad-op";
#endif
      }
      if (t.size() == 2 && t[0] == "dec" && vh::ofHex(t[1], d))
      {
        Doc doc(d);
        std::string out = "previous-content";
        x::Error e{};
        e.message = "<unset>";
        bool ok = x::Parser::decodeEntities(doc.view(), out, &e);
        if (ok) return "ok " + vh::toHex(out);
        return std::string("err ") + errKind(e.message) + " " + std::to_string(e.offset);
      }
      if (t.size() == 2 && t[0] == "dec0" && vh::ofHex(t[1], d))
      {
        Doc doc(d);
        std::string out = "previous-content";
        bool ok = x::Parser::decodeEntities(doc.view(), out);        // err == nullptr
        return ok ? "ok " + vh::toHex(out) : std::string("err");
      }
      unsigned long long cp = 0;
      if (t.size() == 2 && t[0] == "utf8" && vh::parseNat(t[1], cp) && cp <= 0xFFFFFFFFull)
      {
        std::string out;
        bool ok = x::Parser::encodeUtf8(static_cast<std::uint32_t>(cp), out);
        return ok ? "ok " + vh::toHex(out) : std::string("fail");
      }
      if (t.size() == 1 && t[0] == "defaults")
      {
        x::Options o;
        return std::to_string(o.maxDepth) + " " + std::to_string(o.maxAttrsPerElement) + " " + std::to_string(o.maxNameLength) + " " +
               std::to_string(o.maxTextSpan) + " " + std::to_string(o.maxTotalTokens);
      }
      return "bad-op";
    });
  });
}
