// Correspondence harness for C12 (and the store part of C11): the real iora::storage::KVStore driven by the line
// protocol of `iora_model kv`.  All machinery is in kv_common.hpp.
#include "kv_common.hpp"

int main(int argc, char **argv)
{
  const char *w = std::getenv("KV_WORK");
  std::string work = w ? w : (argc > 1 ? argv[1] : "");
  if (work.empty())
  {
    std::fprintf(stderr, "KV_WORK not set\n");
    return 2;
  }
  kvh::Harness h(work + "/kv" + std::to_string(getpid()));
  int rc = vh::runLines([&](const std::vector<std::string> &t) { return h.step(t); });
  h.closeStore();
  std::error_code ec;
  std::filesystem::remove_all(h.work, ec);
  std::fprintf(stderr, "interposers: clock_realtime=%lu clock_monotonic=%lu write=%lu open=%lu rename=%lu truncate=%lu unlink=%lu sliced_waits=%lu\n",
               kvh::g_clockReal.load(), kvh::g_clockMono.load(), kvh::g_nWrite.load(), kvh::g_nOpen.load(), kvh::g_nRename.load(),
               kvh::g_nTrunc.load(), kvh::g_nUnlink.load(), kvh::g_slicedWaits.load());
  return rc;
}
