// C04, real-engine family (monitor-only): the REAL Transport::connectSync / connectSyncCancellable over the REAL TcpEngine /
// UdpEngine on loopback, against raw-socket peers that accept, refuse, black-hole (listen(fd,0) + filler connects), reset
// (SO_LINGER 0), fail the TLS handshake, do not resolve - plus the schedule of seed C04-d: the I/O thread parked inside a gated
// data callback of another session while a short connectSync times out, the gate opened after Timeout was returned.
// One op line = one self-contained scenario on a fresh transport; the answer line lists raw observations (key=value), the
// verdicts are the plugin's (props/c04.py real_monitor).  Nothing here is compared with the Lean model.
//   real accept   <timeoutMs> <tls 0|1|2> <wrapped 0|1> <then keep|peerclose|rst|appclose>
//   real refused  <timeoutMs> <wrapped>
//   real blackhole <timeoutMs> <wrapped> <cancelAtMs|-1>
//   real gated    <timeoutMs> <wrapped>
//   real stop     <timeoutMs> <stopAtMs>
//   real resolve  <tcp|udp> <timeoutMs> <wrapped>
//   real udp      <ok|tls> <timeoutMs>
//   real ioguard
//   real stale    <connectTimeoutMs>            (seed C04-e: the engine's connect-timeout timer loses its race against completion)
//   real many     <nCallers> <timeoutMs>      (even callers -> accepting target, odd callers -> black hole; all at once)
#include <algorithm>
#include <any>
#include <array>
#include <atomic>
#include <bitset>
#include <cassert>
#include <cctype>
#include <cerrno>
#include <charconv>
#include <chrono>
#include <cmath>
#include <condition_variable>
#include <csignal>
#include <cstdarg>
#include <cstddef>
#include <cstdint>
#include <cstdio>
#include <cstdlib>
#include <cstring>
#include <ctime>
#include <deque>
#include <exception>
#include <filesystem>
#include <fstream>
#include <functional>
#include <future>
#include <iomanip>
#include <iostream>
#include <iterator>
#include <limits>
#include <list>
#include <locale>
#include <map>
#include <memory>
#include <mutex>
#include <numeric>
#include <optional>
#include <queue>
#include <random>
#include <regex>
#include <set>
#include <shared_mutex>
#include <sstream>
#include <stdexcept>
#include <string>
#include <string_view>
#include <system_error>
#include <thread>
#include <tuple>
#include <type_traits>
#include <typeinfo>
#include <unordered_map>
#include <unordered_set>
#include <utility>
#include <variant>
#include <vector>
#include <cxxabi.h>
#include <dirent.h>
#include <poll.h>
#include <sys/epoll.h>
#include <sys/eventfd.h>
#include <sys/socket.h>
#include <sys/timerfd.h>
#include <netinet/in.h>
#include <netinet/tcp.h>
#include <arpa/inet.h>
#include <netdb.h>
#include <fcntl.h>
#include <unistd.h>
#include <openssl/ssl.h>
#include <openssl/err.h>
#include <openssl/evp.h>
#include <openssl/x509.h>
#include <openssl/x509v3.h>
#include <openssl/sha.h>
#include <openssl/rand.h>
#include <openssl/hmac.h>
#include <openssl/bio.h>
#include <openssl/pem.h>
#define private public
#define protected public
#include "iora/network/transport.hpp"
#include "iora/network/transport_impl.hpp"
#undef private
#undef protected
#include "common/lineproto.hpp"

using namespace iora::network;
using namespace std::chrono_literals;
using u64 = unsigned long long;

namespace {

long long nowMs()
{
  return std::chrono::duration_cast<std::chrono::milliseconds>(std::chrono::steady_clock::now().time_since_epoch()).count();
}

std::string errName(TransportError e)
{
  switch (e)
  {
    case TransportError::None: return "None";
    case TransportError::Socket: return "Socket";
    case TransportError::Resolve: return "Resolve";
    case TransportError::Connect: return "Connect";
    case TransportError::TLSHandshake: return "TLSHandshake";
    case TransportError::PeerClosed: return "PeerClosed";
    case TransportError::Cancelled: return "Cancelled";
    case TransportError::Timeout: return "Timeout";
    case TransportError::BufferOverflow: return "BufferOverflow";
    case TransportError::ShuttingDown: return "ShuttingDown";
    case TransportError::Config: return "Config";
    case TransportError::Unknown: return "Unknown";
    default: return "Other" + std::to_string(static_cast<int>(e));
  }
}

std::string resName(const ConnectResult& r)
{
  return r.isOk() ? "ok:" + std::to_string(r.value()) : "err:" + errName(r.error().code);
}

struct Listener
{
  int fd = -1;
  std::uint16_t port = 0;
  sockaddr_in sa{};
  bool open(int backlog, int type = SOCK_STREAM)
  {
    fd = ::socket(AF_INET, type, 0);
    if (fd < 0) return false;
    sa.sin_family = AF_INET;
    sa.sin_addr.s_addr = htonl(INADDR_LOOPBACK);
    sa.sin_port = 0;
    if (::bind(fd, reinterpret_cast<sockaddr*>(&sa), sizeof(sa)) != 0) return false;
    if (type == SOCK_STREAM && ::listen(fd, backlog) != 0) return false;
    socklen_t sl = sizeof(sa);
    ::getsockname(fd, reinterpret_cast<sockaddr*>(&sa), &sl);
    port = ntohs(sa.sin_port);
    return true;
  }
  ~Listener() { if (fd >= 0) ::close(fd); }
};

int acceptWithin(int lfd, int ms)
{
  pollfd p{lfd, POLLIN, 0};
  if (::poll(&p, 1, ms) <= 0) return -1;
  return ::accept(lfd, nullptr, nullptr);
}

// true if the peer of `fd` closed it (EOF / reset) within `ms`
bool peerClosedWithin(int fd, int ms)
{
  long long end = nowMs() + ms;
  for (;;)
  {
    long long left = end - nowMs();
    if (left <= 0) return false;
    pollfd p{fd, POLLIN, 0};
    if (::poll(&p, 1, static_cast<int>(left)) <= 0) return false;
    char b[256];
    ssize_t n = ::recv(fd, b, sizeof(b), 0);
    if (n <= 0) return true;      // EOF or reset
  }
}

// the observations of one scenario
struct Obs
{
  std::mutex m;
  std::vector<SessionId> gconnect;
  std::vector<std::pair<SessionId, TransportError>> gclose;
  std::vector<SessionId> gdata;
  std::set<SessionId> held;
  std::vector<std::string> rets;
  std::vector<long long> els;
  std::vector<std::string> kv;
  void add(const std::string& k, const std::string& v) { kv.push_back(k + "=" + v); }
  void add(const std::string& k, long long v) { kv.push_back(k + "=" + std::to_string(v)); }
};

struct Gate
{
  std::mutex m;
  std::condition_variable cv;
  bool entered = false, release = false;
  SessionId sid = 0;
};

std::shared_ptr<Transport> makeTransport(Obs& o, bool udp, bool tls, Gate* gate = nullptr)
{
  TransportConfig cfg;
  if (tls)
  {
    cfg.clientTls.enabled = true;
    cfg.clientTls.defaultMode = TlsMode::Client;
    cfg.clientTls.verifyPeer = false;
  }
  auto t = udp ? Transport::udp(cfg) : Transport::tcp(cfg);
  t->onConnect([&o](SessionId sid, const TransportAddress&) { std::lock_guard<std::mutex> lk(o.m); o.gconnect.push_back(sid); });
  t->onClose([&o](SessionId sid, const TransportErrorInfo& e) { std::lock_guard<std::mutex> lk(o.m); o.gclose.push_back({sid, e.code}); });
  t->onData([&o, gate](SessionId sid, iora::core::BufferView, std::chrono::steady_clock::time_point) {
    {
      std::lock_guard<std::mutex> lk(o.m);
      o.gdata.push_back(sid);
    }
    if (gate && sid == gate->sid)
    {
      std::unique_lock<std::mutex> lk(gate->m);
      if (gate->release) return;
      gate->entered = true;
      gate->cv.notify_all();
      gate->cv.wait(lk, [gate] { return gate->release; });
    }
  });
  return t;
}

ConnectResult doConnect(Transport& t, Obs& o, const std::string& host, std::uint16_t port, bool tls, bool wrapped, long long timeoutMs,
                        CancellationToken* tok = nullptr)
{
  CancellationToken local;
  long long t0 = nowMs();
  ConnectResult r = wrapped
    ? t.connectSyncCancellable(host, port, tok ? *tok : local, tls ? TlsMode::Client : TlsMode::None, std::chrono::milliseconds(timeoutMs))
    : t.connectSync(host, port, tls ? TlsMode::Client : TlsMode::None, std::chrono::milliseconds(timeoutMs));
  long long el = nowMs() - t0;
  std::lock_guard<std::mutex> lk(o.m);
  o.rets.push_back(resName(r));
  o.els.push_back(el);
  if (r.isOk()) o.held.insert(r.value());
  return r;
}

std::size_t pendCount(Transport& t)
{
  std::lock_guard<std::mutex> lk(t._impl->syncMutex);
  return t._impl->pendingConnects.size();
}
std::size_t activeConnects(Transport& t)
{
  std::lock_guard<std::mutex> lk(t._impl->syncMutex);
  return t._impl->activeConnects;
}

// wait (bounded) until the transport has settled: `want` live sessions and no pendingConnects record
void settle(Transport& t, std::size_t want, int ms)
{
  long long end = nowMs() + ms;
  while (nowMs() < end)
  {
    if (t.getStats().sessionsCurrent == want && pendCount(t) == 0) return;
    std::this_thread::sleep_for(10ms);
  }
}

template <class T, class F> std::string joinv(const std::vector<T>& v, F f)
{
  if (v.empty()) return "-";
  std::string s;
  for (std::size_t i = 0; i < v.size(); ++i) { if (i) s += ","; s += f(v[i]); }
  return s;
}

std::string finish(const std::string& scen, Obs& o, Transport* t)
{
  std::lock_guard<std::mutex> lk(o.m);
  std::string out = "real " + scen;
  out += " ret=" + joinv(o.rets, [](const std::string& s) { return s; });
  out += " el=" + joinv(o.els, [](long long x) { return std::to_string(x); });
  out += " gconnect=" + joinv(o.gconnect, [](SessionId s) { return std::to_string(s); });
  out += " gclose=" + joinv(o.gclose, [](const std::pair<SessionId, TransportError>& p) { return std::to_string(p.first) + ":" + errName(p.second); });
  out += " gdata=" + joinv(o.gdata, [](SessionId s) { return std::to_string(s); });
  std::vector<SessionId> h(o.held.begin(), o.held.end());
  out += " held=" + joinv(h, [](SessionId s) { return std::to_string(s); });
  if (t)
  {
    out += " sessions=" + std::to_string(t->getStats().sessionsCurrent);
    out += " pend=" + std::to_string(pendCount(*t)) + " ac=" + std::to_string(activeConnects(*t));
  }
  for (auto& s : o.kv) out += " " + s;
  return out;
}

// a loopback black hole: backlog-0 listener whose accept queue is filled; verified with a raw probe connect
struct BlackHole
{
  Listener l;
  std::vector<int> fill;
  bool ok = false;
  bool open()
  {
    if (!l.open(0)) return false;
    for (int i = 0; i < 4; ++i)
    {
      int c = ::socket(AF_INET, SOCK_STREAM | SOCK_NONBLOCK, 0);
      ::connect(c, reinterpret_cast<sockaddr*>(&l.sa), sizeof(l.sa));
      fill.push_back(c);
    }
    std::this_thread::sleep_for(60ms);
    int c = ::socket(AF_INET, SOCK_STREAM | SOCK_NONBLOCK, 0);
    int rc = ::connect(c, reinterpret_cast<sockaddr*>(&l.sa), sizeof(l.sa));
    bool pending = rc != 0 && errno == EINPROGRESS;
    if (pending)
    {
      pollfd p{c, POLLOUT, 0};
      pending = ::poll(&p, 1, 150) == 0;     // still not connected after 150 ms: SYNs are being dropped
    }
    ::close(c);
    ok = pending;
    return ok;
  }
  ~BlackHole() { for (int c : fill) ::close(c); }
};

std::string scenAccept(long long timeoutMs, int tlsKind, bool wrapped, const std::string& then)
{
  bool tls = tlsKind >= 1;         // 1: client TLS configured, the peer answers garbage; 2: TLS requested but NOT configured
  Obs o;
  Listener l;
  if (!l.open(16)) return "real accept skip=listen-failed";
  std::atomic<int> accepted{0}, peerSawClose{0};
  std::atomic<bool> quit{false};
  std::vector<int> fds;
  std::mutex fm;
  std::thread peer([&] {
    while (!quit.load())
    {
      int a = acceptWithin(l.fd, 50);
      if (a < 0) continue;
      accepted++;
      if (tls) (void)!::write(a, "HTTP/1.1 400 Bad Request\r\n\r\n", 28);    // not a ServerHello: the TLS handshake fails
      std::lock_guard<std::mutex> lk(fm);
      fds.push_back(a);
    }
  });
  auto t = makeTransport(o, false, tlsKind == 1);
  if (!t->start().isOk()) { quit = true; peer.join(); return "real accept skip=start-failed"; }
  auto r = doConnect(*t, o, "127.0.0.1", l.port, tls, wrapped, timeoutMs);
  std::this_thread::sleep_for(50ms);
  o.add("accepted", accepted.load());
  o.add("sessions_after_ret", static_cast<long long>(t->getStats().sessionsCurrent));
  std::size_t want = r.isOk() ? 1 : 0;
  if (r.isOk())
  {
    int a = -1;
    {
      std::lock_guard<std::mutex> lk(fm);
      if (!fds.empty()) a = fds[0];
    }
    if (then == "peerclose" && a >= 0) { ::close(a); want = 0; }
    else if (then == "rst" && a >= 0)
    {
      linger lg{1, 0};
      ::setsockopt(a, SOL_SOCKET, SO_LINGER, &lg, sizeof(lg));
      ::close(a);
      want = 0;
    }
    else if (then == "appclose")
    {
      t->close(r.value());
      want = 0;
      if (a >= 0) o.add("peer_saw_close", peerClosedWithin(a, 2000) ? 1 : 0);
    }
    if ((then == "peerclose" || then == "rst") && a >= 0)
    {
      std::lock_guard<std::mutex> lk(fm);
      fds.erase(fds.begin());
    }
  }
  else
  {
    // a failed attempt: whatever the peer accepted must be closed by the library
    std::this_thread::sleep_for(50ms);
    std::lock_guard<std::mutex> lk(fm);
    int open = 0;
    for (int a : fds) if (!peerClosedWithin(a, 2000)) open++;
    o.add("left_open", open);
  }
  settle(*t, want, 2000);
  o.add("want_sessions", static_cast<long long>(want));
  std::string out = finish("accept", o, t.get());
  quit = true;
  peer.join();
  t->stop();
  for (int a : fds) ::close(a);
  return out;
}

std::string scenRefused(long long timeoutMs, bool wrapped)
{
  Obs o;
  std::uint16_t port;
  {
    Listener l;
    if (!l.open(1)) return "real refused skip=listen-failed";
    port = l.port;
  }   // closed again: nobody listens on `port`
  auto t = makeTransport(o, false, false);
  if (!t->start().isOk()) return "real refused skip=start-failed";
  doConnect(*t, o, "127.0.0.1", port, false, wrapped, timeoutMs);
  settle(*t, 0, 1500);
  std::string out = finish("refused", o, t.get());
  t->stop();
  return out;
}

std::string scenBlackhole(long long timeoutMs, bool wrapped, long long cancelAt)
{
  Obs o;
  BlackHole bh;
  if (!bh.open()) return "real blackhole skip=kernel-does-not-drop-syns";
  auto t = makeTransport(o, false, false);
  if (!t->start().isOk()) return "real blackhole skip=start-failed";
  CancellationToken tok;
  std::thread canceller;
  if (cancelAt >= 0)
    canceller = std::thread([&] { std::this_thread::sleep_for(std::chrono::milliseconds(cancelAt)); tok.cancel(); });
  doConnect(*t, o, "127.0.0.1", bh.l.port, false, wrapped, timeoutMs, &tok);
  if (canceller.joinable()) canceller.join();
  settle(*t, 0, 2000);
  std::string out = finish("blackhole", o, t.get());
  t->stop();
  return out;
}

// the schedule of seed C04-d: the I/O thread is parked in a gated data callback of another session while a short connectSync
// times out; the gate is opened AFTER Timeout was returned
std::string scenGated(long long timeoutMs, bool wrapped)
{
  Obs o;
  Gate gate;
  Listener l;
  if (!l.open(32)) return "real gated skip=listen-failed";
  auto t = makeTransport(o, false, false, &gate);
  if (!t->start().isOk()) return "real gated skip=start-failed";
  auto r1 = t->connectSync("127.0.0.1", l.port, TlsMode::None, 3000ms);
  if (!r1.isOk()) { t->stop(); return "real gated skip=setup-connect-failed"; }
  {
    std::lock_guard<std::mutex> lk(o.m);
    o.held.insert(r1.value());
  }
  gate.sid = r1.value();
  int a1 = acceptWithin(l.fd, 3000);
  if (a1 < 0) { t->stop(); return "real gated skip=setup-accept-failed"; }
  (void)!::write(a1, "x", 1);
  {
    std::unique_lock<std::mutex> lk(gate.m);
    if (!gate.cv.wait_for(lk, 3000ms, [&] { return gate.entered; }))
    {
      gate.release = true;
      lk.unlock();
      gate.cv.notify_all();
      t->stop();
      ::close(a1);
      return "real gated skip=gate-not-entered";
    }
  }
  // the I/O thread is busy: this attempt cannot complete
  doConnect(*t, o, "127.0.0.1", l.port, false, wrapped, timeoutMs);
  o.add("pend_at_timeout", static_cast<long long>(pendCount(*t)));
  {
    std::lock_guard<std::mutex> lk(gate.m);
    gate.release = true;
  }
  gate.cv.notify_all();
  // what does the target see? every connection of a timed-out attempt that shows up must be closed by the library
  std::vector<int> later;
  for (;;)
  {
    int a = acceptWithin(l.fd, later.empty() ? 1200 : 300);
    if (a < 0) break;
    later.push_back(a);
  }
  int leftOpen = 0;
  std::vector<int> openFds;
  for (int a : later)
    if (!peerClosedWithin(a, 2000)) { leftOpen++; openFds.push_back(a); }
  o.add("accepted_late", static_cast<long long>(later.size()));
  o.add("left_open", leftOpen);
  for (int a : openFds) (void)!::write(a, "hello", 5);      // bytes for a session nobody was ever given
  if (!openFds.empty()) std::this_thread::sleep_for(200ms);
  settle(*t, 1, 1500);
  o.add("want_sessions", 1);
  std::string out = finish("gated", o, t.get());
  t->stop();
  for (int a : later) ::close(a);
  ::close(a1);
  return out;
}

// Transport::stop() while a caller is parked (black-holed target); then a connectSync on the stopped transport
std::string scenStop(long long timeoutMs, long long stopAt)
{
  Obs o;
  BlackHole bh;
  if (!bh.open()) return "real stop skip=kernel-does-not-drop-syns";
  auto t = makeTransport(o, false, false);
  if (!t->start().isOk()) return "real stop skip=start-failed";
  std::thread caller([&] { doConnect(*t, o, "127.0.0.1", bh.l.port, false, false, timeoutMs); });
  std::this_thread::sleep_for(std::chrono::milliseconds(stopAt));
  long long s0 = nowMs();
  t->stop();
  o.add("stop_ms", nowMs() - s0);
  caller.join();
  o.add("sessions_after_stop", static_cast<long long>(t->getStats().sessionsCurrent));
  // the engine's queue is closed now: engine->connect refuses, connectSync must hand that error on at once
  doConnect(*t, o, "127.0.0.1", bh.l.port, false, false, 300);
  doConnect(*t, o, "127.0.0.1", bh.l.port, false, true, 300);
  std::string out = finish("stop", o, t.get());
  return out;
}

std::string scenResolve(bool udp, long long timeoutMs, bool wrapped)
{
  Obs o;
  auto t = makeTransport(o, udp, false);
  if (!t->start().isOk()) return "real resolve skip=start-failed";
  doConnect(*t, o, "no-such-host.invalid", 9, false, wrapped, timeoutMs);
  // give a late engine report (the unrepaired UDP path reports through the GLOBAL close callback) time to arrive
  long long end = nowMs() + 2500;
  while (nowMs() < end)
  {
    {
      std::lock_guard<std::mutex> lk(o.m);
      if (!o.gclose.empty() || (!o.rets.empty() && o.rets[0].rfind("err:", 0) == 0)) break;
    }
    std::this_thread::sleep_for(20ms);
  }
  settle(*t, 0, 500);
  o.add("proto", udp ? "udp" : "tcp");
  std::string out = finish("resolve", o, t.get());
  t->stop();
  return out;
}

std::string scenUdp(const std::string& kind, long long timeoutMs)
{
  Obs o;
  Listener l;
  if (!l.open(0, SOCK_DGRAM)) return "real udp skip=bind-failed";
  auto t = makeTransport(o, true, false);
  if (!t->start().isOk()) return "real udp skip=start-failed";
  auto r = doConnect(*t, o, "127.0.0.1", l.port, kind == "tls", false, timeoutMs);
  std::this_thread::sleep_for(150ms);
  if (r.isOk())
  {
    // a live UDP session: a datagram sent on it reaches the peer socket
    t->send(r.value(), "ping", 4);
    pollfd p{l.fd, POLLIN, 0};
    o.add("peer_got_datagram", ::poll(&p, 1, 1000) > 0 ? 1 : 0);
  }
  o.add("kind", kind);
  o.add("want_sessions", r.isOk() ? 1 : 0);
  std::string out = finish("udp", o, t.get());
  t->stop();
  return out;
}

// the I/O-thread guard: connectSync called from inside a callback on the I/O thread must throw, not deadlock
std::string scenIoGuard()
{
  Obs o;
  Listener l;
  if (!l.open(16)) return "real ioguard skip=listen-failed";
  TransportConfig cfg;
  auto t = Transport::tcp(cfg);
  std::atomic<int> threw{0}, returned{0};
  std::mutex m;
  std::condition_variable cv;
  bool done = false;
  Transport* tp = t.get();
  std::uint16_t port = l.port;
  t->onData([&, tp, port](SessionId, iora::core::BufferView, std::chrono::steady_clock::time_point) {
    try
    {
      auto r = tp->connectSync("127.0.0.1", port, TlsMode::None, 100ms);
      (void)r;
      returned++;
    }
    catch (const std::logic_error&) { threw++; }
    std::lock_guard<std::mutex> lk(m);
    done = true;
    cv.notify_all();
  });
  if (!t->start().isOk()) return "real ioguard skip=start-failed";
  auto r1 = doConnect(*t, o, "127.0.0.1", l.port, false, false, 3000);
  int a1 = acceptWithin(l.fd, 3000);
  if (!r1.isOk() || a1 < 0) { t->stop(); return "real ioguard skip=setup-failed"; }
  (void)!::write(a1, "x", 1);
  {
    std::unique_lock<std::mutex> lk(m);
    cv.wait_for(lk, 3000ms, [&] { return done; });
  }
  o.add("threw", threw.load());
  o.add("returned", returned.load());
  o.add("want_sessions", 1);
  settle(*t, 1, 500);
  std::string out = finish("ioguard", o, t.get());
  t->stop();
  ::close(a1);
  return out;
}

// many concurrent callers on ONE transport: even callers connect to an accepting target, odd callers to a black hole
std::string scenMany(long long n, long long timeoutMs)
{
  Obs o;
  Listener l;
  BlackHole bh;
  if (!l.open(64)) return "real many skip=listen-failed";
  bool haveBh = bh.open();
  auto t = makeTransport(o, false, false);
  if (!t->start().isOk()) return "real many skip=start-failed";
  std::vector<std::thread> th;
  std::atomic<int> go{0};
  for (long long i = 0; i < n; ++i)
    th.emplace_back([&, i] {
      while (!go.load()) std::this_thread::yield();
      bool toBh = haveBh && (i % 2 == 1);
      doConnect(*t, o, "127.0.0.1", toBh ? bh.l.port : l.port, false, i % 3 == 2, timeoutMs);
    });
  go = 1;
  for (auto& x : th) x.join();
  std::size_t want;
  {
    std::lock_guard<std::mutex> lk(o.m);
    want = o.held.size();
  }
  settle(*t, want, 2000);
  int accepted = 0;
  std::vector<int> fds;
  for (;;)
  {
    int a = acceptWithin(l.fd, 100);
    if (a < 0) break;
    accepted++;
    fds.push_back(a);
  }
  o.add("accepted", accepted);
  o.add("blackhole", haveBh ? 1 : 0);
  o.add("want_sessions", static_cast<long long>(want));
  std::string out = finish("many", o, t.get());
  t->stop();
  for (int a : fds) ::close(a);
  return out;
}

// seed C04-e: the engine's own connect-timeout timer (TransportConfig::connectTimeout = T, TimerService thread) fires while the
// connect has ALREADY completed in the kernel but the I/O thread - parked in a gated data callback of another session - has not
// looked at EPOLLOUT yet.  Released, it completes the connect (connectSync returns ok(sid)) and then meets the stale Close in
// process().  The target is a backlog-0 listener whose single accept slot is freed after the first SYN was dropped, so the
// connection is established by the SYN retransmitted after ~1 s (T must be > 1 s).
std::string scenStale(long long T)
{
  Obs o;
  Gate gate;
  Listener trig, hole;
  if (!trig.open(8) || !hole.open(0)) return "real stale skip=listen-failed";
  int filler = ::socket(AF_INET, SOCK_STREAM | SOCK_NONBLOCK, 0);
  ::connect(filler, reinterpret_cast<sockaddr*>(&hole.sa), sizeof(hole.sa));     // fills the accept queue: further SYNs are dropped
  std::this_thread::sleep_for(60ms);
  TransportConfig cfg;
  cfg.connectTimeout = std::chrono::milliseconds(T);
  cfg.enableHighResolutionTimers = true;
  auto t = Transport::tcp(cfg);
  t->onConnect([&o](SessionId sid, const TransportAddress&) { std::lock_guard<std::mutex> lk(o.m); o.gconnect.push_back(sid); });
  t->onClose([&o](SessionId sid, const TransportErrorInfo& e) { std::lock_guard<std::mutex> lk(o.m); o.gclose.push_back({sid, e.code}); });
  Gate* g = &gate;
  t->onData([&o, g](SessionId sid, iora::core::BufferView, std::chrono::steady_clock::time_point) {
    {
      std::lock_guard<std::mutex> lk(o.m);
      o.gdata.push_back(sid);
    }
    if (sid == g->sid)
    {
      std::unique_lock<std::mutex> lk(g->m);
      if (g->release) return;
      g->entered = true;
      g->cv.notify_all();
      g->cv.wait(lk, [g] { return g->release; });
    }
  });
  if (!t->start().isOk()) { ::close(filler); return "real stale skip=start-failed"; }
  auto r1 = t->connectSync("127.0.0.1", trig.port, TlsMode::None, 3000ms);
  int a1 = r1.isOk() ? acceptWithin(trig.fd, 3000) : -1;
  if (!r1.isOk() || a1 < 0) { t->stop(); ::close(filler); return "real stale skip=setup-failed"; }
  {
    std::lock_guard<std::mutex> lk(o.m);
    o.held.insert(r1.value());
  }
  gate.sid = r1.value();
  long long t0 = nowMs();
  // the attempt under test: its first SYN is dropped, the engine arms the connect timer (T)
  std::thread caller([&] { doConnect(*t, o, "127.0.0.1", hole.port, false, false, T + 4000); });
  std::this_thread::sleep_for(150ms);
  int freed = ::accept(hole.fd, nullptr, nullptr);          // room for the SYN retransmitted at ~1 s
  (void)!::write(a1, "x", 1);                               // park the I/O thread
  bool parked;
  {
    std::unique_lock<std::mutex> lk(gate.m);
    parked = gate.cv.wait_for(lk, 800ms, [&] { return gate.entered; });
  }
  long long wake = t0 + T + 350;                            // the timer has fired and enqueued its Close
  while (nowMs() < wake) std::this_thread::sleep_for(10ms);
  // did the connection complete in the kernel meanwhile? (the target's accept queue holds it)
  pollfd pq{hole.fd, POLLIN, 0};
  bool kernelConnected = ::poll(&pq, 1, 0) > 0;
  {
    std::lock_guard<std::mutex> lk(gate.m);
    gate.release = true;
  }
  gate.cv.notify_all();
  caller.join();
  int acc = acceptWithin(hole.fd, 300);
  std::this_thread::sleep_for(600ms);                       // a stale Close, if executed, reports through the global close callback now
  std::size_t want = 1;
  {
    std::lock_guard<std::mutex> lk(o.m);
    want = o.held.size();
  }
  o.add("parked", parked ? 1 : 0);
  o.add("kernel_connected_before_release", kernelConnected ? 1 : 0);
  o.add("T", T);
  o.add("want_sessions", static_cast<long long>(want));
  // nobody but the transport could have closed the session: the peer keeps `acc` open, the application never calls close()
  std::string out = finish("stale", o, t.get());
  t->stop();
  if (acc >= 0) ::close(acc);
  if (freed >= 0) ::close(freed);
  ::close(filler);
  ::close(a1);
  return out;
}

bool parseInt(const std::string& s, long long& out)
{
  if (s.empty()) return false;
  bool neg = s[0] == '-';
  u64 v = 0;
  if (!vh::parseNat(neg ? s.substr(1) : s, v)) return false;
  out = neg ? -static_cast<long long>(v) : static_cast<long long>(v);
  return true;
}

std::string stepOp(const std::vector<std::string>& t)
{
  if (t.size() < 2 || t[0] != "real") return "bad-op";
  long long a = 0, b = 0, c = 0;
  if (t[1] == "accept" && t.size() == 6 && parseInt(t[2], a) && parseInt(t[3], b) && parseInt(t[4], c))
    return scenAccept(a, static_cast<int>(b), c == 1, t[5]);
  if (t[1] == "refused" && t.size() == 4 && parseInt(t[2], a) && parseInt(t[3], b)) return scenRefused(a, b == 1);
  if (t[1] == "blackhole" && t.size() == 5 && parseInt(t[2], a) && parseInt(t[3], b) && parseInt(t[4], c)) return scenBlackhole(a, b == 1, c);
  if (t[1] == "gated" && t.size() == 4 && parseInt(t[2], a) && parseInt(t[3], b)) return scenGated(a, b == 1);
  if (t[1] == "stop" && t.size() == 4 && parseInt(t[2], a) && parseInt(t[3], b)) return scenStop(a, b);
  if (t[1] == "resolve" && t.size() == 5 && parseInt(t[3], a) && parseInt(t[4], b)) return scenResolve(t[2] == "udp", a, b == 1);
  if (t[1] == "udp" && t.size() == 4 && parseInt(t[3], a)) return scenUdp(t[2], a);
  if (t[1] == "ioguard" && t.size() == 2) return scenIoGuard();
  if (t[1] == "stale" && t.size() == 3 && parseInt(t[2], a) && a >= 1100 && a <= 5000) return scenStale(a);
  if (t[1] == "many" && t.size() == 4 && parseInt(t[2], a) && parseInt(t[3], b) && a >= 1 && a <= 32) return scenMany(a, b);
  return "bad-op";
}
} // namespace

int main()
{
  ::signal(SIGPIPE, SIG_IGN);
  iora::core::Logger::setLevel(iora::core::Logger::Level::Fatal);
  return vh::runLines([](const std::vector<std::string>& t) -> std::string {
    try { return stepOp(t); }
    catch (const std::exception& ex)
    {
      int st = 0;
      char* n = abi::__cxa_demangle(typeid(ex).name(), nullptr, nullptr, &st);
      std::string s = std::string("throw ") + (n ? n : typeid(ex).name());
      std::free(n);
      return s;
    }
  });
}
