// Harness for C11 clause J1: the real iora::storage::JsonFileStore with its file operations interposed (kv_interpose.hpp).
// Protocol (answers on the original stdout; the logger's console output is sent to /dev/null):
//   jreset                      fresh directory, fresh store (flush thread interval 1 h: flushes happen only through `jflush`)
//   jset <keyhex> <valhex>      set(key, string value)          -> ok
//   jremove <keyhex>            remove(key)                     -> ok
//   jflush                      flush()                         -> ok | <file events>
//   jdump                       the in-memory document          -> doc:<hex of dump()>
//   jreopen                     clean close + new instance on the same directory          -> doc:<hex of dump()>
//   jsetjson <keyhex> <jsonhex> set(key, <parsed JSON value: numbers, arrays, nested objects>)   -> ok
//   jbig keys|array|deep|string <n>   set() a document beyond a default ParseLimits bound: n keys k0..k(n-1); key "arr" = array of n
//                               integers; key "deep" = n nested arrays; key "str" = string of n bytes                      -> ok
//   jreopencmp                  dump(), clean close, new instance, dump() again, compared in the harness (documents too big to
//                               print)  -> same size=<n> keys=<n> | differ before=<n> after=<n> afterdoc=<hex of the first 64 bytes>
//   jbgflush <open|rename> <keyhex> <v1hex> <v2hex>   the flusher thread against the application thread, schedule forced: set(key, v1);
//                               a SECOND thread calls tryFlushIfDirty() and is parked right before it opens (renames) <file>.tmp; the
//                               application thread calls set(key, v2) and flush(); when flush() has returned (or after 150 ms: with
//                               the save under _mutex the application blocks in set() until then) the second thread goes on
//                               -> ok parked=<0|1> flushed_while_parked=<0|1>
//   jfile                       the bytes of the store file on disk                            -> file:<hex> | file:none
//   jimage <file|none> <tmp|none>   a new process on a crash image: destroy the store object WITHOUT letting it touch the image
//                               (new directory), construct a fresh JsonFileStore on the image  -> doc:<hex of dump()>
#include "kv_interpose.hpp"
#define private public
#include "iora/storage/json_file_store.hpp"
#undef private

using iora::storage::JsonFileStore;
using iora::parsers::Json;

// ------------------------------------------------------------------ schedule gate of `jbgflush`
namespace jg
{
static thread_local bool t_isBg = false;
static std::atomic<bool> armed{false}, parked{false}, release{false}, timedOut{false};
static std::atomic<int> at{0}; // 0 = open of <file>.tmp, 1 = rename of <file>.tmp
static void hook(const char *what, const char *kind)
{
  if (!t_isBg || !armed.load() || std::strcmp(kind, "tmp") != 0) return;
  if (std::strcmp(what, at.load() == 0 ? "open" : "rename") != 0) return;
  armed = false;
  parked = true;
  auto t0 = std::chrono::steady_clock::now();
  while (!release.load() && std::chrono::steady_clock::now() - t0 < std::chrono::milliseconds(150))
    std::this_thread::sleep_for(std::chrono::microseconds(200));
  timedOut = !release.load(); // the application thread did not get through set() + flush() while this thread was parked
}
static iora::parsers::ParseLimits noLimits()
{
  iora::parsers::ParseLimits l;
  l.arrayItemsMax = l.membersMax = l.depthMax = l.stringLengthMax = std::numeric_limits<std::size_t>::max();
  return l;
}
} // namespace jg

int main()
{
  const char *w = std::getenv("KV_WORK");
  if (!w)
  {
    std::fprintf(stderr, "KV_WORK not set\n");
    return 2;
  }
  int saved = dup(1);
  FILE *out = fdopen(saved, "w");
  int devnull = ::open("/dev/null", O_WRONLY);
  dup2(devnull, 1);
  std::string work = std::string(w) + "/jfs" + std::to_string(getpid());
  std::filesystem::create_directories(work);
  JsonFileStore::setFlushInterval(std::chrono::milliseconds(3600000));
  kvh::g_freezeSteady = false; // the gate and the flusher's wait_for use the real monotonic clock
  kvh::g_fileHook = jg::hook;
  std::unique_ptr<JsonFileStore> store;
  unsigned long counter = 0;
  std::string dir;
  auto newDir = [&]()
  {
    store.reset();
    kvh::takeEvents();
    kvh::g_base.clear();
    if (!dir.empty())
    {
      std::error_code ec;
      std::filesystem::remove_all(dir, ec);
    }
    dir = work + "/d" + std::to_string(++counter);
    std::filesystem::create_directories(dir);
  };
  auto str = [](const vh::Bytes &b) { return std::string(b.begin(), b.end()); };
  std::string line;
  while (std::getline(std::cin, line))
  {
    auto t = vh::split(line);
    std::string ans = "bad-op";
    vh::Bytes a, b;
    try
    {
      if (t.size() == 1 && t[0] == "jreset")
      {
        newDir();
        kvh::g_base = dir + "/s.json";
        store = std::make_unique<JsonFileStore>(kvh::g_base);
        ans = "ok | " + kvh::takeEvents();
      }
      else if (t.size() == 3 && t[0] == "jimage")
      {
        bool hf = t[1] != "none", ht = t[2] != "none";
        if ((!hf || vh::ofHex(t[1], a)) && (!ht || vh::ofHex(t[2], b)))
        {
          newDir();
          if (hf)
          {
            std::ofstream o(dir + "/s.json", std::ios::binary | std::ios::trunc);
            o.write(reinterpret_cast<const char *>(a.data()), static_cast<std::streamsize>(a.size()));
          }
          if (ht)
          {
            std::ofstream o(dir + "/s.json.tmp", std::ios::binary | std::ios::trunc);
            o.write(reinterpret_cast<const char *>(b.data()), static_cast<std::streamsize>(b.size()));
          }
          kvh::g_base = dir + "/s.json";
          store = std::make_unique<JsonFileStore>(kvh::g_base);
          kvh::takeEvents();
          ans = "doc:" + vh::toHex(store->_store.dump());
        }
      }
      else if (store && t.size() == 1 && t[0] == "jreopen")
      { // clean close (the destructor flushes a dirty store) and a new instance on the same directory
        store.reset();
        kvh::takeEvents();
        store = std::make_unique<JsonFileStore>(kvh::g_base);
        kvh::takeEvents();
        ans = "doc:" + vh::toHex(store->_store.dump());
      }
      else if (store && t.size() == 3 && t[0] == "jset" && vh::ofHex(t[1], a) && vh::ofHex(t[2], b))
      {
        store->set(str(a), str(b));
        ans = "ok";
      }
      else if (store && t.size() == 2 && t[0] == "jremove" && vh::ofHex(t[1], a))
      {
        store->remove(str(a));
        ans = "ok";
      }
      else if (store && t.size() == 1 && t[0] == "jflush")
      {
        store->flush();
        ans = "ok | " + kvh::takeEvents();
      }
      else if (store && t.size() == 3 && t[0] == "jsetjson" && vh::ofHex(t[1], a) && vh::ofHex(t[2], b))
      {
        store->set(str(a), Json::parseOrThrow(str(b), jg::noLimits()));
        ans = "ok";
      }
      else if (store && t.size() == 3 && t[0] == "jbig")
      {
        const unsigned long n = std::stoul(t[2]);
        if (t[1] == "keys")
        {
          for (unsigned long i = 0; i < n; ++i) store->set("k" + std::to_string(i), std::string("v"));
          ans = "ok";
        }
        else if (t[1] == "array")
        {
          Json arr = Json::array();
          for (unsigned long i = 0; i < n; ++i) arr.push_back(Json(static_cast<std::int64_t>(i)));
          store->set("arr", arr);
          ans = "ok";
        }
        else if (t[1] == "deep")
        {
          Json v = Json(static_cast<std::int64_t>(7));
          for (unsigned long i = 0; i < n; ++i)
          {
            Json outer = Json::array();
            outer.push_back(std::move(v));
            v = std::move(outer);
          }
          store->set("deep", v);
          ans = "ok";
        }
        else if (t[1] == "string")
        {
          store->set("str", std::string(n, 'x'));
          ans = "ok";
        }
      }
      else if (store && t.size() == 1 && t[0] == "jreopencmp")
      {
        const Json before = store->_store; // compared with Json::operator== (member order of the hash map is not part of the document)
        const std::size_t beforeSize = before.dump().size();
        const std::size_t keys = before.size();
        store.reset();
        kvh::takeEvents();
        store = std::make_unique<JsonFileStore>(kvh::g_base);
        kvh::takeEvents();
        const std::string after = store->_store.dump();
        if (store->_store == before) ans = "same size=" + std::to_string(after.size()) + " keys=" + std::to_string(keys);
        else
          ans = "differ before=" + std::to_string(beforeSize) + " after=" + std::to_string(after.size()) + " afterdoc=" + vh::toHex(after.substr(0, 64));
      }
      else if (store && t.size() == 5 && t[0] == "jbgflush" && (t[1] == "open" || t[1] == "rename") && vh::ofHex(t[2], a) && vh::ofHex(t[3], b))
      {
        vh::Bytes c;
        if (vh::ofHex(t[4], c))
        {
          store->set(str(a), str(b));
          jg::at = t[1] == "open" ? 0 : 1;
          jg::parked = false;
          jg::release = false;
          jg::timedOut = false;
          jg::armed = true;
          JsonFileStore *sp = store.get();
          std::atomic<bool> done{false};
          std::thread bg([&]()
                         {
                           jg::t_isBg = true;
                           sp->tryFlushIfDirty();
                           done = true;
                         });
          auto t0 = std::chrono::steady_clock::now();
          while (!jg::parked.load() && !done.load() && std::chrono::steady_clock::now() - t0 < std::chrono::seconds(5))
            std::this_thread::sleep_for(std::chrono::microseconds(200));
          const bool wasParked = jg::parked.load();
          store->set(str(a), str(c)); // blocks while the parked thread holds _mutex (the save under the lock)
          store->flush();
          jg::release = true;
          bg.join();
          const bool flushedWhileParked = wasParked && !jg::timedOut.load();
          jg::armed = false;
          kvh::takeEvents();
          ans = std::string("ok parked=") + (wasParked ? "1" : "0") + " flushed_while_parked=" + (flushedWhileParked ? "1" : "0");
        }
      }
      else if (store && t.size() == 1 && t[0] == "jfile")
      { // the bytes of the store file on disk right now (what a new process would read)
        std::ifstream f(kvh::g_base, std::ios::binary);
        if (!f) ans = "file:none";
        else
        {
          std::string c((std::istreambuf_iterator<char>(f)), std::istreambuf_iterator<char>());
          ans = "file:" + vh::toHex(c);
        }
      }
      else if (store && t.size() == 1 && t[0] == "jdump")
      {
        ans = "doc:" + vh::toHex(store->_store.dump());
      }
    }
    catch (const std::exception &e)
    {
      ans = std::string("throw ") + typeid(e).name();
    }
    std::fwrite(ans.data(), 1, ans.size(), out);
    std::fputc('\n', out);
  }
  store.reset();
  std::fflush(out);
  std::error_code ec;
  std::filesystem::remove_all(work, ec);
  return 0;
}
