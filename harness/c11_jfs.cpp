// Harness for C11 clause J1: the real iora::storage::JsonFileStore with its file operations interposed (kv_interpose.hpp).
// Protocol (answers on the original stdout; the logger's console output is sent to /dev/null):
//   jreset                      fresh directory, fresh store (flush thread interval 1 h: flushes happen only through `jflush`)
//   jset <keyhex> <valhex>      set(key, string value)          -> ok
//   jremove <keyhex>            remove(key)                     -> ok
//   jflush                      flush()                         -> ok | <file events>
//   jdump                       the in-memory document          -> doc:<hex of dump()>
//   jreopen                     clean close + new instance on the same directory          -> doc:<hex of dump()>
//   jimage <file|none> <tmp|none>   a new process on a crash image: destroy the store object WITHOUT letting it touch the image
//                               (new directory), construct a fresh JsonFileStore on the image  -> doc:<hex of dump()>
#include "kv_interpose.hpp"
#define private public
#include "iora/storage/json_file_store.hpp"
#undef private

using iora::storage::JsonFileStore;

int main()
{
  const char *w = std::getenv("KV_WORK");
  if (!w)
  {
    std::fprintf(stderr, "KV_WORK not set\n");
    return 2;
  }
  int saved = dup(1);
  FILE *out = fdopen(saved, "w");
  int devnull = ::open("/dev/null", O_WRONLY);
  dup2(devnull, 1);
  std::string work = std::string(w) + "/jfs" + std::to_string(getpid());
  std::filesystem::create_directories(work);
  JsonFileStore::setFlushInterval(std::chrono::milliseconds(3600000));
  std::unique_ptr<JsonFileStore> store;
  unsigned long counter = 0;
  std::string dir;
  auto newDir = [&]()
  {
    store.reset();
    kvh::takeEvents();
    kvh::g_base.clear();
    if (!dir.empty())
    {
      std::error_code ec;
      std::filesystem::remove_all(dir, ec);
    }
    dir = work + "/d" + std::to_string(++counter);
    std::filesystem::create_directories(dir);
  };
  auto str = [](const vh::Bytes &b) { return std::string(b.begin(), b.end()); };
  std::string line;
  while (std::getline(std::cin, line))
  {
    auto t = vh::split(line);
    std::string ans = "bad-op";
    vh::Bytes a, b;
    try
    {
      if (t.size() == 1 && t[0] == "jreset")
      {
        newDir();
        kvh::g_base = dir + "/s.json";
        store = std::make_unique<JsonFileStore>(kvh::g_base);
        ans = "ok | " + kvh::takeEvents();
      }
      else if (t.size() == 3 && t[0] == "jimage")
      {
        bool hf = t[1] != "none", ht = t[2] != "none";
        if ((!hf || vh::ofHex(t[1], a)) && (!ht || vh::ofHex(t[2], b)))
        {
          newDir();
          if (hf)
          {
            std::ofstream o(dir + "/s.json", std::ios::binary | std::ios::trunc);
            o.write(reinterpret_cast<const char *>(a.data()), static_cast<std::streamsize>(a.size()));
          }
          if (ht)
          {
            std::ofstream o(dir + "/s.json.tmp", std::ios::binary | std::ios::trunc);
            o.write(reinterpret_cast<const char *>(b.data()), static_cast<std::streamsize>(b.size()));
          }
          kvh::g_base = dir + "/s.json";
          store = std::make_unique<JsonFileStore>(kvh::g_base);
          kvh::takeEvents();
          ans = "doc:" + vh::toHex(store->_store.dump());
        }
      }
      else if (store && t.size() == 1 && t[0] == "jreopen")
      { // clean close (the destructor flushes a dirty store) and a new instance on the same directory
        store.reset();
        kvh::takeEvents();
        store = std::make_unique<JsonFileStore>(kvh::g_base);
        kvh::takeEvents();
        ans = "doc:" + vh::toHex(store->_store.dump());
      }
      else if (store && t.size() == 3 && t[0] == "jset" && vh::ofHex(t[1], a) && vh::ofHex(t[2], b))
      {
        store->set(str(a), str(b));
        ans = "ok";
      }
      else if (store && t.size() == 2 && t[0] == "jremove" && vh::ofHex(t[1], a))
      {
        store->remove(str(a));
        ans = "ok";
      }
      else if (store && t.size() == 1 && t[0] == "jflush")
      {
        store->flush();
        ans = "ok | " + kvh::takeEvents();
      }
      else if (store && t.size() == 1 && t[0] == "jdump")
      {
        ans = "doc:" + vh::toHex(store->_store.dump());
      }
    }
    catch (const std::exception &e)
    {
      ans = std::string("throw ") + typeid(e).name();
    }
    std::fwrite(ans.data(), 1, ans.size(), out);
    std::fputc('\n', out);
  }
  store.reset();
  std::fflush(out);
  std::error_code ec;
  std::filesystem::remove_all(work, ec);
  return 0;
}
